import Driver.Expr
import Model.Audit
import Model.AuditSession
open Lean Drv Audit

def kindOf : String → Except String AKind
  | "leaf" => pure .leaf | "var" => pure .var | "draws" => pure .draws | "rv" => pure .rv
  | "op" => pure .op | "monteCarlo" => pure .monteCarlo | "integrate" => pure .integrate
  | "panelTraj" => pure .panelTraj | "logLogit" => pure .logLogit | "catalog" => pure .catalog
  | "beta" => pure .beta | "betaFixed" => pure .betaFixed
  | _ => throw "bad-op"

def parseNode (j : Json) : Except String ANode := do
  let kind ← kindOf (← getStr j "kind")
  let children ← match j.getObjVal? "c" with
    | .ok v => natList v
    | .error _ => pure []
  let name ← match j.getObjVal? "name" with
    | .ok v => asStr v
    | .error _ => pure ""
  let mm ← match j.getObjVal? "mismatch" with
    | .ok v => asBool v
    | .error _ => pure false
  let ci ← match j.getObjVal? "choiceInvalid" with
    | .ok v => asBool v
    | .error _ => pure false
  pure { kind, children, name, keysMismatch := mm, choiceInvalid := ci }

def faultStr : Fault → String
  | .unknownColumn n => s!"unknownColumn:{n}"
  | .drawsOutside n => s!"drawsOutside:{n}"
  | .rvOutside n => s!"rvOutside:{n}"
  | .varOutsideTraj n => s!"varOutsideTraj:{n}"
  | .mcNoDraws => "mcNoDraws" | .mcNested => "mcNested" | .mcPanelNoTraj => "mcPanelNoTraj"
  | .intNoRv => "intNoRv" | .trajNonPanel => "trajNonPanel" | .logitKeys => "logitKeys"
  | .logitChoice => "logitChoice"
  | .duplicateName n => s!"duplicateName:{n}"

def dataFaultStr : DataFault → String
  | .nonNumeric c => s!"nonNumeric:{c}" | .nan => "nan" | .empty => "empty"

def parseCol (j : Json) : Except String ColInfo := do
  pure { name := ← getStr j "name", numeric := ← getBool j "numeric", hasNaN := ← getBool j "hasNaN" }

/-- elementary expressions have no children (hypothesis `LeafWF` of the theorems) -/
def leafWfB (d : ADag) : Bool :=
  d.all fun n =>
    !(n.kind == .beta || n.kind == .betaFixed || n.kind == .rv || n.kind == .draws || n.kind == .var) || n.children.isEmpty

def wfB (d : ADag) : Bool :=
  (List.range d.length).all fun k =>
    match d[k]? with
    | none => true
    | some n => n.children.all (· < k)

def parseLogit (j : Json) : Except String LogitData := do
  pure { alts := ← intList (← j.getObjVal? "alts"), avKeys := ← intList (← j.getObjVal? "av"),
         choices := ← intList (← j.getObjVal? "choices") }

def parseSpec (j : Json) : Except String Spec := do
  let d ← (← getArr j "dag").toList.mapM parseNode
  if !wfB d || !leafWfB d then throw "ill-formed dag" else
  pure { dag := d, root := ← getNat j "root" }

def parseSOp (j : Json) : Except String SOp := do
  match ← getStr j "o" with
  | "evalExpr" => pure .evalExpr
  | "evalBio" => pure (.evalBio (← getBool j "skip"))
  | "setChoice" => pure (.setChoice (← getNat j "row") (← getInt j "v"))
  | "scaleChoice" => pure (.scaleChoice (← getInt j "k"))
  | "declarePanel" => pure .declarePanel
  | "select" => pure (.select (← getNat j "i"))
  | "dropColumn" => pure (.dropColumn (← getStr j "name"))
  | "addColumn" => pure (.addColumn (← getStr j "name"))
  | _ => throw "bad-op"

def nestVerdictStr : NestVerdict → String
  | .accepted => "accepted" | .outsideChoiceSet => "outside" | .overlap => "overlap"

def handle (j : Json) : Except String Json := do
  let op ← getStr j "op"
  match op with
  | "audit" =>
    let d ← (← getArr j "dag").toList.mapM parseNode
    let root ← getNat j "root"
    let cols ← strList (← j.getObjVal? "cols")
    let panel ← getBool j "panel"
    if !wfB d then throw "ill-formed dag" else
    let db : Db := { cols, panel }
    pure (Json.mkObj [("bio", jStrs ((topAuditBio d db root).map faultStr)),
                      ("expr", jStrs ((topAuditExpr d db root).map faultStr))])
  | "stages" =>
    -- id assignment + audit in the order of each entry path (Audit.stagedExpr / stagedBio)
    let d ← (← getArr j "dag").toList.mapM parseNode
    let root ← getNat j "root"
    let cols ← strList (← j.getObjVal? "cols")
    let panel ← getBool j "panel"
    if !wfB d || !leafWfB d then throw "ill-formed dag" else
    let db : Db := { cols, panel }
    pure (Json.mkObj [("prepare", jStrs ((prepareFaults d db root).map faultStr)),
                      ("setid", jStrs ((setIdFaults d db root).map faultStr)),
                      ("expr", jStrs ((stagedExpr d db root).map faultStr)),
                      ("bio", jStrs ((stagedBio d db root false).map faultStr)),
                      ("bio_skip", jStrs ((stagedBio d db root true).map faultStr))])
  | "dataaudit" =>
    let cols ← (← getArr j "cols").toList.mapM parseCol
    let rows ← getNat j "rows"
    let f : FrameInfo := { cols, rows }
    pure (Json.mkObj [("new", jStrs ((dataAuditNew f).map dataFaultStr)),
                      ("bio", jStrs ((dataAuditBio f).map dataFaultStr))])
  | "evalmissing" =>
    -- the engine semantics with the missing-data test of bioExprVariable
    let d ← DrvExpr.parseDag (← j.getObjVal? "dag")
    let env ← DrvExpr.parseEnv (← j.getObjVal? "env")
    let code ← getFloat j "code"
    let k ← getNat j "root"
    if !Expr.wfB d then throw "ill-formed dag" else
    pure (Json.mkObj [("missing", DrvExpr.resJson (Expr.eval (Expr.semMissing code) d env k)),
                      ("engine", DrvExpr.resJson (Expr.eval Expr.semEngine d env k))])
  | "logitrows" =>
    -- the data-dependent part of LogLogit.audit on the rows given; get_value on a single choice
    let L ← parseLogit j
    pure (Json.mkObj [("faults", jStrs ((logitDataFaults L).map faultStr)),
                      ("dedicated", jBool (argwhereAny (incorrectRows L.alts 0 L.choices))),
                      ("getvalue", jArr (L.choices.map fun c => jBool (getValueRefuses L c)))])
  | "nests" =>
    let cs ← intList (← j.getObjVal? "choice_set")
    let nests ← (← getArr j "nests").toList.mapM intList
    match j.getObjVal? "names" with
    | .ok v =>
      -- named nests: a name or null (unnamed) per nest
      let names ← (← asArr v).toList.mapM fun x => match x with
        | Json.null => pure (none : Option String)
        | y => (asStr y).map some
      if names.length != nests.length then throw "names/nests" else
      let ns : List NamedNest := (names.zip nests).map fun (n, a) => { name := n, alts := a }
      pure (Json.mkObj [("verdict", jStr (nestVerdictStr (nestAuditNamed cs ns))),
                        ("names", jStrs ((assignNames 1 ns).map (·.1)))])
    | .error _ =>
    pure (Json.mkObj [("verdict", jStr (nestVerdictStr (nestAudit cs nests)))])
  | "session" =>
    -- a history on the same objects: verdict of every evaluation, in order
    let configs ← (← getArr j "configs").toList.mapM parseSpec
    let logit ← match j.getObjVal? "logit" with
      | .ok Json.null => pure none
      | .ok v => (parseLogit v).map some
      | .error _ => pure none
    let s : SState := { configs, sel := ← getNat j "sel", cols := ← strList (← j.getObjVal? "cols"),
                        panel := ← getBool j "panel", logit }
    let ops ← (← getArr j "ops").toList.mapM parseSOp
    pure (Json.mkObj [("verdicts", jArr ((run ops s).map fun v => jStrs (v.map faultStr)))])
  | _ => throw "bad-op"

def main : IO Unit := Drv.run handle
