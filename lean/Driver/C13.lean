import Driver.Common
import Model.Table
import Model.TableTools
import Model.TableMdcev
open Lean Drv Tbl

namespace D13

def parseRow (j : Json) : Except String (Row Float) := do
  let a ← asArr j
  match a.toList with
  | [l, vs] => do
    let lbl ← asInt l
    let vals ← floatList vs
    pure (lbl, vals)
  | _ => throw "bad-op"

def rowJson (r : Row Float) : Json := jArr [jInt r.1, jFloats r.2]
def rowsJson (rs : List (Row Float)) : Json := jArr (rs.map rowJson)

def parseRows (j : Json) : Except String (List (Row Float)) := do
  (← asArr j).toList.mapM parseRow

def parseMapEntry (j : Json) : Except String (Float × Nat × Nat) := do
  let a ← asArr j
  match a.toList with
  | [i, s, e] => do pure ((← asFloat i), (← asNat s), (← asNat e))
  | _ => throw "bad-op"

def parseDB (j : Json) : Except String (DB Float) := do
  let cols ← strList (← j.getObjVal? "cols")
  let rows ← parseRows (← j.getObjVal? "rows")
  let excluded ← getNat j "excluded"
  let panel : Option String ←
    match j.getObjVal? "panel" with
    | .ok Json.null => pure none
    | .ok (Json.str s) => pure (some s)
    | _ => throw "bad-op"
  let map ←
    match j.getObjVal? "map" with
    | .ok Json.null => pure []
    | .ok m => do (← asArr m).toList.mapM parseMapEntry
    | .error _ => throw "bad-op"
  pure ⟨⟨cols, rows⟩, excluded, panel, map⟩

def dbJson (db : DB Float) : Json :=
  Json.mkObj [("cols", jStrs db.t.cols), ("rows", rowsJson db.t.rows), ("excluded", jNat db.excluded),
    ("panel", match db.panelCol with | none => Json.null | some c => jStr c),
    ("map", jArr (db.map.map fun (i, s, e) => jArr [fbits i, jNat s, jNat e]))]

partial def parseFm (j : Json) : Except String (Fm Float) := do
  let a ← asArr j
  match a.toList with
  | [Json.str "var", Json.str c] => pure (.var c)
  | [Json.str "num", v] => do pure (.num (← asFloat v))
  | [Json.str "neg", x] => do pure (.neg (← parseFm x))
  | [Json.str o, x, y] => do
    let a ← parseFm x
    let b ← parseFm y
    match o with
    | "add" => pure (.add a b) | "sub" => pure (.sub a b) | "mul" => pure (.mul a b)
    | "eq" => pure (.eq a b) | "ne" => pure (.ne a b) | "lt" => pure (.lt a b) | "le" => pure (.le a b)
    | "gt" => pure (.gt a b) | "ge" => pure (.ge a b) | "and" => pure (.and a b) | "or" => pure (.or a b)
    | _ => throw "bad-op"
  | _ => throw "bad-op"

def errStr : Err → String
  | .biogeme => "BiogemeError" | .valueError => "ValueError" | .keyError => "KeyError" | .indexError => "IndexError"

def resDB : Except Err (DB Float) → Json
  | .ok d => Json.mkObj [("ok", dbJson d)]
  | .error e => Json.mkObj [("err", jStr (errStr e))]

def parseFold (j : Json) : Except String (List Int × List Int) := do
  let a ← asArr j
  match a.toList with
  | [e, v] => do pure ((← intList e), (← intList v))
  | _ => throw "bad-op"

def foldsLabels (fs : List (List (Row Float) × List (Row Float))) : Json :=
  jArr (fs.map fun (e, v) => jArr [jInts (e.map (·.1)), jInts (v.map (·.1))])

def handle (j : Json) : Except String Json := do
  let op ← getStr j "op"
  match op with
  | "step" =>
    let db ← parseDB (← j.getObjVal? "db")
    let call ← getArr j "call"
    match call.toList with
    | [Json.str "remove", f] =>
      let fm ← parseFm f
      pure (Json.mkObj [("repaired", resDB (db.remove fm)), ("as_coded", resDB (db.removeAsCoded fm))])
    | [Json.str "add_column", Json.str n, f] =>
      let fm ← parseFm f
      pure (Json.mkObj [("repaired", resDB (db.addColumn n fm))])
    | [Json.str "scale", Json.str c, s] =>
      let sv ← asFloat s
      pure (Json.mkObj [("repaired", resDB (db.scale c sv))])
    | [Json.str "panel", Json.str c] =>
      pure (Json.mkObj [("repaired", resDB (db.panel c))])
    | [Json.str "mdcev_count", names, Json.str n] =>
      let ns ← strList names
      pure (Json.mkObj [("repaired", resDB (db.mdcevCount ns n))])
    | _ => throw "bad-op"
  | "eval" =>
    let db ← parseDB (← j.getObjVal? "db")
    let fm ← parseFm (← j.getObjVal? "fm")
    if db.t.rows.isEmpty || !varsKnown db.t.cols fm then pure (Json.mkObj [("err", jStr "BiogemeError")])
    else pure (Json.mkObj [("ok", jFloats (db.t.eval fm))])
  | "extract" =>
    let db ← parseDB (← j.getObjVal? "db")
    let pos ← intList (← j.getObjVal? "pos")
    match db.extract pos with
    | .ok rs => pure (Json.mkObj [("ok", rowsJson rs)])
    | .error e => pure (Json.mkObj [("err", jStr (errStr e))])
  | "count" =>
    let db ← parseDB (← j.getObjVal? "db")
    let c ← getStr j "col"
    let v ← getFloat j "value"
    match db.count c v with
    | .ok n => pure (Json.mkObj [("ok", jNat n)])
    | .error e => pure (Json.mkObj [("err", jStr (errStr e))])
  | "counts" =>
    -- count(c, v) for every value of a list; `total` = sum of the counts of the distinct values of the column
    let db ← parseDB (← j.getObjVal? "db")
    let c ← getStr j "col"
    let vs ← floatList (← j.getObjVal? "values")
    match db.counts c vs, colIdx db.t.cols c with
    | .ok ns, some jj =>
      let col := db.t.column jj
      pure (Json.mkObj [("ok", jNats ns), ("distinct", jNat (dedup col).length),
        ("total", jNat (((dedup col).map fun v => col.countP fun x => Num.eq x v).sum))])
    | .error e, _ => pure (Json.mkObj [("err", jStr (errStr e))])
    | _, _ => throw "bad-op"
  | "groups" =>
    -- count_number_of_groups
    let vals ← floatList (← j.getObjVal? "values")
    pure (Json.mkObj [("runs", jNat (runs vals))])
  | "flatten" =>
    let db ← parseDB (← j.getObjVal? "db")
    match db.panelCol with
    | none => pure (Json.mkObj [("err", jStr "BiogemeError")])
    | some c =>
      match colIdx db.t.cols c with
      | none => pure (Json.mkObj [("err", jStr "KeyError")])
      | some jj =>
        let ident : List Nat ←
          match j.getObjVal? "identical" with
          | .ok Json.null => pure (identicalCols db.t jj)
          | .ok v => do
            let names ← strList v
            pure ((List.range db.t.cols.length).filter fun k => names.contains (db.t.cols.getD k "") || k == jj)
          | .error _ => throw "bad-op"
        let out := flatten db.t jj ident
        pure (Json.mkObj [("ok", jArr (out.map fun (i, cells) =>
          jArr [fbits i, jArr (cells.map fun (n, v) => jArr [jStr n, fbits v])]))])
  | "flatten_direct" =>
    -- tools.database.flatten_database(df, merge_id, row_name, identical_columns) on any frame
    let cols ← strList (← j.getObjVal? "cols")
    let rows ← parseRows (← j.getObjVal? "rows")
    let merge ← getStr j "merge"
    let rowName : Option String ←
      match j.getObjVal? "row_name" with
      | .ok Json.null => pure none
      | .ok (Json.str s) => pure (some s)
      | _ => throw "bad-op"
    let identical : Option (List String) ←
      match j.getObjVal? "identical" with
      | .ok Json.null => pure none
      | .ok v => do pure (some (← strList v))
      | .error _ => throw "bad-op"
    match flattenDirect (⟨cols, rows⟩ : Table Float) merge rowName identical with
    | .error e => pure (Json.mkObj [("err", jStr (errStr e))])
    | .ok out =>
      let cellJson : CellName Float × Float → Json := fun (n, v) =>
        match n with
        | .common c => jArr [jStr "c", Json.null, jStr c, fbits v]
        | .obs (.pos k) c => jArr [jStr "p", jNat k, jStr c, fbits v]
        | .obs (.val w) c => jArr [jStr "v", fbits w, jStr c, fbits v]
      pure (Json.mkObj [("ok", jArr (out.map fun (i, cells) => jArr [fbits i, jArr (cells.map cellJson)]))])
  | "row_split" =>
    let db ← parseDB (← j.getObjVal? "db")
    let range : Option (List Int) ←
      match j.getObjVal? "range" with
      | .ok Json.null => pure none
      | .ok v => do pure (some (← intList v))
      | .error _ => throw "bad-op"
    match db.rowSplit range with
    | .ok parts => pure (Json.mkObj [("ok", jArr (parts.map rowsJson))])
    | .error e => pure (Json.mkObj [("err", jStr (errStr e))])
  | "sizes" =>
    let db ← parseDB (← j.getObjVal? "db")
    pure (Json.mkObj [("n_obs", jNat db.nObs), ("sample_size", jNat db.sampleSize)])
  | "folds" =>
    -- relations on real outputs
    let all ← intList (← j.getObjVal? "all")
    let k ← getNat j "k"
    let folds ← (← getArr j "folds").toList.mapM parseFold
    let groups : Option (List (Int × Float)) ←
      match j.getObjVal? "groups" with
      | .ok Json.null => pure none
      | .ok g => do
        let l ← (← asArr g).toList.mapM fun e => do
          let a ← asArr e
          match a.toList with
          | [l, v] => do pure ((← asInt l), (← asFloat v))
          | _ => throw "bad-op"
        pure (some l)
      | .error _ => throw "bad-op"
    pure (Json.mkObj [
      ("partition", jBool (isFoldPartition all k folds)),
      ("sizes", jBool (partSizesOK all.length k folds)),
      ("unsplit", match groups with | none => Json.null | some g => jBool (groupsUnsplit g folds))])
  | "split_model" =>
    -- the model's own split for a given shuffle (positions), to validate the relations on it
    let rows ← parseRows (← j.getObjVal? "rows")
    let k ← getNat j "k"
    let perm ← natList (← j.getObjVal? "perm")
    match j.getObjVal? "group_col" with
    | .ok Json.null =>
      let s := perm.filterMap fun i => rows[i]?
      pure (Json.mkObj [("folds", foldsLabels (splitRows s k))])
    | .ok (Json.num n) =>
      let jj := n.mantissa.toNat
      let ids := dedup (rows.map fun r => cellD r.2 jj)
      let sids := perm.filterMap fun i => ids[i]?
      pure (Json.mkObj [("folds", foldsLabels (splitGroups rows jj sids k)), ("n_ids", jNat ids.length)])
    | _ => throw "bad-op"
  | "bootstrap" =>
    let rows ← parseRows (← j.getObjVal? "rows")
    let sample ← parseRows (← j.getObjVal? "sample")
    pure (Json.mkObj [("ok", jBool (isBootstrapOf rows sample))])
  | "array_split" =>
    let n ← getNat j "n"
    let k ← getNat j "k"
    pure (Json.mkObj [("sizes", jNats (splitSizes n k)),
      ("parts", jArr ((arraySplit (List.range n) k).map jNats))])
  | _ => throw "bad-op"

end D13

def main : IO Unit := Drv.run D13.handle
