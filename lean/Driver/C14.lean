import Driver.Common
import Model.Files
import Model.Params
import Model.ResultsObj
open Lean Drv

namespace D14

def txt (s : String) : List Char := s.toList
def str (l : List Char) : String := String.ofList l

/-! ### files -/

def parseDir (j : Json) : Except String (Files.Dir String) := do
  let a ← asArr j
  a.toList.mapM fun e => do
    match (← strList e) with
    | [n, c] => pure (txt n, c)
    | _ => throw "bad-op"

def dirJson (d : Files.Dir String) : Json :=
  jArr (d.map fun (n, c) => jStrs [str n, c])

def parseOp (j : Json) : Except String (Files.Op String) := do
  let a ← asArr j
  match a.toList with
  | [Json.str "write", Json.str n, Json.str e, Json.str c] => pure (.write (txt n) (txt e) c)
  | [Json.str "delete", Json.str f] => pure (.delete (txt f))
  | [Json.str "backup", Json.str f, Json.bool r] => pure (.backup (txt f) r)
  | [Json.str "create", Json.str f, Json.str c] => pure (.create (txt f) c)
  | _ => throw "bad-op"

def optName : Option Files.Name → Json
  | none => Json.null
  | some n => jStr (str n)

/-! ### parameters -/

open Params in
def parseVal (j : Json) : Except String Val :=
  match j.getObjVal? "b" with
  | .ok (Json.bool b) => pure (.b b)
  | _ =>
    match j.getObjValAs? Int "i" with
    | .ok n => pure (.i n)
    | _ =>
      match j.getObjValAs? Nat "f" with
      | .ok n => pure (.f n)
      | _ =>
        match j.getObjValAs? String "s" with
        | .ok s => pure (.s s)
        | _ => throw "bad-op"

open Params in
def valJson : Val → Json
  | .b v => Json.mkObj [("b", jBool v)]
  | .i v => Json.mkObj [("i", jInt v)]
  | .f v => Json.mkObj [("f", jNat v)]
  | .s v => Json.mkObj [("s", jStr v)]

open Params in
def parseType (s : String) : Except String PType :=
  match s with
  | "bool" => pure .bool
  | "int" => pure .int
  | "float" => pure .float
  | "str" => pure .str
  | _ => throw "bad-op"

open Params in
def typeStr : PType → String
  | .bool => "bool" | .int => "int" | .float => "float" | .str => "str"

open Params in
def parseEntry (j : Json) : Except String Entry := do
  let sec ← getStr j "sec"
  let name ← getStr j "name"
  let t ← parseType (← getStr j "type")
  let v ← parseVal (← j.getObjVal? "value")
  let checks ← strList (← j.getObjVal? "checks")
  pure ⟨sec, name, t, v, checks⟩

open Params in
def entryJson (e : Entry) : Json :=
  Json.mkObj [("sec", jStr e.sec), ("name", jStr e.name), ("type", jStr (typeStr e.type)),
    ("value", valJson e.value), ("checks", jStrs e.checks)]

def parseEntries (j : Json) (k : String) : Except String (List Params.Entry) := do
  (← getArr j k).toList.mapM parseEntry

open Params in
def parseDoc (j : Json) : Except String Doc := do
  let a ← asArr j
  a.toList.mapM fun sj => do
    let s ← getStr sj "sec"
    let es ← (← getArr sj "entries").toList.mapM fun ej => do
      let n ← getStr ej "name"
      let v ← parseVal (← ej.getObjVal? "value")
      pure (n, v)
    pure (s, es)

open Params in
def docJson (d : Doc) : Json :=
  jArr (d.map fun (s, es) =>
    Json.mkObj [("sec", jStr s),
      ("entries", jArr (es.map fun (n, v) => Json.mkObj [("name", jStr n), ("value", valJson v)]))])

open Params in
def resJson : Except Err (List Entry) → Json
  | .ok ps => Json.mkObj [("ok", jArr (ps.map entryJson))]
  | .error .refused => Json.mkObj [("err", jStr "refused")]
  | .error .typeError => Json.mkObj [("err", jStr "typeError")]

/-! ### reports -/

def parseRows (j : Json) : Except String (List (Bool × Reports.Row)) := do
  let a ← asArr j
  a.toList.mapM fun e => do
    let n ← getStr e "name"
    let v ← getStr e "value"
    let act ← getBool e "active"
    pure (act, ⟨txt n, txt v⟩)

def jTexts (l : List (List Char)) : Json := jStrs (l.map str)


/-! ### results object (attributes, save / load, which report reads what) -/

open ResObj in
def slotJson (s : Slot String) : Json :=
  match s with
  | .absent => jStr "absent"
  | .none => jStr "none"
  | .val _ => jStr "val"

open ResObj in
def objJson (o : Obj String) : Json :=
  jArr (allAttrs.map fun a => jArr [jStr a.name, slotJson (o a)])

open ResObj in
def outcomeJson : Except Err Unit → Json
  | .ok () => jStr "ok"
  | .error .attributeError => jStr "AttributeError"
  | .error .typeError => jStr "TypeError"

open ResObj in
def viewsJson (o : Obj String) (k : Nat) : Json :=
  jArr (views.map fun (n, v) => jArr [jStr n, outcomeJson (runView o k v)])

open ResObj in
def parseFileAttr (s : String) : Except String FileAttr :=
  match s with
  | "html" => pure .html
  | "f12" => pure .f12
  | "latex" => pure .latex
  | "pickle" => pure .pickle
  | _ => throw "bad-op"

open ResObj in
def resobj (j : Json) : Except String Json := do
  let c : Ctor String := {
    vals := fun a => a.name
    userNotes := ← getBool j "userNotes"
    initLogLike := ← getBool j "initLogLike"
    nullLogLike := ← getBool j "nullLogLike"
    g := ← getBool j "g"
    H := ← getBool j "H"
    bhhh := ← getBool j "bhhh"
    bootstrap := ← getBool j "bootstrap"
    k := ← getNat j "k" }
  let ws ← (← strList (← j.getObjVal? "writes")).mapM parseFileAttr
  let pre ← (← strList (← j.getObjVal? "pre_writes")).mapM parseFileAttr
  -- the statistics are abstract: every one is a value (no ZeroDivisionError)
  let F : Attr → Obj String → Option String := fun a _ => some a.name
  match build F c with
  | .error e => pure (Json.mkObj [("built", outcomeJson (.error e))])
  | .ok r0 =>
    -- report / pickle files already written for this object (estimate() writes them itself)
    let r := record r0 (pre.map fun f => (f, "file"))
    let r1 := record r (ws.map fun f => (f, "file"))
    let (s, bytes) := writePickle (fun o => o) r1 "pickle"
    let loaded := loadPickle F (fun b => b) bytes
    -- the same after a pickle that keeps only what `_calculate_stats` does not assign
    let lossy := loadPickle F (fun b => b) (dropDerived s)
    let lj (x : Except Err (Obj String)) : List (String × Json) → List (String × Json) := fun acc =>
      match x with
      | .ok o => acc ++ [("loaded", objJson o), ("views_loaded", viewsJson o c.k)]
      | .error e => acc ++ [("loaded", outcomeJson (.error e))]
    let same (x : Except Err (Obj String)) : Bool :=
      match x with
      | .ok o => allAttrs.all fun a => o a == s a
      | .error _ => false
    pure (Json.mkObj (lj loaded [("built", jStr "ok"), ("before", objJson r), ("views_before", viewsJson r c.k),
      ("saved", objJson s), ("views_saved", viewsJson s c.k),
      ("loaded_equals_saved", jBool (same loaded)), ("lossy_equals_saved", jBool (same lossy))]))

def handle (j : Json) : Except String Json := do
  let op ← getStr j "op"
  match op with
  | "newname" =>
    let d ← parseDir (← j.getObjVal? "dir")
    let n ← getStr j "name"
    let e ← getStr j "ext"
    pure (Json.mkObj [("name", optName (Files.newFileName d (txt n) (txt e)))])
  | "history" =>
    let d ← parseDir (← j.getObjVal? "dir")
    let ops ← (← getArr j "ops").toList.mapM parseOp
    let (d', ns) := Files.run d ops
    pure (Json.mkObj [("names", jArr (ns.map optName)), ("dir", dirJson d')])
  | "splitext" =>
    let p ← getStr j "p"
    let (r, e) := Files.splitext (txt p)
    pure (Json.mkObj [("root", jStr (str r)), ("ext", jStr (str e))])
  | "recycle" =>
    let ns := (← strList (← j.getObjVal? "names")).map txt
    let m ← getStr j "model"
    let e ← getStr j "ext"
    pure (Json.mkObj [
      ("of_type", jTexts (Files.ofType ns (txt m) (txt e))),
      ("lex", optName (Files.recycleChoiceLex ns (txt m) (txt e))),
      ("lenlex", optName (Files.recycleChoiceLenLex ns (txt m) (txt e))),
      ("latest", optName (Files.recycleChoice ns (txt m) (txt e)))])
  | "generate_document" =>
    let ps ← parseEntries j "params"
    pure (Json.mkObj [("doc", docJson (Params.generateDocument ps))])
  | "import_document" =>
    let algos ← strList (← j.getObjVal? "algos")
    let ps ← parseEntries j "params"
    let doc ← parseDoc (← j.getObjVal? "doc")
    pure (resJson (Params.importDocument algos ps doc))
  | "set_value" =>
    let algos ← strList (← j.getObjVal? "algos")
    let ps ← parseEntries j "params"
    let sec : Option String ←
      match j.getObjVal? "sec" with
      | .ok Json.null => pure none
      | .ok (Json.str s) => pure (some s)
      | _ => throw "bad-op"
    let name ← getStr j "name"
    let v ← parseVal (← j.getObjVal? "value")
    pure (resJson (Params.setValue algos ps sec name v))
  | "get_value" =>
    -- `Parameters.get_value(name, section)` for a list of (section | null, name) queries
    let ps ← parseEntries j "params"
    let qs ← getArr j "queries"
    let outs ← qs.toList.mapM fun q => do
      let sec : Option String ←
        match q.getObjVal? "sec" with
        | .ok Json.null => pure none
        | .ok (Json.str s) => pure (some s)
        | _ => throw "bad-op"
      let name ← getStr q "name"
      match Params.resolve ps sec name with
      | .ok e => pure (Json.mkObj [("ok", valJson e.value)])
      | .error .refused => pure (Json.mkObj [("err", jStr "refused")])
      | .error .typeError => pure (Json.mkObj [("err", jStr "typeError")])
    pure (Json.mkObj [("values", jArr outs)])
  | "param_history" =>
    -- a history of one Parameters object: read / set / add / dump, step by step
    let algos ← strList (← j.getObjVal? "algos")
    let defaults ← parseEntries j "defaults"
    let ops ← getArr j "ops"
    let mut st : Params.PState := ⟨defaults, none⟩
    let mut labels : List Json := []
    let mut docs : List Json := []
    let mut stopped := false
    for o in ops.toList do
      if stopped then continue
      let kind ← getStr o "op"
      let (op, label) ← (match kind with
        | "read" => do
          let d ← parseDoc (← o.getObjVal? "doc")
          let l := match Params.importDocument algos st.params d with
            | .ok _ => "ok" | .error .refused => "refused" | .error .typeError => "typeError"
          pure (Params.POp.read d, l)
        | "set" => do
          let sec : Option String ←
            match o.getObjVal? "sec" with
            | .ok Json.null => pure none
            | .ok (Json.str s) => pure (some s)
            | _ => throw "bad-op"
          let name ← getStr o "name"
          let v ← parseVal (← o.getObjVal? "value")
          let l := match Params.setValue algos st.params sec name v with
            | .ok _ => "ok" | .error .refused => "refused" | .error .typeError => "typeError"
          pure (Params.POp.set sec name v, l)
        | "add" => do
          let es ← parseEntries o "entry"
          match es with
          | [e] =>
            let l := match Params.addParameter algos st.params e with
              | .ok _ => "ok" | .error .refused => "refused" | .error .typeError => "typeError"
            pure (Params.POp.add e, l)
          | _ => throw "bad-op"
        | "dump" => pure (Params.POp.dump, "ok")
        | _ => throw "bad-op" : Except String (Params.POp × String))
      labels := labels ++ [jStr label]
      if kind == "dump" then docs := docs ++ [docJson (Params.dumpDoc st)]
      match Params.stepP algos st op with
      | some s' => st := s'
      | none => stopped := true
    pure (Json.mkObj [("steps", jArr labels), ("docs", jArr docs), ("stopped", jBool stopped),
      ("state", jArr (st.params.map entryJson))])
  | "valid_names" =>
    let ns ← strList (← j.getObjVal? "names")
    pure (Json.mkObj [("valid", jArr (ns.map fun n => jBool (Params.validFileName n)))])
  | "roundtrip" =>
    -- set a value, dump, read into a fresh default table
    let algos ← strList (← j.getObjVal? "algos")
    let ps ← parseEntries j "params"
    let doc := Params.generateDocument ps
    let defaults ← parseEntries j "defaults"
    pure (Json.mkObj [("doc", docJson doc), ("read", resJson (Params.importDocument algos defaults doc))])
  | "param_case" =>
    -- a chain of set_value calls on the default table, then dump, then read into the defaults
    let algos ← strList (← j.getObjVal? "algos")
    let defaults ← parseEntries j "defaults"
    let assigns ← getArr j "assigns"
    let mut ps := defaults
    let mut outs : List Json := []
    for a in assigns.toList do
      let sec : Option String ←
        match a.getObjVal? "sec" with
        | .ok Json.null => pure none
        | .ok (Json.str s) => pure (some s)
        | _ => throw "bad-op"
      let name ← getStr a "name"
      let v ← parseVal (← a.getObjVal? "value")
      match Params.setValue algos ps sec name v with
      | .ok ps' => ps := ps'; outs := outs ++ [jStr "ok"]
      | .error .refused => outs := outs ++ [jStr "refused"]
      | .error .typeError => outs := outs ++ [jStr "typeError"]
    let doc := Params.generateDocument ps
    pure (Json.mkObj [("steps", jArr outs), ("state", jArr (ps.map entryJson)), ("doc", docJson doc),
      ("read", resJson (Params.importDocument algos defaults doc))])
  | "table_ok" =>
    let algos ← strList (← j.getObjVal? "algos")
    let ps ← parseEntries j "params"
    pure (Json.mkObj [("ok", jBool (Params.tableOK algos ps))])
  | "rows" =>
    let rs ← parseRows (← j.getObjVal? "rows")
    let plain := rs.map (·.2)
    pure (Json.mkObj [
      ("html", jTexts (Reports.htmlRows plain)),
      ("str", jTexts (Reports.strRows plain)),
      ("latex", jTexts (Reports.latexRows Reports.latexFmt plain)),
      ("latex_fixed", jTexts (Reports.latexRows Reports.latexFmtFixed plain)),
      ("f12", jTexts (Reports.f12Rows rs))])
  | "resobj" => resobj j
  | "attr_table" =>
    pure (Json.mkObj [("table", jArr (ResObj.sourceTable.map fun (n, w, gs) => jArr [jStr n, jStr w, jStrs gs]))])
  | _ => throw "bad-op"

end D14

def main : IO Unit := Drv.run D14.handle
