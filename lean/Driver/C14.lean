import Driver.Common
import Model.Files
import Model.Params
open Lean Drv

namespace D14

def txt (s : String) : List Char := s.toList
def str (l : List Char) : String := String.ofList l

/-! ### files -/

def parseDir (j : Json) : Except String (Files.Dir String) := do
  let a ← asArr j
  a.toList.mapM fun e => do
    match (← strList e) with
    | [n, c] => pure (txt n, c)
    | _ => throw "bad-op"

def dirJson (d : Files.Dir String) : Json :=
  jArr (d.map fun (n, c) => jStrs [str n, c])

def parseOp (j : Json) : Except String (Files.Op String) := do
  let a ← asArr j
  match a.toList with
  | [Json.str "write", Json.str n, Json.str e, Json.str c] => pure (.write (txt n) (txt e) c)
  | [Json.str "delete", Json.str f] => pure (.delete (txt f))
  | [Json.str "backup", Json.str f, Json.bool r] => pure (.backup (txt f) r)
  | [Json.str "create", Json.str f, Json.str c] => pure (.create (txt f) c)
  | _ => throw "bad-op"

def optName : Option Files.Name → Json
  | none => Json.null
  | some n => jStr (str n)

/-! ### parameters -/

open Params in
def parseVal (j : Json) : Except String Val :=
  match j.getObjVal? "b" with
  | .ok (Json.bool b) => pure (.b b)
  | _ =>
    match j.getObjValAs? Int "i" with
    | .ok n => pure (.i n)
    | _ =>
      match j.getObjValAs? Nat "f" with
      | .ok n => pure (.f n)
      | _ =>
        match j.getObjValAs? String "s" with
        | .ok s => pure (.s s)
        | _ => throw "bad-op"

open Params in
def valJson : Val → Json
  | .b v => Json.mkObj [("b", jBool v)]
  | .i v => Json.mkObj [("i", jInt v)]
  | .f v => Json.mkObj [("f", jNat v)]
  | .s v => Json.mkObj [("s", jStr v)]

open Params in
def parseType (s : String) : Except String PType :=
  match s with
  | "bool" => pure .bool
  | "int" => pure .int
  | "float" => pure .float
  | "str" => pure .str
  | _ => throw "bad-op"

open Params in
def typeStr : PType → String
  | .bool => "bool" | .int => "int" | .float => "float" | .str => "str"

open Params in
def parseEntry (j : Json) : Except String Entry := do
  let sec ← getStr j "sec"
  let name ← getStr j "name"
  let t ← parseType (← getStr j "type")
  let v ← parseVal (← j.getObjVal? "value")
  let checks ← strList (← j.getObjVal? "checks")
  pure ⟨sec, name, t, v, checks⟩

open Params in
def entryJson (e : Entry) : Json :=
  Json.mkObj [("sec", jStr e.sec), ("name", jStr e.name), ("type", jStr (typeStr e.type)),
    ("value", valJson e.value), ("checks", jStrs e.checks)]

def parseEntries (j : Json) (k : String) : Except String (List Params.Entry) := do
  (← getArr j k).toList.mapM parseEntry

open Params in
def parseDoc (j : Json) : Except String Doc := do
  let a ← asArr j
  a.toList.mapM fun sj => do
    let s ← getStr sj "sec"
    let es ← (← getArr sj "entries").toList.mapM fun ej => do
      let n ← getStr ej "name"
      let v ← parseVal (← ej.getObjVal? "value")
      pure (n, v)
    pure (s, es)

open Params in
def docJson (d : Doc) : Json :=
  jArr (d.map fun (s, es) =>
    Json.mkObj [("sec", jStr s),
      ("entries", jArr (es.map fun (n, v) => Json.mkObj [("name", jStr n), ("value", valJson v)]))])

open Params in
def resJson : Except Err (List Entry) → Json
  | .ok ps => Json.mkObj [("ok", jArr (ps.map entryJson))]
  | .error .refused => Json.mkObj [("err", jStr "refused")]
  | .error .typeError => Json.mkObj [("err", jStr "typeError")]

/-! ### reports -/

def parseRows (j : Json) : Except String (List (Bool × Reports.Row)) := do
  let a ← asArr j
  a.toList.mapM fun e => do
    let n ← getStr e "name"
    let v ← getStr e "value"
    let act ← getBool e "active"
    pure (act, ⟨txt n, txt v⟩)

def jTexts (l : List (List Char)) : Json := jStrs (l.map str)

def handle (j : Json) : Except String Json := do
  let op ← getStr j "op"
  match op with
  | "newname" =>
    let d ← parseDir (← j.getObjVal? "dir")
    let n ← getStr j "name"
    let e ← getStr j "ext"
    pure (Json.mkObj [("name", optName (Files.newFileName d (txt n) (txt e)))])
  | "history" =>
    let d ← parseDir (← j.getObjVal? "dir")
    let ops ← (← getArr j "ops").toList.mapM parseOp
    let (d', ns) := Files.run d ops
    pure (Json.mkObj [("names", jArr (ns.map optName)), ("dir", dirJson d')])
  | "splitext" =>
    let p ← getStr j "p"
    let (r, e) := Files.splitext (txt p)
    pure (Json.mkObj [("root", jStr (str r)), ("ext", jStr (str e))])
  | "recycle" =>
    let ns := (← strList (← j.getObjVal? "names")).map txt
    let m ← getStr j "model"
    let e ← getStr j "ext"
    pure (Json.mkObj [
      ("of_type", jTexts (Files.ofType ns (txt m) (txt e))),
      ("lex", optName (Files.recycleChoiceLex ns (txt m) (txt e))),
      ("lenlex", optName (Files.recycleChoiceLenLex ns (txt m) (txt e))),
      ("latest", optName (Files.recycleChoice ns (txt m) (txt e)))])
  | "generate_document" =>
    let ps ← parseEntries j "params"
    pure (Json.mkObj [("doc", docJson (Params.generateDocument ps))])
  | "import_document" =>
    let algos ← strList (← j.getObjVal? "algos")
    let ps ← parseEntries j "params"
    let doc ← parseDoc (← j.getObjVal? "doc")
    pure (resJson (Params.importDocument algos ps doc))
  | "set_value" =>
    let algos ← strList (← j.getObjVal? "algos")
    let ps ← parseEntries j "params"
    let sec : Option String ←
      match j.getObjVal? "sec" with
      | .ok Json.null => pure none
      | .ok (Json.str s) => pure (some s)
      | _ => throw "bad-op"
    let name ← getStr j "name"
    let v ← parseVal (← j.getObjVal? "value")
    pure (resJson (Params.setValue algos ps sec name v))
  | "roundtrip" =>
    -- set a value, dump, read into a fresh default table
    let algos ← strList (← j.getObjVal? "algos")
    let ps ← parseEntries j "params"
    let doc := Params.generateDocument ps
    let defaults ← parseEntries j "defaults"
    pure (Json.mkObj [("doc", docJson doc), ("read", resJson (Params.importDocument algos defaults doc))])
  | "param_case" =>
    -- a chain of set_value calls on the default table, then dump, then read into the defaults
    let algos ← strList (← j.getObjVal? "algos")
    let defaults ← parseEntries j "defaults"
    let assigns ← getArr j "assigns"
    let mut ps := defaults
    let mut outs : List Json := []
    for a in assigns.toList do
      let sec : Option String ←
        match a.getObjVal? "sec" with
        | .ok Json.null => pure none
        | .ok (Json.str s) => pure (some s)
        | _ => throw "bad-op"
      let name ← getStr a "name"
      let v ← parseVal (← a.getObjVal? "value")
      match Params.setValue algos ps sec name v with
      | .ok ps' => ps := ps'; outs := outs ++ [jStr "ok"]
      | .error .refused => outs := outs ++ [jStr "refused"]
      | .error .typeError => outs := outs ++ [jStr "typeError"]
    let doc := Params.generateDocument ps
    pure (Json.mkObj [("steps", jArr outs), ("state", jArr (ps.map entryJson)), ("doc", docJson doc),
      ("read", resJson (Params.importDocument algos defaults doc))])
  | "table_ok" =>
    let algos ← strList (← j.getObjVal? "algos")
    let ps ← parseEntries j "params"
    pure (Json.mkObj [("ok", jBool (Params.tableOK algos ps))])
  | "rows" =>
    let rs ← parseRows (← j.getObjVal? "rows")
    let plain := rs.map (·.2)
    pure (Json.mkObj [
      ("html", jTexts (Reports.htmlRows plain)),
      ("str", jTexts (Reports.strRows plain)),
      ("latex", jTexts (Reports.latexRows Reports.latexFmt plain)),
      ("latex_fixed", jTexts (Reports.latexRows Reports.latexFmtFixed plain)),
      ("f12", jTexts (Reports.f12Rows rs))])
  | _ => throw "bad-op"

end D14

def main : IO Unit := Drv.run D14.handle
