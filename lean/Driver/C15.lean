import Driver.Common
import Model.IterFile
open Lean Drv IterFile

def geF (a b : Float) : Bool := decide (b ≤ a)

def parseEval (j : Json) : Except String (Eval Float) := do
  let x ← (← getArr j "x").toList.mapM asStr
  let f ← getFloat j "f"
  let fin ← getBool j "finite"
  pure ⟨x, f, fin⟩

def optStrs : Option (List String) → Json
  | none => Json.null
  | some l => jStrs l

def parseOp (j : Json) : Except String FsOp := do
  let a ← strList j
  match a with
  | ["open", p] => pure (.openTrunc p)
  | ["write", p, c] => pure (.write p c)
  | ["close", p] => pure (.close p)
  | ["replace", s, t] => pure (.replace s t)
  | _ => throw "bad-op"

def opJson : FsOp → Json
  | .openTrunc p => jStrs ["open", p]
  | .write p c => jStrs ["write", p, c]
  | .close p => jStrs ["close", p]
  | .replace s t => jStrs ["replace", s, t]

def parseBOp (j : Json) : Except String BOp := do
  let a ← strList j
  match a with
  | ["open", p] => pure (.openTrunc p)
  | ["write", p, c] => pure (.write p c)
  | ["flush", p] => pure (.flush p)
  | ["close", p] => pure (.close p)
  | ["replace", s, t] => pure (.replace s t)
  | ["remove", p] => pure (.remove p)
  | _ => throw "bad-op"

/-- which of the modelled protocol shapes a recorded trace is (for its own temporary name and chunks) -/
def shapeOf (ops : List BOp) (file : String) : String :=
  let chunks := ops.filterMap fun o => match o with
    | .write _ c => some c
    | _ => none
  match ops.head? with
  | some (.openTrunc tmp) =>
    if tmp != file && ops == protocolB tmp file chunks then "tmp_close_replace"
    else if tmp != file && ops == protocolReplaceBeforeClose tmp file chunks then "replace_before_close"
    else if ops == protocolInPlaceB file chunks then "in_place"
    else if tmpThenReplace ops tmp file then "tmp_only_then_replace"
    else "other"
  | _ => "other"

def dirJson (d : Dir) : Json :=
  let sorted := (d.toArray.qsort (fun a b => a.1 < b.1)).toList
  jArr (sorted.map fun (n, v) => jStrs [n, v])

def pairList (j : Json) : Except String (List (String × String)) := do
  let a ← asArr j
  a.toList.mapM fun e => do
    match (← strList e) with
    | [n, v] => pure (n, v)
    | _ => throw "bad-op"

def jPairs (l : List (String × String)) : Json := jArr (l.map fun (n, v) => jStrs [n, v])

def parseSessOp (j : Json) : Except String (Op Float) := do
  let k ← getStr j "k"
  match k with
  | "eval" =>
    let e ← parseEval j
    let sc ← getBool j "scaled"
    pure (.eval e sc)
  | "rename" => pure (.rename (← getStr j "name"))
  | "reset" => pure .reset
  | "boot" => pure (.bootEval (← parseEval j))
  | _ => throw "bad-op"

/-- the files sorted by model name (the harness sorts the directory listing the same way) -/
def filesJson (d : Files) : Json :=
  let sorted := (d.toArray.qsort (fun a b => a.1 < b.1)).toList
  jArr (sorted.map fun (n, v) => jArr [jStr n, jStrs v])

def handle (j : Json) : Except String Json := do
  let op ← getStr j "op"
  match op with
  | "history" =>
    let initFile : Option (List String) ←
      match j.getObjVal? "init_file" with
      | .ok Json.null => pure none
      | .ok v => do pure (some (← strList v))
      | .error _ => throw "bad-op"
    let evals ← (← getArr j "evals").toList.mapM parseEval
    let s0 : St Float := reset ⟨none, initFile⟩
    pure (Json.mkObj [("files", jArr ((trace geF s0 evals).map optStrs))])
  | "render" =>
    let n ← getStr j "name"
    let v ← getStr j "value"
    pure (Json.mkObj [("line", jStr (String.ofList (renderLine n.toList v.toList)))])
  | "parse" =>
    let l ← getStr j "line"
    match parseLine l.toList with
    | none => pure (Json.mkObj [("none", jBool true)])
    | some (n, v) => pure (Json.mkObj [("name", jStr (String.ofList n)), ("value", jStr (String.ofList v))])
  | "restart" =>
    let inits ← pairList (← j.getObjVal? "inits")
    let file : Option (List (String × String)) ←
      match j.getObjVal? "file" with
      | .ok Json.null => pure none
      | .ok v => do pure (some (← pairList v))
      | .error _ => throw "bad-op"
    pure (Json.mkObj [("inits", jPairs (restart inits file))])
  | "load" =>
    -- `_load_saved_iteration` on arbitrary text lines (a line without '=' raises IndexError in the code),
    -- then `change_init_values`
    let inits ← pairList (← j.getObjVal? "inits")
    let lines ← strList (← j.getObjVal? "lines")
    let parsed := lines.map fun l => parseLine l.toList
    if parsed.any Option.isNone then
      pure (Json.mkObj [("error", jStr "IndexError")])
    else
      let entries := parsed.filterMap fun o => o.map fun (n, v) => (String.ofList n, String.ofList v)
      pure (Json.mkObj [("inits", jPairs (restart inits (some entries))), ("entries", jPairs entries)])
  | "protocol" =>
    let tmp ← getStr j "tmp"
    let file ← getStr j "file"
    let chunks ← strList (← j.getObjVal? "chunks")
    pure (Json.mkObj [("ops", jArr ((protocol tmp file chunks).map opJson)),
                      ("content", jStr (concat chunks))])
  | "crash" =>
    let d ← pairList (← j.getObjVal? "dir")
    let ops ← (← getArr j "ops").toList.mapM parseOp
    let file ← getStr j "file"
    let new ← getStr j "new"
    let states := (List.range (ops.length + 1)).map fun k => jOptStr ((crash d ops k).get file)
    pure (Json.mkObj [("safe", jBool (crashSafeB d ops file new)), ("states", jArr states)])
  | "crashb" =>
    let d ← pairList (← j.getObjVal? "dir")
    let ops ← (← getArr j "ops").toList.mapM parseBOp
    let file ← getStr j "file"
    let new ← getStr j "new"
    let disks := (List.range (ops.length + 1)).map fun k => dirJson (crashB d ops k)
    let chunks := ops.filterMap fun o => match o with
      | .write _ c => some c
      | _ => none
    pure (Json.mkObj [("unsafe", jArr ((unsafePoints d ops file new).map fun k => Json.num (JsonNumber.fromNat k))),
                      ("disks", jArr disks), ("shape", jStr (shapeOf ops file)),
                      ("content", jStr (concat chunks))])
  | "world" =>
    let names ← strList (← j.getObjVal? "objs")
    let opsJ ← getArr j "ops"
    let ops ← opsJ.toList.mapM fun o => do
      let i ← getNat o "obj"
      let op ← parseSessOp o
      pure (i, op)
    let w0 : World Float := ⟨names.map fun n => ⟨n, none⟩, []⟩
    let sortedNames := fun (d : Files) => ((d.map (·.1)).toArray.qsort (· < ·)).toList
    pure (Json.mkObj [("files", jArr ((wtrace geF w0 ops).map filesJson)),
                      ("file_names", jStrs ((sortedNames (wrun geF w0 ops).files).map iterFileName))])
  | "session" =>
    let name ← getStr j "name"
    let ops ← (← getArr j "ops").toList.mapM parseSessOp
    let s0 : Sess Float := ⟨name, none, []⟩
    pure (Json.mkObj [("files", jArr ((strace geF s0 ops).map filesJson)),
                      ("best", match (srun geF s0 ops).best with
                                | none => Json.null
                                | some b => fbits b)])
  | _ => throw "bad-op"

def main : IO Unit := Drv.run handle
