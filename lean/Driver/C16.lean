import Driver.Common
import Model.Catalog
import Model.CatalogBuild
open Lean Drv Cat

def nm (s : String) : Cat.Name := s.toList
def sn (n : Cat.Name) : String := String.ofList n

def errJ (e : Err) : Json := Json.mkObj [("err", jStr e.tag)]

def selsOf (j : Json) : Except String (List Sel) := do
  let a ← asArr j
  a.toList.mapM fun e => do
    match (← strList e) with
    | [c, v] => pure (nm c, nm v)
    | _ => throw "bad-op"

def jSels (c : Config) : Json := jArr (c.map fun (a, b) => jStrs [sn a, sn b])

def jCfg (c : Config) : Json := Json.mkObj [("sels", jSels c), ("id", jStr (sn (stringId c)))]

def binOf : String → Except String BinOp
  | "plus" => pure .plus | "minus" => pure .minus | "times" => pure .times | "eq" => pure .eq
  | _ => throw "bad-op"

mutual
  partial def exprOf (j : Json) : Except String Expr := do
    match (← getStr j "k") with
    | "num" => pure (.num (← getInt j "v"))
    | "beta" => pure (.beta (nm (← getStr j "n")))
    | "var" => pure (.var (nm (← getStr j "n")))
    | "neg" => pure (.neg (← exprOf (← j.getObjVal? "a")))
    | "bin" => pure (.bin (← binOf (← getStr j "op")) (← exprOf (← j.getObjVal? "a")) (← exprOf (← j.getObjVal? "b")))
    | "cat" =>
      let ms ← membersOf (← getArr j "ms").toList
      pure (.cat (nm (← getStr j "name")) (nm (← getStr j "ctrl")) ms)
    | _ => throw "bad-op"
  partial def membersOf : List Json → Except String Members
    | [] => pure .nil
    | m :: t => do
      let a ← asArr m
      match a.toList with
      | [n, e] => pure (.cons (nm (← asStr n)) (← exprOf e) (← membersOf t))
      | _ => throw "bad-op"
end

def dirOf : String → Option Dir
  | "NE" => some .NE | "NW" => some .NW | "SE" => some .SE | "SW" => some .SW | _ => none

/-- an operator given explicitly: ["increase",c] ["decrease",c] ["pair",c1,c2,dir] ["several",b] -/
def opOf (j : Json) : Except String (Except Err Op) := do
  let a ← asArr j
  match a.toList with
  | [k, c] =>
    match (← asStr k) with
    | "increase" => pure (.ok (.increase (nm (← asStr c))))
    | "decrease" => pure (.ok (.decrease (nm (← asStr c))))
    | "several" => pure (.ok (.several (← asBool c)))
    | _ => throw "bad-op"
  | [k, c1, c2, d] =>
    if (← asStr k) != "pair" then throw "bad-op" else
    match dirOf (← asStr d) with
    | none => pure (.error .badDirection)        -- the direction is tested before anything else
    | some dir => pure (.ok (.pair (nm (← asStr c1)) (nm (← asStr c2)) dir))
  | _ => throw "bad-op"

def lookupOp (ops : List (List Char × Op)) (k : List Char) : Option Op :=
  match ops.find? (·.1 = k) with
  | some (_, o) => some o
  | none => none

def envOf (j : Json) : Except String (List Env) := do
  let betas ← (← getArr j "betas").toList.mapM fun e => do
    let a ← asArr e
    match a.toList with
    | [n, v] => pure (nm (← asStr n), ← asInt v)
    | _ => throw "bad-op"
  let rows ← (← getArr j "rows").toList.mapM fun r => do
    (← asArr r).toList.mapM fun e => do
      let a ← asArr e
      match a.toList with
      | [n, v] => pure (nm (← asStr n), ← asInt v)
      | _ => throw "bad-op"
  let look (l : List (Cat.Name × Int)) (n : Cat.Name) : Int := (l.lookup n).getD 0
  pure (rows.map fun r => ⟨look betas, look r⟩)

def jOptInt : Option Int → Json
  | none => Json.null
  | some v => jInt v

def handle (j : Json) : Except String Json := do
  let op ← getStr j "op"
  match op with
  | "mkconfig" =>
    match mkConfig (← selsOf (← j.getObjVal? "sels")) with
    | .error e => pure (errJ e)
    | .ok c => pure (jCfg c)
  | "fromstring" =>
    match fromString (nm (← getStr j "s")) with
    | .error e => pure (errJ e)
    | .ok c => pure (jCfg c)
  | "fromtuple" =>
    let cfgs ← (← getArr j "configs").toList.mapM fun c => do
      match c with
      | Json.null => pure (none : Option Config)
      | v => do
        match mkConfig (← selsOf v) with
        | .error _ => throw "bad-op"
        | .ok cfg => pure (some cfg)
    match fromTuple cfgs with
    | .error e => pure (errJ e)
    | .ok c =>
      let q ← getStr j "query"
      pure (Json.mkObj [("sels", jSels c), ("id", jStr (sn (stringId c))),
                        ("selection", match getSelection c (nm q) with | none => Json.null | some v => jStr (sn v))])
  | "modify" =>
    let c : Controller := ⟨nm (← getStr j "name"), (← strList (← j.getObjVal? "specs")).map nm⟩
    match modifyController c (← getNat j "cur") (← getInt j "step") (← getBool j "circular") with
    | .error e => pure (errJ e)
    | .ok (i, r) => pure (Json.mkObj [("index", jNat i), ("ret", jInt r)])
  | "central" =>
    let e ← exprOf (← j.getObjVal? "expr")
    let maxN ← getNat j "max"
    match central e with
    | .error er => pure (errJ er)
    | .ok sp =>
      let base := [("controllers", jArr (sp.map fun c => jArr [jStr (sn c.name), jStrs (c.specs.map sn)])),
                   ("number", jNat (numberOfConfigurations sp)),
                   ("ok_for", jBool (e.okFor sp)),
                   ("operators", jStrs ((prepareOperators sp).map fun p => sn p.1))]
      match setOfConfigurations sp maxN with
      | .error er => pure (Json.mkObj (base ++ [("configs_err", jStr er.tag)]))
      | .ok none => pure (Json.mkObj (base ++ [("configs", Json.null)]))
      | .ok (some l) =>
        let visited := match iterVisited sp St.init l with
          | .error er => errJ er
          | .ok v => jStrs (v.map fun c => sn (stringId c))
        let cur := match getConfiguration sp St.init with
          | .error er => errJ er
          | .ok c => jCfg c
        pure (Json.mkObj (base ++ [("configs", jStrs (l.map fun c => sn (stringId c))),
                                   ("all_valid", jBool (l.all (validCfgB sp))),
                                   ("visited", visited), ("initial", cur)]))
  | "select" =>
    let e ← exprOf (← j.getObjVal? "expr")
    let envs ← envOf j
    match central e with
    | .error er => pure (errJ er)
    | .ok sp =>
      match mkConfig (← selsOf (← j.getObjVal? "sels")) with
      | .error er => pure (errJ er)
      | .ok cfg =>
        match setConfiguration sp St.init cfg with
        | .error er => pure (errJ er)
        | .ok st =>
          let s := e.select st
          let h := e.hand cfg
          let cur := match getConfiguration sp st with
            | .error er => errJ er
            | .ok c => jCfg c
          let rend : Option Expr → Json := fun o => match o with
            | none => Json.null
            | some x => jStr x.render
          pure (Json.mkObj [
            ("select", rend s), ("hand", rend h),
            ("same", jBool (match s, h with | some a, some b => a.render == b.render | _, _ => false)),
            ("plain", jBool (match h with | some x => x.plain | none => false)),
            ("current", cur),
            ("valid", jBool (validCfgB sp cfg)),
            ("values", jArr (envs.map fun env => jOptInt (match h with | some x => x.ev env | none => none))),
            ("values_sel", jArr (envs.map fun env => jOptInt (e.evSel st env))),
            ("names", jArr ((e.selectedNames st).map fun (a, b, c) => jStrs [sn a, sn b, sn c]))])
  | "setcontroller" =>
    let e ← exprOf (← j.getObjVal? "expr")
    match central e with
    | .error er => pure (errJ er)
    | .ok sp =>
      match setController sp St.init (nm (← getStr j "name")) (← getInt j "index") with
      | .error er => pure (errJ er)
      | .ok st =>
        match getConfiguration sp st with
        | .error er => pure (errJ er)
        | .ok c => pure (jCfg c)
  | "history" =>
    let e ← exprOf (← j.getObjVal? "expr")
    match central e with
    | .error er => pure (errJ er)
    | .ok sp =>
      let prepared := prepareOperators sp
      let start : Except Err Config ← (do
        match j.getObjVal? "start_sels" with
        | .ok v => pure (mkConfig (← selsOf v))
        | .error _ => pure (fromString (nm (← getStr j "start"))))
      match start with
      | .error er => pure (errJ er)
      | .ok cfg =>
        let steps ← (← getArr j "steps").toList.mapM fun s => do
          let step ← getInt s "step"
          let ch ← natList (← s.getObjVal? "choices")
          let o : Except Err Op ← (do
            match s.getObjVal? "key" with
            | .ok k =>
              match lookupOp prepared (nm (← asStr k)) with
              | some o => pure (.ok o)
              | none => throw "bad-op"
            | .error _ => opOf (← s.getObjVal? "opj"))
          pure (o, step, ch)
        -- a refused direction stops the history exactly like any other error
        let rec go (st : St) (cfg : Config) : List (Except Err Op × Int × List Nat) → List Json
          | [] => []
          | (.error er, _, _) :: _ => [errJ er]
          | (.ok o, step, ch) :: t =>
            match applyOp sp st o cfg step ch with
            | .error er => [errJ er]
            | .ok (st', cfg', r) =>
              Json.mkObj [("id", jStr (sn (stringId cfg'))), ("ret", jInt r),
                          ("valid", jBool (validCfgB sp cfg'))] :: go st' cfg' t
        pure (Json.mkObj [("trace", jArr (go St.init cfg steps)), ("start_valid", jBool (validCfgB sp cfg))])
  | "population" =>
    -- operators applied to the members of a population, interleaved with other operations on
    -- the expression; every step reports what the call returned and the configuration the
    -- controllers show afterwards
    let e ← exprOf (← j.getObjVal? "expr")
    match central e with
    | .error er => pure (errJ er)
    | .ok sp =>
      let prepared := prepareOperators sp
      let members ← (← strList (← j.getObjVal? "members")).mapM fun s =>
        match fromString (nm s) with
        | .ok c => pure c
        | .error _ => throw "bad-op"
      let events ← (← getArr j "events").toList.mapM fun s => do
        match (← getStr s "e") with
        | "apply" =>
          match lookupOp prepared (nm (← getStr s "key")) with
          | some o => pure (Event.apply o (← getInt s "step") (← natList (← s.getObjVal? "choices"))
                              (← getNat s "src") (← getNat s "dst"))
          | none => throw "bad-op"
        | "configure" =>
          match fromString (nm (← getStr s "id")) with
          | .ok c => pure (Event.configure c)
          | .error _ => throw "bad-op"
        | "select" => pure (Event.setCtrl (nm (← getStr s "name")) (← getInt s "index"))
        | "modify" => pure (Event.modifyCtrl (nm (← getStr s "name")) (← getInt s "step") (← getBool s "circular"))
        | _ => throw "bad-op"
      let stateJ (st : St) : Json := match getConfiguration sp st with
        | .error er => errJ er
        | .ok c => jStr (sn (stringId c))
      let rec goPop (st : St) (pop : List Config) : List Event → List Json
        | [] => []
        | ev :: t =>
          match stepEvent sp st pop ev with
          | .error er => [errJ er]
          | .ok (st', pop', oc, oi) =>
            let f1 := match oc with
              | some c => [("id", jStr (sn (stringId c))), ("valid", jBool (validCfgB sp c))]
              | none => []
            let f2 := match oi with
              | some r => [("ret", jInt r)]
              | none => []
            Json.mkObj (f1 ++ f2 ++ [("state", stateJ st')]) ::  goPop st' pop' t
      let final := match runEvents sp St.init members events with
        | .error er => errJ er
        | .ok (_, pop) => jStrs (pop.map fun c => sn (stringId c))
      -- the members reached by the operator calls alone, from another state (theorem population_history)
      let alone := match runEvents sp (fun _ => 1) members (onlyApplies events) with
        | .error er => errJ er
        | .ok (_, pop) => jStrs (pop.map fun c => sn (stringId c))
      pure (Json.mkObj [("trace", jArr (goPop St.init members events)), ("members", final),
                        ("members_applies_only", alone),
                        ("members_valid", jBool (members.all (validCfgB sp)))])
  | "construct" =>
    -- the user's script: declared Controller objects, then the formula, then the central controller
    let e ← exprOf (← j.getObjVal? "expr")
    let decl ← (← getArr j "decl").toList.mapM fun d => do
      let a ← asArr d
      match a.toList with
      | [n, sp] => pure (⟨nm (← asStr n), (← strList sp).map nm⟩ : Controller)
      | _ => throw "bad-op"
    match construct decl e with
    | .error er => pure (Json.mkObj [("err", jStr er.tag)])
    | .ok sp =>
      pure (Json.mkObj [("controllers", jArr (sp.map fun c => jArr [jStr (sn c.name), jStrs (c.specs.map sn)])),
                        ("number", jNat (numberOfConfigurations sp))])
  | "itersubset" =>
    -- SelectedExpressionsIterator(expression, chosen) started while the controllers show `start`
    let e ← exprOf (← j.getObjVal? "expr")
    match central e with
    | .error er => pure (errJ er)
    | .ok sp =>
      let cfgOf (s : String) : Except String Config :=
        match fromString (nm s) with
        | .ok c => pure c
        | .error _ => throw "bad-op"
      let chosen ← (← strList (← j.getObjVal? "chosen")).mapM cfgOf
      let start ← cfgOf (← getStr j "start")
      match setConfiguration sp St.init start with
      | .error er => pure (errJ er)
      | .ok st =>
        match iterVisited sp st chosen with
        | .error er => pure (errJ er)
        | .ok v => pure (Json.mkObj [("visited", jStrs (v.map fun c => sn (stringId c)))])
  | "rewrite" =>
    -- rename_elementary / fix_betas through the catalogs while `sels` is selected, then the formula
    -- selected under `sels` and under `sels2`
    let e ← exprOf (← j.getObjVal? "expr")
    let names := (← strList (← j.getObjVal? "names")).map nm
    let optName (k : String) : Except String (Option Cat.Name) :=
      match j.getObjVal? k with
      | .ok Json.null => pure none
      | .ok v => do pure (some (nm (← asStr v)))
      | .error _ => pure none
    let pre ← optName "pre"
    let suf ← optName "suf"
    let f : LeafMap ← (do
      match (← getStr j "kind") with
      | "rename" => pure (renameMap names pre suf)
      | "fix" => pure (fixMap names pre suf)
      | _ => throw "bad-op")
    match central e with
    | .error er => pure (errJ er)
    | .ok sp =>
      match mkConfig (← selsOf (← j.getObjVal? "sels")), mkConfig (← selsOf (← j.getObjVal? "sels2")) with
      | .ok cfg, .ok cfg2 =>
        match setConfiguration sp St.init cfg with
        | .error er => pure (errJ er)
        | .ok st =>
          let e2 := e.mapSel st f
          let rend : Option Expr → Json := fun o => match o with
            | none => Json.null
            | some x => jStr x.render
          let after2 := match setConfiguration sp st cfg2 with
            | .error er => errJ er
            | .ok st2 => rend (e2.select st2)
          pure (Json.mkObj [("selected", rend (e2.select st)),
                            ("hand_rewritten", rend ((e.hand cfg).map (Expr.mapPlain f))),
                            ("selected_other", after2),
                            ("same_space", jBool (e2.ctrls == e.ctrls))])
      | .error er, _ => pure (errJ er)
      | _, .error er => pure (errJ er)
  | "estimate" =>
    -- BIOGEME.estimate_catalog: identifiers and formulas estimated, for all or for chosen configurations
    let e ← exprOf (← j.getObjVal? "expr")
    let maxN ← getNat j "max"
    let cfgOf (s : String) : Except String Config :=
      match fromString (nm s) with
      | .ok c => pure c
      | .error _ => throw "bad-op"
    let selected : Option (List Config) ← (do
      match j.getObjVal? "selected" with
      | .ok Json.null => pure none
      | .ok v => do pure (some (← (← strList v).mapM cfgOf))
      | .error _ => pure none)
    let rec betasOf : Expr → List String
      | .beta n => [sn n]
      | .neg a => betasOf a
      | .bin _ a b => betasOf a ++ betasOf b
      | _ => []
    match estimateCatalog e maxN selected St.init with
    | .error er => pure (Json.mkObj [("err", jStr er.tag)])
    | .ok r =>
      pure (Json.mkObj [("models", jArr (r.map fun (sid, f) =>
        Json.mkObj [("id", jStr (sn sid)),
                    ("formula", match f with | some x => jStr x.render | none => Json.null),
                    ("betas", jStrs ((match f with | some x => betasOf x | none => []).eraseDups))]))])
  | "multi" =>
    -- several formulas on the same catalogs: after every operation, the configuration every formula shows
    let es ← (← getArr j "formulas").toList.mapM exprOf
    let sps : List (Except Err Space) := es.map central
    match sps.find? (fun r => match r with | .error _ => true | .ok _ => false) with
    | some (.error er) => pure (errJ er)
    | _ =>
      let fs : List Space := sps.filterMap fun r => match r with | .ok sp => some sp | .error _ => none
      let cfgOf (s : String) : Except String Config :=
        match fromString (nm s) with
        | .ok c => pure c
        | .error _ => throw "bad-op"
      let ctrlOf (o : Json) : Except String Controller := do
        pure ⟨nm (← getStr o "name"), (← strList (← o.getObjVal? "specs")).map nm⟩
      let ops ← (← getArr j "ops").toList.mapM fun o => do
        match (← getStr o "e") with
        | "select" => pure (MOp.select (← getNat o "f") (← cfgOf (← getStr o "id")))
        | "setctrl" => pure (MOp.setCtrl (← getNat o "f") (nm (← getStr o "name")) (← getInt o "index"))
        | "apply" =>
          let f ← getNat o "f"
          match fs[f]? with
          | none => throw "bad-op"
          | some sp =>
            match lookupOp (prepareOperators sp) (nm (← getStr o "key")) with
            | some op => pure (MOp.apply f op (← cfgOf (← getStr o "id")) (← getInt o "step") (← natList (← o.getObjVal? "choices")))
            | none => throw "bad-op"
        | "index" => pure (MOp.directIndex (← ctrlOf o) (← getInt o "index"))
        | "name" => pure (MOp.directName (← ctrlOf o) (nm (← getStr o "v")))
        | "modify" => pure (MOp.directModify (← ctrlOf o) (← getInt o "step") (← getBool o "circular"))
        | _ => throw "bad-op"
      let views (st : St) : Json := jArr (fs.map fun sp => match getConfiguration sp st with
        | .error er => errJ er
        | .ok c => jStr (sn (stringId c)))
      let rec goM (st : St) : List MOp → List Json
        | [] => []
        | o :: t =>
          match stepM fs st o with
          | .error er => [errJ er]
          | .ok st' => views st' :: goM st' t
      pure (Json.mkObj [("trace", jArr (goM St.init ops)), ("initial", views St.init)])
  | "world" =>
    -- construction interleaved with selection: after every step, the configuration every formula made so far
    -- shows and the member every catalog made so far shows
    let decl ← (← getArr j "decl").toList.mapM fun d => do
      let a ← asArr d
      match a.toList with
      | [n, sp] => pure (⟨nm (← asStr n), (← strList sp).map nm⟩ : Controller)
      | _ => throw "bad-op"
    let cfgOf (s : String) : Except String Config :=
      match fromString (nm s) with
      | .ok c => pure c
      | .error _ => throw "bad-op"
    let ctrlOf (o : Json) : Except String Controller := do
      pure ⟨nm (← getStr o "name"), (← strList (← o.getObjVal? "specs")).map nm⟩
    let parse (w : World) (o : Json) : Except String WOp := do
      match (← getStr o "e") with
      | "newcat" => pure (WOp.newCatalog (nm (← getStr o "name")) (nm (← getStr o "ctrl")) ((← strList (← o.getObjVal? "names")).map nm))
      | "newformula" => pure (WOp.newFormula (← exprOf (← o.getObjVal? "expr")))
      | "select" => pure (WOp.op (MOp.select (← getNat o "f") (← cfgOf (← getStr o "id"))))
      | "setctrl" => pure (WOp.op (MOp.setCtrl (← getNat o "f") (nm (← getStr o "name")) (← getInt o "index")))
      | "apply" =>
        let f ← getNat o "f"
        match w.fs[f]? with
        | none => throw "bad-op"
        | some sp =>
          match lookupOp (prepareOperators sp) (nm (← getStr o "key")) with
          | some op => pure (WOp.op (MOp.apply f op (← cfgOf (← getStr o "id")) (← getInt o "step") (← natList (← o.getObjVal? "choices"))))
          | none => throw "bad-op"
      | "index" => pure (WOp.op (MOp.directIndex (← ctrlOf o) (← getInt o "index")))
      | "name" => pure (WOp.op (MOp.directName (← ctrlOf o) (nm (← getStr o "v"))))
      | "modify" => pure (WOp.op (MOp.directModify (← ctrlOf o) (← getInt o "step") (← getBool o "circular")))
      | _ => throw "bad-op"
    let report (w : World) : Json := Json.mkObj [
      ("views", jArr (w.fs.map fun sp => match getConfiguration sp w.st with
        | .error er => errJ er
        | .ok c => jStr (sn (stringId c)))),
      ("shown", jStrs (w.cats.map fun x => sn (shownName w.st x.2.1 x.2.2)))]
    let rec goW (fuel : Nat) (w : World) (l : List Json) : Except String (List Json) := do
      match fuel, l with
      | 0, _ => pure []
      | _, [] => pure []
      | fuel + 1, o :: t =>
        match stepW decl w (← parse w o) with
        | .error er => pure [Json.mkObj [("err", jStr er.tag)]]
        | .ok w' => pure (report w' :: (← goW fuel w' t))
    let ops := (← getArr j "ops").toList
    pure (Json.mkObj [("trace", jArr (← goW (ops.length + 1) ⟨St.init, [], []⟩ ops))])
  | _ => throw "bad-op"

def main : IO Unit := Drv.run handle
