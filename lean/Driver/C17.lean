import Driver.Common
import Model.Helpers
open Lean Drv Helpers

def optFloats (j : Json) : Except String (List (Option Float)) := do
  let a ← asArr j
  a.toList.mapM fun e => match e with
    | Json.null => pure none
    | v => do pure (some (← asFloat v))

def errJ : Option PwErr → Json
  | none => Json.null
  | some .noThreshold => jStr "BiogemeError:noThreshold"
  | some .allNone => jStr "BiogemeError:allNone"
  | some .innerNone => jStr "BiogemeError:innerNone"
  | some .indexError => jStr "IndexError"
  | some .badBetas => jStr "BiogemeError:badBetas"

def lookupF (l : List (String × Float)) (k : String) : Float :=
  match l.lookup k with
  | some v => v
  | none => 0.0 / 0.0      -- NaN: an unknown name poisons the value, it never defaults to a number

def pairsF (j : Json) : Except String (List (String × Float)) := do
  let a ← asArr j
  a.toList.mapM fun e => do
    let n ← getStr e "name"
    let v ← getFloat e "value"
    pure (n, v)

def parseSpec (j : Json) : Except String SegSpec := do
  let v ← getStr j "var"
  let m ← (← getArr j "mapping").toList.mapM fun e => do
    let k ← getInt e "key"
    let c ← getStr e "cat"
    pure (k, c)
  let r : Option String ← match j.getObjVal? "reference" with
    | .ok Json.null => pure none
    | .ok x => do pure (some (← asStr x))
    | .error _ => throw "bad-op"
  pure { varName := v, mapping := m, reference := r }

def parseNest (j : Json) : Except String (Nest Float) := do
  let mu ← getFloat j "mu"
  let alts ← intList (← j.getObjVal? "alts")
  pure { mu := mu, alts := alts }

def handle (j : Json) : Except String Json := do
  let op ← getStr j "op"
  match op with
  | "pw_vars" =>
    let x ← getFloat j "x"
    let ths ← optFloats (← j.getObjVal? "ths")
    pure (Json.mkObj [("err", errJ (pwCheck ths)), ("vars", jFloats (pwVars x ths))])
  | "pw_formula" =>
    let x ← getFloat j "x"
    let ths ← optFloats (← j.getObjVal? "ths")
    let bs ← floatList (← j.getObjVal? "betas")
    pure (Json.mkObj [("err", errJ (pwFormulaCheck ths bs.length)), ("value", fbits (pwFormula x ths bs))])
  | "pw_asvar" =>
    let x ← getFloat j "x"
    let ths ← optFloats (← j.getObjVal? "ths")
    let bs ← floatList (← j.getObjVal? "betas")
    pure (Json.mkObj [("value", fbits (pwAsVariable x ths bs)),
                      ("as_coded", fbits (pwAsVariableAsCoded x ths bs))])
  | "pw_function" =>
    let x ← getFloat j "x"
    let ths ← optFloats (← j.getObjVal? "ths")
    let bs ← floatList (← j.getObjVal? "betas")
    pure (Json.mkObj [("err", errJ (pwFunctionCheck ths bs.length)), ("value", fbits (pwFunction x ths bs))])
  | "boxcox" =>
    let x ← getFloat j "x"
    let l ← getFloat j "l"
    let branch := if x == 0.0 then "zero" else if closeToZero l then "series" else "regular"
    pure (Json.mkObj [("value", fbits (boxcox x l)), ("branch", jStr branch)])
  | "dist" =>
    let name ← getStr j "name"
    let a ← floatList (← j.getObjVal? "args")
    match name, a with
    | "normalpdf", [x, mu, s] => pure (Json.mkObj [("value", fbits (normalpdf x mu s))])
    | "lognormalpdf", [x, mu, s] => pure (Json.mkObj [("value", fbits (lognormalpdf x mu s))])
    | "uniformpdf", [x, a, b] => pure (Json.mkObj [("value", fbits (uniformpdf x a b))])
    | "triangularpdf", [x, a, b, c] => pure (Json.mkObj [("value", fbits (triangularpdf x a b c))])
    | "logisticcdf", [x, mu, s] => pure (Json.mkObj [("value", fbits (logisticcdf x mu s))])
    | "loglikreg", [y, m, s] => pure (Json.mkObj [("value", fbits (loglikReg y m s))])
    | _, _ => throw "bad-op"
  | "seg" =>
    let beta ← getStr j "beta"
    let specs ← (← getArr j "specs").toList.mapM parseSpec
    let params ← pairsF (← j.getObjVal? "params")
    let row ← pairsF (← j.getObjVal? "row")
    let v := segmentedBeta beta specs (lookupF params) (lookupF row)
    let code := segmentedCode beta specs
    let cv : Json := match evalCode code (lookupF params) (lookupF row) with
      | some x => fbits x
      | none => Json.null
    let init ← getStr j "init"
    let lb ← getStr j "lb"
    let ub ← getStr j "ub"
    let status ← getStr j "status"
    let pref ← getStr j "prefix"
    pure (Json.mkObj [("valid", jBool (specs.all SegSpec.valid)), ("value", fbits v), ("code_value", cv),
                      ("code", jStr (renderCode beta init lb ub status pref specs))])
  | "corr" =>
    let mu ← getFloat j "mu"
    let cs ← intList (← j.getObjVal? "choice_set")
    let nests ← (← getArr j "nests").toList.mapM parseNest
    pure (Json.mkObj [("matrix", jMat (corrMatrix mu cs nests))])
  | _ => throw "bad-op"

def main : IO Unit := Drv.run handle
