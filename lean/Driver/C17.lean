import Driver.Common
import Model.Helpers
import Model.HelpersBuild
open Lean Drv Helpers HelpersBuild

def optFloats (j : Json) : Except String (List (Option Float)) := do
  let a ← asArr j
  a.toList.mapM fun e => match e with
    | Json.null => pure none
    | v => do pure (some (← asFloat v))

def errJ : Option PwErr → Json
  | none => Json.null
  | some .noThreshold => jStr "BiogemeError:noThreshold"
  | some .allNone => jStr "BiogemeError:allNone"
  | some .innerNone => jStr "BiogemeError:innerNone"
  | some .indexError => jStr "IndexError"
  | some .badBetas => jStr "BiogemeError:badBetas"
  | some .emptySum => jStr "BiogemeError:emptySum"

def lookupF (l : List (String × Float)) (k : String) : Float :=
  match l.lookup k with
  | some v => v
  | none => 0.0 / 0.0      -- NaN: an unknown name poisons the value, it never defaults to a number

def pairsF (j : Json) : Except String (List (String × Float)) := do
  let a ← asArr j
  a.toList.mapM fun e => do
    let n ← getStr e "name"
    let v ← getFloat e "value"
    pure (n, v)

def parseSpec (j : Json) : Except String SegSpec := do
  let v ← getStr j "var"
  let m ← (← getArr j "mapping").toList.mapM fun e => do
    let k ← getInt e "key"
    let c ← getStr e "cat"
    pure (k, c)
  let r : Option String ← match j.getObjVal? "reference" with
    | .ok Json.null => pure none
    | .ok x => do pure (some (← asStr x))
    | .error _ => throw "bad-op"
  pure { varName := v, mapping := m, reference := r }

def parseNest (j : Json) : Except String (Nest Float) := do
  let mu ← getFloat j "mu"
  let alts ← intList (← j.getObjVal? "alts")
  pure { mu := mu, alts := alts }


/-! ### the formula a helper built: real signature text -> tree, compared node by node with the
tree built by the Lean model of the helper, and evaluated with the engine's node semantics -/

/-- a leaf handed to a helper: {"var": name} | {"beta": name} | {"num": bits} -/
def parseLeaf (j : Json) : Except String (HE Float) :=
  match j.getObjVal? "var", j.getObjVal? "beta", j.getObjVal? "num" with
  | .ok v, _, _ => do pure (.var (← asStr v))
  | _, .ok b, _ => do pure (.beta (← asStr b))
  | _, _, .ok n => do pure (.num (← asFloat n))
  | _, _, _ => throw "bad-op"

def leafList (j : Json) : Except String (List (HE Float)) := do
  (← asArr j).toList.mapM parseLeaf

def optStrs (j : Json) : Except String (List (Option String)) := do
  (← asArr j).toList.mapM fun e => match e with
    | Json.null => pure none
    | v => do pure (some (← asStr v))

def namePairs (j : Json) : Except String (List (String × Float)) := do
  (← asArr j).toList.mapM fun e => do
    let a ← asArr e
    match a.toList with
    | [n, v] => pure (← asStr n, ← asFloat v)
    | _ => throw "bad-op"

def bitsEq (a b : Float) : Bool := a.toBits == b.toBits

/-- the tree the Lean model of the helper builds for this request -/
def builtTree (j : Json) : Except String (HE Float) := do
  let h ← getStr j "helper"
  match h with
  | "pw_var" =>
    let x ← parseLeaf (← j.getObjVal? "x")
    let ths ← optFloats (← j.getObjVal? "ths")
    let i ← getNat j "index"
    match (pwVarsE x ths)[i]? with
    | some t => pure t
    | none => throw "no-such-variable"
  | "pw_formula" =>
    let x ← parseLeaf (← j.getObjVal? "x")
    let ths ← optFloats (← j.getObjVal? "ths")
    pure (pwFormulaE x ths (← leafList (← j.getObjVal? "betas")))
  | "pw_formula_default" =>
    -- betas=None: the parameters are created by the helper, named after Python's str of the thresholds
    let v ← getStr j "var"
    let ths ← optFloats (← j.getObjVal? "ths")
    let strs ← optStrs (← j.getObjVal? "th_strs")
    pure (pwFormulaE (.var v) ths ((pwBetaNames v strs).map .beta))
  | "pw_asvar" =>
    let x ← parseLeaf (← j.getObjVal? "x")
    let ths ← optFloats (← j.getObjVal? "ths")
    pure (pwAsVariableE x ths (← leafList (← j.getObjVal? "betas")))
  | "pw_asvar_default" =>
    let v ← getStr j "var"
    let ths ← optFloats (← j.getObjVal? "ths")
    let strs ← optStrs (← j.getObjVal? "th_strs")
    pure (pwAsVariableE (.var v) ths ((pwBetaNames v strs.tail).map .beta))
  | "boxcox" =>
    pure (boxcoxE (← parseLeaf (← j.getObjVal? "x")) (← parseLeaf (← j.getObjVal? "l")))
  | "dist" =>
    let name ← getStr j "name"
    let a ← leafList (← j.getObjVal? "args")
    match name, a with
    | "normalpdf", [x, mu, s] => pure (normalpdfE x mu s)
    | "lognormalpdf", [x, mu, s] => pure (lognormalpdfE x mu s)
    | "uniformpdf", [x, a, b] => pure (uniformpdfE x a b)
    | "triangularpdf", [x, a, b, c] => pure (triangularpdfE x a b c)
    | "logisticcdf", [x, mu, s] => pure (logisticcdfE x mu s)
    | "loglikreg", [y, m, s] => pure (loglikRegE y m s)
    | "likreg", [y, m, s] => pure (likRegE y m s)
    | _, _ => throw "bad-op"
  | "seg" =>
    let beta ← getStr j "beta"
    let specs ← (← getArr j "specs").toList.mapM parseSpec
    pure (segmentedBetaE beta specs)
  | "segcode" =>
    let beta ← getStr j "beta"
    let specs ← (← getArr j "specs").toList.mapM parseSpec
    pure (segmentedCodeE beta specs)
  | _ => throw "bad-op"

def ctorName : Expr.Kind → String
  | .neg => "neg" | .exp => "exp" | .log => "log" | .plus => "plus" | .minus => "minus" | .times => "times"
  | .divide => "divide" | .power => "power" | .bmin => "bmin" | .bmax => "bmax" | .eq => "eq" | .ne => "ne"
  | .le => "le" | .ge => "ge" | .lt => "lt" | .gt => "gt" | _ => "unsupported"

/-- Lean syntax of a tree (used by the translator that regenerates Generated/Helpers.lean); a literal
is written `NUM<bits>`: the translator puts the decimal text of the signature in its place -/
partial def renderHE : HE Float → String
  | .num v => s!"(.num NUM{v.toBits})"
  | .var n => s!"(.var {n.quote})"
  | .beta n => s!"(.beta {n.quote})"
  | .un k a => s!"(.un .{ctorName k} {renderHE a})"
  | .powc a e => s!"(.powc {renderHE a} NUM{e.toBits})"
  | .bin k a b => s!"(.bin .{ctorName k} {renderHE a} {renderHE b})"
  | .elem key ks bs => s!"(.elem {renderHE key} {ks} [{", ".intercalate (bs.map renderHE)}])"
  | .msum ts => s!"(.msum [{", ".intercalate (ts.map renderHE)}])"

def treeOp (j : Json) : Except String Json := do
  let ls ← strList (← j.getObjVal? "text")
  let tbl ← namePairs (← j.getObjVal? "nums")
  let numOf : List Char → Option Float := fun s => tbl.lookup (String.ofList s)
  let betas ← namePairs (← j.getObjVal? "benv")
  let rows ← (← getArr j "rows").toList.mapM namePairs
  let built ← builtTree j
  let envs : List (Expr.Env Float) := rows.map fun r => { beta := lookupF betas, var := lookupF r }
  let builtVals := envs.map fun e => evalT e built
  match Sig.mapMOpt (Sig.parseLine numOf) (ls.map String.toList) with
  | none => pure (Json.mkObj [("read", jBool false), ("built_vals", jFloats builtVals)])
  | some lines =>
    match ofLines [] lines with
    | none => pure (Json.mkObj [("read", jBool false), ("built_vals", jFloats builtVals)])
    | some t =>
      let rendered : List (String × Json) := match j.getObjVal? "render" with
        | .ok (Json.bool true) => [("render", jStr (renderHE t))]
        | _ => []
      pure (Json.mkObj ([("read", jBool true), ("same", jBool (HE.same bitsEq t built)),
        ("size", jNat t.size), ("built_size", jNat built.size),
        ("text_vals", jFloats (envs.map fun e => evalT e t)), ("built_vals", jFloats builtVals)] ++ rendered))

def handle (j : Json) : Except String Json := do
  let op ← getStr j "op"
  match op with
  | "pw_vars" =>
    let x ← getFloat j "x"
    let ths ← optFloats (← j.getObjVal? "ths")
    pure (Json.mkObj [("err", errJ (pwCheck ths)), ("vars", jFloats (pwVars x ths))])
  | "pw_formula" =>
    let x ← getFloat j "x"
    let ths ← optFloats (← j.getObjVal? "ths")
    let bs ← floatList (← j.getObjVal? "betas")
    pure (Json.mkObj [("err", errJ (pwFormulaCheck ths bs.length)), ("value", fbits (pwFormula x ths bs))])
  | "pw_asvar" =>
    let x ← getFloat j "x"
    let ths ← optFloats (← j.getObjVal? "ths")
    let bs ← floatList (← j.getObjVal? "betas")
    pure (Json.mkObj [("value", fbits (pwAsVariable x ths bs)),
                      ("as_coded", fbits (pwAsVariableAsCoded x ths bs))])
  | "pw_asvar_check" =>
    let ths ← optFloats (← j.getObjVal? "ths")
    let n : Option Nat ← match j.getObjVal? "n_betas" with
      | .ok Json.null => pure none
      | .ok v => do pure (some (← asNat v))
      | .error _ => throw "bad-op"
    pure (Json.mkObj [("err", errJ (pwAsVariableCheck ths n))])
  | "pw_function" =>
    let x ← getFloat j "x"
    let ths ← optFloats (← j.getObjVal? "ths")
    let bs ← floatList (← j.getObjVal? "betas")
    pure (Json.mkObj [("err", errJ (pwFunctionCheck ths bs.length)), ("value", fbits (pwFunction x ths bs))])
  | "boxcox" =>
    let x ← getFloat j "x"
    let l ← getFloat j "l"
    let branch := if x == 0.0 then "zero" else if closeToZero l then "series" else "regular"
    pure (Json.mkObj [("value", fbits (boxcox x l)), ("branch", jStr branch)])
  | "dist" =>
    let name ← getStr j "name"
    let a ← floatList (← j.getObjVal? "args")
    match name, a with
    | "normalpdf", [x, mu, s] => pure (Json.mkObj [("value", fbits (normalpdf x mu s))])
    | "lognormalpdf", [x, mu, s] => pure (Json.mkObj [("value", fbits (lognormalpdf x mu s))])
    | "uniformpdf", [x, a, b] => pure (Json.mkObj [("value", fbits (uniformpdf x a b))])
    | "triangularpdf", [x, a, b, c] => pure (Json.mkObj [("value", fbits (triangularpdf x a b c))])
    | "logisticcdf", [x, mu, s] => pure (Json.mkObj [("value", fbits (logisticcdf x mu s))])
    | "loglikreg", [y, m, s] => pure (Json.mkObj [("value", fbits (loglikReg y m s))])
    | "likreg", [y, m, s] => pure (Json.mkObj [("value", fbits (likReg y m s))])
    | _, _ => throw "bad-op"
  | "seg" =>
    let beta ← getStr j "beta"
    let specs ← (← getArr j "specs").toList.mapM parseSpec
    let params ← pairsF (← j.getObjVal? "params")
    let row ← pairsF (← j.getObjVal? "row")
    let v := segmentedBeta beta specs (lookupF params) (lookupF row)
    let code := segmentedCode beta specs
    let cv : Json := match evalCode code (lookupF params) (lookupF row) with
      | some x => fbits x
      | none => Json.null
    let init ← getStr j "init"
    let lb ← getStr j "lb"
    let ub ← getStr j "ub"
    let status ← getStr j "status"
    let pref ← getStr j "prefix"
    pure (Json.mkObj [("valid", jBool (specs.all SegSpec.valid)), ("value", fbits v), ("code_value", cv),
                      ("code", jStr (renderCode beta init lb ub status pref specs))])
  | "dist_check" =>
    -- does the helper raise ValueError for these literal parameters?
    let name ← getStr j "name"
    let a ← floatList (← j.getObjVal? "args")
    match name, a with
    | "normalpdf", [_, s] | "logisticcdf", [_, s] | "lognormalpdf", [_, s] => pure (Json.mkObj [("raises", jBool (scaleCheck s))])
    | "lognormalpdf_arg", [x, _, s] => pure (Json.mkObj [("raises", jBool (argCheck x || scaleCheck s))])
    | "uniformpdf", [a, b] => pure (Json.mkObj [("raises", jBool (uniformCheck a b))])
    | "triangularpdf", [a, b, c] => pure (Json.mkObj [("raises", jBool (triCheck a b c))])
    | _, _ => throw "bad-op"
  | "tree" => treeOp j
  | "corr" =>
    let mu ← getFloat j "mu"
    let cs ← intList (← j.getObjVal? "choice_set")
    let nests ← (← getArr j "nests").toList.mapM parseNest
    pure (Json.mkObj [("matrix", jMat (corrMatrix mu cs nests))])
  | _ => throw "bad-op"

def main : IO Unit := Drv.run handle
