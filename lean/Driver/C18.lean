import Driver.Common
import Model.Mdcev
import Model.MdcevExt
open Lean Drv Mdcev

def parseVariant (s : String) : Except String Variant :=
  match s with
  | "translated" => pure .translated
  | "gamma_profile" => pure .gammaProfile
  | "generalized" => pure .generalized
  | "non_monotonic" => pure .nonMonotonic
  | _ => throw "bad-op"

def optFloatField (j : Json) (k : String) : Except String (Option Float) :=
  match j.getObjVal? k with
  | .ok Json.null => pure none
  | .ok v => do pure (some (← asFloat v))
  | .error _ => throw "bad-op"

def parseAlt (j : Json) : Except String (Alt Float) := do
  pure { label := (← getInt j "label"), psi := (← getFloat j "psi"), gamma := (← optFloatField j "gamma"),
         alpha := (← getFloat j "alpha"), price := (← getFloat j "price"), mu := (← getFloat j "mu"),
         eps := (← getFloat j "eps") }

def parseAlts (j : Json) : Except String (List (Alt Float)) := do
  (← getArr j "alts").toList.mapM parseAlt

/-- an expression as its parameter slots `[[name, bits], …]` -/
def parsePExpr (j : Json) : Except String (PExpr Float) := do
  (← asArr j).toList.mapM fun nv => do
    let a ← asArr nv
    match a.toList with
    | [n, b] => pure ((← asStr n), (← asFloat b))
    | _ => throw "bad-op"

def parseOptPExpr (j : Json) : Except String (Option (PExpr Float)) :=
  match j with
  | Json.null => pure none
  | v => do pure (some (← parsePExpr v))

/-- `[[label, expr], …]` -/
def parseLabelled (j : Json) : Except String (List (Int × PExpr Float)) := do
  (← asArr j).toList.mapM fun ke => do
    let a ← asArr ke
    match a.toList with
    | [k, e] => pure ((← asInt k), (← parsePExpr e))
    | _ => throw "bad-op"

def parseLabelledOpt (j : Json) : Except String (List (Int × Option (PExpr Float))) := do
  (← asArr j).toList.mapM fun ke => do
    let a ← asArr ke
    match a.toList with
    | [k, e] => pure ((← asInt k), (← parseOptPExpr e))
    | _ => throw "bad-op"

def optField (j : Json) (k : String) : Except String (Option Json) :=
  match j.getObjVal? k with
  | .ok Json.null => pure none
  | .ok v => pure (some v)
  | .error _ => throw "bad-op"

def jPExpr (e : PExpr Float) : Json := jArr (e.map fun nv => jArr [jStr nv.1, fbits nv.2])

def handle (j : Json) : Except String Json := do
  let op ← getStr j "op"
  let v ← parseVariant (← getStr j "variant")
  let scale ← optFloatField j "scale"
  match op with
  | "pieces" =>
    let a ← parseAlt (← j.getObjVal? "alt")
    let xs ← floatList (← j.getObjVal? "xs")
    let lams ← floatList (← j.getObjVal? "lams")
    pure (Json.mkObj [("U", jFloats (xs.map (U v scale a))), ("dU", jFloats (xs.map (dU v scale a))),
                      ("inv", jFloats (lams.map (inv v scale a))),
                      ("dU_inv", jFloats (lams.map fun l => dU v scale a (inv v scale a l)))])
  | "ident" =>
    let alts ← parseAlts j
    let budget ← getFloat j "budget"
    let id := identifyChosen v scale budget alts
    pure (Json.mkObj [("chosen", jInts (id.chosen.map (·.label))), ("lo", fbits id.lo), ("hi", fbits id.hi)])
  | "forecast" =>
    let alts ← parseAlts j
    let budget ← getFloat j "budget"
    let tolD ← getFloat j "tol_dual"
    let tolB ← getFloat j "tol_budget"
    match forecast v scale budget tolD tolB alts with
    | .ok f => pure (Json.mkObj [("chosen", jInts f.chosen), ("lam", fbits f.lam),
        ("x", jArr (f.x.map fun p => jArr [jInt p.1, fbits p.2]))])
    | .error e => pure (Json.mkObj [("err", jStr (reprStr e))])
  | "kkt" =>
    -- the relation of the theorems on a real output `xs` (by position, order of `alts`)
    let alts ← parseAlts j
    let budget ← getFloat j "budget"
    let xs ← floatList (← j.getObjVal? "xs")
    let tolB ← getFloat j "tol_budget"
    let tolM ← getFloat j "tol_marginal"
    let ax := alts.zip xs
    -- multiplier: marginal utility of the first consumed good
    let lam := match ax.find? (fun p => decide (0.0 < p.2)) with
      | some p => dU v scale p.1 p.2
      | none => 0.0 / 0.0
    let marg := ax.map fun p => dU v scale p.1 (if decide (0.0 < p.2) then p.2 else 0.0)
    let brute : Json ← match j.getObjVal? "brute" with
      | .ok Json.null => pure Json.null
      | .ok b => do pure (fbits (sumUtilities v scale alts (← floatList b)))
      | .error _ => throw "bad-op"
    pure (Json.mkObj [("kkt", jBool (kktB v scale budget tolB tolM alts xs lam)), ("lam", fbits lam),
      ("marginal", jFloats marg), ("objective", fbits (sumUtilities v scale alts xs)), ("objective_brute", brute)])
  | "symbolic" =>
    -- the formula of `utility_expression_one_alternative` on the values of the sub-expressions
    let a ← parseAlt (← j.getObjVal? "alt")
    let xs ← floatList (← j.getObjVal? "xs")
    pure (Json.mkObj [("sym", jFloats (xs.map (symbolicU v scale a))), ("U", jFloats (xs.map (U v scale a)))])
  | "update" =>
    -- `_update_parameters_in_expressions`: the expressions a forecast reads, after the update
    let betas ← parsePExpr (← j.getObjVal? "betas")
    let m : Params Float := {
      variant := v
      baseline := (← parseLabelled (← j.getObjVal? "baseline"))
      gamma := (← parseLabelledOpt (← j.getObjVal? "gamma"))
      alpha := (← (← optField j "alpha").mapM parseLabelled)
      scale := (← (← optField j "scale_expr").mapM parsePExpr)
      weights := (← (← optField j "weights").mapM parsePExpr)
      mu := (← parseLabelled (← j.getObjVal? "mu"))
      prices := (← (← optField j "prices").mapM parseLabelled) }
    pure (Json.mkObj [("exprs", jArr ((forecastExprs (updateModel betas m)).map jPExpr))])
  | "gamma_report" =>
    let gs ← (← getArr j "gammas").toList.mapM fun g => match g with
      | Json.null => pure (none : Option Float)
      | x => do pure (some (← asFloat x))
    pure (Json.mkObj [("report", jNat (gammaReport gs))])
  | _ => throw "bad-op"

def main : IO Unit := Drv.run handle
