import Driver.Common
import Model.Sampling
import Model.SamplingFrames
import Model.SamplingCnl
open Lean Drv Sampling

def closeF (a b : Float) : Bool :=
  let m := if a.abs < b.abs then b.abs else a.abs
  let m := if m < 1.0 then 1.0 else m
  decide ((a - b).abs ≤ 1e-12 * m)

def intMat (j : Json) : Except String (List (List Int)) := do
  let a ← asArr j
  a.toList.mapM intList

def parseStrata (j : Json) : Except String (List Stratum) := do
  let segs ← intMat (← j.getObjVal? "segments")
  let sizes ← intList (← j.getObjVal? "sizes")
  pure (mkStrata segs sizes)

/-- rows `[[id, bits]]` -/
def parseRows (j : Json) : Except String (List (Int × Float)) := do
  let a ← asArr j
  a.toList.mapM fun e => do
    let p ← asArr e
    match p.toList with
    | [i, b] => pure ((← asInt i), (← asFloat b))
    | _ => throw "bad-op"

def jRows (l : List (Int × Float)) : Json := jArr (l.map fun r => jArr [jInt r.1, fbits r.2])
def jOptRows (l : List (Int × Option Float)) : Json :=
  jArr (l.map fun r => jArr [jInt r.1, match r.2 with | some v => fbits v | none => Json.null])

partial def parseFormula (j : Json) : Except String (Formula Float) := do
  let a ← asArr j
  match a.toList with
  | [t, x] =>
    match (← asStr t) with
    | "c" => pure (.const (← asFloat x))
    | "v" => pure (.var (← asStr x))
    | "neg" => pure (.neg (← parseFormula x))
    | "exp" => pure (.exp (← parseFormula x))
    | "log" => pure (.log (← parseFormula x))
    | _ => throw "bad-op"
  | [t, x, y] =>
    let fx ← parseFormula x
    let fy ← parseFormula y
    match (← asStr t) with
    | "+" => pure (.add fx fy)
    | "-" => pure (.sub fx fy)
    | "*" => pure (.mul fx fy)
    | "/" => pure (.div fx fy)
    | _ => throw "bad-op"
  | _ => throw "bad-op"

def parseNamed (j : Json) : Except String (List (String × Float)) := do
  let a ← asArr j
  a.toList.mapM fun e => do
    let p ← asArr e
    match p.toList with
    | [n, b] => pure ((← asStr n), (← asFloat b))
    | _ => throw "bad-op"

def jNamed (l : List (String × Float)) : Json := jArr (l.map fun r => jArr [jStr r.1, fbits r.2])

def parseCombined (j : Json) : Except String (List (String × Formula Float)) := do
  let a ← asArr j
  a.toList.mapM fun e => do
    let p ← asArr e
    match p.toList with
    | [n, f] => pure ((← asStr n), (← parseFormula f))
    | _ => throw "bad-op"

def optFloat : Option Float → Json
  | some v => fbits v
  | none => Json.null

/-- nests `[[mu bits, [alternatives]]]` -/
def parseNests (j : Json) : Except String (List (Nest Float)) := do
  let a ← asArr j
  a.toList.mapM fun e => do
    let p ← asArr e
    match p.toList with
    | [m, l] => pure ⟨(← asFloat m), (← intList l)⟩
    | _ => throw "bad-op"

/-- labelled frame `[[label, [bits]]]`, labels natural numbers -/
def parseLFrame (j : Json) : Except String (List (Nat × List Float)) := do
  let a ← asArr j
  a.toList.mapM fun e => do
    let p ← asArr e
    match p.toList with
    | [l, r] => pure ((← asNat l), (← floatList r))
    | _ => throw "bad-op"

def parseDrawn (j : Json) : Except String (Drawn Nat Float) := do
  pure ⟨(← strList (← j.getObjVal? "cols")), (← parseLFrame (← j.getObjVal? "main")),
        (← strList (← j.getObjVal? "mev_cols")), (← parseLFrame (← j.getObjVal? "mev"))⟩

/-- individuals `[[label, [[name, bits]]]]`, labels as text -/
def parseInds (j : Json) : Except String (List (String × List (String × Float))) := do
  let a ← asArr j
  a.toList.mapM fun e => do
    let p ← asArr e
    match p.toList with
    | [l, r] => pure ((← asStr l), (← parseNamed r))
    | _ => throw "bad-op"

def jTable (t : List (String × List (String × Float))) : Json :=
  jArr (t.map fun r => jArr [jStr r.1, jNamed r.2])

/-- table of alternatives `[[label, id, [bits]]]` -/
def parseAlts (j : Json) : Except String (List (String × Int × List Float)) := do
  let a ← asArr j
  a.toList.mapM fun e => do
    let p ← asArr e
    match p.toList with
    | [l, i, r] => pure ((← asStr l), (← asInt i), (← floatList r))
    | _ => throw "bad-op"

/-- cross-nested nests `[[mu bits, name, [[alternative, alpha bits]]]]` -/
def parseCnlNests (j : Json) : Except String (List (CnlNest Float)) := do
  let a ← asArr j
  a.toList.mapM fun e => do
    let p ← asArr e
    match p.toList with
    | [m, n, al] =>
      let alphas ← (← asArr al).toList.mapM fun x => do
        let q ← asArr x
        match q.toList with
        | [i, b] => pure ((← asInt i), (← asFloat b))
        | _ => throw "bad-op"
      pure ⟨(← asFloat m), (← asStr n), alphas⟩
    | _ => throw "bad-op"

def handle (j : Json) : Except String Json := do
  let op ← getStr j "op"
  match op with
  | "partition" =>
    let segs ← intMat (← j.getObjVal? "segments")
    let full : Option (List Int) ←
      match j.getObjVal? "full" with
      | .ok Json.null => pure none
      | .ok v => do pure (some (← intList v))
      | .error _ => throw "bad-op"
    match partitionCheck segs full with
    | .ok () => pure (Json.mkObj [("ok", jBool true)])
    | .error e => pure (Json.mkObj [("ok", jBool false), ("err", jStr (reprStr e))])
  | "context" =>
    let alts ← intList (← j.getObjVal? "alts")
    let strata ← parseStrata j
    match checkPartition alts strata with
    | .ok () => pure (Json.mkObj [("ok", jBool true), ("strata", jNat strata.length)])
    | .error e => pure (Json.mkObj [("ok", jBool false), ("err", jStr (reprStr e))])
  | "sample" =>
    let alts ← intList (← j.getObjVal? "alts")
    let strata ← parseStrata j
    let chosen ← getInt j "chosen"
    let picks ← intMat (← j.getObjVal? "picks")
    let rows ← parseRows (← j.getObjVal? "rows")
    let model : Json := match sampleAlternatives (α := Float) alts strata chosen picks with
      | .ok r => jOptRows r
      | .error e => jStr (reprStr e)
    pure (Json.mkObj [("model", model),
      ("picks_ok", jBool (picksOK chosen strata picks)),
      ("protocol", jBool (protocolB closeF strata chosen rows))])
  | "mev" =>
    let strata ← parseStrata j
    let picks ← intMat (← j.getObjVal? "picks")
    let rows ← parseRows (← j.getObjVal? "rows")
    pure (Json.mkObj [("model", jRows (sampleMev (α := Float) strata picks)),
      ("picks_ok", jBool (mevPicksOK strata picks)),
      ("protocol", jBool (mevProtocolB closeF strata rows))])
  | "flatten" =>
    let ind ← parseNamed (← j.getObjVal? "ind")
    let cols ← strList (← j.getObjVal? "cols")
    let rows ← floatMat (← j.getObjVal? "rows")
    let mcols ← strList (← j.getObjVal? "mev_cols")
    let mrows ← floatMat (← j.getObjVal? "mev_rows")
    pure (Json.mkObj [("row", jNamed (flattenRow ind cols rows mcols mrows))])
  | "define" =>
    let row ← parseNamed (← j.getObjVal? "row")
    let altCols ← strList (← j.getObjVal? "alt_cols")
    let J ← getNat j "J"
    let J2 : Option Nat ←
      match j.getObjVal? "J2" with
      | .ok Json.null => pure none
      | .ok v => do pure (some (← asNat v))
      | .error _ => throw "bad-op"
    let comb ← parseCombined (← j.getObjVal? "combined")
    match defineVars altCols J J2 comb row with
    | some r => pure (Json.mkObj [("row", jNamed r)])
    | none => pure (Json.mkObj [("row", Json.null)])
  | "loglik" =>
    let row ← parseNamed (← j.getObjVal? "row")
    let attrs ← strList (← j.getObjVal? "attributes")
    let u ← parseFormula (← j.getObjVal? "utility")
    let J ← getNat j "J"
    pure (Json.mkObj [("ll", optFloat (sampledLL attrs u J row)),
      ("V", match correctedUtils attrs u J row with | some l => jFloats l | none => Json.null)])
  | "fullll" =>
    let ind ← parseNamed (← j.getObjVal? "ind")
    let altCols ← strList (← j.getObjVal? "alt_cols")
    let ids ← intList (← j.getObjVal? "ids")
    let altRows ← floatMat (← j.getObjVal? "alt_rows")
    let comb ← parseCombined (← j.getObjVal? "combined")
    let u ← parseFormula (← j.getObjVal? "utility")
    let chosen ← getInt j "chosen"
    let us := altRows.map fun r => altUtility ind altCols r comb u
    if us.any Option.isNone || ids.length != altRows.length then
      pure (Json.mkObj [("ll", Json.null)])
    else
      let tbl := ids.zip (us.map fun o => o.getD 0.0)
      let U : Int → Float := fun a => (tbl.lookup a).getD (0.0 / 0.0)
      pure (Json.mkObj [("ll", fbits (fullLL U ids chosen)), ("U", jFloats (tbl.map (·.2)))])
  | "nestedll" =>
    let row ← parseNamed (← j.getObjVal? "row")
    let attrs ← strList (← j.getObjVal? "attributes")
    let u ← parseFormula (← j.getObjVal? "utility")
    let J ← getNat j "J"
    let J2 : Option Nat ←
      match j.getObjVal? "J2" with
      | .ok Json.null => pure none
      | .ok v => do pure (some (← asNat v))
      | .error _ => throw "bad-op"
    let idCol ← getStr j "id_col"
    let nests ← parseNests (← j.getObjVal? "nests")
    pure (Json.mkObj [("ll", optFloat (nestedSampledLL attrs u idCol J J2 nests row))])
  | "fullnestedll" =>
    let ind ← parseNamed (← j.getObjVal? "ind")
    let altCols ← strList (← j.getObjVal? "alt_cols")
    let ids ← intList (← j.getObjVal? "ids")
    let altRows ← floatMat (← j.getObjVal? "alt_rows")
    let comb ← parseCombined (← j.getObjVal? "combined")
    let u ← parseFormula (← j.getObjVal? "utility")
    let chosen ← getInt j "chosen"
    let nests ← parseNests (← j.getObjVal? "nests")
    let us := altRows.map fun r => altUtility ind altCols r comb u
    if us.any Option.isNone || ids.length != altRows.length then
      pure (Json.mkObj [("ll", Json.null)])
    else
      let tbl := ids.zip (us.map fun o => o.getD 0.0)
      let U : Int → Float := fun a => (tbl.lookup a).getD (0.0 / 0.0)
      pure (Json.mkObj [("ll", fbits (fullNestedLL U nests ids chosen))])
  | "cnlll" =>
    let row ← parseNamed (← j.getObjVal? "row")
    let attrs ← strList (← j.getObjVal? "attributes")
    let u ← parseFormula (← j.getObjVal? "utility")
    let J ← getNat j "J"
    let J2 : Option Nat ←
      match j.getObjVal? "J2" with
      | .ok Json.null => pure none
      | .ok v => do pure (some (← asNat v))
      | .error _ => throw "bad-op"
    let nests ← parseCnlNests (← j.getObjVal? "nests")
    pure (Json.mkObj [("ll", optFloat (cnlSampledLL attrs u J J2 (nests.map fun n => (n.mu, n.name)) row))])
  | "fullcnlll" =>
    let ind ← parseNamed (← j.getObjVal? "ind")
    let altCols ← strList (← j.getObjVal? "alt_cols")
    let ids ← intList (← j.getObjVal? "ids")
    let altRows ← floatMat (← j.getObjVal? "alt_rows")
    let comb ← parseCombined (← j.getObjVal? "combined")
    let u ← parseFormula (← j.getObjVal? "utility")
    let chosen ← getInt j "chosen"
    let nests ← parseCnlNests (← j.getObjVal? "nests")
    let us := altRows.map fun r => altUtility ind altCols r comb u
    if us.any Option.isNone || ids.length != altRows.length then
      pure (Json.mkObj [("ll", Json.null)])
    else
      let tbl := ids.zip (us.map fun o => o.getD 0.0)
      let U : Int → Float := fun a => (tbl.lookup a).getD (0.0 / 0.0)
      pure (Json.mkObj [("ll", fbits (fullCnlLL U nests ids chosen))])
  | "mergetable" =>
    let inds ← parseInds (← j.getObjVal? "inds")
    let drawn ← (← asArr (← j.getObjVal? "drawn")).toList.mapM parseDrawn
    let altCols ← strList (← j.getObjVal? "alt_cols")
    let J ← getNat j "J"
    let J2 : Option Nat ←
      match j.getObjVal? "J2" with
      | .ok Json.null => pure none
      | .ok v => do pure (some (← asNat v))
      | .error _ => throw "bad-op"
    let comb ← parseCombined (← j.getObjVal? "combined")
    pure (Json.mkObj [("base", jTable (applyRows inds drawn)),
      ("rows", match sampleAndMerge altCols J J2 comb inds drawn with
        | some t => jTable t
        | none => Json.null)])
  | "altrows" =>
    let alts ← parseAlts (← j.getObjVal? "alts")
    let ids ← intList (← j.getObjVal? "ids")
    pure (Json.mkObj [("rows", jArr ((rowsOfIds alts ids).map fun r => jArr [jInt r.2.1, jFloats r.2.2]))])
  | "segsize" =>
    match generateSegmentSize (← getInt j "n") (← getInt j "m") with
    | .ok l => pure (Json.mkObj [("ok", jInts l)])
    | .error e => pure (Json.mkObj [("err", jStr (reprStr e))])
  | _ => throw "bad-op"

def main : IO Unit := Drv.run handle
