import Driver.Common
import Model.Sampling
open Lean Drv Sampling

def closeF (a b : Float) : Bool :=
  let m := if a.abs < b.abs then b.abs else a.abs
  let m := if m < 1.0 then 1.0 else m
  decide ((a - b).abs ≤ 1e-12 * m)

def intMat (j : Json) : Except String (List (List Int)) := do
  let a ← asArr j
  a.toList.mapM intList

def parseStrata (j : Json) : Except String (List Stratum) := do
  let segs ← intMat (← j.getObjVal? "segments")
  let sizes ← intList (← j.getObjVal? "sizes")
  pure (mkStrata segs sizes)

/-- rows `[[id, bits]]` -/
def parseRows (j : Json) : Except String (List (Int × Float)) := do
  let a ← asArr j
  a.toList.mapM fun e => do
    let p ← asArr e
    match p.toList with
    | [i, b] => pure ((← asInt i), (← asFloat b))
    | _ => throw "bad-op"

def jRows (l : List (Int × Float)) : Json := jArr (l.map fun r => jArr [jInt r.1, fbits r.2])
def jOptRows (l : List (Int × Option Float)) : Json :=
  jArr (l.map fun r => jArr [jInt r.1, match r.2 with | some v => fbits v | none => Json.null])

partial def parseFormula (j : Json) : Except String (Formula Float) := do
  let a ← asArr j
  match a.toList with
  | [t, x] =>
    match (← asStr t) with
    | "c" => pure (.const (← asFloat x))
    | "v" => pure (.var (← asStr x))
    | "neg" => pure (.neg (← parseFormula x))
    | "exp" => pure (.exp (← parseFormula x))
    | "log" => pure (.log (← parseFormula x))
    | _ => throw "bad-op"
  | [t, x, y] =>
    let fx ← parseFormula x
    let fy ← parseFormula y
    match (← asStr t) with
    | "+" => pure (.add fx fy)
    | "-" => pure (.sub fx fy)
    | "*" => pure (.mul fx fy)
    | "/" => pure (.div fx fy)
    | _ => throw "bad-op"
  | _ => throw "bad-op"

def parseNamed (j : Json) : Except String (List (String × Float)) := do
  let a ← asArr j
  a.toList.mapM fun e => do
    let p ← asArr e
    match p.toList with
    | [n, b] => pure ((← asStr n), (← asFloat b))
    | _ => throw "bad-op"

def jNamed (l : List (String × Float)) : Json := jArr (l.map fun r => jArr [jStr r.1, fbits r.2])

def parseCombined (j : Json) : Except String (List (String × Formula Float)) := do
  let a ← asArr j
  a.toList.mapM fun e => do
    let p ← asArr e
    match p.toList with
    | [n, f] => pure ((← asStr n), (← parseFormula f))
    | _ => throw "bad-op"

def optFloat : Option Float → Json
  | some v => fbits v
  | none => Json.null

/-- nests `[[mu bits, [alternatives]]]` -/
def parseNests (j : Json) : Except String (List (Nest Float)) := do
  let a ← asArr j
  a.toList.mapM fun e => do
    let p ← asArr e
    match p.toList with
    | [m, l] => pure ⟨(← asFloat m), (← intList l)⟩
    | _ => throw "bad-op"

def handle (j : Json) : Except String Json := do
  let op ← getStr j "op"
  match op with
  | "partition" =>
    let segs ← intMat (← j.getObjVal? "segments")
    let full : Option (List Int) ←
      match j.getObjVal? "full" with
      | .ok Json.null => pure none
      | .ok v => do pure (some (← intList v))
      | .error _ => throw "bad-op"
    match partitionCheck segs full with
    | .ok () => pure (Json.mkObj [("ok", jBool true)])
    | .error e => pure (Json.mkObj [("ok", jBool false), ("err", jStr (reprStr e))])
  | "context" =>
    let alts ← intList (← j.getObjVal? "alts")
    let strata ← parseStrata j
    match checkPartition alts strata with
    | .ok () => pure (Json.mkObj [("ok", jBool true), ("strata", jNat strata.length)])
    | .error e => pure (Json.mkObj [("ok", jBool false), ("err", jStr (reprStr e))])
  | "sample" =>
    let alts ← intList (← j.getObjVal? "alts")
    let strata ← parseStrata j
    let chosen ← getInt j "chosen"
    let picks ← intMat (← j.getObjVal? "picks")
    let rows ← parseRows (← j.getObjVal? "rows")
    let model : Json := match sampleAlternatives (α := Float) alts strata chosen picks with
      | .ok r => jOptRows r
      | .error e => jStr (reprStr e)
    pure (Json.mkObj [("model", model),
      ("picks_ok", jBool (picksOK chosen strata picks)),
      ("protocol", jBool (protocolB closeF strata chosen rows))])
  | "mev" =>
    let strata ← parseStrata j
    let picks ← intMat (← j.getObjVal? "picks")
    let rows ← parseRows (← j.getObjVal? "rows")
    pure (Json.mkObj [("model", jRows (sampleMev (α := Float) strata picks)),
      ("picks_ok", jBool (mevPicksOK strata picks)),
      ("protocol", jBool (mevProtocolB closeF strata rows))])
  | "flatten" =>
    let ind ← parseNamed (← j.getObjVal? "ind")
    let cols ← strList (← j.getObjVal? "cols")
    let rows ← floatMat (← j.getObjVal? "rows")
    let mcols ← strList (← j.getObjVal? "mev_cols")
    let mrows ← floatMat (← j.getObjVal? "mev_rows")
    pure (Json.mkObj [("row", jNamed (flattenRow ind cols rows mcols mrows))])
  | "define" =>
    let row ← parseNamed (← j.getObjVal? "row")
    let altCols ← strList (← j.getObjVal? "alt_cols")
    let J ← getNat j "J"
    let J2 : Option Nat ←
      match j.getObjVal? "J2" with
      | .ok Json.null => pure none
      | .ok v => do pure (some (← asNat v))
      | .error _ => throw "bad-op"
    let comb ← parseCombined (← j.getObjVal? "combined")
    match defineVars altCols J J2 comb row with
    | some r => pure (Json.mkObj [("row", jNamed r)])
    | none => pure (Json.mkObj [("row", Json.null)])
  | "loglik" =>
    let row ← parseNamed (← j.getObjVal? "row")
    let attrs ← strList (← j.getObjVal? "attributes")
    let u ← parseFormula (← j.getObjVal? "utility")
    let J ← getNat j "J"
    pure (Json.mkObj [("ll", optFloat (sampledLL attrs u J row)),
      ("V", match correctedUtils attrs u J row with | some l => jFloats l | none => Json.null)])
  | "fullll" =>
    let ind ← parseNamed (← j.getObjVal? "ind")
    let altCols ← strList (← j.getObjVal? "alt_cols")
    let ids ← intList (← j.getObjVal? "ids")
    let altRows ← floatMat (← j.getObjVal? "alt_rows")
    let comb ← parseCombined (← j.getObjVal? "combined")
    let u ← parseFormula (← j.getObjVal? "utility")
    let chosen ← getInt j "chosen"
    let us := altRows.map fun r => altUtility ind altCols r comb u
    if us.any Option.isNone || ids.length != altRows.length then
      pure (Json.mkObj [("ll", Json.null)])
    else
      let tbl := ids.zip (us.map fun o => o.getD 0.0)
      let U : Int → Float := fun a => (tbl.lookup a).getD (0.0 / 0.0)
      pure (Json.mkObj [("ll", fbits (fullLL U ids chosen)), ("U", jFloats (tbl.map (·.2)))])
  | "nestedll" =>
    let row ← parseNamed (← j.getObjVal? "row")
    let attrs ← strList (← j.getObjVal? "attributes")
    let u ← parseFormula (← j.getObjVal? "utility")
    let J ← getNat j "J"
    let J2 : Option Nat ←
      match j.getObjVal? "J2" with
      | .ok Json.null => pure none
      | .ok v => do pure (some (← asNat v))
      | .error _ => throw "bad-op"
    let idCol ← getStr j "id_col"
    let nests ← parseNests (← j.getObjVal? "nests")
    pure (Json.mkObj [("ll", optFloat (nestedSampledLL attrs u idCol J J2 nests row))])
  | "fullnestedll" =>
    let ind ← parseNamed (← j.getObjVal? "ind")
    let altCols ← strList (← j.getObjVal? "alt_cols")
    let ids ← intList (← j.getObjVal? "ids")
    let altRows ← floatMat (← j.getObjVal? "alt_rows")
    let comb ← parseCombined (← j.getObjVal? "combined")
    let u ← parseFormula (← j.getObjVal? "utility")
    let chosen ← getInt j "chosen"
    let nests ← parseNests (← j.getObjVal? "nests")
    let us := altRows.map fun r => altUtility ind altCols r comb u
    if us.any Option.isNone || ids.length != altRows.length then
      pure (Json.mkObj [("ll", Json.null)])
    else
      let tbl := ids.zip (us.map fun o => o.getD 0.0)
      let U : Int → Float := fun a => (tbl.lookup a).getD (0.0 / 0.0)
      pure (Json.mkObj [("ll", fbits (fullNestedLL U nests ids chosen))])
  | _ => throw "bad-op"

def main : IO Unit := Drv.run handle
