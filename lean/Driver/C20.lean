import Driver.Common
import Model.Dispatch
import Model.DeprecWorld
open Lean Drv Disp

def pairNat (j : Json) : Except String (Nat × Nat) := do
  match (← natList j) with
  | [a, b] => pure (a, b)
  | _ => throw "bad-op"

def clsOf (j : Json) : Except String Cls := do
  let id ← getNat j "id"
  let mro ← natList (← j.getObjVal? "mro")
  let d ← (← getArr j "dict").toList.mapM pairNat
  pure ⟨id, mro, d⟩

def jOptNat : Option Nat → Json
  | none => Json.null
  | some n => jNat n

def optNatOf (j : Json) : Except String (Option Nat) :=
  match j with
  | Json.null => pure none
  | v => do pure (some (← asNat v))

def actionOf (s : String) : Except String Action :=
  match s with
  | "error" => pure .error
  | "ignore" => pure .ignore
  | "always" => pure .always
  | "default" => pure .default
  | "module" => pure .module
  | "once" => pure .once
  | _ => throw "bad-op"

def filterOf (j : Json) : Except String WFilter := do
  let a ← asArr j
  match a.toList with
  | [x, y] => pure ⟨(← actionOf (← asStr x)), (← asBool y)⟩
  | _ => throw "bad-op"

def actionName : Action → String
  | .error => "error" | .ignore => "ignore" | .always => "always"
  | .default => "default" | .module => "module" | .once => "once"

def jFilters (fs : List WFilter) : Json := jArr (fs.map fun f => jArr [jStr (actionName f.action), jBool f.matching])

/-- outcome of one call in the world model: what ran / what was raised -/
def jRes : Res Unit Nat → Json × World Unit
  | .returned i w => (Json.mkObj [("impl", jNat i), ("raised", Json.null)], w)
  | .raised e w =>
    let k := match e with
      | .deprecationWarning _ => "DeprecationWarning"
      | .biogemeDeprecated => "BiogemeError"
      | .attributeError => "AttributeError"
      | .typeError => "TypeError"
      | .other _ => "other"
    (Json.mkObj [("impl", Json.null), ("raised", jStr k)], w)

def handle (j : Json) : Except String Json := do
  let op ← getStr j "op"
  match op with
  | "call" =>
    let H ← (← getArr j "classes").toList.mapM clsOf
    let c ← getNat j "c"
    let n ← getNat j "new"
    let cap ← getNat j "captured"
    pure (Json.mkObj [
      ("found", jBool (foundInMro H c n cap)),
      ("alias", jOptNat (aliasCall H c n cap)),
      ("old_semantics", jOptNat (aliasCaptured H c n cap)),
      ("new", jOptNat (callNew H c n)),
      ("no_receiver", jOptNat (aliasCallNoReceiver cap))])
  | "rename" =>
    let m ← (← getArr j "map").toList.mapM fun e => do
      let a ← asArr e
      match a.toList with
      | [o, n] => pure ((← asNat o), (← optNatOf n))
      | _ => throw "bad-op"
    let kw ← (← getArr j "kw").toList.mapM fun e => do
      let a ← asArr e
      match a.toList with
      | [k, v] => pure ((← asNat k), (← asStr v))
      | _ => throw "bad-op"
    let (out, w) := renameKwargs m kw
    pure (Json.mkObj [("kw", jArr (out.map fun (k, v) => jArr [jNat k, jStr v])), ("warnings", jNat w)])
  | "world" =>
    -- `n` successive calls of the alias (or of the new name) from the same place, in a process
    -- with the given warning filters; every function object returns its own identity
    let H ← (← getArr j "classes").toList.mapM clsOf
    let c ← getNat j "c"
    let nm ← getNat j "new"
    let cap ← getNat j "captured"
    let fs ← (← getArr j "filters").toList.mapM filterOf
    let dflt ← actionOf (← getStr j "default")
    let reg ← natList (← j.getObjVal? "registry")
    let n ← getNat j "n"
    let recv ← getBool j "receiver"
    let raiseFlag ← getBool j "raise_flag"
    let side ← getStr j "side"
    let sem : ImplId → Unit → World Unit → Res Unit Nat := fun i _ w => .returned i w
    let step (w : World Unit) : Json × World Unit :=
      if side == "new" then jRes (runNew sem H c nm () w)
      else if recv then jRes (runAlias raiseFlag sem H c nm cap 5 () w)
      else jRes (runAliasNoReceiver raiseFlag sem cap 5 () w)
    let rec loop (k : Nat) (w : World Unit) (acc : List Json) : List Json × World Unit :=
      match k with
      | 0 => (acc.reverse, w)
      | k + 1 => let (o, w') := step w; loop k w' (o :: acc)
    let (outs, w') := loop n ⟨fs, dflt, reg, [], ()⟩ []
    pure (Json.mkObj [("calls", jArr outs), ("shown", jNat w'.shown.length), ("filters", jFilters w'.filters),
                      ("filters_unchanged", jBool (w'.filters == fs)), ("registered", jBool (w'.registry.contains 5))])
  | "kwworld" =>
    let m ← (← getArr j "map").toList.mapM fun e => do
      let a ← asArr e
      match a.toList with
      | [o, n] => pure ((← asNat o), (← optNatOf n))
      | _ => throw "bad-op"
    let kw ← (← getArr j "kw").toList.mapM fun e => do
      let a ← asArr e
      match a.toList with
      | [k, v] => pure ((← asNat k), (← asStr v))
      | _ => throw "bad-op"
    let fs ← (← getArr j "filters").toList.mapM filterOf
    let dflt ← actionOf (← getStr j "default")
    let f : List (NameId × String) → World Unit → Res Unit (List (NameId × String)) := fun k w => .returned k w
    match runKw m (fun k => 100 + k) f kw ⟨fs, dflt, [], [], ()⟩ with
    | .returned k w => pure (Json.mkObj [("kw", jArr (k.map fun (a, v) => jArr [jNat a, jStr v])), ("raised", Json.null),
        ("shown", jNats (w.shown.map (· - 100))), ("filters_unchanged", jBool (w.filters == fs))])
    | .raised e w =>
      let bad := match e with | .deprecationWarning b => jNat (b - 100) | _ => Json.null
      pure (Json.mkObj [("kw", Json.null), ("raised", bad), ("shown", jNats (w.shown.map (· - 100))),
        ("filters_unchanged", jBool (w.filters == fs))])
  | "accepts" =>
    -- does the call (npos positional arguments after the receiver, keyword names) go through under the old / new name
    let H ← (← getArr j "classes").toList.mapM clsOf
    let c ← getNat j "c"
    let nm ← getNat j "new"
    let cap ← getNat j "captured"
    let sigs ← (← getArr j "sigs").toList.mapM fun e => do
      let ps ← (← getArr e "params").toList.mapM fun q => do
        let a ← asArr q
        match a.toList with
        | [n, d] => pure ((← asNat n), (← asBool d))
        | _ => throw "bad-op"
      pure ((← getNat e "impl"), (⟨ps, (← getBool e "var_pos"), (← getBool e "var_kw")⟩ : Sig))
    let sigOf : ImplId → Sig := fun i => match sigs.find? (·.1 == i) with
      | some p => p.2
      | none => ⟨[], true, true⟩
    let npos ← getNat j "npos"
    let kws ← natList (← j.getObjVal? "kws")
    pure (Json.mkObj [("alias", jBool (aliasAccepts sigOf H c nm cap npos kws)), ("new", jBool (newAccepts sigOf H c nm npos kws))])
  | "slot" =>
    -- the table predicates on a given hierarchy and alias definition
    let H ← (← getArr j "classes").toList.mapM clsOf
    let a ← natList (← j.getObjVal? "alias")
    let isModule ← getBool j "module"
    let isStatic ← getBool j "static"
    match a with
    | [owner, oldN, wrapper, newN, capN, cap] =>
      let al : Alias := ⟨owner, oldN, wrapper, newN, capN, cap, isModule, isStatic⟩
      pure (Json.mkObj [
        ("def_ok", jBool (aliasDefOK H al)),
        ("exposed_by", jNats ((H.filter fun c => exposes H c al).map (·.id))),
        ("slots_ok", jNats ((H.filter fun c => exposes H c al && slotOK H c al).map (·.id))),
        ("check", jBool (checkAliases H [al] []))])
    | _ => throw "bad-op"
  | "legacy" =>
    let o ← getStr j "old"
    let n ← getStr j "new"
    pure (Json.mkObj [("norm_old", jStr (String.ofList (normName o.toList))),
                      ("norm_new", jStr (String.ofList (normName n.toList))),
                      ("ok", jBool (legacyOK [(0, o.toList), (1, n.toList)] [] ⟨0, 0, 0, 1, 1, 0, false, false⟩))])
  | _ => throw "bad-op"

def main : IO Unit := Drv.run handle
