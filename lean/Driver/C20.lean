import Driver.Common
import Model.Dispatch
open Lean Drv Disp

def pairNat (j : Json) : Except String (Nat × Nat) := do
  match (← natList j) with
  | [a, b] => pure (a, b)
  | _ => throw "bad-op"

def clsOf (j : Json) : Except String Cls := do
  let id ← getNat j "id"
  let mro ← natList (← j.getObjVal? "mro")
  let d ← (← getArr j "dict").toList.mapM pairNat
  pure ⟨id, mro, d⟩

def jOptNat : Option Nat → Json
  | none => Json.null
  | some n => jNat n

def optNatOf (j : Json) : Except String (Option Nat) :=
  match j with
  | Json.null => pure none
  | v => do pure (some (← asNat v))

def handle (j : Json) : Except String Json := do
  let op ← getStr j "op"
  match op with
  | "call" =>
    let H ← (← getArr j "classes").toList.mapM clsOf
    let c ← getNat j "c"
    let n ← getNat j "new"
    let cap ← getNat j "captured"
    pure (Json.mkObj [
      ("found", jBool (foundInMro H c n cap)),
      ("alias", jOptNat (aliasCall H c n cap)),
      ("old_semantics", jOptNat (aliasCaptured H c n cap)),
      ("new", jOptNat (callNew H c n)),
      ("no_receiver", jOptNat (aliasCallNoReceiver cap))])
  | "rename" =>
    let m ← (← getArr j "map").toList.mapM fun e => do
      let a ← asArr e
      match a.toList with
      | [o, n] => pure ((← asNat o), (← optNatOf n))
      | _ => throw "bad-op"
    let kw ← (← getArr j "kw").toList.mapM fun e => do
      let a ← asArr e
      match a.toList with
      | [k, v] => pure ((← asNat k), (← asStr v))
      | _ => throw "bad-op"
    let (out, w) := renameKwargs m kw
    pure (Json.mkObj [("kw", jArr (out.map fun (k, v) => jArr [jNat k, jStr v])), ("warnings", jNat w)])
  | "slot" =>
    -- the table predicates on a given hierarchy and alias definition
    let H ← (← getArr j "classes").toList.mapM clsOf
    let a ← natList (← j.getObjVal? "alias")
    let isModule ← getBool j "module"
    let isStatic ← getBool j "static"
    match a with
    | [owner, oldN, wrapper, newN, capN, cap] =>
      let al : Alias := ⟨owner, oldN, wrapper, newN, capN, cap, isModule, isStatic⟩
      pure (Json.mkObj [
        ("def_ok", jBool (aliasDefOK H al)),
        ("exposed_by", jNats ((H.filter fun c => exposes H c al).map (·.id))),
        ("slots_ok", jNats ((H.filter fun c => exposes H c al && slotOK H c al).map (·.id))),
        ("check", jBool (checkAliases H [al] []))])
    | _ => throw "bad-op"
  | "legacy" =>
    let o ← getStr j "old"
    let n ← getStr j "new"
    pure (Json.mkObj [("norm_old", jStr (String.ofList (normName o.toList))),
                      ("norm_new", jStr (String.ofList (normName n.toList))),
                      ("ok", jBool (legacyOK [(0, o.toList), (1, n.toList)] [] ⟨0, 0, 0, 1, 1, 0, false, false⟩))])
  | _ => throw "bad-op"

def main : IO Unit := Drv.run handle
