/-
Shared helpers for the JSON-lines drivers (one driver per property, run with
`lake env lean --run Driver/Cxx.lean`).  One JSON object per input line, one JSON
object per output line.  Doubles cross the boundary as their 64-bit pattern.
Unknown or malformed input yields {"error":"bad-op"}: the driver never defaults.
-/
import Lean.Data.Json
open Lean

namespace Drv

def fbits (f : Float) : Json := Json.num (JsonNumber.fromNat f.toBits.toNat)

def ofBits (n : Nat) : Float := Float.ofBits (UInt64.ofNat n)

def getNat (j : Json) (k : String) : Except String Nat := j.getObjValAs? Nat k
def getInt (j : Json) (k : String) : Except String Int := j.getObjValAs? Int k
def getStr (j : Json) (k : String) : Except String String := j.getObjValAs? String k
def getBool (j : Json) (k : String) : Except String Bool := j.getObjValAs? Bool k
def getArr (j : Json) (k : String) : Except String (Array Json) := j.getObjValAs? (Array Json) k
def getFloat (j : Json) (k : String) : Except String Float := do
  let n ← getNat j k
  pure (ofBits n)

def asNat (j : Json) : Except String Nat := fromJson? j
def asInt (j : Json) : Except String Int := fromJson? j
def asStr (j : Json) : Except String String := fromJson? j
def asBool (j : Json) : Except String Bool := fromJson? j
def asArr (j : Json) : Except String (Array Json) := fromJson? j
def asFloat (j : Json) : Except String Float := do
  let n ← asNat j
  pure (ofBits n)

def natList (j : Json) : Except String (List Nat) := do
  let a ← asArr j
  a.toList.mapM asNat
def intList (j : Json) : Except String (List Int) := do
  let a ← asArr j
  a.toList.mapM asInt
def strList (j : Json) : Except String (List String) := do
  let a ← asArr j
  a.toList.mapM asStr
def floatList (j : Json) : Except String (List Float) := do
  let a ← asArr j
  a.toList.mapM asFloat
def floatMat (j : Json) : Except String (List (List Float)) := do
  let a ← asArr j
  a.toList.mapM floatList

def jNat (n : Nat) : Json := Json.num (JsonNumber.fromNat n)
def jInt (n : Int) : Json := Json.num (JsonNumber.fromInt n)
def jStr (s : String) : Json := Json.str s
def jBool (b : Bool) : Json := Json.bool b
def jArr (l : List Json) : Json := Json.arr l.toArray
def jFloats (l : List Float) : Json := jArr (l.map fbits)
def jMat (m : List (List Float)) : Json := jArr (m.map jFloats)
def jNats (l : List Nat) : Json := jArr (l.map jNat)
def jInts (l : List Int) : Json := jArr (l.map jInt)
def jStrs (l : List String) : Json := jArr (l.map jStr)
def jOptStr : Option String → Json
  | none => Json.null
  | some s => jStr s

def errJson (msg : String) : Json := Json.mkObj [("error", Json.str msg)]

/-- Main loop: `handle` maps one parsed request to one response. -/
partial def loop (h : IO.FS.Stream) (handle : Json → Except String Json) : IO Unit := do
  let line ← h.getLine
  if line.isEmpty then return ()
  let out := match Json.parse line with
    | .error _ => errJson "bad-op"
    | .ok j => match handle j with
      | .ok r => r
      | .error e => errJson e
  IO.println out.compress
  (← IO.getStdout).flush
  loop h handle

def run (handle : Json → Except String Json) : IO Unit := do
  loop (← IO.getStdin) handle

end Drv
