/- JSON decoding of expression DAGs, id tables and environments: shared by the drivers of
C01, C03 and C12. -/
import Driver.Common
import Model.Expr
import Model.Engine
open Lean Drv Expr Engine

namespace DrvExpr

def kindOf : String → Except String Kind
  | "num" => pure .num | "beta" => pure .beta | "var" => pure .var
  | "plus" => pure .plus | "minus" => pure .minus | "times" => pure .times
  | "divide" => pure .divide | "power" => pure .power | "min" => pure .bmin | "max" => pure .bmax
  | "and" => pure .and | "or" => pure .or | "eq" => pure .eq | "ne" => pure .ne
  | "le" => pure .le | "ge" => pure .ge | "lt" => pure .lt | "gt" => pure .gt
  | "neg" => pure .neg | "exp" => pure .exp | "log" => pure .log | "logzero" => pure .logzero
  | "sin" => pure .sin | "cos" => pure .cos | "normalCdf" => pure .normalCdf
  | "powConst" => pure .powConst | "belongsTo" => pure .belongsTo | "elem" => pure .elem
  | "multSum" => pure .multSum | "condSum" => pure .condSum | "linUtil" => pure .linUtil
  | "logLogit" => pure .logLogit
  | _ => throw "bad-op"

def kindName : Kind → String
  | .num => "num" | .beta => "beta" | .var => "var" | .plus => "plus" | .minus => "minus"
  | .times => "times" | .divide => "divide" | .power => "power" | .bmin => "min" | .bmax => "max"
  | .and => "and" | .or => "or" | .eq => "eq" | .ne => "ne" | .le => "le" | .ge => "ge"
  | .lt => "lt" | .gt => "gt" | .neg => "neg" | .exp => "exp" | .log => "log"
  | .logzero => "logzero" | .sin => "sin" | .cos => "cos" | .normalCdf => "normalCdf"
  | .powConst => "powConst" | .belongsTo => "belongsTo" | .elem => "elem" | .multSum => "multSum"
  | .condSum => "condSum" | .linUtil => "linUtil" | .logLogit => "logLogit"

def optField (j : Json) (k : String) : Option Json :=
  match j.getObjVal? k with
  | .ok Json.null => none
  | .ok v => some v
  | .error _ => none

def parseNode (j : Json) : Except String (Node Float) := do
  let kind ← kindOf (← getStr j "k")
  let children ← match optField j "c" with
    | some v => natList v
    | none => pure []
  let name ← match optField j "name" with
    | some v => asStr v
    | none => pure ""
  let value ← match optField j "v" with
    | some v => asFloat v
    | none => pure 0.0
  let keys ← match optField j "keys" with
    | some v => intList v
    | none => pure []
  let members ← match optField j "members" with
    | some v => floatList v
    | none => pure []
  let fixed ← match optField j "fixed" with
    | some v => asBool v
    | none => pure false
  pure { kind, children, name, value, keys, members, fixed }

def parseDag (j : Json) : Except String (Dag Float) := do
  (← asArr j).toList.mapM parseNode

def lookupF (l : List (String × Float)) (n : String) : Float := (l.lookup n).getD (0.0 / 0.0)

def parsePairs (j : Json) : Except String (List (String × Float)) := do
  (← asArr j).toList.mapM fun e => do
    let a ← asArr e
    match a.toList with
    | [n, v] => pure (← asStr n, ← asFloat v)
    | _ => throw "bad-op"

/-- {"betas":[[name,bits]…], "row":[[name,bits]…]} -/
def parseEnv (j : Json) : Except String (Env Float) := do
  let bs ← parsePairs (← j.getObjVal? "betas")
  let rw ← parsePairs (← j.getObjVal? "row")
  pure { beta := lookupF bs, var := lookupF rw }

def parseTable (j : Json) : Except String (IdM.Table String) := do
  pure { free := ← strList (← j.getObjVal? "free"), fixed := ← strList (← j.getObjVal? "fixed"),
         rvs := [], draws := [], cols := ← strList (← j.getObjVal? "cols") }

def parseEE (j : Json) : Except String (EngEnv Float) := do
  pure { free := ← floatList (← j.getObjVal? "free"), fixed := ← floatList (← j.getObjVal? "fixed"),
         row := ← floatList (← j.getObjVal? "row") }

def errName : Err → String
  | .fuel => "fuel" | .dangling => "dangling" | .arity => "arity" | .keyMissing => "keyMissing"
  | .choiceMissing => "choiceMissing" | .unsupported => "unsupported" | .domain => "domain"
  | .missing => "missing"

def resJson : Res Float → Json
  | .ok v => Json.mkObj [("ok", fbits v)]
  | .error e => Json.mkObj [("err", jStr (errName e))]

def semOf : String → Except String (Sem Float)
  | "math" => pure semMath
  | "engine" => pure semEngine
  | "py" => pure semPy
  | _ => throw "bad-op"

def lineJson (l : SigLine Float) : Json :=
  Json.mkObj [("k", jStr (kindName l.kind)), ("id", jNat l.id), ("c", jNats l.children),
    ("name", jStr l.name), ("status", jNat l.status), ("uid", jNat l.uid), ("slot", jNat l.slot),
    ("v", fbits l.value), ("keys", jInts l.keys), ("members", jFloats l.members)]

def parseLineJ (j : Json) : Except String (SigLine Float) := do
  let n ← parseNode j
  pure { kind := n.kind, id := ← getNat j "id", children := n.children, name := n.name,
         status := ← getNat j "status", uid := ← getNat j "uid", slot := ← getNat j "slot",
         value := n.value, keys := n.keys, members := n.members }

end DrvExpr
