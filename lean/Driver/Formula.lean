/- Shared driver: the REAL signature text of a formula built by the library (models.*, helpers,
MDCEV utilities, sampling-of-alternatives models, selected catalogs …) is read by the model of the
engine's reader (`Sig.loadText`, after bioFormula::processFormula) and evaluated by the model of
the engine (`Engine.run`) on the REAL input vectors.  By `C01.engine_reads_text` /
`C01.engine_correct` this number is the denotation of the formula the text describes, so a
property check can compare *the formula the code built* with its semantic model without trusting
the C++ engine.  Used through `harness/lib/leanrun.py`. -/
import Driver.Expr
import Model.Sig
open Lean Drv Expr Engine DrvExpr

def numTableF (j : Json) : Except String (List Char → Option Float) := do
  let tbl ← parsePairs j
  pure fun s => tbl.lookup (String.ofList s)

def handle (j : Json) : Except String Json := do
  let op ← getStr j "op"
  match op with
  | "runrows" =>
    -- one signature, one pair of parameter vectors, many data rows
    let ls ← strList (← j.getObjVal? "text")
    let numOf ← numTableF (← j.getObjVal? "nums")
    let free ← floatList (← j.getObjVal? "free")
    let fixed ← floatList (← j.getObjVal? "fixed")
    let rows ← floatMat (← j.getObjVal? "rows")
    let root ← getNat j "root"
    match Sig.loadText numOf [] (ls.map String.toList) with
    | none => pure (Json.mkObj [("err", jStr "unreadable")])
    | some st =>
      match st.find root with
      | none => pure (Json.mkObj [("err", jStr "dangling")])
      | some f =>
        pure (Json.mkObj [("vals", jArr (rows.map fun r =>
          resJson (f { free := free, fixed := fixed, row := r })))])
  | "parsetext" =>
    let ls ← strList (← j.getObjVal? "text")
    let numOf ← numTableF (← j.getObjVal? "nums")
    pure (jArr (ls.map fun f =>
      match Sig.parseLine numOf f.toList with
      | some l => lineJson l
      | none => Json.null))
  | _ => throw "bad-op"

def main : IO Unit := Drv.run handle
