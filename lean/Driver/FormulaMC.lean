/- Shared driver, round 3: as `Driver/Formula.lean`, for formulas WITH bioDraws / MonteCarlo /
PanelLikelihoodTrajectory.  The REAL signature text is read by `ExprMC.loadTextX` (the reader of
the engine, the three new classes included: `C01.mc_text_roundtrip`) and evaluated per individual
by the model of the engine on the REAL parameter vectors, the REAL rows of the individual and its
REAL table of draws; by `C01.mc_engine_reads_text` / `C01.mc_engine_correct` the number is the
denotation of the formula the text describes (`MonteCarlo` = mean over the draws,
`PanelLikelihoodTrajectory` = product over the rows: `C01.monteCarlo_is_mean`,
`C01.panelTrajectory_is_product`).  Used through `harness/lib/leanrun_mc.py`. -/
import Driver.Expr
import Model.ExprMC
open Lean Drv Expr Engine DrvExpr

def numTableF (j : Json) : Except String (List Char → Option Float) := do
  let tbl ← parsePairs j
  pure fun s => tbl.lookup (String.ofList s)

def handle (j : Json) : Except String Json := do
  let op ← getStr j "op"
  match op with
  | "runinds" =>
    -- one signature, one pair of parameter vectors, many individuals {rows, draws}
    let ls ← strList (← j.getObjVal? "text")
    let numOf ← numTableF (← j.getObjVal? "nums")
    let free ← floatList (← j.getObjVal? "free")
    let fixed ← floatList (← j.getObjVal? "fixed")
    let inds ← (← getArr j "inds").toList.mapM fun e => do
      let rows ← floatMat (← e.getObjVal? "rows")
      let draws ← floatMat (← e.getObjVal? "draws")
      pure (rows, draws)
    let root ← getNat j "root"
    match ExprMC.loadTextX numOf [] (ls.map String.toList) with
    | none => pure (Json.mkObj [("err", jStr "unreadable")])
    | some st =>
      match st.find root with
      | none => pure (Json.mkObj [("err", jStr "dangling")])
      | some f =>
        pure (Json.mkObj [("vals", jArr (inds.map fun (rows, draws) =>
          resJson (f { free := free, fixed := fixed, rows := rows, row := 0, draws := draws, draw := none })))])
  | _ => throw "bad-op"

def main : IO Unit := Drv.run handle
