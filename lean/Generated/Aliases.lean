/- GENERATED on every run by harness/props/c20.py (translator harness/props/c20_table.py) from the live
   biogeme package.  Do not edit: the file is overwritten.  Data + kernel-checked obligations over it. -/
import Model.Dispatch
import Props.C20

namespace Generated.Aliases
open Disp

/-- interned attribute / parameter names -/
def names : List (NameId × List Char) := [
  (0, "AIC_BIC_dimension".toList),
  (1, "DefineVariable".toList),
  (2, "addColumn".toList),
  (3, "add_column".toList),
  (4, "aic_bic_dimension".toList),
  (5, "buildPanelMap".toList),
  (6, "build_panel_map".toList),
  (7, "calcPValue".toList),
  (8, "calc_p_value".toList),
  (9, "calculateInitLikelihood".toList),
  (10, "calculateLikelihood".toList),
  (11, "calculateLikelihoodAndDerivatives".toList),
  (12, "calculateNullLoglikelihood".toList),
  (13, "calculate_init_likelihood".toList),
  (14, "calculate_likelihood".toList),
  (15, "calculate_likelihood_and_derivatives".toList),
  (16, "calculate_null_loglikelihood".toList),
  (17, "checkAvailabilityOfChosenAlt".toList),
  (18, "checkDerivatives".toList),
  (19, "check_availability_of_chosen_alt".toList),
  (20, "check_derivatives".toList),
  (21, "choiceAvailabilityStatistics".toList),
  (22, "choice_availability_statistics".toList),
  (23, "cnl".toList),
  (24, "cnl_CDF".toList),
  (25, "cnl_G".toList),
  (26, "cnl_avail".toList),
  (27, "cnl_cdf".toList),
  (28, "cnl_g".toList),
  (29, "compileEstimationResults".toList),
  (30, "compile_estimation_results".toList),
  (31, "confidenceIntervals".toList),
  (32, "confidence_intervals".toList),
  (33, "countNumberOfGroups".toList),
  (34, "countPanelTrajectoryExpressions".toList),
  (35, "count_number_of_groups".toList),
  (36, "count_panel_trajectory_expressions".toList),
  (37, "createFunction".toList),
  (38, "create_function".toList),
  (39, "define_variable".toList),
  (40, "descriptionOfNativeDraws".toList),
  (41, "description_of_native_draws".toList),
  (42, "dumpOnFile".toList),
  (43, "dump_on_file".toList),
  (44, "embedExpression".toList),
  (45, "embed_expression".toList),
  (46, "findiff_H".toList),
  (47, "findiff_h".toList),
  (48, "generateDraws".toList),
  (49, "generateFlatPanelDataframe".toList),
  (50, "generate_draws".toList),
  (51, "generate_flat_panel_dataframe".toList),
  (52, "getAntithetic".toList),
  (53, "getBetaValues".toList),
  (54, "getBetasForSensitivityAnalysis".toList),
  (55, "getBootstrapVarCovar".toList),
  (56, "getBoundsOnBeta".toList),
  (57, "getClassName".toList),
  (58, "getCorrelationResults".toList),
  (59, "getElementaryExpression".toList),
  (60, "getEstimatedParameters".toList),
  (61, "getF12".toList),
  (62, "getGeneralStatistics".toList),
  (63, "getHaltonDraws".toList),
  (64, "getHtml".toList),
  (65, "getLaTeX".toList),
  (66, "getLatinHypercubeDraws".toList),
  (67, "getMevForCrossNested".toList),
  (68, "getMevForCrossNestedMu".toList),
  (69, "getMevForNested".toList),
  (70, "getMevForNestedMu".toList),
  (71, "getMevGeneratingForNested".toList),
  (72, "getNormalWichuraDraws".toList),
  (73, "getNumberOfObservations".toList),
  (74, "getRobustVarCovar".toList),
  (75, "getSampleSize".toList),
  (76, "getSignature".toList),
  (77, "getStatusIdManager".toList),
  (78, "getText".toList),
  (79, "getUniform".toList),
  (80, "getValue".toList),
  (81, "getValueAndDerivatives".toList),
  (82, "getValue_c".toList),
  (83, "getVarCovar".toList),
  (84, "getVersion".toList),
  (85, "get_antithetic".toList),
  (86, "get_beta_values".toList),
  (87, "get_betas_for_sensitivity_analysis".toList),
  (88, "get_bootstrap_var_covar".toList),
  (89, "get_bounds_on_beta".toList),
  (90, "get_class_name".toList),
  (91, "get_correlation_results".toList),
  (92, "get_elementary_expression".toList),
  (93, "get_estimated_parameters".toList),
  (94, "get_f12".toList),
  (95, "get_general_statistics".toList),
  (96, "get_halton_draws".toList),
  (97, "get_html".toList),
  (98, "get_latex".toList),
  (99, "get_latin_hypercube_draws".toList),
  (100, "get_mev_for_cross_nested".toList),
  (101, "get_mev_for_cross_nested_mu".toList),
  (102, "get_mev_for_nested".toList),
  (103, "get_mev_for_nested_mu".toList),
  (104, "get_mev_generating_for_nested".toList),
  (105, "get_normal_wichura_draws".toList),
  (106, "get_number_of_observations".toList),
  (107, "get_robust_var_covar".toList),
  (108, "get_sample_size".toList),
  (109, "get_signature".toList),
  (110, "get_status_id_manager".toList),
  (111, "get_text".toList),
  (112, "get_uniform".toList),
  (113, "get_value".toList),
  (114, "get_value_and_derivatives".toList),
  (115, "get_value_c".toList),
  (116, "get_var_covar".toList),
  (117, "get_version".toList),
  (118, "isPanel".toList),
  (119, "is_panel".toList),
  (120, "likelihoodFiniteDifferenceHessian".toList),
  (121, "likelihood_finite_difference_hessian".toList),
  (122, "logcnl".toList),
  (123, "logcnl_avail".toList),
  (124, "logmev_endogenousSampling".toList),
  (125, "logmev_endogenous_sampling".toList),
  (126, "lognestedMevMu".toList),
  (127, "lognested_mev_mu".toList),
  (128, "mev_endogenousSampling".toList),
  (129, "mev_endogenous_sampling".toList),
  (130, "nestedMevMu".toList),
  (131, "nested_mev_mu".toList),
  (132, "numberOfFreeParameters".toList),
  (133, "number_of_free_parameters".toList),
  (134, "piecewiseFormula".toList),
  (135, "piecewiseFunction".toList),
  (136, "piecewiseVariables".toList),
  (137, "piecewise_formula".toList),
  (138, "piecewise_function".toList),
  (139, "piecewise_variables".toList),
  (140, "printGeneralStatistics".toList),
  (141, "print_general_statistics".toList),
  (142, "quickEstimate".toList),
  (143, "quick_estimate".toList),
  (144, "requiresDraws".toList),
  (145, "requires_draws".toList),
  (146, "sampleIndividualMapWithReplacement".toList),
  (147, "sampleWithReplacement".toList),
  (148, "sample_individual_map_with_replacement".toList),
  (149, "sample_with_replacement".toList),
  (150, "scaleColumn".toList),
  (151, "scale_column".toList),
  (152, "segment_parameter".toList),
  (153, "segmented_beta".toList),
  (154, "setData".toList),
  (155, "setDataMap".toList),
  (156, "setIdManager".toList),
  (157, "setRandomInitValues".toList),
  (158, "setRandomNumberGenerators".toList),
  (159, "set_data".toList),
  (160, "set_data_map".toList),
  (161, "set_id_manager".toList),
  (162, "set_random_init_values".toList),
  (163, "set_random_number_generators".toList),
  (164, "shortSummary".toList),
  (165, "short_summary".toList),
  (166, "suggestScaling".toList),
  (167, "suggest_scaling".toList),
  (168, "valuesFromDatabase".toList),
  (169, "values_from_database".toList),
  (170, "writeF12".toList),
  (171, "writeHtml".toList),
  (172, "writeLaTeX".toList),
  (173, "writePickle".toList),
  (174, "write_f12".toList),
  (175, "write_html".toList),
  (176, "write_latex".toList),
  (177, "write_pickle".toList),
  (178, "suggestScales".toList),
  (179, "numberOfThreads".toList),
  (180, "number_of_threads".toList),
  (181, "numberOfDraws".toList),
  (182, "number_of_draws".toList),
  (183, "missingData".toList),
  (184, "missing_data".toList),
  (185, "parameter_file".toList),
  (186, "parameters".toList),
  (187, "userNotes".toList),
  (188, "user_notes".toList),
  (189, "generateHtml".toList),
  (190, "generate_html".toList),
  (191, "saveIterations".toList),
  (192, "save_iterations".toList),
  (193, "seed_param".toList),
  (194, "seed".toList),
  (195, "self".toList),
  (196, "database".toList),
  (197, "formulas".toList),
  (198, "skip_audit".toList),
  (199, "bootstrap_samples".toList),
  (200, "dogleg".toList),
  (201, "enlarging_factor".toList),
  (202, "generate_pickle".toList),
  (203, "identification_threshold".toList),
  (204, "infeasible_cg".toList),
  (205, "initial_radius".toList),
  (206, "large_data_set".toList),
  (207, "largest_neighborhood".toList),
  (208, "max_iterations".toList),
  (209, "max_number_parameters_to_report".toList),
  (210, "maximum_attempts".toList),
  (211, "maximum_number_catalog_expressions".toList),
  (212, "maximum_number_parameters".toList),
  (213, "number_of_neighbors".toList),
  (214, "only_robust_stats".toList),
  (215, "optimization_algorithm".toList),
  (216, "second_derivatives".toList),
  (217, "steptol".toList),
  (218, "tolerance".toList),
  (219, "version".toList),
  (220, "bootstrap".toList),
  (221, "run_bootstrap".toList),
  (222, "recycle".toList),
  (223, "theBetaValues".toList),
  (224, "the_beta_values".toList),
  (225, "uniformNumbers".toList),
  (226, "uniform_numbers".toList),
  (227, "sample_size".toList),
  (228, "symmetric".toList),
  (229, "antithetic".toList),
  (230, "gradient".toList),
  (231, "hessian".toList),
  (232, "bhhh".toList),
  (233, "prepareIds".toList),
  (234, "prepare_ids".toList),
  (235, "betas".toList),
  (236, "aggregation".toList),
  (237, "named_results".toList),
  (238, "pickleFile".toList),
  (239, "pickle_file".toList),
  (240, "theRawResults".toList),
  (241, "the_raw_results".toList),
  (242, "myBetas".toList),
  (243, "my_betas".toList),
  (244, "useBootstrap".toList),
  (245, "use_bootstrap".toList),
  (246, "size".toList),
  (247, "onlyRobust".toList),
  (248, "only_robust".toList),
  (249, "robustStdErr".toList),
  (250, "robust_std_err".toList)
]

/-- classes of the package (and the modules holding aliases, as one-class hierarchies): id, mro, relevant dict entries -/
def classes : Hier := [
  ⟨0, [0], []⟩,
  ⟨1, [1, 124], []⟩,
  ⟨2, [2], []⟩,
  ⟨3, [3], [(9, 0), (10, 1), (11, 2), (12, 3), (13, 4), (14, 5), (15, 6), (16, 7), (18, 8), (20, 9), (31, 10), (32, 11), (56, 12), (86, 13), (89, 14), (120, 15), (121, 16), (142, 17), (143, 18), (157, 19), (162, 20)]⟩,
  ⟨4, [4, 130], []⟩,
  ⟨5, [5, 51, 19], []⟩,
  ⟨6, [6], []⟩,
  ⟨7, [7], [(97, 21)]⟩,
  ⟨8, [8, 130], []⟩,
  ⟨9, [9], []⟩,
  ⟨10, [10], []⟩,
  ⟨11, [11], [(1, 22), (2, 23), (3, 24), (5, 25), (6, 26), (17, 27), (19, 28), (21, 29), (22, 30), (39, 31), (40, 32), (41, 33), (42, 34), (43, 35), (48, 36), (49, 37), (50, 38), (51, 39), (73, 40), (75, 41), (106, 42), (108, 43), (118, 44), (119, 45), (146, 46), (147, 47), (148, 48), (149, 49), (150, 50), (151, 51), (158, 52), (163, 53), (166, 54), (167, 55), (168, 56), (169, 57)]⟩,
  ⟨12, [12, 130], []⟩,
  ⟨13, [13, 130], []⟩,
  ⟨14, [14, 129, 128], []⟩,
  ⟨15, [15, 14, 129, 128], []⟩,
  ⟨16, [16, 14, 129, 128], []⟩,
  ⟨17, [17, 14, 129, 128], []⟩,
  ⟨18, [18, 14, 129, 128], []⟩,
  ⟨19, [19], [(34, 58), (36, 59), (37, 60), (38, 61), (44, 62), (45, 63), (57, 64), (59, 65), (76, 66), (77, 67), (80, 68), (81, 69), (82, 70), (86, 71), (90, 72), (92, 73), (109, 74), (110, 75), (113, 76), (114, 77), (115, 78), (144, 79), (145, 80), (156, 81), (161, 82)]⟩,
  ⟨20, [20, 40, 19], [(80, 83), (109, 84), (113, 85), (161, 86)]⟩,
  ⟨21, [21, 22, 19], [(80, 87), (113, 88)]⟩,
  ⟨22, [22, 19], []⟩,
  ⟨23, [23, 22, 19], [(80, 89), (113, 90)]⟩,
  ⟨24, [24, 22, 19], [(80, 91), (113, 92)]⟩,
  ⟨25, [25, 22, 19], [(80, 93), (113, 94)]⟩,
  ⟨26, [26, 22, 19], [(80, 95), (113, 96)]⟩,
  ⟨27, [27, 22, 19], [(80, 97), (113, 98)]⟩,
  ⟨28, [28, 22, 19], [(80, 99), (113, 100)]⟩,
  ⟨29, [29, 22, 19], [(80, 101), (113, 102)]⟩,
  ⟨30, [30, 22, 19], [(80, 103), (113, 104)]⟩,
  ⟨31, [31], []⟩,
  ⟨32, [32, 22, 19], []⟩,
  ⟨33, [33, 32, 22, 19], [(80, 105), (113, 106)]⟩,
  ⟨34, [34, 32, 22, 19], [(80, 107), (113, 108)]⟩,
  ⟨35, [35, 32, 22, 19], [(80, 109), (113, 110)]⟩,
  ⟨36, [36, 32, 22, 19], [(80, 111), (113, 112)]⟩,
  ⟨37, [37, 32, 22, 19], [(80, 113), (113, 114)]⟩,
  ⟨38, [38, 32, 22, 19], [(80, 115), (113, 116)]⟩,
  ⟨39, [39, 42, 40, 19], []⟩,
  ⟨40, [40, 19], [(92, 117), (110, 118)]⟩,
  ⟨41, [41, 40, 19], [(109, 119), (161, 120)]⟩,
  ⟨42, [42, 40, 19], [(109, 121), (161, 122)]⟩,
  ⟨43, [43, 40, 19], [(109, 123), (161, 124)]⟩,
  ⟨44, [44, 132], []⟩,
  ⟨45, [45, 133, 130], []⟩,
  ⟨46, [46], [(154, 125), (155, 126), (159, 127), (160, 128)]⟩,
  ⟨47, [47, 19], [(80, 129), (109, 130), (113, 131)]⟩,
  ⟨48, [48, 47, 19], []⟩,
  ⟨49, [49, 47, 19], []⟩,
  ⟨50, [50, 130], []⟩,
  ⟨51, [51, 19], [(36, 132), (45, 133), (80, 134), (92, 135), (109, 136), (110, 137), (113, 138), (161, 139)]⟩,
  ⟨52, [52, 130], []⟩,
  ⟨53, [53, 19], [(80, 140), (109, 141), (113, 142)]⟩,
  ⟨54, [54, 130], []⟩,
  ⟨55, [55, 19], [(80, 143), (109, 144), (113, 145)]⟩,
  ⟨56, [56, 130], []⟩,
  ⟨57, [57, 19], [(109, 146)]⟩,
  ⟨58, [58, 19], [(80, 147), (113, 148)]⟩,
  ⟨59, [59, 19], [(80, 149), (109, 150), (113, 151)]⟩,
  ⟨60, [60, 67, 19], [(109, 152)]⟩,
  ⟨61, [61, 67, 19], [(109, 153)]⟩,
  ⟨62, [62, 67, 19], [(109, 154)]⟩,
  ⟨63, [63, 67, 19], []⟩,
  ⟨64, [64, 67, 19], [(36, 155)]⟩,
  ⟨65, [65, 67, 19], [(109, 156), (113, 157)]⟩,
  ⟨66, [66, 67, 19], [(80, 158), (113, 159)]⟩,
  ⟨67, [67, 19], []⟩,
  ⟨68, [68, 67, 19], []⟩,
  ⟨69, [69, 67, 19], [(80, 160), (113, 161)]⟩,
  ⟨70, [70, 67, 19], [(80, 162), (113, 163)]⟩,
  ⟨71, [71, 67, 19], [(80, 164), (113, 165)]⟩,
  ⟨72, [72, 67, 19], [(80, 166), (113, 167)]⟩,
  ⟨73, [73, 67, 19], [(80, 168), (113, 169)]⟩,
  ⟨74, [74], []⟩,
  ⟨75, [75, 82], []⟩,
  ⟨76, [76, 78], []⟩,
  ⟨77, [77, 82], []⟩,
  ⟨78, [78], []⟩,
  ⟨79, [79], []⟩,
  ⟨80, [80, 81], []⟩,
  ⟨81, [81], []⟩,
  ⟨82, [82], []⟩,
  ⟨83, [83, 85, 0], []⟩,
  ⟨84, [84, 85, 0], []⟩,
  ⟨85, [85, 0], []⟩,
  ⟨86, [86], []⟩,
  ⟨87, [87, 85, 0], []⟩,
  ⟨88, [88, 85, 0], []⟩,
  ⟨89, [89], []⟩,
  ⟨90, [90, 130], []⟩,
  ⟨91, [91, 123, 0], []⟩,
  ⟨92, [92], []⟩,
  ⟨93, [93, 92], []⟩,
  ⟨94, [94, 92], []⟩,
  ⟨95, [95], []⟩,
  ⟨96, [96], []⟩,
  ⟨97, [97, 130], []⟩,
  ⟨98, [98], [(113, 170)]⟩,
  ⟨99, [99], []⟩,
  ⟨100, [100], []⟩,
  ⟨101, [101, 130], []⟩,
  ⟨102, [102], []⟩,
  ⟨103, [103], [(53, 171), (54, 172), (55, 173), (58, 174), (60, 175), (61, 176), (62, 177), (64, 178), (65, 179), (74, 180), (83, 181), (86, 182), (87, 183), (88, 184), (91, 185), (93, 186), (94, 187), (95, 188), (97, 189), (98, 190), (107, 191), (116, 192), (132, 193), (133, 194), (140, 195), (141, 196), (164, 197), (165, 198), (170, 199), (171, 200), (172, 201), (173, 202), (174, 203), (175, 204), (176, 205), (177, 206)]⟩,
  ⟨104, [104], []⟩,
  ⟨105, [105], []⟩,
  ⟨106, [106, 130], []⟩,
  ⟨107, [107], []⟩,
  ⟨108, [108, 130], []⟩,
  ⟨109, [109], []⟩,
  ⟨110, [110], []⟩,
  ⟨111, [111], []⟩,
  ⟨112, [112], [(153, 207)]⟩,
  ⟨113, [113, 131], []⟩,
  ⟨114, [114], []⟩,
  ⟨115, [115], []⟩,
  ⟨116, [116, 130], []⟩,
  ⟨117, [117], []⟩,
  ⟨118, [118], []⟩,
  ⟨119, [119, 130], []⟩,
  ⟨120, [120], []⟩,
  ⟨121, [121, 130], []⟩,
  ⟨122, [122, 130], []⟩,
  ⟨123, [123, 0], [(20, 208)]⟩,
  ⟨124, [124], []⟩,
  ⟨125, [125], []⟩,
  ⟨126, [126], []⟩,
  ⟨127, [127, 125], []⟩,
  ⟨128, [128], []⟩,
  ⟨129, [129, 128], []⟩,
  ⟨130, [130], []⟩,
  ⟨131, [131], []⟩,
  ⟨132, [132], []⟩,
  ⟨133, [133], []⟩,
  ⟨134, [134], [(24, 209), (25, 210), (27, 211), (28, 212)]⟩,
  ⟨135, [135], [(52, 213), (63, 214), (66, 215), (72, 216), (79, 217), (85, 218), (96, 219), (99, 220), (105, 221), (112, 222)]⟩,
  ⟨136, [136], [(23, 223), (26, 224), (67, 225), (68, 226), (100, 227), (101, 228), (122, 229), (123, 230)]⟩,
  ⟨137, [137], [(124, 231), (125, 232), (128, 233), (129, 234)]⟩,
  ⟨138, [138], [(69, 235), (70, 236), (71, 237), (102, 238), (103, 239), (104, 240), (126, 241), (127, 242), (130, 243), (131, 244)]⟩,
  ⟨139, [139], [(134, 245), (135, 246), (136, 247), (137, 248), (138, 249), (139, 250)]⟩,
  ⟨140, [140], [(0, 251), (4, 252)]⟩,
  ⟨141, [141], [(7, 253), (8, 254), (29, 255), (30, 256)]⟩,
  ⟨142, [142], [(152, 257), (153, 258)]⟩,
  ⟨143, [143], [(33, 259), (35, 260)]⟩,
  ⟨144, [144], [(18, 261), (20, 262), (46, 263), (47, 264)]⟩,
  ⟨145, [145], [(64, 265), (65, 266), (78, 267), (84, 268), (97, 269), (98, 270), (111, 271), (117, 272)]⟩
]

/- class ids:
   0 = abc.ABC
   1 = biogeme.assisted.AssistedSpecification
   2 = biogeme.assisted.ParetoPostProcessing
   3 = biogeme.biogeme.BIOGEME
   4 = biogeme.biogeme.OldNewParamTuple
   5 = biogeme.catalog.Catalog
   6 = biogeme.catalog.SegmentedParameters
   7 = biogeme.configuration.Configuration
   8 = biogeme.configuration.SelectionTuple
   9 = biogeme.controller.CentralController
   10 = biogeme.controller.Controller
   11 = biogeme.database.Database
   12 = biogeme.database.EstimationValidation
   13 = biogeme.default_parameters.ParameterTuple
   14 = biogeme.exceptions.BiogemeError
   15 = biogeme.exceptions.DuplicateError
   16 = biogeme.exceptions.FileNotFound
   17 = biogeme.exceptions.NotImplementedError
   18 = biogeme.exceptions.ValueOutOfRange
   19 = biogeme.expressions.base_expressions.Expression
   20 = biogeme.expressions.beta_parameters.Beta
   21 = biogeme.expressions.binary_expressions.And
   22 = biogeme.expressions.binary_expressions.BinaryOperator
   23 = biogeme.expressions.binary_expressions.Divide
   24 = biogeme.expressions.binary_expressions.Minus
   25 = biogeme.expressions.binary_expressions.Or
   26 = biogeme.expressions.binary_expressions.Plus
   27 = biogeme.expressions.binary_expressions.Power
   28 = biogeme.expressions.binary_expressions.Times
   29 = biogeme.expressions.binary_expressions.bioMax
   30 = biogeme.expressions.binary_expressions.bioMin
   31 = biogeme.expressions.catalog_iterator.SelectedExpressionsIterator
   32 = biogeme.expressions.comparison_expressions.ComparisonOperator
   33 = biogeme.expressions.comparison_expressions.Equal
   34 = biogeme.expressions.comparison_expressions.Greater
   35 = biogeme.expressions.comparison_expressions.GreaterOrEqual
   36 = biogeme.expressions.comparison_expressions.Less
   37 = biogeme.expressions.comparison_expressions.LessOrEqual
   38 = biogeme.expressions.comparison_expressions.NotEqual
   39 = biogeme.expressions.elementary_expressions.DefineVariable
   40 = biogeme.expressions.elementary_expressions.Elementary
   41 = biogeme.expressions.elementary_expressions.RandomVariable
   42 = biogeme.expressions.elementary_expressions.Variable
   43 = biogeme.expressions.elementary_expressions.bioDraws
   44 = biogeme.expressions.elementary_types.TypeOfElementaryExpression
   45 = biogeme.expressions.idmanager.ElementsTuple
   46 = biogeme.expressions.idmanager.IdManager
   47 = biogeme.expressions.logit_expressions.LogLogit
   48 = biogeme.expressions.logit_expressions._bioLogLogit
   49 = biogeme.expressions.logit_expressions._bioLogLogitFullChoiceSet
   50 = biogeme.expressions.multiple_expressions.CatalogItem
   51 = biogeme.expressions.multiple_expressions.MultipleExpression
   52 = biogeme.expressions.multiple_expressions.NamedExpression
   53 = biogeme.expressions.nary_expressions.ConditionalSum
   54 = biogeme.expressions.nary_expressions.ConditionalTermTuple
   55 = biogeme.expressions.nary_expressions.Elem
   56 = biogeme.expressions.nary_expressions.LinearTermTuple
   57 = biogeme.expressions.nary_expressions.bioLinearUtility
   58 = biogeme.expressions.nary_expressions.bioMultSum
   59 = biogeme.expressions.numeric_expressions.Numeric
   60 = biogeme.expressions.unary_expressions.BelongsTo
   61 = biogeme.expressions.unary_expressions.Derive
   62 = biogeme.expressions.unary_expressions.Integrate
   63 = biogeme.expressions.unary_expressions.MonteCarlo
   64 = biogeme.expressions.unary_expressions.PanelLikelihoodTrajectory
   65 = biogeme.expressions.unary_expressions.PowerConstant
   66 = biogeme.expressions.unary_expressions.UnaryMinus
   67 = biogeme.expressions.unary_expressions.UnaryOperator
   68 = biogeme.expressions.unary_expressions.bioNormalCdf
   69 = biogeme.expressions.unary_expressions.cos
   70 = biogeme.expressions.unary_expressions.exp
   71 = biogeme.expressions.unary_expressions.log
   72 = biogeme.expressions.unary_expressions.logzero
   73 = biogeme.expressions.unary_expressions.sin
   74 = biogeme.function_output.BiogemeDisaggregateFunctionOutput
   75 = biogeme.function_output.BiogemeDisaggregateFunctionOutputSmartOutputProxy
   76 = biogeme.function_output.BiogemeFunctionOutput
   77 = biogeme.function_output.BiogemeFunctionOutputSmartOutputProxy
   78 = biogeme.function_output.FunctionOutput
   79 = biogeme.function_output.NamedBiogemeDisaggregateFunctionOutput
   80 = biogeme.function_output.NamedBiogemeFunctionOutput
   81 = biogeme.function_output.NamedFunctionOutput
   82 = biogeme.function_output.SmartOutputProxy
   83 = biogeme.mdcev.gamma_profile.GammaProfile
   84 = biogeme.mdcev.generalized.Generalized
   85 = biogeme.mdcev.mdcev.Mdcev
   86 = biogeme.mdcev.mdcev.MdcevConfiguration
   87 = biogeme.mdcev.non_monotonic.NonMonotonic
   88 = biogeme.mdcev.translated.Translated
   89 = biogeme.messaging.bioMessage
   90 = biogeme.native_draws.RandomNumberGeneratorTuple
   91 = biogeme.negative_likelihood.NegativeLikelihood
   92 = biogeme.nests.Nests
   93 = biogeme.nests.NestsForCrossNestedLogit
   94 = biogeme.nests.NestsForNestedLogit
   95 = biogeme.nests.OneNestForCrossNestedLogit
   96 = biogeme.nests.OneNestForNestedLogit
   97 = biogeme.parameters.NameSectionTuple
   98 = biogeme.parameters.Parameters
   99 = biogeme.partition.Partition
   100 = biogeme.results.Beta
   101 = biogeme.results.GeneralStatistic
   102 = biogeme.results.RawResults
   103 = biogeme.results.bioResults
   104 = biogeme.sampling_of_alternatives.choice_set_generation.ChoiceSetsGeneration
   105 = biogeme.sampling_of_alternatives.generate_model.GenerateModel
   106 = biogeme.sampling_of_alternatives.sampling_context.CrossVariableTuple
   107 = biogeme.sampling_of_alternatives.sampling_context.SamplingContext
   108 = biogeme.sampling_of_alternatives.sampling_context.StratumTuple
   109 = biogeme.sampling_of_alternatives.sampling_of_alternatives.SamplingOfAlternatives
   110 = biogeme.segmentation.DiscreteSegmentationTuple
   111 = biogeme.segmentation.OneSegmentation
   112 = biogeme.segmentation.Segmentation
   113 = biogeme.singleton.Singleton
   114 = biogeme.specification.Specification
   115 = biogeme.tools.files.TemporaryFile
   116 = biogeme.tools.likelihood_ratio.LRTuple
   117 = biogeme.tools.time.Timing
   118 = biogeme.tools.unique_ids.ModelNames
   119 = biogeme.validity.Validity
   120 = biogeme_optimization.bounds.Bounds
   121 = biogeme_optimization.diagnostics.OptimizationResults
   122 = biogeme_optimization.function.FunctionData
   123 = biogeme_optimization.function.FunctionToMinimize
   124 = biogeme_optimization.neighborhood.Neighborhood
   125 = biogeme_optimization.pareto.Pareto
   126 = biogeme_optimization.pareto.SetElement
   127 = biogeme_optimization.vns.ParetoClass
   128 = builtins.BaseException
   129 = builtins.Exception
   130 = builtins.tuple
   131 = builtins.type
   132 = enum.Enum
   133 = typing.Generic
   134 = module:biogeme.cnl
   135 = module:biogeme.draws
   136 = module:biogeme.models.cnl
   137 = module:biogeme.models.mev
   138 = module:biogeme.models.nested
   139 = module:biogeme.models.piecewise
   140 = module:biogeme.multiobjectives
   141 = module:biogeme.results
   142 = module:biogeme.segmentation
   143 = module:biogeme.tools.database
   144 = module:biogeme.tools.derivatives
   145 = module:biogeme.version
-/

/-- alias definitions: owner, old name, wrapper, name in the warning, name of the captured function, captured function, module?, static? -/
def aliases : List Alias := [
  ⟨3, 9, 0, 13, 13, 4, false, false⟩,
  ⟨3, 10, 1, 14, 14, 5, false, false⟩,
  ⟨3, 11, 2, 15, 15, 6, false, false⟩,
  ⟨3, 12, 3, 16, 16, 7, false, false⟩,
  ⟨3, 18, 8, 20, 20, 9, false, false⟩,
  ⟨3, 31, 10, 32, 32, 11, false, false⟩,
  ⟨3, 56, 12, 89, 89, 14, false, false⟩,
  ⟨3, 120, 15, 121, 121, 16, false, false⟩,
  ⟨3, 142, 17, 143, 143, 18, false, false⟩,
  ⟨3, 157, 19, 162, 162, 20, false, false⟩,
  ⟨134, 24, 209, 27, 27, 211, true, false⟩,
  ⟨134, 25, 210, 28, 28, 212, true, false⟩,
  ⟨11, 1, 22, 39, 39, 31, false, false⟩,
  ⟨11, 2, 23, 3, 3, 24, false, false⟩,
  ⟨11, 5, 25, 6, 6, 26, false, false⟩,
  ⟨11, 17, 27, 19, 19, 28, false, false⟩,
  ⟨11, 21, 29, 22, 22, 30, false, false⟩,
  ⟨11, 40, 32, 41, 41, 33, false, true⟩,
  ⟨11, 42, 34, 43, 43, 35, false, false⟩,
  ⟨11, 48, 36, 50, 50, 38, false, false⟩,
  ⟨11, 49, 37, 51, 51, 39, false, false⟩,
  ⟨11, 73, 40, 106, 106, 42, false, false⟩,
  ⟨11, 75, 41, 108, 108, 43, false, false⟩,
  ⟨11, 118, 44, 119, 119, 45, false, false⟩,
  ⟨11, 146, 46, 148, 148, 48, false, false⟩,
  ⟨11, 147, 47, 149, 149, 49, false, false⟩,
  ⟨11, 150, 50, 151, 151, 51, false, false⟩,
  ⟨11, 158, 52, 163, 163, 53, false, false⟩,
  ⟨11, 166, 54, 167, 167, 55, false, false⟩,
  ⟨11, 168, 56, 169, 169, 57, false, false⟩,
  ⟨135, 52, 213, 85, 85, 218, true, false⟩,
  ⟨135, 63, 214, 96, 96, 219, true, false⟩,
  ⟨135, 66, 215, 99, 99, 220, true, false⟩,
  ⟨135, 72, 216, 105, 105, 221, true, false⟩,
  ⟨135, 79, 217, 112, 112, 222, true, false⟩,
  ⟨19, 34, 58, 36, 36, 59, false, false⟩,
  ⟨19, 37, 60, 38, 38, 61, false, false⟩,
  ⟨19, 44, 62, 45, 45, 63, false, false⟩,
  ⟨19, 57, 64, 90, 90, 72, false, false⟩,
  ⟨19, 59, 65, 92, 92, 73, false, false⟩,
  ⟨19, 76, 66, 109, 109, 74, false, false⟩,
  ⟨19, 77, 67, 110, 110, 75, false, false⟩,
  ⟨19, 80, 68, 113, 113, 76, false, false⟩,
  ⟨19, 81, 69, 114, 114, 77, false, false⟩,
  ⟨19, 82, 70, 115, 115, 78, false, false⟩,
  ⟨19, 144, 79, 145, 145, 80, false, false⟩,
  ⟨19, 156, 81, 161, 161, 82, false, false⟩,
  ⟨20, 80, 83, 113, 113, 85, false, false⟩,
  ⟨21, 80, 87, 113, 113, 88, false, false⟩,
  ⟨23, 80, 89, 113, 113, 90, false, false⟩,
  ⟨24, 80, 91, 113, 113, 92, false, false⟩,
  ⟨25, 80, 93, 113, 113, 94, false, false⟩,
  ⟨26, 80, 95, 113, 113, 96, false, false⟩,
  ⟨27, 80, 97, 113, 113, 98, false, false⟩,
  ⟨28, 80, 99, 113, 113, 100, false, false⟩,
  ⟨29, 80, 101, 113, 113, 102, false, false⟩,
  ⟨30, 80, 103, 113, 113, 104, false, false⟩,
  ⟨33, 80, 105, 113, 113, 106, false, false⟩,
  ⟨34, 80, 107, 113, 113, 108, false, false⟩,
  ⟨35, 80, 109, 113, 113, 110, false, false⟩,
  ⟨36, 80, 111, 113, 113, 112, false, false⟩,
  ⟨37, 80, 113, 113, 113, 114, false, false⟩,
  ⟨38, 80, 115, 113, 113, 116, false, false⟩,
  ⟨46, 154, 125, 159, 159, 127, false, false⟩,
  ⟨46, 155, 126, 160, 160, 128, false, false⟩,
  ⟨47, 80, 129, 113, 113, 131, false, false⟩,
  ⟨51, 80, 134, 113, 113, 138, false, false⟩,
  ⟨53, 80, 140, 113, 113, 142, false, false⟩,
  ⟨55, 80, 143, 113, 113, 145, false, false⟩,
  ⟨58, 80, 147, 113, 113, 148, false, false⟩,
  ⟨59, 80, 149, 113, 113, 151, false, false⟩,
  ⟨66, 80, 158, 113, 113, 159, false, false⟩,
  ⟨69, 80, 160, 113, 113, 161, false, false⟩,
  ⟨70, 80, 162, 113, 113, 163, false, false⟩,
  ⟨71, 80, 164, 113, 113, 165, false, false⟩,
  ⟨72, 80, 166, 113, 113, 167, false, false⟩,
  ⟨73, 80, 168, 113, 113, 169, false, false⟩,
  ⟨136, 26, 224, 23, 23, 223, true, false⟩,
  ⟨136, 67, 225, 100, 100, 227, true, false⟩,
  ⟨136, 68, 226, 101, 101, 228, true, false⟩,
  ⟨136, 123, 230, 122, 122, 229, true, false⟩,
  ⟨137, 124, 231, 125, 125, 232, true, false⟩,
  ⟨137, 128, 233, 129, 129, 234, true, false⟩,
  ⟨138, 69, 235, 102, 102, 238, true, false⟩,
  ⟨138, 70, 236, 103, 103, 239, true, false⟩,
  ⟨138, 71, 237, 104, 104, 240, true, false⟩,
  ⟨138, 126, 241, 127, 127, 242, true, false⟩,
  ⟨138, 130, 243, 131, 131, 244, true, false⟩,
  ⟨139, 134, 245, 137, 137, 248, true, false⟩,
  ⟨139, 135, 246, 138, 138, 249, true, false⟩,
  ⟨139, 136, 247, 139, 139, 250, true, false⟩,
  ⟨140, 0, 251, 4, 4, 252, true, false⟩,
  ⟨141, 7, 253, 8, 8, 254, true, false⟩,
  ⟨141, 29, 255, 30, 30, 256, true, false⟩,
  ⟨103, 53, 171, 86, 86, 182, false, false⟩,
  ⟨103, 54, 172, 87, 87, 183, false, false⟩,
  ⟨103, 55, 173, 88, 88, 184, false, false⟩,
  ⟨103, 58, 174, 91, 91, 185, false, false⟩,
  ⟨103, 60, 175, 93, 93, 186, false, false⟩,
  ⟨103, 61, 176, 94, 94, 187, false, false⟩,
  ⟨103, 62, 177, 95, 95, 188, false, false⟩,
  ⟨103, 64, 178, 97, 97, 189, false, false⟩,
  ⟨103, 65, 179, 98, 98, 190, false, false⟩,
  ⟨103, 74, 180, 107, 107, 191, false, false⟩,
  ⟨103, 83, 181, 116, 116, 192, false, false⟩,
  ⟨103, 132, 193, 133, 133, 194, false, false⟩,
  ⟨103, 140, 195, 141, 141, 196, false, false⟩,
  ⟨103, 164, 197, 165, 165, 198, false, false⟩,
  ⟨103, 170, 199, 174, 174, 203, false, false⟩,
  ⟨103, 171, 200, 175, 175, 204, false, false⟩,
  ⟨103, 172, 201, 176, 176, 205, false, false⟩,
  ⟨103, 173, 202, 177, 177, 206, false, false⟩,
  ⟨142, 152, 257, 153, 153, 258, true, false⟩,
  ⟨143, 33, 259, 35, 35, 260, true, false⟩,
  ⟨144, 18, 261, 20, 20, 262, true, false⟩,
  ⟨144, 46, 263, 47, 47, 264, true, false⟩,
  ⟨145, 64, 265, 97, 97, 269, true, false⟩,
  ⟨145, 65, 266, 98, 98, 270, true, false⟩,
  ⟨145, 78, 267, 111, 111, 271, true, false⟩,
  ⟨145, 84, 268, 117, 117, 272, true, false⟩
]

/-- listed known findings (owner, old name) that are still present -/
def knownBad : List (ClassId × NameId) := []

/-- reviewed exceptions to the spelling rule -/
def exceptions : List (List Char × List Char) := [("cnl_avail".toList, "cnl".toList), ("logcnl_avail".toList, "logcnl".toList), ("segment_parameter".toList, "segmented_beta".toList)]

/-- reviewed exceptions to the spelling rule for obsolete keywords (empty replacement: ignored keyword) -/
def kwExceptions : List (List Char × List Char) := [("parameter_file".toList, "parameters".toList), ("seed_param".toList, "seed".toList), ("bootstrap".toList, "run_bootstrap".toList), ("suggestScales".toList, "".toList)]

def kwUses : List KwUse := [
  ⟨3, 0, [(178, none), (179, some 180), (181, some 182), (183, some 184), (185, some 186), (187, some 188), (189, some 190), (191, some 192), (193, some 194)], [195, 196, 197, 188, 186, 198], [199, 200, 201, 190, 202, 203, 204, 205, 206, 207, 208, 209, 210, 211, 212, 184, 182, 213, 180, 214, 215, 192, 216, 194, 217, 218, 219]⟩,
  ⟨3, 0, [(220, some 221)], [195, 222, 221], []⟩,
  ⟨3, 0, [(223, some 224)], [195, 224], []⟩,
  ⟨135, 99, [(225, some 226)], [227, 182, 228, 226], []⟩,
  ⟨135, 105, [(225, some 226)], [227, 182, 226, 229], []⟩,
  ⟨19, 38, [(181, some 182)], [195, 196, 182, 230, 231, 232], []⟩,
  ⟨19, 0, [(181, some 182)], [195, 196, 182, 230, 231, 232], []⟩,
  ⟨19, 114, [(181, some 182), (233, some 234)], [195, 235, 196, 182, 230, 231, 232, 236, 234, 237], []⟩,
  ⟨19, 115, [(181, some 182), (233, some 234)], [195, 196, 235, 182, 236, 234], []⟩,
  ⟨19, 0, [(181, some 182)], [195, 196, 182], []⟩,
  ⟨103, 0, [(238, some 239), (240, some 241)], [195, 241, 239, 203], []⟩,
  ⟨103, 86, [(242, some 243)], [195, 243], []⟩,
  ⟨103, 87, [(242, some 243), (244, some 245)], [195, 243, 246, 245], []⟩,
  ⟨103, 93, [(247, some 248)], [195, 248], []⟩,
  ⟨103, 94, [(249, some 250)], [195, 250], []⟩,
  ⟨103, 97, [(247, some 248)], [195, 248], []⟩,
  ⟨103, 98, [(247, some 248)], [195, 248], []⟩,
  ⟨103, 174, [(249, some 250)], [195, 250], []⟩,
  ⟨103, 175, [(247, some 248)], [195, 248], []⟩
]

/-- every alias: the warning names the function that is called, the name resolves to it where the alias lives, and on every class exposing it the dispatch condition holds -/
theorem aliases_ok : checkAliases classes aliases knownBad = true := by decide +kernel

/-- the listed known findings really violate the condition -/
theorem known_bad_are_bad : checkKnownBad classes aliases knownBad = true := by decide +kernel

/-- every old name is the legacy spelling of its target (or a reviewed exception) -/
theorem legacy_ok : checkLegacy names exceptions aliases = true := by decide +kernel

/-- keyword maps are injective, target existing parameters, and obsolete names are not parameters -/
theorem kw_ok : checkKw kwUses = true := by decide +kernel

/-- every obsolete keyword is the legacy spelling of its replacement (or a reviewed exception) -/
theorem kw_legacy_ok : checkKwLegacy names kwExceptions kwUses = true := by decide +kernel

/-- number of (class, alias) slots the correspondence must cover -/
theorem slot_count : countSlots classes aliases = 656 := by decide +kernel

/-- the generic theorem instantiated with the live table: on every class exposing a (not listed) method alias,
the alias runs exactly what the new name runs on that receiver -/
theorem every_slot_sound (a : Alias) (ha : a ∈ aliases) (hg : isKnownBad knownBad a.owner a.oldName = false)
    (c : Cls) (hc : c ∈ classes) (he : exposes classes c a = true) (hm : a.isModule = false) (hs : a.isStatic = false) :
    aliasCall classes c.id a.newName a.captured = callNew classes c.id a.newName ∧ callNew classes c.id a.newName ≠ none :=
  (C20.table_sound classes aliases knownBad aliases_ok a ha hg).2 c hc he hm hs

end Generated.Aliases
