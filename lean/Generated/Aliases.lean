/- GENERATED on every run by harness/props/c20.py (translator harness/props/c20_table.py) from the live
   biogeme package.  Do not edit: the file is overwritten.  Data + kernel-checked obligations over it. -/
import Model.Dispatch
import Props.C20

namespace Generated.Aliases
open Disp

/-- interned attribute / parameter names -/
def names : List (NameId × List Char) := [
  (0, "AIC_BIC_dimension".toList),
  (1, "DefineVariable".toList),
  (2, "addColumn".toList),
  (3, "add_column".toList),
  (4, "aic_bic_dimension".toList),
  (5, "buildPanelMap".toList),
  (6, "build_panel_map".toList),
  (7, "calcPValue".toList),
  (8, "calc_p_value".toList),
  (9, "calculateInitLikelihood".toList),
  (10, "calculateLikelihood".toList),
  (11, "calculateLikelihoodAndDerivatives".toList),
  (12, "calculateNullLoglikelihood".toList),
  (13, "calculate_init_likelihood".toList),
  (14, "calculate_likelihood".toList),
  (15, "calculate_likelihood_and_derivatives".toList),
  (16, "calculate_null_loglikelihood".toList),
  (17, "checkAvailabilityOfChosenAlt".toList),
  (18, "checkDerivatives".toList),
  (19, "check_availability_of_chosen_alt".toList),
  (20, "check_derivatives".toList),
  (21, "choiceAvailabilityStatistics".toList),
  (22, "choice_availability_statistics".toList),
  (23, "cnl".toList),
  (24, "cnl_CDF".toList),
  (25, "cnl_G".toList),
  (26, "cnl_avail".toList),
  (27, "cnl_cdf".toList),
  (28, "cnl_g".toList),
  (29, "compileEstimationResults".toList),
  (30, "compile_estimation_results".toList),
  (31, "confidenceIntervals".toList),
  (32, "confidence_intervals".toList),
  (33, "countNumberOfGroups".toList),
  (34, "countPanelTrajectoryExpressions".toList),
  (35, "count_number_of_groups".toList),
  (36, "count_panel_trajectory_expressions".toList),
  (37, "createFunction".toList),
  (38, "create_function".toList),
  (39, "define_variable".toList),
  (40, "descriptionOfNativeDraws".toList),
  (41, "description_of_native_draws".toList),
  (42, "dumpOnFile".toList),
  (43, "dump_on_file".toList),
  (44, "embedExpression".toList),
  (45, "embed_expression".toList),
  (46, "findiff_H".toList),
  (47, "findiff_h".toList),
  (48, "generateDraws".toList),
  (49, "generateFlatPanelDataframe".toList),
  (50, "generate_draws".toList),
  (51, "generate_flat_panel_dataframe".toList),
  (52, "getAntithetic".toList),
  (53, "getBetaValues".toList),
  (54, "getBetasForSensitivityAnalysis".toList),
  (55, "getBootstrapVarCovar".toList),
  (56, "getBoundsOnBeta".toList),
  (57, "getClassName".toList),
  (58, "getCorrelationResults".toList),
  (59, "getElementaryExpression".toList),
  (60, "getEstimatedParameters".toList),
  (61, "getF12".toList),
  (62, "getGeneralStatistics".toList),
  (63, "getHaltonDraws".toList),
  (64, "getHtml".toList),
  (65, "getLaTeX".toList),
  (66, "getLatinHypercubeDraws".toList),
  (67, "getMevForCrossNested".toList),
  (68, "getMevForCrossNestedMu".toList),
  (69, "getMevForNested".toList),
  (70, "getMevForNestedMu".toList),
  (71, "getMevGeneratingForNested".toList),
  (72, "getNormalWichuraDraws".toList),
  (73, "getNumberOfObservations".toList),
  (74, "getRobustVarCovar".toList),
  (75, "getSampleSize".toList),
  (76, "getSignature".toList),
  (77, "getStatusIdManager".toList),
  (78, "getText".toList),
  (79, "getUniform".toList),
  (80, "getValue".toList),
  (81, "getValueAndDerivatives".toList),
  (82, "getValue_c".toList),
  (83, "getVarCovar".toList),
  (84, "getVersion".toList),
  (85, "get_antithetic".toList),
  (86, "get_beta_values".toList),
  (87, "get_betas_for_sensitivity_analysis".toList),
  (88, "get_bootstrap_var_covar".toList),
  (89, "get_bounds_on_beta".toList),
  (90, "get_class_name".toList),
  (91, "get_correlation_results".toList),
  (92, "get_elementary_expression".toList),
  (93, "get_estimated_parameters".toList),
  (94, "get_f12".toList),
  (95, "get_general_statistics".toList),
  (96, "get_halton_draws".toList),
  (97, "get_html".toList),
  (98, "get_latex".toList),
  (99, "get_latin_hypercube_draws".toList),
  (100, "get_mev_for_cross_nested".toList),
  (101, "get_mev_for_cross_nested_mu".toList),
  (102, "get_mev_for_nested".toList),
  (103, "get_mev_for_nested_mu".toList),
  (104, "get_mev_generating_for_nested".toList),
  (105, "get_normal_wichura_draws".toList),
  (106, "get_number_of_observations".toList),
  (107, "get_robust_var_covar".toList),
  (108, "get_signature".toList),
  (109, "get_status_id_manager".toList),
  (110, "get_text".toList),
  (111, "get_uniform".toList),
  (112, "get_value".toList),
  (113, "get_value_and_derivatives".toList),
  (114, "get_value_c".toList),
  (115, "get_var_covar".toList),
  (116, "get_version".toList),
  (117, "isPanel".toList),
  (118, "is_panel".toList),
  (119, "likelihoodFiniteDifferenceHessian".toList),
  (120, "likelihood_finite_difference_hessian".toList),
  (121, "logcnl".toList),
  (122, "logcnl_avail".toList),
  (123, "logmev_endogenousSampling".toList),
  (124, "logmev_endogenous_sampling".toList),
  (125, "lognestedMevMu".toList),
  (126, "lognested_mev_mu".toList),
  (127, "mev_endogenousSampling".toList),
  (128, "mev_endogenous_sampling".toList),
  (129, "nestedMevMu".toList),
  (130, "nested_mev_mu".toList),
  (131, "numberOfFreeParameters".toList),
  (132, "number_of_free_parameters".toList),
  (133, "piecewiseFormula".toList),
  (134, "piecewiseFunction".toList),
  (135, "piecewiseVariables".toList),
  (136, "piecewise_formula".toList),
  (137, "piecewise_function".toList),
  (138, "piecewise_variables".toList),
  (139, "printGeneralStatistics".toList),
  (140, "print_general_statistics".toList),
  (141, "quickEstimate".toList),
  (142, "quick_estimate".toList),
  (143, "requiresDraws".toList),
  (144, "requires_draws".toList),
  (145, "sampleIndividualMapWithReplacement".toList),
  (146, "sampleWithReplacement".toList),
  (147, "sample_individual_map_with_replacement".toList),
  (148, "sample_with_replacement".toList),
  (149, "scaleColumn".toList),
  (150, "scale_column".toList),
  (151, "segment_parameter".toList),
  (152, "segmented_beta".toList),
  (153, "setData".toList),
  (154, "setDataMap".toList),
  (155, "setIdManager".toList),
  (156, "setRandomInitValues".toList),
  (157, "setRandomNumberGenerators".toList),
  (158, "set_data".toList),
  (159, "set_data_map".toList),
  (160, "set_id_manager".toList),
  (161, "set_random_init_values".toList),
  (162, "set_random_number_generators".toList),
  (163, "shortSummary".toList),
  (164, "short_summary".toList),
  (165, "suggestScaling".toList),
  (166, "suggest_scaling".toList),
  (167, "valuesFromDatabase".toList),
  (168, "values_from_database".toList),
  (169, "writeF12".toList),
  (170, "writeHtml".toList),
  (171, "writeLaTeX".toList),
  (172, "writePickle".toList),
  (173, "write_f12".toList),
  (174, "write_html".toList),
  (175, "write_latex".toList),
  (176, "write_pickle".toList),
  (177, "suggestScales".toList),
  (178, "numberOfThreads".toList),
  (179, "number_of_threads".toList),
  (180, "numberOfDraws".toList),
  (181, "number_of_draws".toList),
  (182, "missingData".toList),
  (183, "missing_data".toList),
  (184, "parameter_file".toList),
  (185, "parameters".toList),
  (186, "userNotes".toList),
  (187, "user_notes".toList),
  (188, "generateHtml".toList),
  (189, "generate_html".toList),
  (190, "saveIterations".toList),
  (191, "save_iterations".toList),
  (192, "seed_param".toList),
  (193, "seed".toList),
  (194, "self".toList),
  (195, "database".toList),
  (196, "formulas".toList),
  (197, "skip_audit".toList),
  (198, "bootstrap_samples".toList),
  (199, "dogleg".toList),
  (200, "enlarging_factor".toList),
  (201, "generate_pickle".toList),
  (202, "identification_threshold".toList),
  (203, "infeasible_cg".toList),
  (204, "initial_radius".toList),
  (205, "large_data_set".toList),
  (206, "largest_neighborhood".toList),
  (207, "max_iterations".toList),
  (208, "max_number_parameters_to_report".toList),
  (209, "maximum_attempts".toList),
  (210, "maximum_number_catalog_expressions".toList),
  (211, "maximum_number_parameters".toList),
  (212, "number_of_neighbors".toList),
  (213, "only_robust_stats".toList),
  (214, "optimization_algorithm".toList),
  (215, "second_derivatives".toList),
  (216, "steptol".toList),
  (217, "tolerance".toList),
  (218, "version".toList),
  (219, "bootstrap".toList),
  (220, "run_bootstrap".toList),
  (221, "recycle".toList),
  (222, "theBetaValues".toList),
  (223, "the_beta_values".toList),
  (224, "uniformNumbers".toList),
  (225, "uniform_numbers".toList),
  (226, "sample_size".toList),
  (227, "symmetric".toList),
  (228, "antithetic".toList),
  (229, "gradient".toList),
  (230, "hessian".toList),
  (231, "bhhh".toList),
  (232, "prepareIds".toList),
  (233, "prepare_ids".toList),
  (234, "betas".toList),
  (235, "aggregation".toList),
  (236, "named_results".toList),
  (237, "pickleFile".toList),
  (238, "pickle_file".toList),
  (239, "theRawResults".toList),
  (240, "the_raw_results".toList),
  (241, "myBetas".toList),
  (242, "my_betas".toList),
  (243, "useBootstrap".toList),
  (244, "use_bootstrap".toList),
  (245, "size".toList),
  (246, "onlyRobust".toList),
  (247, "only_robust".toList),
  (248, "robustStdErr".toList),
  (249, "robust_std_err".toList)
]

/-- classes of the package (and the modules holding aliases, as one-class hierarchies): id, mro, relevant dict entries -/
def classes : Hier := [
  ⟨0, [0], []⟩,
  ⟨1, [1, 124], []⟩,
  ⟨2, [2], []⟩,
  ⟨3, [3], [(9, 0), (10, 1), (11, 2), (12, 3), (13, 4), (14, 5), (15, 6), (16, 7), (18, 8), (20, 9), (31, 10), (32, 11), (56, 12), (86, 13), (89, 14), (119, 15), (120, 16), (141, 17), (142, 18), (156, 19), (161, 20)]⟩,
  ⟨4, [4, 130], []⟩,
  ⟨5, [5, 51, 19], []⟩,
  ⟨6, [6], []⟩,
  ⟨7, [7], [(97, 21)]⟩,
  ⟨8, [8, 130], []⟩,
  ⟨9, [9], []⟩,
  ⟨10, [10], []⟩,
  ⟨11, [11], [(1, 22), (2, 23), (3, 24), (5, 25), (6, 26), (17, 27), (19, 28), (21, 29), (22, 30), (39, 31), (40, 32), (41, 33), (42, 34), (43, 35), (48, 36), (49, 37), (50, 38), (51, 39), (73, 40), (75, 41), (106, 42), (117, 43), (118, 44), (145, 45), (146, 46), (147, 47), (148, 48), (149, 49), (150, 50), (157, 51), (162, 52), (165, 53), (166, 54), (167, 55), (168, 56)]⟩,
  ⟨12, [12, 130], []⟩,
  ⟨13, [13, 130], []⟩,
  ⟨14, [14, 129, 128], []⟩,
  ⟨15, [15, 14, 129, 128], []⟩,
  ⟨16, [16, 14, 129, 128], []⟩,
  ⟨17, [17, 14, 129, 128], []⟩,
  ⟨18, [18, 14, 129, 128], []⟩,
  ⟨19, [19], [(34, 57), (36, 58), (37, 59), (38, 60), (44, 61), (45, 62), (57, 63), (59, 64), (76, 65), (77, 66), (80, 67), (81, 68), (82, 69), (86, 70), (90, 71), (92, 72), (108, 73), (109, 74), (112, 75), (113, 76), (114, 77), (143, 78), (144, 79), (155, 80), (160, 81)]⟩,
  ⟨20, [20, 40, 19], [(80, 82), (108, 83), (112, 84), (160, 85)]⟩,
  ⟨21, [21, 22, 19], [(80, 86), (112, 87)]⟩,
  ⟨22, [22, 19], []⟩,
  ⟨23, [23, 22, 19], [(80, 88), (112, 89)]⟩,
  ⟨24, [24, 22, 19], [(80, 90), (112, 91)]⟩,
  ⟨25, [25, 22, 19], [(80, 92), (112, 93)]⟩,
  ⟨26, [26, 22, 19], [(80, 94), (112, 95)]⟩,
  ⟨27, [27, 22, 19], [(80, 96), (112, 97)]⟩,
  ⟨28, [28, 22, 19], [(80, 98), (112, 99)]⟩,
  ⟨29, [29, 22, 19], [(80, 100), (112, 101)]⟩,
  ⟨30, [30, 22, 19], [(80, 102), (112, 103)]⟩,
  ⟨31, [31], []⟩,
  ⟨32, [32, 22, 19], []⟩,
  ⟨33, [33, 32, 22, 19], [(80, 104), (112, 105)]⟩,
  ⟨34, [34, 32, 22, 19], [(80, 106), (112, 107)]⟩,
  ⟨35, [35, 32, 22, 19], [(80, 108), (112, 109)]⟩,
  ⟨36, [36, 32, 22, 19], [(80, 110), (112, 111)]⟩,
  ⟨37, [37, 32, 22, 19], [(80, 112), (112, 113)]⟩,
  ⟨38, [38, 32, 22, 19], [(80, 114), (112, 115)]⟩,
  ⟨39, [39, 42, 40, 19], []⟩,
  ⟨40, [40, 19], [(92, 116), (109, 117)]⟩,
  ⟨41, [41, 40, 19], [(108, 118), (160, 119)]⟩,
  ⟨42, [42, 40, 19], [(108, 120), (160, 121)]⟩,
  ⟨43, [43, 40, 19], [(108, 122), (160, 123)]⟩,
  ⟨44, [44, 132], []⟩,
  ⟨45, [45, 133, 130], []⟩,
  ⟨46, [46], [(153, 124), (154, 125), (158, 126), (159, 127)]⟩,
  ⟨47, [47, 19], [(80, 128), (108, 129), (112, 130)]⟩,
  ⟨48, [48, 47, 19], []⟩,
  ⟨49, [49, 47, 19], []⟩,
  ⟨50, [50, 130], []⟩,
  ⟨51, [51, 19], [(36, 131), (45, 132), (80, 133), (92, 134), (108, 135), (109, 136), (112, 137), (160, 138)]⟩,
  ⟨52, [52, 130], []⟩,
  ⟨53, [53, 19], [(80, 139), (108, 140), (112, 141)]⟩,
  ⟨54, [54, 130], []⟩,
  ⟨55, [55, 19], [(80, 142), (108, 143), (112, 144)]⟩,
  ⟨56, [56, 130], []⟩,
  ⟨57, [57, 19], [(108, 145)]⟩,
  ⟨58, [58, 19], [(80, 146), (112, 147)]⟩,
  ⟨59, [59, 19], [(80, 148), (108, 149), (112, 150)]⟩,
  ⟨60, [60, 67, 19], [(108, 151)]⟩,
  ⟨61, [61, 67, 19], [(108, 152)]⟩,
  ⟨62, [62, 67, 19], [(108, 153)]⟩,
  ⟨63, [63, 67, 19], []⟩,
  ⟨64, [64, 67, 19], [(36, 154)]⟩,
  ⟨65, [65, 67, 19], [(108, 155), (112, 156)]⟩,
  ⟨66, [66, 67, 19], [(80, 157), (112, 158)]⟩,
  ⟨67, [67, 19], []⟩,
  ⟨68, [68, 67, 19], []⟩,
  ⟨69, [69, 67, 19], [(80, 159), (112, 160)]⟩,
  ⟨70, [70, 67, 19], [(80, 161), (112, 162)]⟩,
  ⟨71, [71, 67, 19], [(80, 163), (112, 164)]⟩,
  ⟨72, [72, 67, 19], [(80, 165), (112, 166)]⟩,
  ⟨73, [73, 67, 19], [(80, 167), (112, 168)]⟩,
  ⟨74, [74], []⟩,
  ⟨75, [75, 82], []⟩,
  ⟨76, [76, 78], []⟩,
  ⟨77, [77, 82], []⟩,
  ⟨78, [78], []⟩,
  ⟨79, [79], []⟩,
  ⟨80, [80, 81], []⟩,
  ⟨81, [81], []⟩,
  ⟨82, [82], []⟩,
  ⟨83, [83, 85, 0], []⟩,
  ⟨84, [84, 85, 0], []⟩,
  ⟨85, [85, 0], []⟩,
  ⟨86, [86], []⟩,
  ⟨87, [87, 85, 0], []⟩,
  ⟨88, [88, 85, 0], []⟩,
  ⟨89, [89], []⟩,
  ⟨90, [90, 130], []⟩,
  ⟨91, [91, 123, 0], []⟩,
  ⟨92, [92], []⟩,
  ⟨93, [93, 92], []⟩,
  ⟨94, [94, 92], []⟩,
  ⟨95, [95], []⟩,
  ⟨96, [96], []⟩,
  ⟨97, [97, 130], []⟩,
  ⟨98, [98], [(112, 169)]⟩,
  ⟨99, [99], []⟩,
  ⟨100, [100], []⟩,
  ⟨101, [101, 130], []⟩,
  ⟨102, [102], []⟩,
  ⟨103, [103], [(53, 170), (54, 171), (55, 172), (58, 173), (60, 174), (61, 175), (62, 176), (64, 177), (65, 178), (74, 179), (83, 180), (86, 181), (87, 182), (88, 183), (91, 184), (93, 185), (94, 186), (95, 187), (97, 188), (98, 189), (107, 190), (115, 191), (131, 192), (132, 193), (139, 194), (140, 195), (163, 196), (164, 197), (169, 198), (170, 199), (171, 200), (172, 201), (173, 202), (174, 203), (175, 204), (176, 205)]⟩,
  ⟨104, [104], []⟩,
  ⟨105, [105], []⟩,
  ⟨106, [106, 130], []⟩,
  ⟨107, [107], []⟩,
  ⟨108, [108, 130], []⟩,
  ⟨109, [109], []⟩,
  ⟨110, [110], []⟩,
  ⟨111, [111], []⟩,
  ⟨112, [112], [(152, 206)]⟩,
  ⟨113, [113, 131], []⟩,
  ⟨114, [114], []⟩,
  ⟨115, [115], []⟩,
  ⟨116, [116, 130], []⟩,
  ⟨117, [117], []⟩,
  ⟨118, [118], []⟩,
  ⟨119, [119, 130], []⟩,
  ⟨120, [120], []⟩,
  ⟨121, [121, 130], []⟩,
  ⟨122, [122, 130], []⟩,
  ⟨123, [123, 0], [(20, 207)]⟩,
  ⟨124, [124], []⟩,
  ⟨125, [125], []⟩,
  ⟨126, [126], []⟩,
  ⟨127, [127, 125], []⟩,
  ⟨128, [128], []⟩,
  ⟨129, [129, 128], []⟩,
  ⟨130, [130], []⟩,
  ⟨131, [131], []⟩,
  ⟨132, [132], []⟩,
  ⟨133, [133], []⟩,
  ⟨134, [134], [(24, 208), (25, 209), (27, 210), (28, 211)]⟩,
  ⟨135, [135], [(52, 212), (63, 213), (66, 214), (72, 215), (79, 216), (85, 217), (96, 218), (99, 219), (105, 220), (111, 221)]⟩,
  ⟨136, [136], [(23, 222), (26, 223), (67, 224), (68, 225), (100, 226), (101, 227), (121, 228), (122, 229)]⟩,
  ⟨137, [137], [(123, 230), (124, 231), (127, 232), (128, 233)]⟩,
  ⟨138, [138], [(69, 234), (70, 235), (71, 236), (102, 237), (103, 238), (104, 239), (125, 240), (126, 241), (129, 242), (130, 243)]⟩,
  ⟨139, [139], [(133, 244), (134, 245), (135, 246), (136, 247), (137, 248), (138, 249)]⟩,
  ⟨140, [140], [(0, 250), (4, 251)]⟩,
  ⟨141, [141], [(7, 252), (8, 253), (29, 254), (30, 255)]⟩,
  ⟨142, [142], [(151, 256), (152, 257)]⟩,
  ⟨143, [143], [(33, 258), (35, 259)]⟩,
  ⟨144, [144], [(18, 260), (20, 261), (46, 262), (47, 263)]⟩,
  ⟨145, [145], [(64, 264), (65, 265), (78, 266), (84, 267), (97, 268), (98, 269), (110, 270), (116, 271)]⟩
]

/- class ids:
   0 = abc.ABC
   1 = biogeme.assisted.AssistedSpecification
   2 = biogeme.assisted.ParetoPostProcessing
   3 = biogeme.biogeme.BIOGEME
   4 = biogeme.biogeme.OldNewParamTuple
   5 = biogeme.catalog.Catalog
   6 = biogeme.catalog.SegmentedParameters
   7 = biogeme.configuration.Configuration
   8 = biogeme.configuration.SelectionTuple
   9 = biogeme.controller.CentralController
   10 = biogeme.controller.Controller
   11 = biogeme.database.Database
   12 = biogeme.database.EstimationValidation
   13 = biogeme.default_parameters.ParameterTuple
   14 = biogeme.exceptions.BiogemeError
   15 = biogeme.exceptions.DuplicateError
   16 = biogeme.exceptions.FileNotFound
   17 = biogeme.exceptions.NotImplementedError
   18 = biogeme.exceptions.ValueOutOfRange
   19 = biogeme.expressions.base_expressions.Expression
   20 = biogeme.expressions.beta_parameters.Beta
   21 = biogeme.expressions.binary_expressions.And
   22 = biogeme.expressions.binary_expressions.BinaryOperator
   23 = biogeme.expressions.binary_expressions.Divide
   24 = biogeme.expressions.binary_expressions.Minus
   25 = biogeme.expressions.binary_expressions.Or
   26 = biogeme.expressions.binary_expressions.Plus
   27 = biogeme.expressions.binary_expressions.Power
   28 = biogeme.expressions.binary_expressions.Times
   29 = biogeme.expressions.binary_expressions.bioMax
   30 = biogeme.expressions.binary_expressions.bioMin
   31 = biogeme.expressions.catalog_iterator.SelectedExpressionsIterator
   32 = biogeme.expressions.comparison_expressions.ComparisonOperator
   33 = biogeme.expressions.comparison_expressions.Equal
   34 = biogeme.expressions.comparison_expressions.Greater
   35 = biogeme.expressions.comparison_expressions.GreaterOrEqual
   36 = biogeme.expressions.comparison_expressions.Less
   37 = biogeme.expressions.comparison_expressions.LessOrEqual
   38 = biogeme.expressions.comparison_expressions.NotEqual
   39 = biogeme.expressions.elementary_expressions.DefineVariable
   40 = biogeme.expressions.elementary_expressions.Elementary
   41 = biogeme.expressions.elementary_expressions.RandomVariable
   42 = biogeme.expressions.elementary_expressions.Variable
   43 = biogeme.expressions.elementary_expressions.bioDraws
   44 = biogeme.expressions.elementary_types.TypeOfElementaryExpression
   45 = biogeme.expressions.idmanager.ElementsTuple
   46 = biogeme.expressions.idmanager.IdManager
   47 = biogeme.expressions.logit_expressions.LogLogit
   48 = biogeme.expressions.logit_expressions._bioLogLogit
   49 = biogeme.expressions.logit_expressions._bioLogLogitFullChoiceSet
   50 = biogeme.expressions.multiple_expressions.CatalogItem
   51 = biogeme.expressions.multiple_expressions.MultipleExpression
   52 = biogeme.expressions.multiple_expressions.NamedExpression
   53 = biogeme.expressions.nary_expressions.ConditionalSum
   54 = biogeme.expressions.nary_expressions.ConditionalTermTuple
   55 = biogeme.expressions.nary_expressions.Elem
   56 = biogeme.expressions.nary_expressions.LinearTermTuple
   57 = biogeme.expressions.nary_expressions.bioLinearUtility
   58 = biogeme.expressions.nary_expressions.bioMultSum
   59 = biogeme.expressions.numeric_expressions.Numeric
   60 = biogeme.expressions.unary_expressions.BelongsTo
   61 = biogeme.expressions.unary_expressions.Derive
   62 = biogeme.expressions.unary_expressions.Integrate
   63 = biogeme.expressions.unary_expressions.MonteCarlo
   64 = biogeme.expressions.unary_expressions.PanelLikelihoodTrajectory
   65 = biogeme.expressions.unary_expressions.PowerConstant
   66 = biogeme.expressions.unary_expressions.UnaryMinus
   67 = biogeme.expressions.unary_expressions.UnaryOperator
   68 = biogeme.expressions.unary_expressions.bioNormalCdf
   69 = biogeme.expressions.unary_expressions.cos
   70 = biogeme.expressions.unary_expressions.exp
   71 = biogeme.expressions.unary_expressions.log
   72 = biogeme.expressions.unary_expressions.logzero
   73 = biogeme.expressions.unary_expressions.sin
   74 = biogeme.function_output.BiogemeDisaggregateFunctionOutput
   75 = biogeme.function_output.BiogemeDisaggregateFunctionOutputSmartOutputProxy
   76 = biogeme.function_output.BiogemeFunctionOutput
   77 = biogeme.function_output.BiogemeFunctionOutputSmartOutputProxy
   78 = biogeme.function_output.FunctionOutput
   79 = biogeme.function_output.NamedBiogemeDisaggregateFunctionOutput
   80 = biogeme.function_output.NamedBiogemeFunctionOutput
   81 = biogeme.function_output.NamedFunctionOutput
   82 = biogeme.function_output.SmartOutputProxy
   83 = biogeme.mdcev.gamma_profile.GammaProfile
   84 = biogeme.mdcev.generalized.Generalized
   85 = biogeme.mdcev.mdcev.Mdcev
   86 = biogeme.mdcev.mdcev.MdcevConfiguration
   87 = biogeme.mdcev.non_monotonic.NonMonotonic
   88 = biogeme.mdcev.translated.Translated
   89 = biogeme.messaging.bioMessage
   90 = biogeme.native_draws.RandomNumberGeneratorTuple
   91 = biogeme.negative_likelihood.NegativeLikelihood
   92 = biogeme.nests.Nests
   93 = biogeme.nests.NestsForCrossNestedLogit
   94 = biogeme.nests.NestsForNestedLogit
   95 = biogeme.nests.OneNestForCrossNestedLogit
   96 = biogeme.nests.OneNestForNestedLogit
   97 = biogeme.parameters.NameSectionTuple
   98 = biogeme.parameters.Parameters
   99 = biogeme.partition.Partition
   100 = biogeme.results.Beta
   101 = biogeme.results.GeneralStatistic
   102 = biogeme.results.RawResults
   103 = biogeme.results.bioResults
   104 = biogeme.sampling_of_alternatives.choice_set_generation.ChoiceSetsGeneration
   105 = biogeme.sampling_of_alternatives.generate_model.GenerateModel
   106 = biogeme.sampling_of_alternatives.sampling_context.CrossVariableTuple
   107 = biogeme.sampling_of_alternatives.sampling_context.SamplingContext
   108 = biogeme.sampling_of_alternatives.sampling_context.StratumTuple
   109 = biogeme.sampling_of_alternatives.sampling_of_alternatives.SamplingOfAlternatives
   110 = biogeme.segmentation.DiscreteSegmentationTuple
   111 = biogeme.segmentation.OneSegmentation
   112 = biogeme.segmentation.Segmentation
   113 = biogeme.singleton.Singleton
   114 = biogeme.specification.Specification
   115 = biogeme.tools.files.TemporaryFile
   116 = biogeme.tools.likelihood_ratio.LRTuple
   117 = biogeme.tools.time.Timing
   118 = biogeme.tools.unique_ids.ModelNames
   119 = biogeme.validity.Validity
   120 = biogeme_optimization.bounds.Bounds
   121 = biogeme_optimization.diagnostics.OptimizationResults
   122 = biogeme_optimization.function.FunctionData
   123 = biogeme_optimization.function.FunctionToMinimize
   124 = biogeme_optimization.neighborhood.Neighborhood
   125 = biogeme_optimization.pareto.Pareto
   126 = biogeme_optimization.pareto.SetElement
   127 = biogeme_optimization.vns.ParetoClass
   128 = builtins.BaseException
   129 = builtins.Exception
   130 = builtins.tuple
   131 = builtins.type
   132 = enum.Enum
   133 = typing.Generic
   134 = module:biogeme.cnl
   135 = module:biogeme.draws
   136 = module:biogeme.models.cnl
   137 = module:biogeme.models.mev
   138 = module:biogeme.models.nested
   139 = module:biogeme.models.piecewise
   140 = module:biogeme.multiobjectives
   141 = module:biogeme.results
   142 = module:biogeme.segmentation
   143 = module:biogeme.tools.database
   144 = module:biogeme.tools.derivatives
   145 = module:biogeme.version
-/

/-- alias definitions: owner, old name, wrapper, name in the warning, name of the captured function, captured function, module?, static? -/
def aliases : List Alias := [
  ⟨3, 9, 0, 13, 13, 4, false, false⟩,
  ⟨3, 10, 1, 14, 14, 5, false, false⟩,
  ⟨3, 11, 2, 15, 15, 6, false, false⟩,
  ⟨3, 12, 3, 16, 16, 7, false, false⟩,
  ⟨3, 18, 8, 20, 20, 9, false, false⟩,
  ⟨3, 31, 10, 32, 32, 11, false, false⟩,
  ⟨3, 56, 12, 89, 89, 14, false, false⟩,
  ⟨3, 119, 15, 120, 120, 16, false, false⟩,
  ⟨3, 141, 17, 142, 142, 18, false, false⟩,
  ⟨3, 156, 19, 161, 161, 20, false, false⟩,
  ⟨134, 24, 208, 27, 27, 210, true, false⟩,
  ⟨134, 25, 209, 28, 28, 211, true, false⟩,
  ⟨11, 1, 22, 39, 39, 31, false, false⟩,
  ⟨11, 2, 23, 3, 3, 24, false, false⟩,
  ⟨11, 5, 25, 6, 6, 26, false, false⟩,
  ⟨11, 17, 27, 19, 19, 28, false, false⟩,
  ⟨11, 21, 29, 22, 22, 30, false, false⟩,
  ⟨11, 40, 32, 41, 41, 33, false, true⟩,
  ⟨11, 42, 34, 43, 43, 35, false, false⟩,
  ⟨11, 48, 36, 50, 50, 38, false, false⟩,
  ⟨11, 49, 37, 51, 51, 39, false, false⟩,
  ⟨11, 73, 40, 106, 106, 42, false, false⟩,
  ⟨11, 75, 41, 106, 106, 42, false, false⟩,
  ⟨11, 117, 43, 118, 118, 44, false, false⟩,
  ⟨11, 145, 45, 147, 147, 47, false, false⟩,
  ⟨11, 146, 46, 148, 148, 48, false, false⟩,
  ⟨11, 149, 49, 150, 150, 50, false, false⟩,
  ⟨11, 157, 51, 162, 162, 52, false, false⟩,
  ⟨11, 165, 53, 166, 166, 54, false, false⟩,
  ⟨11, 167, 55, 168, 168, 56, false, false⟩,
  ⟨135, 52, 212, 85, 85, 217, true, false⟩,
  ⟨135, 63, 213, 96, 96, 218, true, false⟩,
  ⟨135, 66, 214, 99, 99, 219, true, false⟩,
  ⟨135, 72, 215, 105, 105, 220, true, false⟩,
  ⟨135, 79, 216, 111, 111, 221, true, false⟩,
  ⟨19, 34, 57, 36, 36, 58, false, false⟩,
  ⟨19, 37, 59, 38, 38, 60, false, false⟩,
  ⟨19, 44, 61, 45, 45, 62, false, false⟩,
  ⟨19, 57, 63, 90, 90, 71, false, false⟩,
  ⟨19, 59, 64, 92, 92, 72, false, false⟩,
  ⟨19, 76, 65, 108, 108, 73, false, false⟩,
  ⟨19, 77, 66, 109, 109, 74, false, false⟩,
  ⟨19, 80, 67, 112, 112, 75, false, false⟩,
  ⟨19, 81, 68, 113, 113, 76, false, false⟩,
  ⟨19, 82, 69, 114, 114, 77, false, false⟩,
  ⟨19, 143, 78, 144, 144, 79, false, false⟩,
  ⟨19, 155, 80, 160, 160, 81, false, false⟩,
  ⟨20, 80, 82, 112, 112, 84, false, false⟩,
  ⟨21, 80, 86, 112, 112, 87, false, false⟩,
  ⟨23, 80, 88, 112, 112, 89, false, false⟩,
  ⟨24, 80, 90, 112, 112, 91, false, false⟩,
  ⟨25, 80, 92, 112, 112, 93, false, false⟩,
  ⟨26, 80, 94, 112, 112, 95, false, false⟩,
  ⟨27, 80, 96, 112, 112, 97, false, false⟩,
  ⟨28, 80, 98, 112, 112, 99, false, false⟩,
  ⟨29, 80, 100, 112, 112, 101, false, false⟩,
  ⟨30, 80, 102, 112, 112, 103, false, false⟩,
  ⟨33, 80, 104, 112, 112, 105, false, false⟩,
  ⟨34, 80, 106, 112, 112, 107, false, false⟩,
  ⟨35, 80, 108, 112, 112, 109, false, false⟩,
  ⟨36, 80, 110, 112, 112, 111, false, false⟩,
  ⟨37, 80, 112, 112, 112, 113, false, false⟩,
  ⟨38, 80, 114, 112, 112, 115, false, false⟩,
  ⟨46, 153, 124, 158, 158, 126, false, false⟩,
  ⟨46, 154, 125, 159, 159, 127, false, false⟩,
  ⟨47, 80, 128, 112, 112, 130, false, false⟩,
  ⟨51, 80, 133, 112, 112, 137, false, false⟩,
  ⟨53, 80, 139, 112, 112, 141, false, false⟩,
  ⟨55, 80, 142, 112, 112, 144, false, false⟩,
  ⟨58, 80, 146, 112, 112, 147, false, false⟩,
  ⟨59, 80, 148, 112, 112, 150, false, false⟩,
  ⟨66, 80, 157, 112, 112, 158, false, false⟩,
  ⟨69, 80, 159, 112, 112, 160, false, false⟩,
  ⟨70, 80, 161, 112, 112, 162, false, false⟩,
  ⟨71, 80, 163, 112, 112, 164, false, false⟩,
  ⟨72, 80, 165, 112, 112, 166, false, false⟩,
  ⟨73, 80, 167, 112, 112, 168, false, false⟩,
  ⟨136, 26, 223, 23, 23, 222, true, false⟩,
  ⟨136, 67, 224, 100, 100, 226, true, false⟩,
  ⟨136, 68, 225, 101, 101, 227, true, false⟩,
  ⟨136, 122, 229, 121, 121, 228, true, false⟩,
  ⟨137, 123, 230, 124, 124, 231, true, false⟩,
  ⟨137, 127, 232, 128, 128, 233, true, false⟩,
  ⟨138, 69, 234, 102, 102, 237, true, false⟩,
  ⟨138, 70, 235, 103, 103, 238, true, false⟩,
  ⟨138, 71, 236, 104, 104, 239, true, false⟩,
  ⟨138, 125, 240, 126, 126, 241, true, false⟩,
  ⟨138, 129, 242, 130, 130, 243, true, false⟩,
  ⟨139, 133, 244, 136, 136, 247, true, false⟩,
  ⟨139, 134, 245, 137, 137, 248, true, false⟩,
  ⟨139, 135, 246, 138, 138, 249, true, false⟩,
  ⟨140, 0, 250, 4, 4, 251, true, false⟩,
  ⟨141, 7, 252, 8, 8, 253, true, false⟩,
  ⟨141, 29, 254, 30, 30, 255, true, false⟩,
  ⟨103, 53, 170, 86, 86, 181, false, false⟩,
  ⟨103, 54, 171, 87, 87, 182, false, false⟩,
  ⟨103, 55, 172, 88, 88, 183, false, false⟩,
  ⟨103, 58, 173, 91, 91, 184, false, false⟩,
  ⟨103, 60, 174, 93, 93, 185, false, false⟩,
  ⟨103, 61, 175, 94, 94, 186, false, false⟩,
  ⟨103, 62, 176, 95, 95, 187, false, false⟩,
  ⟨103, 64, 177, 97, 97, 188, false, false⟩,
  ⟨103, 65, 178, 98, 98, 189, false, false⟩,
  ⟨103, 74, 179, 107, 107, 190, false, false⟩,
  ⟨103, 83, 180, 115, 115, 191, false, false⟩,
  ⟨103, 131, 192, 132, 132, 193, false, false⟩,
  ⟨103, 139, 194, 140, 140, 195, false, false⟩,
  ⟨103, 163, 196, 164, 164, 197, false, false⟩,
  ⟨103, 169, 198, 173, 173, 202, false, false⟩,
  ⟨103, 170, 199, 174, 174, 203, false, false⟩,
  ⟨103, 171, 200, 175, 175, 204, false, false⟩,
  ⟨103, 172, 201, 176, 176, 205, false, false⟩,
  ⟨142, 151, 256, 152, 152, 257, true, false⟩,
  ⟨143, 33, 258, 35, 35, 259, true, false⟩,
  ⟨144, 18, 260, 20, 20, 261, true, false⟩,
  ⟨144, 46, 262, 47, 47, 263, true, false⟩,
  ⟨145, 64, 264, 97, 97, 268, true, false⟩,
  ⟨145, 65, 265, 98, 98, 269, true, false⟩,
  ⟨145, 78, 266, 110, 110, 270, true, false⟩,
  ⟨145, 84, 267, 116, 116, 271, true, false⟩
]

/-- listed known findings (owner, old name) that are still present -/
def knownBad : List (ClassId × NameId) := []

/-- reviewed exceptions to the spelling rule -/
def exceptions : List (List Char × List Char) := [("cnl_avail".toList, "cnl".toList), ("logcnl_avail".toList, "logcnl".toList), ("segment_parameter".toList, "segmented_beta".toList)]

/-- reviewed exceptions to the spelling rule for obsolete keywords (empty replacement: ignored keyword) -/
def kwExceptions : List (List Char × List Char) := [("parameter_file".toList, "parameters".toList), ("seed_param".toList, "seed".toList), ("bootstrap".toList, "run_bootstrap".toList), ("suggestScales".toList, "".toList)]

def kwUses : List KwUse := [
  ⟨3, 0, [(177, none), (178, some 179), (180, some 181), (182, some 183), (184, some 185), (186, some 187), (188, some 189), (190, some 191), (192, some 193)], [194, 195, 196, 187, 185, 197], [198, 199, 200, 189, 201, 202, 203, 204, 205, 206, 207, 208, 209, 210, 211, 183, 181, 212, 179, 213, 214, 191, 215, 193, 216, 217, 218]⟩,
  ⟨3, 0, [(219, some 220)], [194, 221, 220], []⟩,
  ⟨3, 0, [(222, some 223)], [194, 223], []⟩,
  ⟨135, 99, [(224, some 225)], [226, 181, 227, 225], []⟩,
  ⟨135, 105, [(224, some 225)], [226, 181, 225, 228], []⟩,
  ⟨19, 38, [(180, some 181)], [194, 195, 181, 229, 230, 231], []⟩,
  ⟨19, 0, [(180, some 181)], [194, 195, 181, 229, 230, 231], []⟩,
  ⟨19, 113, [(180, some 181), (232, some 233)], [194, 234, 195, 181, 229, 230, 231, 235, 233, 236], []⟩,
  ⟨19, 114, [(180, some 181), (232, some 233)], [194, 195, 234, 181, 235, 233], []⟩,
  ⟨19, 0, [(180, some 181)], [194, 195, 181], []⟩,
  ⟨103, 0, [(237, some 238), (239, some 240)], [194, 240, 238, 202], []⟩,
  ⟨103, 86, [(241, some 242)], [194, 242], []⟩,
  ⟨103, 87, [(241, some 242), (243, some 244)], [194, 242, 245, 244], []⟩,
  ⟨103, 93, [(246, some 247)], [194, 247], []⟩,
  ⟨103, 94, [(248, some 249)], [194, 249], []⟩,
  ⟨103, 97, [(246, some 247)], [194, 247], []⟩,
  ⟨103, 98, [(246, some 247)], [194, 247], []⟩,
  ⟨103, 173, [(248, some 249)], [194, 249], []⟩,
  ⟨103, 174, [(246, some 247)], [194, 247], []⟩
]

/-- every alias: the warning names the function that is called, the name resolves to it where the alias lives, and on every class exposing it the dispatch condition holds -/
theorem aliases_ok : checkAliases classes aliases knownBad = true := by decide +kernel

/-- the listed known findings really violate the condition -/
theorem known_bad_are_bad : checkKnownBad classes aliases knownBad = true := by decide +kernel

/-- every old name is the legacy spelling of its target (or a reviewed exception) -/
theorem legacy_ok : checkLegacy names exceptions aliases = true := by decide +kernel

/-- keyword maps are injective, target existing parameters, and obsolete names are not parameters -/
theorem kw_ok : checkKw kwUses = true := by decide +kernel

/-- every obsolete keyword is the legacy spelling of its replacement (or a reviewed exception) -/
theorem kw_legacy_ok : checkKwLegacy names kwExceptions kwUses = true := by decide +kernel

/-- number of (class, alias) slots the correspondence must cover -/
theorem slot_count : countSlots classes aliases = 656 := by decide +kernel

/-- the generic theorem instantiated with the live table: on every class exposing a (not listed) method alias,
the alias runs exactly what the new name runs on that receiver -/
theorem every_slot_sound (a : Alias) (ha : a ∈ aliases) (hg : isKnownBad knownBad a.owner a.oldName = false)
    (c : Cls) (hc : c ∈ classes) (he : exposes classes c a = true) (hm : a.isModule = false) (hs : a.isStatic = false) :
    aliasCall classes c.id a.newName a.captured = callNew classes c.id a.newName ∧ callNew classes c.id a.newName ≠ none :=
  (C20.table_sound classes aliases knownBad aliases_ok a ha hg).2 c hc he hm hs

end Generated.Aliases
