/- GENERATED on every run by harness/props/c14.py (translate) from
   biogeme.default_parameters.all_parameters_tuple() and biogeme.optimization.algorithms.
   Do not edit. -/
import Props.C14

namespace Generated
open Params

def algos : List String := ["automatic", "scipy", "LS-newton", "TR-newton", "LS-BFGS", "TR-BFGS", "simple_bounds", "simple_bounds_newton", "simple_bounds_BFGS"]

def defaultParams : List Entry := [
  ⟨"Output", "identification_threshold", .float, .f 0x3EE4F8B588E368F1, ["is_number"]⟩,
  ⟨"Output", "only_robust_stats", .bool, .b true, ["is_boolean"]⟩,
  ⟨"Output", "generate_html", .bool, .b true, ["is_boolean"]⟩,
  ⟨"Output", "generate_pickle", .bool, .b true, ["is_boolean"]⟩,
  ⟨"MultiThreading", "number_of_threads", .int, .i (0), ["is_integer", "is_non_negative"]⟩,
  ⟨"MonteCarlo", "number_of_draws", .int, .i (100), ["is_integer", "is_positive"]⟩,
  ⟨"Specification", "missing_data", .int, .i (99999), ["is_number"]⟩,
  ⟨"MonteCarlo", "seed", .int, .i (0), ["is_integer", "is_non_negative"]⟩,
  ⟨"Estimation", "bootstrap_samples", .int, .i (100), ["is_integer", "is_non_negative"]⟩,
  ⟨"Estimation", "large_data_set", .int, .i (100000), ["is_integer", "is_non_negative"]⟩,
  ⟨"Estimation", "max_number_parameters_to_report", .int, .i (15), ["is_integer", "is_non_negative"]⟩,
  ⟨"Estimation", "save_iterations", .bool, .b true, ["is_boolean"]⟩,
  ⟨"Estimation", "maximum_number_catalog_expressions", .int, .i (100), ["is_integer", "is_positive"]⟩,
  ⟨"Estimation", "optimization_algorithm", .str, .s "automatic", ["check_algo_name"]⟩,
  ⟨"SimpleBounds", "second_derivatives", .float, .f 0x3FF0000000000000, ["zero_one", "is_number"]⟩,
  ⟨"SimpleBounds", "tolerance", .float, .f 0x3F20000000000000, ["is_number"]⟩,
  ⟨"SimpleBounds", "max_iterations", .int, .i (1000), ["is_integer", "is_positive"]⟩,
  ⟨"SimpleBounds", "infeasible_cg", .bool, .b false, ["is_boolean"]⟩,
  ⟨"SimpleBounds", "initial_radius", .float, .i (1), ["is_number", "is_positive"]⟩,
  ⟨"SimpleBounds", "steptol", .float, .f 0x3EE4F8B588E368F1, ["is_number", "is_positive"]⟩,
  ⟨"SimpleBounds", "enlarging_factor", .float, .i (10), ["is_number", "is_positive"]⟩,
  ⟨"TrustRegion", "dogleg", .bool, .b true, ["is_boolean"]⟩,
  ⟨"AssistedSpecification", "maximum_number_parameters", .int, .i (50), ["is_integer", "is_positive"]⟩,
  ⟨"AssistedSpecification", "number_of_neighbors", .int, .i (20), ["is_integer", "is_non_negative"]⟩,
  ⟨"AssistedSpecification", "largest_neighborhood", .int, .i (20), ["is_integer", "is_non_negative"]⟩,
  ⟨"AssistedSpecification", "maximum_attempts", .int, .i (100), ["is_integer", "is_non_negative"]⟩,
  ⟨"Biogeme", "version", .str, .s "3.2.14", []⟩
]

/-- table obligation: keys pairwise different, every check known, every default of its declared
kind and admitted by its own checks, `is_boolean` exactly on the `bool` entries -/
theorem defaultParams_ok : tableOK algos defaultParams = true := by decide

/-- every admitted value of every live entry round trips through the file coding -/
theorem default_value_roundtrip (e : Entry) (he : e ∈ defaultParams) (v : Val)
    (hadm : admitted algos e v = true) (hnb : e.type ≠ .bool → v.isBool = false) :
    decode e.type (encode v) = .ok v :=
  C14.table_roundtrip algos defaultParams defaultParams_ok e he v hadm hnb

/-- the live default set dumped and read into any other values of the same table comes back unchanged -/
theorem default_file_roundtrip (w : Entry → Val) :
    importDocument algos (defaultParams.map fun e => { e with value := w e }) (generateDocument defaultParams)
      = .ok defaultParams :=
  C14.file_roundtrip algos defaultParams w (by decide) (by decide)

end Generated
