/- GENERATED on every run by harness/props/c12.py (translate) from the live expression classes of
   biogeme: for each class and child slot, does the hook reach a fault planted in that slot? -/
import Model.Audit
open Audit

namespace Generated.Operators

def table : List OpInfo := [
  { cls := "And", kind := .op, slots := 2, auditReaches := [true, true], drawsReaches := [true, true], rvReaches := [true, true], panelReaches := [true, true], namesReaches := [true, true] },
  { cls := "BelongsTo", kind := .op, slots := 1, auditReaches := [true], drawsReaches := [true], rvReaches := [true], panelReaches := [true], namesReaches := [true] },
  { cls := "Catalog", kind := .catalog, slots := 1, auditReaches := [true], drawsReaches := [true], rvReaches := [true], panelReaches := [true], namesReaches := [true] },
  { cls := "ConditionalSum", kind := .op, slots := 4, auditReaches := [true, true, true, true], drawsReaches := [true, true, true, true], rvReaches := [true, true, true, true], panelReaches := [true, true, true, true], namesReaches := [true, true, true, true] },
  { cls := "Derive", kind := .op, slots := 1, auditReaches := [true], drawsReaches := [true], rvReaches := [true], panelReaches := [true], namesReaches := [true] },
  { cls := "Divide", kind := .op, slots := 2, auditReaches := [true, true], drawsReaches := [true, true], rvReaches := [true, true], panelReaches := [true, true], namesReaches := [true, true] },
  { cls := "Elem", kind := .op, slots := 3, auditReaches := [true, true, true], drawsReaches := [true, true, true], rvReaches := [true, true, true], panelReaches := [true, true, true], namesReaches := [true, true, true] },
  { cls := "Equal", kind := .op, slots := 2, auditReaches := [true, true], drawsReaches := [true, true], rvReaches := [true, true], panelReaches := [true, true], namesReaches := [true, true] },
  { cls := "Greater", kind := .op, slots := 2, auditReaches := [true, true], drawsReaches := [true, true], rvReaches := [true, true], panelReaches := [true, true], namesReaches := [true, true] },
  { cls := "GreaterOrEqual", kind := .op, slots := 2, auditReaches := [true, true], drawsReaches := [true, true], rvReaches := [true, true], panelReaches := [true, true], namesReaches := [true, true] },
  { cls := "Integrate", kind := .integrate, slots := 1, auditReaches := [true], drawsReaches := [true], rvReaches := [false], panelReaches := [true], namesReaches := [true] },
  { cls := "Less", kind := .op, slots := 2, auditReaches := [true, true], drawsReaches := [true, true], rvReaches := [true, true], panelReaches := [true, true], namesReaches := [true, true] },
  { cls := "LessOrEqual", kind := .op, slots := 2, auditReaches := [true, true], drawsReaches := [true, true], rvReaches := [true, true], panelReaches := [true, true], namesReaches := [true, true] },
  { cls := "LogLogit", kind := .logLogit, slots := 5, auditReaches := [true, true, true, true, true], drawsReaches := [true, true, true, true, true], rvReaches := [true, true, true, true, true], panelReaches := [true, true, true, true, true], namesReaches := [true, true, true, true, true] },
  { cls := "Minus", kind := .op, slots := 2, auditReaches := [true, true], drawsReaches := [true, true], rvReaches := [true, true], panelReaches := [true, true], namesReaches := [true, true] },
  { cls := "MonteCarlo", kind := .monteCarlo, slots := 1, auditReaches := [true], drawsReaches := [false], rvReaches := [true], panelReaches := [true], namesReaches := [true] },
  { cls := "NotEqual", kind := .op, slots := 2, auditReaches := [true, true], drawsReaches := [true, true], rvReaches := [true, true], panelReaches := [true, true], namesReaches := [true, true] },
  { cls := "Or", kind := .op, slots := 2, auditReaches := [true, true], drawsReaches := [true, true], rvReaches := [true, true], panelReaches := [true, true], namesReaches := [true, true] },
  { cls := "PanelLikelihoodTrajectory", kind := .panelTraj, slots := 1, auditReaches := [true], drawsReaches := [true], rvReaches := [true], panelReaches := [false], namesReaches := [true] },
  { cls := "Plus", kind := .op, slots := 2, auditReaches := [true, true], drawsReaches := [true, true], rvReaches := [true, true], panelReaches := [true, true], namesReaches := [true, true] },
  { cls := "Power", kind := .op, slots := 2, auditReaches := [true, true], drawsReaches := [true, true], rvReaches := [true, true], panelReaches := [true, true], namesReaches := [true, true] },
  { cls := "PowerConstant", kind := .op, slots := 1, auditReaches := [true], drawsReaches := [true], rvReaches := [true], panelReaches := [true], namesReaches := [true] },
  { cls := "Times", kind := .op, slots := 2, auditReaches := [true, true], drawsReaches := [true, true], rvReaches := [true, true], panelReaches := [true, true], namesReaches := [true, true] },
  { cls := "UnaryMinus", kind := .op, slots := 1, auditReaches := [true], drawsReaches := [true], rvReaches := [true], panelReaches := [true], namesReaches := [true] },
  { cls := "_bioLogLogit", kind := .logLogit, slots := 5, auditReaches := [true, true, true, true, true], drawsReaches := [true, true, true, true, true], rvReaches := [true, true, true, true, true], panelReaches := [true, true, true, true, true], namesReaches := [true, true, true, true, true] },
  { cls := "_bioLogLogitFullChoiceSet", kind := .logLogit, slots := 3, auditReaches := [true, true, true], drawsReaches := [true, true, true], rvReaches := [true, true, true], panelReaches := [true, true, true], namesReaches := [true, true, true] },
  { cls := "bioLinearUtility", kind := .op, slots := 4, auditReaches := [true, true, true, true], drawsReaches := [true, true, true, true], rvReaches := [true, true, true, true], panelReaches := [true, true, true, true], namesReaches := [true, true, true, true] },
  { cls := "bioMax", kind := .op, slots := 2, auditReaches := [true, true], drawsReaches := [true, true], rvReaches := [true, true], panelReaches := [true, true], namesReaches := [true, true] },
  { cls := "bioMin", kind := .op, slots := 2, auditReaches := [true, true], drawsReaches := [true, true], rvReaches := [true, true], panelReaches := [true, true], namesReaches := [true, true] },
  { cls := "bioMultSum", kind := .op, slots := 3, auditReaches := [true, true, true], drawsReaches := [true, true, true], rvReaches := [true, true, true], panelReaches := [true, true, true], namesReaches := [true, true, true] },
  { cls := "bioNormalCdf", kind := .op, slots := 1, auditReaches := [true], drawsReaches := [true], rvReaches := [true], panelReaches := [true], namesReaches := [true] },
  { cls := "cos", kind := .op, slots := 1, auditReaches := [true], drawsReaches := [true], rvReaches := [true], panelReaches := [true], namesReaches := [true] },
  { cls := "exp", kind := .op, slots := 1, auditReaches := [true], drawsReaches := [true], rvReaches := [true], panelReaches := [true], namesReaches := [true] },
  { cls := "log", kind := .op, slots := 1, auditReaches := [true], drawsReaches := [true], rvReaches := [true], panelReaches := [true], namesReaches := [true] },
  { cls := "logzero", kind := .op, slots := 1, auditReaches := [true], drawsReaches := [true], rvReaches := [true], panelReaches := [true], namesReaches := [true] },
  { cls := "sin", kind := .op, slots := 1, auditReaches := [true], drawsReaches := [true], rvReaches := [true], panelReaches := [true], namesReaches := [true] }
]

end Generated.Operators
