/- GENERATED on every run by harness/props/c14.py (translate) from the source of biogeme.results (AST):
   every assignment to an attribute of the stored results object, with the `is not None` guards around it.
   Do not edit. -/
import Model.ResultsObj

namespace Generated

def liveAttrTable : List (String × String × List String) := [
  ("modelName", "ctor", []),
  ("userNotes", "ctor", []),
  ("nparam", "ctor", []),
  ("betaValues", "ctor", []),
  ("betaNames", "ctor", []),
  ("initLogLike", "ctor", []),
  ("nullLogLike", "ctor", []),
  ("betas", "ctor", []),
  ("logLike", "ctor", []),
  ("g", "ctor", []),
  ("H", "ctor", []),
  ("bhhh", "ctor", []),
  ("dataname", "ctor", []),
  ("sampleSize", "ctor", []),
  ("numberOfObservations", "ctor", []),
  ("monte_carlo", "ctor", []),
  ("numberOfDraws", "ctor", []),
  ("typesOfDraws", "ctor", []),
  ("excludedData", "ctor", []),
  ("drawsProcessingTime", "ctor", []),
  ("gradientNorm", "ctor", []),
  ("optimizationMessages", "ctor", []),
  ("convergence", "ctor", []),
  ("numberOfThreads", "ctor", []),
  ("htmlFileName", "ctor", []),
  ("F12FileName", "ctor", []),
  ("latexFileName", "ctor", []),
  ("pickleFileName", "ctor", []),
  ("bootstrap", "ctor", []),
  ("bootstrap_time", "ctor", []),
  ("secondOrderTable", "ctor", []),
  ("pickleFileName", "writer:write_pickle", []),
  ("likelihoodRatioTestNull", "stats", ["?nullLogLike"]),
  ("likelihoodRatioTest", "stats", ["?initLogLike"]),
  ("rhoSquare", "stats", ["?initLogLike"]),
  ("rhoSquareNull", "stats", ["?nullLogLike"]),
  ("rhoBarSquare", "stats", ["?initLogLike"]),
  ("rhoBarSquareNull", "stats", ["?nullLogLike"]),
  ("akaike", "stats", []),
  ("bayesian", "stats", []),
  ("eigenValues", "stats", ["H"]),
  ("eigenVectors", "stats", ["H"]),
  ("singularValues", "stats", ["H"]),
  ("varCovar", "stats", ["H"]),
  ("correlation", "stats", ["H"]),
  ("robust_varCovar", "stats", ["H"]),
  ("robust_correlation", "stats", ["H"]),
  ("bootstrap_varCovar", "stats", ["H", "bootstrap"]),
  ("bootstrap_correlation", "stats", ["H", "bootstrap"]),
  ("secondOrderTable", "stats", ["H"]),
  ("smallestEigenValue", "stats", ["H"]),
  ("smallestEigenVector", "stats", ["H"]),
  ("smallestSingularValue", "stats", ["H"]),
  ("largestEigenValue", "stats", ["H"]),
  ("largestEigenVector", "stats", ["H"]),
  ("largestSingularValue", "stats", ["H"]),
  ("conditionNumber", "stats", ["H"]),
  ("htmlFileName", "writer:write_html", []),
  ("latexFileName", "writer:write_latex", []),
  ("F12FileName", "writer:write_f12", [])
]

/-- the attributes of the model, where each is assigned and under which guards = those of the live source
(same rows, no duplicates on either side) -/
theorem results_attrs_ok :
    (liveAttrTable.all (ResObj.sourceTable.contains ·) && ResObj.sourceTable.all (liveAttrTable.contains ·)
      && decide (liveAttrTable.length = ResObj.sourceTable.length)) = true := by decide +kernel

end Generated
