/- GENERATED on every run by harness/props/c08.py (translate) from LIVE results objects of biogeme.results:
   a real bioResults whose report attributes hold distinct sentinel values is printed; for every label the table
   records the attribute whose sentinel appears under it (the number of digits printed is not part of the tie).  Do not edit. -/
import Model.StatsSources

namespace GenStats
open Stats

def generalTable : List (String × String) := [
  ("Number of estimated parameters", "nparam"),
  ("Number of free parameters", "number_of_free_parameters()"),
  ("Sample size", "sampleSize"),
  ("Observations", "numberOfObservations"),
  ("Excluded observations", "excludedData"),
  ("Null log likelihood", "nullLogLike"),
  ("Init log likelihood", "initLogLike"),
  ("Final log likelihood", "logLike"),
  ("Likelihood ratio test for the null model", "likelihoodRatioTestNull"),
  ("Rho-square for the null model", "rhoSquareNull"),
  ("Rho-square-bar for the null model", "rhoBarSquareNull"),
  ("Likelihood ratio test for the init. model", "likelihoodRatioTest"),
  ("Rho-square for the init. model", "rhoSquare"),
  ("Rho-square-bar for the init. model", "rhoBarSquare"),
  ("Akaike Information Criterion", "akaike"),
  ("Bayesian Information Criterion", "bayesian"),
  ("Final gradient norm", "gradientNorm"),
  ("Number of draws", "numberOfDraws"),
  ("Draws generation time", "drawsProcessingTime"),
  ("Types of draws", "typesOfDraws"),
  ("Bootstrapping time", "bootstrap_time"),
  ("Nbr of threads", "numberOfThreads")
]

def shortTable : List (String × String) := [
  ("Nbr of parameters", "nparam"),
  ("Sample size", "sampleSize"),
  ("Observations", "numberOfObservations"),
  ("Excluded data", "excludedData"),
  ("Null log likelihood", "nullLogLike"),
  ("Final log likelihood", "logLike"),
  ("Likelihood ratio test (null)", "likelihoodRatioTestNull"),
  ("Rho square (null)", "rhoSquareNull"),
  ("Rho bar square (null)", "rhoBarSquareNull"),
  ("Akaike Information Criterion", "akaike"),
  ("Bayesian Information Criterion", "bayesian")
]

def strTable : List (String × String) := [
  ("Nbr of parameters", "nparam"),
  ("Sample size", "sampleSize"),
  ("Observations", "numberOfObservations"),
  ("Excluded data", "excludedData"),
  ("Null log likelihood", "nullLogLike"),
  ("Init log likelihood", "initLogLike"),
  ("Final log likelihood", "logLike"),
  ("Likelihood ratio test (null)", "likelihoodRatioTestNull"),
  ("Rho square (null)", "rhoSquareNull"),
  ("Rho bar square (null)", "rhoBarSquareNull"),
  ("Likelihood ratio test (init)", "likelihoodRatioTest"),
  ("Rho square (init)", "rhoSquare"),
  ("Rho bar square (init)", "rhoBarSquare"),
  ("Akaike Information Criterion", "akaike"),
  ("Bayesian Information Criterion", "bayesian"),
  ("Final gradient norm", "gradientNorm")
]

/-- the dictionary of `get_general_statistics` reads, under every label, the attribute the model says -/
theorem general_table_eq : generalTable = GLabel.all.map (fun l => (l.render, l.source.name)) := by decide

/-- `short_summary` prints, under every one of its words, the attribute the model says -/
theorem short_table_eq : shortTable = shortLabels.map (fun l => (l.textLabel, l.source.name)) := by decide

/-- `__str__` likewise -/
theorem str_table_eq : strTable = strLabels.map (fun l => (l.textLabel, l.source.name)) := by decide

end GenStats
