/-
Model of the specification audit of biogeme (C12):

* `Expression.audit` and its overrides (`Variable`, `MonteCarlo`, `Integrate`,
  `PanelLikelihoodTrajectory`, `LogLogit`, comparison operators, catalogs);
* the placement collectors `check_draws`, `check_rv`, `check_panel_trajectory`;
* `embed_expression`;
* the two entry paths: `BIOGEME.__init__` (`_audit` + panel check) and
  `Expression.get_value_and_derivatives`.

Structural model: a formula is a DAG of nodes with a *kind* that determines which audit hooks
the class overrides.  Every ordinary operator class (arithmetic, comparison, logical, unary
functions, Elem, bioMultSum, ConditionalSum, bioLinearUtility, BelongsTo, PowerConstant, Derive…)
is `op`: its hooks are the defaults of `Expression`, which descend into all children.  That
this is true of the real classes is checked on every run by the translator-generated table
(`Generated/Operators.lean`).  Core Lean only.
-/

namespace Audit

inductive AKind
  | leaf        -- Numeric (and a Beta whose name plays no role in the case)
  | var | draws | rv
  | beta | betaFixed   -- a named parameter, to be estimated / fixed (two id classes of `IdManager.prepare`)
  | op          -- any class using the default hooks
  | monteCarlo | integrate | panelTraj | logLogit | catalog
deriving DecidableEq, Repr, Inhabited

structure ANode where
  kind : AKind
  children : List Nat := []
  name : String := ""
  keysMismatch : Bool := false     -- LogLogit: util keys ≠ availability keys
  choiceInvalid : Bool := false    -- LogLogit: the choice formula takes a value that is no (available) alternative
deriving Repr, Inhabited

abbrev ADag := List ANode

inductive Fault
  | unknownColumn (name : String)
  | drawsOutside (name : String)
  | rvOutside (name : String)
  | varOutsideTraj (name : String)
  | mcNoDraws | mcNested | mcPanelNoTraj | intNoRv | trajNonPanel | logitKeys | logitChoice
  | duplicateName (name : String)   -- `IdManager.prepare`: one name for two kinds of element
deriving DecidableEq, Repr

structure Db where
  cols : List String
  panel : Bool

/-- `embed_expression(t)`: the node or one of its descendants has kind `t` -/
def embeds (d : ADag) (t : AKind) : Nat → Nat → Bool
  | 0, _ => false
  | fuel + 1, k =>
    match d[k]? with
    | none => false
    | some n => n.kind == t || n.children.any (embeds d t fuel)

/-- the checks a class adds on top of auditing its children -/
def localFaults (d : ADag) (db : Db) (fuel : Nat) (n : ANode) : List Fault :=
  match n.kind with
  | .var => if db.cols.contains n.name then [] else [.unknownColumn n.name]
  | .monteCarlo =>
    (if n.children.any (embeds d .draws fuel) then [] else [.mcNoDraws])
      ++ (if n.children.any (embeds d .monteCarlo fuel) then [.mcNested] else [])
      ++ (if db.panel && !n.children.any (embeds d .panelTraj fuel) then [.mcPanelNoTraj] else [])
  | .integrate => if n.children.any (embeds d .rv fuel) then [] else [.intNoRv]
  | .panelTraj => if db.panel then [] else [.trajNonPanel]
  | .logLogit => (if n.keysMismatch then [.logitKeys] else []) ++ (if n.choiceInvalid then [.logitChoice] else [])
  | _ => []

/-- `audit(database)`: the audits of all children, then the class's own checks -/
def audit (d : ADag) (db : Db) : Nat → Nat → List Fault
  | 0, _ => []
  | fuel + 1, k =>
    match d[k]? with
    | none => []
    | some n => n.children.flatMap (audit d db fuel) ++ localFaults d db fuel n

/-- generic collector: names of the nodes of kind `what` not below a node of kind `stop` -/
def collect (d : ADag) (what stop : AKind) : Nat → Nat → List String
  | 0, _ => []
  | fuel + 1, k =>
    match d[k]? with
    | none => []
    | some n =>
      if n.kind == what then [n.name]
      else if n.kind == stop then []
      else n.children.flatMap (collect d what stop fuel)

def checkDraws (d : ADag) := collect d .draws .monteCarlo
def checkRv (d : ADag) := collect d .rv .integrate
def checkPanel (d : ADag) := collect d .var .panelTraj

/-- what `BIOGEME.__init__` reports for the log likelihood formula -/
def topAuditBio (d : ADag) (db : Db) (k : Nat) : List Fault :=
  (if db.panel then (checkPanel d (k + 1) k).map .varOutsideTraj else [])
  ++ (checkDraws d (k + 1) k).map .drawsOutside
  ++ (checkRv d (k + 1) k).map .rvOutside
  ++ audit d db (k + 1) k

/-- what `Expression.get_value_and_derivatives` reports -/
def topAuditExpr (d : ADag) (db : Db) (k : Nat) : List Fault :=
  audit d db (k + 1) k
  ++ (checkDraws d (k + 1) k).map .drawsOutside
  ++ (checkRv d (k + 1) k).map .rvOutside
  ++ (if db.panel && embeds d .panelTraj (k + 1) k then (checkPanel d (k + 1) k).map .varOutsideTraj else [])

/-! ### id assignment: `IdManager.prepare` (one name for two kinds of element) and
`Variable.set_id_manager` (column absent from the data)

`Expression.prepare` runs before the audit on the expression path (`get_value_c`,
`get_value_and_derivatives`, `Database.add_column / define_variable / remove /
values_from_database`); `BIOGEME.__init__` runs it (`reset_id_manager`) after the audit, and it is
all that is left when the audit is skipped. -/

/-- `dict_of_elementary_expression(the_type)`: names of all nodes of the kind below `k`.  Every
operator class descends into all its children (generated table, column `namesReaches`); an
elementary expression has no children, so the collector with `stop = what` never stops early. -/
def names (d : ADag) (what : AKind) : Nat → Nat → List String := collect d what what

/-- entries of a list that occur in it more than once -/
def dupsOf (l : List String) : List String := l.filter (fun x => l.count x > 1)

/-- the merged list of names of `IdManager.prepare`: per id class the *keys of a dict* (distinct),
then all columns of the data, used by the formula or not -/
def mergedNames (d : ADag) (db : Db) (k : Nat) : List String :=
  (names d .beta (k + 1) k).eraseDups ++ (names d .betaFixed (k + 1) k).eraseDups
    ++ (names d .rv (k + 1) k).eraseDups ++ (names d .draws (k + 1) k).eraseDups ++ db.cols

/-- `IdManager.prepare`: "The following elementary expressions are defined more than once" -/
def prepareFaults (d : ADag) (db : Db) (k : Nat) : List Fault :=
  (dupsOf (mergedNames d db k)).eraseDups.map .duplicateName

/-- `Variable.set_id_manager` on every variable of the formula: its two lookups (the merged index,
which also holds the parameters / draws / random variables, then the index of the columns) both
succeed exactly when the name is a column of the data; otherwise the library error is raised -/
def setIdFaults (d : ADag) (db : Db) (k : Nat) : List Fault :=
  ((names d .var (k + 1) k).filter (fun v => !db.cols.contains v)).map .unknownColumn

def firstNonEmpty : List (List Fault) → List Fault
  | [] => []
  | l :: rest => if l.isEmpty then firstNonEmpty rest else l

/-- the expression path in the order of the code: ids first (duplicates, then absent columns), then
the audit and the placement rules; the first stage that reports anything raises -/
def stagedExpr (d : ADag) (db : Db) (k : Nat) : List Fault :=
  firstNonEmpty [prepareFaults d db k, setIdFaults d db k, topAuditExpr d db k]

/-- `BIOGEME.__init__`: the audit (unless skipped), then the ids -/
def stagedBio (d : ADag) (db : Db) (k : Nat) (skipAudit : Bool) : List Fault :=
  firstNonEmpty [if skipAudit then [] else topAuditBio d db k, prepareFaults d db k, setIdFaults d db k]

/-- elementary expressions have no children -/
def LeafWF (d : ADag) : Prop :=
  ∀ (k : Nat) (n : ANode), d[k]? = some n →
    (n.kind = .beta ∨ n.kind = .betaFixed ∨ n.kind = .rv ∨ n.kind = .draws ∨ n.kind = .var) → n.children = []

/-! ### data audit: `Database.__init__`, `Database._audit` (run again by `BIOGEME.__init__`) -/

inductive DataFault
  | nonNumeric (col : String) | nan | empty
deriving DecidableEq, Repr

/-- what the audit can see of one column: its dtype is a number type, some entry is null -/
structure ColInfo where
  name : String
  numeric : Bool
  hasNaN : Bool
deriving Repr

/-- the data frame the database holds *at the time of the call* (`database.data`) -/
structure FrameInfo where
  cols : List ColInfo
  rows : Nat
deriving Repr

/-- `Database._audit` on the current frame -/
def frameAudit (f : FrameInfo) : List DataFault :=
  (f.cols.filter (fun c => !c.numeric)).map (fun c => .nonNumeric c.name)
    ++ (if f.cols.any (·.hasNaN) then [.nan] else [])

/-- `Database(...)`: "Database has no entry" is raised first, then the audit -/
def dataAuditNew (f : FrameInfo) : List DataFault :=
  if f.rows == 0 then [.empty] else frameAudit f

/-- `BIOGEME(...)` audits the database again.  REPAIRED behaviour (finding F-C12-empty): the code
at hand repeats `_audit` only, which does not test for an empty frame. -/
def dataAuditBio (f : FrameInfo) : List DataFault :=
  (if f.rows == 0 then [.empty] else []) ++ frameAudit f

/-- a path of child edges from `a` down to `b` whose *proper ancestors of b* satisfy `P` -/
inductive Path (d : ADag) (P : ANode → Prop) : Nat → Nat → Prop
  | refl (a : Nat) : Path d P a a
  | step (a c b : Nat) (n : ANode) : d[a]? = some n → P n → c ∈ n.children → Path d P c b → Path d P a b

def WF (d : ADag) : Prop := ∀ (k : Nat) (n : ANode), d[k]? = some n → ∀ c ∈ n.children, c < k

/-! ### the operator table regenerated from the live classes -/

/-- one expression class as probed by the translator: for each child slot, does the hook reach a
fault planted in that slot? -/
structure OpInfo where
  cls : String
  kind : AKind
  slots : Nat
  auditReaches : List Bool
  drawsReaches : List Bool
  rvReaches : List Bool
  panelReaches : List Bool
  namesReaches : List Bool    -- dict_of_elementary_expression / set_id_manager reach the slot
deriving Repr

/-- the behaviour the model assumes of a class of the given kind -/
def OpInfo.conforms (o : OpInfo) : Bool :=
  o.auditReaches.length == o.slots && o.drawsReaches.length == o.slots &&
  o.rvReaches.length == o.slots && o.panelReaches.length == o.slots &&
  o.namesReaches.length == o.slots && o.namesReaches.all id &&
  o.auditReaches.all id &&
  (if o.kind == .monteCarlo then o.drawsReaches.all (!·) else o.drawsReaches.all id) &&
  (if o.kind == .integrate then o.rvReaches.all (!·) else o.rvReaches.all id) &&
  (if o.kind == .panelTraj then o.panelReaches.all (!·) else o.panelReaches.all id)

def tableConforms (t : List OpInfo) : Bool := t.all OpInfo.conforms

end Audit
