/-
Model of the specification audit of biogeme (C12):

* `Expression.audit` and its overrides (`Variable`, `MonteCarlo`, `Integrate`,
  `PanelLikelihoodTrajectory`, `LogLogit`, comparison operators, catalogs);
* the placement collectors `check_draws`, `check_rv`, `check_panel_trajectory`;
* `embed_expression`;
* the two entry paths: `BIOGEME.__init__` (`_audit` + panel check) and
  `Expression.get_value_and_derivatives`.

Structural model: a formula is a DAG of nodes with a *kind* that determines which audit hooks
the class overrides.  Every ordinary operator class (arithmetic, comparison, logical, unary
functions, Elem, bioMultSum, ConditionalSum, bioLinearUtility, BelongsTo, PowerConstant, Derive…)
is `op`: its hooks are the defaults of `Expression`, which descend into all children.  That
this is true of the real classes is checked on every run by the translator-generated table
(`Generated/Operators.lean`).  Core Lean only.
-/

namespace Audit

inductive AKind
  | leaf        -- Numeric, Beta
  | var | draws | rv
  | op          -- any class using the default hooks
  | monteCarlo | integrate | panelTraj | logLogit | catalog
deriving DecidableEq, Repr, Inhabited

structure ANode where
  kind : AKind
  children : List Nat := []
  name : String := ""
  keysMismatch : Bool := false     -- LogLogit: util keys ≠ availability keys
  choiceInvalid : Bool := false    -- LogLogit: the choice formula takes a value that is no (available) alternative
deriving Repr, Inhabited

abbrev ADag := List ANode

inductive Fault
  | unknownColumn (name : String)
  | drawsOutside (name : String)
  | rvOutside (name : String)
  | varOutsideTraj (name : String)
  | mcNoDraws | mcNested | mcPanelNoTraj | intNoRv | trajNonPanel | logitKeys | logitChoice
deriving DecidableEq, Repr

structure Db where
  cols : List String
  panel : Bool

/-- `embed_expression(t)`: the node or one of its descendants has kind `t` -/
def embeds (d : ADag) (t : AKind) : Nat → Nat → Bool
  | 0, _ => false
  | fuel + 1, k =>
    match d[k]? with
    | none => false
    | some n => n.kind == t || n.children.any (embeds d t fuel)

/-- the checks a class adds on top of auditing its children -/
def localFaults (d : ADag) (db : Db) (fuel : Nat) (n : ANode) : List Fault :=
  match n.kind with
  | .var => if db.cols.contains n.name then [] else [.unknownColumn n.name]
  | .monteCarlo =>
    (if n.children.any (embeds d .draws fuel) then [] else [.mcNoDraws])
      ++ (if n.children.any (embeds d .monteCarlo fuel) then [.mcNested] else [])
      ++ (if db.panel && !n.children.any (embeds d .panelTraj fuel) then [.mcPanelNoTraj] else [])
  | .integrate => if n.children.any (embeds d .rv fuel) then [] else [.intNoRv]
  | .panelTraj => if db.panel then [] else [.trajNonPanel]
  | .logLogit => (if n.keysMismatch then [.logitKeys] else []) ++ (if n.choiceInvalid then [.logitChoice] else [])
  | _ => []

/-- `audit(database)`: the audits of all children, then the class's own checks -/
def audit (d : ADag) (db : Db) : Nat → Nat → List Fault
  | 0, _ => []
  | fuel + 1, k =>
    match d[k]? with
    | none => []
    | some n => n.children.flatMap (audit d db fuel) ++ localFaults d db fuel n

/-- generic collector: names of the nodes of kind `what` not below a node of kind `stop` -/
def collect (d : ADag) (what stop : AKind) : Nat → Nat → List String
  | 0, _ => []
  | fuel + 1, k =>
    match d[k]? with
    | none => []
    | some n =>
      if n.kind == what then [n.name]
      else if n.kind == stop then []
      else n.children.flatMap (collect d what stop fuel)

def checkDraws (d : ADag) := collect d .draws .monteCarlo
def checkRv (d : ADag) := collect d .rv .integrate
def checkPanel (d : ADag) := collect d .var .panelTraj

/-- what `BIOGEME.__init__` reports for the log likelihood formula -/
def topAuditBio (d : ADag) (db : Db) (k : Nat) : List Fault :=
  (if db.panel then (checkPanel d (k + 1) k).map .varOutsideTraj else [])
  ++ (checkDraws d (k + 1) k).map .drawsOutside
  ++ (checkRv d (k + 1) k).map .rvOutside
  ++ audit d db (k + 1) k

/-- what `Expression.get_value_and_derivatives` reports -/
def topAuditExpr (d : ADag) (db : Db) (k : Nat) : List Fault :=
  audit d db (k + 1) k
  ++ (checkDraws d (k + 1) k).map .drawsOutside
  ++ (checkRv d (k + 1) k).map .rvOutside
  ++ (if db.panel && embeds d .panelTraj (k + 1) k then (checkPanel d (k + 1) k).map .varOutsideTraj else [])

/-- a path of child edges from `a` down to `b` whose *proper ancestors of b* satisfy `P` -/
inductive Path (d : ADag) (P : ANode → Prop) : Nat → Nat → Prop
  | refl (a : Nat) : Path d P a a
  | step (a c b : Nat) (n : ANode) : d[a]? = some n → P n → c ∈ n.children → Path d P c b → Path d P a b

def WF (d : ADag) : Prop := ∀ (k : Nat) (n : ANode), d[k]? = some n → ∀ c ∈ n.children, c < k

/-! ### the operator table regenerated from the live classes -/

/-- one expression class as probed by the translator: for each child slot, does the hook reach a
fault planted in that slot? -/
structure OpInfo where
  cls : String
  kind : AKind
  slots : Nat
  auditReaches : List Bool
  drawsReaches : List Bool
  rvReaches : List Bool
  panelReaches : List Bool
deriving Repr

/-- the behaviour the model assumes of a class of the given kind -/
def OpInfo.conforms (o : OpInfo) : Bool :=
  o.auditReaches.length == o.slots && o.drawsReaches.length == o.slots &&
  o.rvReaches.length == o.slots && o.panelReaches.length == o.slots &&
  o.auditReaches.all id &&
  (if o.kind == .monteCarlo then o.drawsReaches.all (!·) else o.drawsReaches.all id) &&
  (if o.kind == .integrate then o.rvReaches.all (!·) else o.rvReaches.all id) &&
  (if o.kind == .panelTraj then o.panelReaches.all (!·) else o.panelReaches.all id)

def tableConforms (t : List OpInfo) : Bool := t.all OpInfo.conforms

end Audit
