/-
C12, round 3 — model of what the audit reads from the DATA and of evaluation HISTORIES.

* `LogLogit.audit`, data-dependent part, row by row (`logit_expressions.py`): the keys of the
  utilities against the keys of the availabilities; `np.argwhere(~np.isin(choices, alts)).any()`
  — numpy's `any` of an array of ROW NUMBERS, which is false when the only offending row is row 0;
  then, when the keys are consistent, `Database.check_availability_of_chosen_alt`, whose lookup
  `calculated_avail[c]` of every row raises the library error for a choice that is no key.
  With `av = None` the availabilities are `Numeric(1)` on the keys of the utilities.
* `LogLogit.get_value` (evaluation in Python, no data): the two tests on the chosen alternative.
* nest audits (`nests.py`): `Nests.__init__` (alternatives outside the choice set) and
  `NestsForNestedLogit.check_intersection` (all ordered pairs of different nests).
* a session: one formula object (with the configurations of its catalog), one `Database`
  object; between evaluations the data are edited in place, the panel structure is declared,
  another member of the catalog is selected, columns come and go.  The code keeps NO memo of an
  earlier audit: each evaluation audits the CURRENT formula on the CURRENT data.

Core Lean only.
-/
import Model.Audit

namespace Audit

/-! ### the logit audit, row by row -/

/-- what `LogLogit.audit` reads: the keys of the two dictionaries and the value of the choice
formula on every row of the data (row order) -/
structure LogitData where
  alts : List Int
  avKeys : List Int
  choices : List Int
deriving Repr, Inhabited

/-- `np.argwhere(~np.isin(choices, alts))`: the row NUMBERS of the choices that are no alternative -/
def incorrectRows (alts : List Int) : Nat → List Int → List Nat
  | _, [] => []
  | i, c :: rest =>
    if alts.contains c then incorrectRows alts (i + 1) rest else i :: incorrectRows alts (i + 1) rest

/-- `index_of_incorrect_choices.any()`: numpy's `any` of the row numbers — true iff one of them is
not 0.  (So the dedicated test of the audit does not see a fault that sits in row 0 only.) -/
def argwhereAny (rows : List Nat) : Bool := rows.any (· != 0)

/-- `self.util.keys() != self.av.keys()` (dictionary views compare as sets) -/
def keysConsistent (L : LogitData) : Bool :=
  L.alts.all L.avKeys.contains && L.avKeys.all L.alts.contains

/-- `check_availability_of_chosen_alt`: `calculated_avail[c]` fails for some row → BiogemeError -/
def chosenNotInAv (L : LogitData) : Bool := L.choices.any (fun c => !L.avKeys.contains c)

/-- the error flag "choice" of the node, as the code computes it -/
def choiceFlag (L : LogitData) : Bool :=
  argwhereAny (incorrectRows L.alts 0 L.choices) || (keysConsistent L && chosenNotInAv L)

/-- the errors of the data-dependent part of `LogLogit.audit` -/
def logitDataFaults (L : LogitData) : List Fault :=
  (if keysConsistent L then [] else [.logitKeys]) ++ (if choiceFlag L then [.logitChoice] else [])

/-- the node of the structural model with its two flags read from the data -/
def LogitData.flags (L : LogitData) (n : ANode) : ANode :=
  { n with keysMismatch := !keysConsistent L, choiceInvalid := choiceFlag L }

/-- `LogLogit.get_value` (Python evaluation of a logit whose choice evaluates to `c`): refused
when `c` is no key of the utilities or no key of the availabilities -/
def getValueRefuses (L : LogitData) (c : Int) : Bool := !L.alts.contains c || !L.avKeys.contains c

/-! ### nest audits -/

/-- `Nests.__init__`: alternatives of the nests that are not in the choice set -/
def nestsOutside (choiceSet : List Int) (nests : List (List Int)) : List Int :=
  nests.flatten.filter (fun a => !choiceSet.contains a)

def nestsMeet (a b : List Int) : Bool := a.any b.contains

/-- `check_intersection`: the double loop over all ordered pairs `i ≠ j` -/
def nestsOverlap (nests : List (List Int)) : Bool :=
  (List.range nests.length).any fun i => (List.range nests.length).any fun j =>
    i != j && nestsMeet (nests.getD i []) (nests.getD j [])

inductive NestVerdict
  | accepted | outsideChoiceSet | overlap
deriving DecidableEq, Repr

/-- constructor, then `check_partition` as every nested-logit model function calls it -/
def nestAudit (choiceSet : List Int) (nests : List (List Int)) : NestVerdict :=
  if nestsOutside choiceSet nests != [] then .outsideChoiceSet
  else if nestsOverlap nests then .overlap else .accepted

/-- a nest as the user writes it: a free label (or none) and its alternatives -/
structure NamedNest where
  name : Option String
  alts : List Int
deriving Repr

/-- `Nests.__init__`: an unnamed nest gets `nest_<position>` (positions from 1); a name already
borne — given by the user or kept from an earlier specification that used the object — stays -/
def assignNames : Nat → List NamedNest → List (String × List Int)
  | _, [] => []
  | pos, n :: rest => (n.name.getD s!"nest_{pos}", n.alts) :: assignNames (pos + 1) rest

/-- the audit of named nests: `check_intersection` loops over the POSITIONS of the tuple of nests
(`enumerate`, `i != j`), never over names: equal names do not merge nests -/
def nestAuditNamed (choiceSet : List Int) (ns : List NamedNest) : NestVerdict :=
  nestAudit choiceSet ((assignNames 1 ns).map (·.2))

/-! ### sessions: evaluations and edits on the same objects -/

/-- the formula under one selection of its catalog -/
structure Spec where
  dag : ADag
  root : Nat
deriving Repr, Inhabited

structure SState where
  configs : List Spec              -- one per member of the catalog (a formula without catalog: one)
  sel : Nat                        -- `select_expression`
  cols : List String               -- `database.data.columns` now
  panel : Bool                     -- `database.is_panel()` now
  logit : Option LogitData         -- alternatives of the logit of the formula, choice column now
deriving Repr

inductive SOp
  | evalExpr                        -- get_value_c / get_value_and_derivatives / the function of
                                    -- create_function / Database.values_from_database
  | evalBio (skipAudit : Bool)      -- BIOGEME(database, formula) on the same objects
  | setChoice (row : Nat) (v : Int) -- database.data.loc[row, 'choice'] = v
  | scaleChoice (k : Int)           -- database.scale_column('choice', k)
  | declarePanel                    -- database.panel(...)
  | select (i : Nat)                -- formula.select_expression(name, i)
  | dropColumn (name : String)
  | addColumn (name : String)
deriving Repr

def SOp.isEval : SOp → Bool
  | .evalExpr => true
  | .evalBio _ => true
  | _ => false

/-- the formula as it is now: selected configuration, logit flags read from the data held now -/
def SState.dag (s : SState) : ADag :=
  match s.configs[s.sel]? with
  | none => []
  | some c =>
    match s.logit with
    | none => c.dag
    | some L => c.dag.map fun n => if n.kind == .logLogit then L.flags n else n

def SState.root (s : SState) : Nat := (s.configs.getD s.sel default).root
def SState.db (s : SState) : Db := { cols := s.cols, panel := s.panel }

/-- what an operation leaves behind: an evaluation leaves nothing -/
def SState.apply (s : SState) : SOp → SState
  | .evalExpr => s
  | .evalBio _ => s
  | .setChoice row v => { s with logit := s.logit.map fun L => { L with choices := L.choices.set row v } }
  | .scaleChoice k => { s with logit := s.logit.map fun L => { L with choices := L.choices.map (· * k) } }
  | .declarePanel => { s with panel := true }
  | .select i => if i < s.configs.length then { s with sel := i } else s
  | .dropColumn c => { s with cols := s.cols.filter (· != c) }
  | .addColumn c => if s.cols.contains c then s else { s with cols := s.cols ++ [c] }

/-- the verdict of an evaluation: the staged checks of its entry path on the current objects -/
def SState.verdict (s : SState) : SOp → Option (List Fault)
  | .evalExpr => some (stagedExpr s.dag s.db s.root)
  | .evalBio skip => some (stagedBio s.dag s.db s.root skip)
  | _ => none

/-- the verdicts of the evaluations of a history, in order -/
def run : List SOp → SState → List (List Fault)
  | [], _ => []
  | op :: rest, s =>
    (match s.verdict op with
     | some v => [v]
     | none => []) ++ run rest (s.apply op)

def final (ops : List SOp) (s : SState) : SState := ops.foldl SState.apply s

/-- the history without its evaluations -/
def edits (ops : List SOp) : List SOp := ops.filter (fun o => !o.isEval)

end Audit
