/-
Model of the catalog / controller / configuration machinery of biogeme
(src/biogeme/configuration.py, controller.py, catalog.py,
 expressions/multiple_expressions.py, expressions/catalog_iterator.py and the
 catalog entry points of expressions/base_expressions.py).

Everything is exact (strings, integers).  Names are `List Char` (Python `str`), compared
like Python compares `str` (lexicographic on code points).

What is modelled, with the branches of the code:

* `Configuration`           : `mkConfig` (sort, duplicate test), `stringId`, `fromString`
                              (split at ';', then at ':', dict semantics), `fromDict`.
* `Controller`              : `setIndex`, `setName`, `modifyController` (circular and clamped
                              branch, returned number of modifications).
* `CentralController`       : sorted controllers, `numberOfConfigurations`, `allIds` (cartesian
                              product of the per-controller codes, joined with ';'),
                              `allConfigurations` (= `fromString` of every id, as the code
                              does), the cap `maximum_number_of_configurations`,
                              `getConfiguration`, `setConfiguration`, `setController`,
                              the four operator families and `prepareOperators`.
* `MultipleExpression`      : every tree operation is delegated to the member selected by the
                              controller (`select`, `evalSel`).
* `SelectedExpressionsIterator` : `iterVisited`.

State of the controllers: a function `Name → Nat` (current index of the controller with
that name); the state reached when an operation raises is not modelled.

Repaired behaviour (findings FC16a/b/c, see known_findings.d/C16.json): `mkController`
refuses names containing the reserved separators and duplicate specification names;
`central` refuses two different controllers with the same name.  The code of /repo accepts
these inputs silently.

Core Lean only.
-/

namespace Cat

abbrev Name := List Char

inductive Err where
  | syntax            -- "Invalid syntax for ID"
  | dupController     -- "appears more than once in the configuration"
  | unknownController -- "Controller … is unknown" / "Unknown controller"
  | unknownSpec       -- "unknown specification for controller"
  | incomplete        -- "Incomplete configuration"
  | wrongIndex        -- "Wrong index"
  | badDirection      -- "Incorrect direction"
  | badName           -- repaired: reserved character in a controller / specification name
  | dupSpec           -- repaired: the same specification name twice in one controller
  | sameName          -- repaired: two different controllers with the same name
  | emptyCatalog      -- "cannot create a catalog from an empty list"
  | noCatalog         -- expression without catalog (the code raises a syntax error on '')
deriving DecidableEq, Repr

def Err.tag : Err → String
  | .syntax => "syntax" | .dupController => "dupController"
  | .unknownController => "unknownController" | .unknownSpec => "unknownSpec"
  | .incomplete => "incomplete" | .wrongIndex => "wrongIndex"
  | .badDirection => "badDirection" | .badName => "badName" | .dupSpec => "dupSpec"
  | .sameName => "sameName" | .emptyCatalog => "emptyCatalog" | .noCatalog => "noCatalog"

/-! ## order on names (Python `str` comparison) -/

def leName : Name → Name → Bool
  | [], _ => true
  | _ :: _, [] => false
  | a :: as, b :: bs =>
    if a.toNat < b.toNat then true
    else if a.toNat = b.toNat then leName as bs
    else false

/-! ## Configuration -/

abbrev Sel := Name × Name            -- SelectionTuple(controller, selection)
abbrev Config := List Sel            -- Configuration.selections (sorted)

def SEP : Char := ';'
def SELSEP : Char := ':'

/-- insertion into a list sorted by the name `key` gives (Python's `sorted` is stable: an
element goes before the first element that is not smaller) -/
def insertBy {β} (key : β → Name) (p : β) : List β → List β
  | [] => [p]
  | q :: t => if leName (key p) (key q) then p :: q :: t else q :: insertBy key p t

def sortBy {β} (key : β → Name) : List β → List β
  | [] => []
  | p :: t => insertBy key p (sortBy key t)

/-- `sorted(the_list)`; only the controller name matters when controllers are distinct,
and a list with a repeated controller is refused right after. -/
def sortSels (l : List Sel) : List Sel := sortBy Prod.fst l

def hasKey (k : Name) : List Sel → Bool
  | [] => false
  | p :: t => p.1 == k || hasKey k t

def hasDupKey : List Sel → Bool
  | [] => false
  | p :: t => hasKey p.1 t || hasDupKey t

/-- `Configuration(selections)` -/
def mkConfig (l : List Sel) : Except Err Config :=
  if hasDupKey l then .error .dupController else .ok (sortSels l)

/-- Python `s.split(sep)` for a one-character separator: always at least one part -/
def splitOn (sep : Char) : List Char → List (List Char)
  | [] => [[]]
  | c :: t =>
    if c = sep then [] :: splitOn sep t
    else match splitOn sep t with
      | h :: r => (c :: h) :: r
      | [] => [[c]]

/-- Python `sep.join(parts)` -/
def joinWith (sep : Char) : List (List Char) → List Char
  | [] => []
  | [a] => a
  | a :: b :: t => a ++ sep :: joinWith sep (b :: t)

def renderSel (p : Sel) : List Char := p.1 ++ SELSEP :: p.2

/-- `Configuration.get_string_id` -/
def stringId (c : Config) : List Char := joinWith SEP (c.map renderSel)

/-- `the_config[controller] = selection` on a Python dict (insertion ordered) -/
def dictSet : List Sel → Name → Name → List Sel
  | [], k, v => [(k, v)]
  | (k', v') :: t, k, v => if k' = k then (k, v) :: t else (k', v') :: dictSet t k v

/-- `controller, selection = term.split(':')` -/
def parseTerm (t : List Char) : Except Err Sel :=
  match splitOn SELSEP t with
  | [a, b] => .ok (a, b)
  | _ => .error .syntax

def parseTerms : List (List Char) → List Sel → Except Err (List Sel)
  | [], d => .ok d
  | t :: ts, d =>
    match parseTerm t with
    | .error e => .error e
    | .ok (c, v) => parseTerms ts (dictSet d c v)

/-- `Configuration.from_dict` -/
def fromDict (d : List Sel) : Except Err Config := mkConfig d

/-- `Configuration.from_string` -/
def fromString (s : List Char) : Except Err Config :=
  match parseTerms (splitOn SEP s) [] with
  | .error e => .error e
  | .ok d => fromDict d

/-- `Configuration.from_tuple_of_configurations`: the selections of several configurations are
merged; for a controller met twice the first selection is kept (`none` = a configuration built
without selections, skipped) -/
def mergeSels : List (Option Config) → List Sel → List Sel
  | [], acc => acc
  | none :: t, acc => mergeSels t acc
  | some c :: t, acc =>
    mergeSels t (c.foldl (fun a p => if hasKey p.1 a then a else a ++ [p]) acc)

def fromTuple (l : List (Option Config)) : Except Err Config := mkConfig (mergeSels l [])

/-- `Configuration.get_selection` -/
def getSelection : Config → Name → Option Name
  | [], _ => none
  | (c, v) :: t, k => if c = k then some v else getSelection t k

/-! ## Controller -/

structure Controller where
  name : Name
  specs : List Name
deriving DecidableEq, Repr

def nameOK (n : Name) : Bool := n.all fun c => c != SEP && c != SELSEP

def hasDup : List Name → Bool
  | [] => false
  | a :: t => t.contains a || hasDup t

/-- `Controller(controller_name, specification_names)` with the repaired validation -/
def mkController (name : Name) (specs : List Name) : Except Err Controller :=
  if !(nameOK name && specs.all nameOK) then .error .badName
  else if hasDup specs then .error .dupSpec
  else .ok ⟨name, specs⟩

def Controller.size (c : Controller) : Nat := c.specs.length

/-- codes `name:spec` of one controller (`Controller.all_configurations`, a set) -/
def Controller.codes (c : Controller) : List (List Char) :=
  c.specs.map fun s => renderSel (c.name, s)

/-- `dict_of_index.get(name)` -/
def indexOf : List Name → Name → Option Nat
  | [], _ => none
  | a :: t, v => if a = v then some 0 else (indexOf t v).map (· + 1)

/-- `Controller.set_index` : the index that is stored, or the error -/
def setIndex (c : Controller) (i : Int) : Except Err Nat :=
  if i < 0 ∨ i ≥ (c.size : Int) then .error .wrongIndex else .ok i.toNat

/-- `Controller.set_name` -/
def setName (c : Controller) (v : Name) : Except Err Nat :=
  match indexOf c.specs v with
  | none => .error .unknownSpec
  | some i => setIndex c i

/-- `Controller.modify_controller(step, circular)`: new index and returned number of
modifications.  Python's `%` with a positive modulus is `Int.emod`. -/
def modifyController (c : Controller) (cur : Nat) (step : Int) (circular : Bool) :
    Except Err (Nat × Int) :=
  let size : Int := c.size
  let new : Int := (cur : Int) + step
  if circular then
    match setIndex c (new % size) with
    | .error e => .error e
    | .ok i => .ok (i, step)
  else if new < 0 then
    match setIndex c 0 with
    | .error e => .error e
    | .ok i => .ok (i, (cur : Int))
  else if new ≥ size then
    match setIndex c (size - 1) with
    | .error e => .error e
    | .ok i => .ok (i, size - 1 - (cur : Int))
  else
    match setIndex c new with
    | .error e => .error e
    | .ok i => .ok (i, step)

/-! ## CentralController -/

abbrev Space := List Controller      -- `self.controllers`: sorted by name
abbrev St := Name → Nat              -- current index of every controller, by name

def St.set (st : St) (n : Name) (i : Nat) : St := fun m => if m = n then i else st m

def St.init : St := fun _ => 0

/-- `dict_of_controllers.get(name)` -/
def findCtrl : Space → Name → Option Controller
  | [], _ => none
  | c :: t, n => if c.name = n then some c else findCtrl t n

def prodNat : List Nat → Nat
  | [] => 1
  | a :: t => a * prodNat t

/-- `number_of_configurations()` : product of the sizes; 0 without any controller -/
def numberOfConfigurations (sp : Space) : Nat :=
  if sp.isEmpty then 0 else prodNat (sp.map Controller.size)

/-- `itertools.product(*lists)` -/
def product {β} : List (List β) → List (List β)
  | [] => [[]]
  | l :: ls => l.flatMap fun a => (product ls).map (a :: ·)

/-- `all_configurations_ids` -/
def allIds (sp : Space) : List (List Char) :=
  (product (sp.map Controller.codes)).map (joinWith SEP)

def mapExcept {β γ} (f : β → Except Err γ) : List β → Except Err (List γ)
  | [] => .ok []
  | a :: t =>
    match f a with
    | .error e => .error e
    | .ok b => match mapExcept f t with
      | .error e => .error e
      | .ok r => .ok (b :: r)

/-- `all_configurations` : every id converted back by `Configuration.from_string` -/
def allConfigurations (sp : Space) : Except Err (List Config) :=
  mapExcept fromString (allIds sp)

/-- the constructor's cap: above `maxN` configurations nothing is enumerated (`None`) -/
def setOfConfigurations (sp : Space) (maxN : Nat) : Except Err (Option (List Config)) :=
  if numberOfConfigurations sp > maxN then .ok none
  else match allConfigurations sp with
    | .error e => .error e
    | .ok l => .ok (some l)

/-- the selections of the current state, before `Configuration(...)` sorts them -/
def currentSels (sp : Space) (st : St) : List Sel :=
  sp.map fun c => (c.name, c.specs.getD (st c.name) [])

/-- `CentralController.get_configuration` -/
def getConfiguration (sp : Space) (st : St) : Except Err Config := mkConfig (currentSels sp st)

/-- the loop of `set_configuration`; `done` = controllers that were set -/
def applySels (sp : Space) : List Sel → St → List Name → Except Err (St × List Name)
  | [], st, done => .ok (st, done)
  | (c, v) :: t, st, done =>
    match findCtrl sp c with
    | none => .error .unknownController
    | some ctrl =>
      match setName ctrl v with
      | .error e => .error e
      | .ok i => applySels sp t (st.set c i) (c :: done)

/-- `CentralController.set_configuration` -/
def setConfiguration (sp : Space) (st : St) (cfg : Config) : Except Err St :=
  match applySels sp cfg st [] with
  | .error e => .error e
  | .ok (st', done) =>
    if sp.all (fun c => done.contains c.name) then .ok st' else .error .incomplete

/-- `CentralController.set_controller(name, index)` / `Expression.select_expression` -/
def setController (sp : Space) (st : St) (n : Name) (i : Int) : Except Err St :=
  match findCtrl sp n with
  | none => .error .unknownController
  | some c =>
    match setIndex c i with
    | .error e => .error e
    | .ok k => .ok (st.set n k)

/-- look the controller up, then `modify_controller(step, circular=True)` -/
def modifyNamed (sp : Space) (st : St) (n : Name) (step : Int) : Except Err St :=
  match findCtrl sp n with
  | none => .error .unknownController
  | some c =>
    match modifyController c (st n) step true with
    | .error e => .error e
    | .ok (i, _) => .ok (st.set n i)

inductive Dir where
  | NE | NW | SE | SW
deriving DecidableEq, Repr

/-- `direction[1] == "E"` : the first controller is increased -/
def Dir.east : Dir → Bool
  | .NE => true | .SE => true | _ => false
/-- `direction[0] == "N"` : the second controller is increased -/
def Dir.north : Dir → Bool
  | .NE => true | .NW => true | _ => false

inductive Op where
  | increase (c : Name)
  | decrease (c : Name)
  | pair (c1 c2 : Name) (d : Dir)
  | several (increase : Bool)
deriving DecidableEq, Repr

/-- `the_modification = 1 if increase else 1` : as the code stands both "Increase_several" and
"Decrease_several" move the drawn controllers by +1 (see proposed_fixes/FC16_decrease_several.diff;
the theorems hold for every value of this constant) -/
def severalDelta (_increase : Bool) : Int := 1

/-- the modifications of `modify_random_controllers`, one per drawn controller -/
def modifyMany (sp : Space) (delta : Int) : St → List Name → Except Err St
  | st, [] => .ok st
  | st, n :: t =>
    match modifyNamed sp st n delta with
    | .error e => .error e
    | .ok st' => modifyMany sp delta st' t

/-- what the patched `random.choices(population, k=k)` of the harness returns: the first `k`
recorded numbers, each taken modulo the population size -/
def drawn (sp : Space) (k : Int) (choices : List Nat) : List Name :=
  (choices.take k.toNat).map fun i => ((sp.map Controller.name).getD (i % sp.length) [])

/-- the modifications one operator makes once the configuration has been applied -/
def modifyOp (sp : Space) (st : St) (op : Op) (step : Int) (choices : List Nat) : Except Err St :=
  match op with
  | .increase n => modifyNamed sp st n step
  | .decrease n => modifyNamed sp st n (-step)
  | .pair n1 n2 d =>
    -- both look-ups precede the modifications in the code; the error is the same
    match modifyNamed sp st n1 (if d.east then step else -step) with
    | .error e => .error e
    | .ok st2 => modifyNamed sp st2 n2 (if d.north then step else -step)
  | .several inc => modifyMany sp (severalDelta inc) st (drawn sp (min step (sp.length : Int)) choices)

/-- the second component of what the operator returns -/
def retOf (sp : Space) (op : Op) (step : Int) : Int :=
  match op with
  | .several _ => min step (sp.length : Int)
  | _ => step

/-- one operator of `prepare_operators` applied to a configuration: the new state, the new
configuration and the returned number of modifications -/
def applyOp (sp : Space) (st : St) (op : Op) (cfg : Config) (step : Int) (choices : List Nat) :
    Except Err (St × Config × Int) :=
  match setConfiguration sp st cfg with
  | .error e => .error e
  | .ok st1 =>
    match modifyOp sp st1 op step choices with
    | .error e => .error e
    | .ok st2 =>
      match getConfiguration sp st2 with
      | .error e => .error e
      | .ok c => .ok (st2, c, retOf sp op step)

def Dir.str : Dir → List Char
  | .NE => "NE".toList | .NW => "NW".toList | .SE => "SE".toList | .SW => "SW".toList

/-- assignment into the dict of operators (a later equal key replaces the value, keeps the place) -/
def opSet : List (List Char × Op) → List Char → Op → List (List Char × Op)
  | [], k, v => [(k, v)]
  | (k', v') :: t, k, v => if k' = k then (k, v) :: t else (k', v') :: opSet t k v

/-- `CentralController.prepare_operators` : names and operators, in insertion order -/
def prepareOperators (sp : Space) : List (List Char × Op) :=
  let names := sp.map Controller.name
  let d1 := names.foldl (fun d n =>
    opSet (opSet d ("Increase ".toList ++ n) (.increase n)) ("Decrease ".toList ++ n) (.decrease n)) []
  let pairs := names.flatMap fun n1 => names.flatMap fun n2 =>
    [Dir.NE, Dir.NW, Dir.SE, Dir.SW].filterMap fun d =>
      if n1 = n2 then none else some (n1, n2, d)
  let d2 := pairs.foldl (fun d (n1, n2, dir) =>
    opSet d ("Pair_".toList ++ n1 ++ '_' :: n2 ++ '_' :: dir.str) (.pair n1 n2 dir)) d1
  opSet (opSet d2 "Increase_several".toList (.several true)) "Decrease_several".toList (.several false)

/-- a history of operator applications, each starting from the configuration returned by
the previous one (how the neighbourhood search uses the operators) -/
def runOps (sp : Space) : St → Config → List (Op × Int × List Nat) → Except Err (St × Config)
  | st, cfg, [] => .ok (st, cfg)
  | st, cfg, (op, step, ch) :: t =>
    match applyOp sp st op cfg step ch with
    | .error e => .error e
    | .ok (st', cfg', _) => runOps sp st' cfg' t

/-- all intermediate configurations of a history (what the harness observes) -/
def traceOps (sp : Space) : St → Config → List (Op × Int × List Nat) →
    List (Except Err (Config × Int))
  | _, _, [] => []
  | st, cfg, (op, step, ch) :: t =>
    match applyOp sp st op cfg step ch with
    | .error e => [.error e]
    | .ok (st', cfg', r) => .ok (cfg', r) :: traceOps sp st' cfg' t

/-- the direction that undoes a pair move: both controllers move the other way -/
def Dir.opposite : Dir → Dir
  | .NE => .SW | .NW => .SE | .SE => .NW | .SW => .NE

/-! ### a search that keeps a population of configurations

The operators are applied to *some* member of a population while the expression (the
controllers) is left in whatever state the previous operation put it; between two operator
calls the caller may configure the expression, select one alternative of one controller, move
a controller directly or iterate.  `Event` lists these operations, `stepEvent` is what each
does to (state of the controllers, members of the population). -/

inductive Event where
  /-- `operators[key](members[src], step)`, the result stored as member `dst` -/
  | apply (o : Op) (step : Int) (choices : List Nat) (src dst : Nat)
  /-- `expression.configure_catalogs(cfg)` (also: an iteration that ends on `cfg`) -/
  | configure (cfg : Config)
  /-- `expression.select_expression(name, index)` -/
  | setCtrl (n : Name) (i : Int)
  /-- `controller.modify_controller(step, circular)` on the controller object itself -/
  | modifyCtrl (n : Name) (step : Int) (circular : Bool)

def setMember : List Config → Nat → Config → List Config
  | [], _, _ => []
  | _ :: t, 0, c => c :: t
  | a :: t, k + 1, c => a :: setMember t k c

/-- one event: new state, new members, what the call returned (configuration and/or number) -/
def stepEvent (sp : Space) (st : St) (pop : List Config) :
    Event → Except Err (St × List Config × Option Config × Option Int)
  | .apply o step ch src dst =>
    match pop[src]? with
    | none => .error .wrongIndex
    | some cfg =>
      match applyOp sp st o cfg step ch with
      | .error e => .error e
      | .ok (st', cfg', r) => .ok (st', setMember pop dst cfg', some cfg', some r)
  | .configure cfg =>
    match setConfiguration sp st cfg with
    | .error e => .error e
    | .ok st' => .ok (st', pop, none, none)
  | .setCtrl n i =>
    match setController sp st n i with
    | .error e => .error e
    | .ok st' => .ok (st', pop, none, none)
  | .modifyCtrl n step circular =>
    match findCtrl sp n with
    | none => .error .unknownController
    | some c =>
      match modifyController c (st n) step circular with
      | .error e => .error e
      | .ok (i, r) => .ok (st.set n i, pop, none, some r)

/-- a whole sequence of events (stops at the first operation that raises) -/
def runEvents (sp : Space) : St → List Config → List Event → Except Err (St × List Config)
  | st, pop, [] => .ok (st, pop)
  | st, pop, ev :: t =>
    match stepEvent sp st pop ev with
    | .error e => .error e
    | .ok (st', pop', _, _) => runEvents sp st' pop' t

/-- the same sequence without the operations that are not operator calls -/
def onlyApplies : List Event → List Event
  | [] => []
  | .apply o k ch s d :: t => .apply o k ch s d :: onlyApplies t
  | _ :: t => onlyApplies t

/-- validity of a configuration for a space: the controllers of the space, in order, each
with one of its specifications -/
def validCfgB : Space → Config → Bool
  | [], [] => true
  | c :: sp, (n, v) :: cfg => n == c.name && c.specs.contains v && validCfgB sp cfg
  | _, _ => false

/-- `SelectedExpressionsIterator` : the configuration read back after each
`configure_catalogs` of the loop -/
def iterVisited (sp : Space) (st : St) : List Config → Except Err (List Config)
  | [] => .ok []
  | cfg :: t =>
    match setConfiguration sp st cfg with
    | .error e => .error e
    | .ok st' =>
      match getConfiguration sp st' with
      | .error e => .error e
      | .ok c =>
        match iterVisited sp st' t with
        | .error e => .error e
        | .ok r => .ok (c :: r)

/-! ## expressions with catalogs -/

inductive BinOp where
  | plus | minus | times | eq
deriving DecidableEq, Repr

mutual
  inductive Expr where
    | num (v : Int)
    | beta (n : Name)
    | var (n : Name)
    | neg (a : Expr)
    | bin (op : BinOp) (a b : Expr)
    | cat (name ctrl : Name) (ms : Members)   -- Catalog(name, members, controlled_by=ctrl)
  inductive Members where
    | nil
    | cons (n : Name) (e : Expr) (t : Members)
end

def Members.names : Members → List Name
  | .nil => []
  | .cons n _ t => n :: t.names

/- the controllers found in an expression, in the order of `get_all_controllers`
(a catalog first, then all its members, selected or not) -/
mutual
  def Expr.ctrls : Expr → List Controller
    | .num _ => [] | .beta _ => [] | .var _ => []
    | .neg a => a.ctrls
    | .bin _ a b => a.ctrls ++ b.ctrls
    | .cat _ c ms => ⟨c, ms.names⟩ :: ms.ctrls
  def Members.ctrls : Members → List Controller
    | .nil => []
    | .cons _ e t => e.ctrls ++ t.ctrls
end

/-- `sorted(set_of_controllers)` (`Controller.__lt__` compares the names) -/
def sortCtrls (l : List Controller) : List Controller := sortBy Controller.name l

/-- merge into the set of controllers (keyed by name); repaired: a second controller with
the same name and other specifications is refused -/
def mergeCtrls : List Controller → List Controller → Except Err (List Controller)
  | [], acc => .ok acc
  | c :: t, acc =>
    match findCtrl acc c.name with
    | some c' => if c' = c then mergeCtrls t acc else .error .sameName
    | none => mergeCtrls t (acc ++ [c])

def checkCtrls : List Controller → Except Err Unit
  | [] => .ok ()
  | c :: t =>
    if c.specs.isEmpty then .error .emptyCatalog else
    match mkController c.name c.specs with
    | .error e => .error e
    | .ok _ => checkCtrls t

/-- `CentralController(expression).controllers` -/
def central (e : Expr) : Except Err Space :=
  match mergeCtrls e.ctrls [] with
  | .error er => .error er
  | .ok l =>
    match checkCtrls l with
    | .error er => .error er
    | .ok _ => if l.isEmpty then .error .noCatalog else .ok (sortCtrls l)

/- every catalog of the expression is governed by a controller of the space whose
specification names are the names of the catalog's members (what `Catalog.__init__` checks) -/
mutual
  def Expr.okFor (sp : Space) : Expr → Bool
    | .num _ => true | .beta _ => true | .var _ => true
    | .neg a => a.okFor sp
    | .bin _ a b => a.okFor sp && b.okFor sp
    | .cat _ c ms => (findCtrl sp c == some ⟨c, ms.names⟩) && ms.okFor sp
  def Members.okFor (sp : Space) : Members → Bool
    | .nil => true
    | .cons _ e t => e.okFor sp && t.okFor sp
end

/- delegation: every catalog is replaced by the member at the current index of its
controller (`Catalog.selected()` = `named_expressions[controlled_by.current_index]`) -/
mutual
  def Expr.select (st : St) : Expr → Option Expr
    | .num v => some (.num v) | .beta n => some (.beta n) | .var n => some (.var n)
    | .neg a => (a.select st).map .neg
    | .bin op a b =>
      match a.select st, b.select st with
      | some a', some b' => some (.bin op a' b')
      | _, _ => none
    | .cat _ c ms => ms.selectNth st (st c)
  def Members.selectNth (st : St) : Members → Nat → Option Expr
    | .nil, _ => none
    | .cons _ e _, 0 => e.select st
    | .cons _ _ t, k + 1 => t.selectNth st k
end

/- the formula written out by hand for a configuration: every catalog replaced by the
member whose *name* is the selection of its controller -/
mutual
  def Expr.hand (cfg : Config) : Expr → Option Expr
    | .num v => some (.num v) | .beta n => some (.beta n) | .var n => some (.var n)
    | .neg a => (a.hand cfg).map .neg
    | .bin op a b =>
      match a.hand cfg, b.hand cfg with
      | some a', some b' => some (.bin op a' b')
      | _, _ => none
    | .cat _ c ms =>
      match getSelection cfg c with
      | none => none
      | some v => ms.handNamed cfg v
  def Members.handNamed (cfg : Config) : Members → Name → Option Expr
    | .nil, _ => none
    | .cons n e t, v => if n = v then e.hand cfg else t.handNamed cfg v
end

/- all catalog nodes of an expression, at any depth, selected or not: (catalog name,
controller name, members) -/
mutual
  def Expr.cats : Expr → List (Name × Name × Members)
    | .num _ => [] | .beta _ => [] | .var _ => []
    | .neg a => a.cats
    | .bin _ a b => a.cats ++ b.cats
    | .cat n c ms => (n, c, ms) :: ms.cats
  def Members.cats : Members → List (Name × Name × Members)
    | .nil => []
    | .cons _ e t => e.cats ++ t.cats
end

/-- no catalog node left -/
def Expr.plain : Expr → Bool
  | .num _ => true | .beta _ => true | .var _ => true
  | .neg a => a.plain
  | .bin _ a b => a.plain && b.plain
  | .cat _ _ _ => false

structure Env where
  beta : Name → Int
  var : Name → Int

def BinOp.ev : BinOp → Int → Int → Int
  | .plus, a, b => a + b
  | .minus, a, b => a - b
  | .times, a, b => a * b
  | .eq, a, b => if a = b then 1 else 0

/-- value of a formula without catalogs -/
def Expr.ev (env : Env) : Expr → Option Int
  | .num v => some v
  | .beta n => some (env.beta n)
  | .var n => some (env.var n)
  | .neg a => (a.ev env).map (- ·)
  | .bin op a b =>
    match a.ev env, b.ev env with
    | some x, some y => some (op.ev x y)
    | _, _ => none
  | .cat _ _ _ => none

/- value of a formula with catalogs under delegation (`MultipleExpression.get_value`) -/
mutual
  def Expr.evSel (st : St) (env : Env) : Expr → Option Int
    | .num v => some v
    | .beta n => some (env.beta n)
    | .var n => some (env.var n)
    | .neg a => (a.evSel st env).map (- ·)
    | .bin op a b =>
      match a.evSel st env, b.evSel st env with
      | some x, some y => some (op.ev x y)
      | _, _ => none
    | .cat _ c ms => ms.evNth st env (st c)
  def Members.evNth (st : St) (env : Env) : Members → Nat → Option Int
    | .nil, _ => none
    | .cons _ e _, 0 => e.evSel st env
    | .cons _ _ t, k + 1 => t.evNth st env k
end

/-- canonical text of a formula without catalogs (compared with the decoded signature of the
real selected expression) -/
def BinOp.str : BinOp → String
  | .plus => "Plus" | .minus => "Minus" | .times => "Times" | .eq => "Equal"

def Expr.render : Expr → String
  | .num v => "Numeric(" ++ toString v ++ ")"
  | .beta n => "Beta(" ++ String.ofList n ++ ")"
  | .var n => "Variable(" ++ String.ofList n ++ ")"
  | .neg a => "UnaryMinus(" ++ a.render ++ ")"
  | .bin op a b => op.str ++ "(" ++ a.render ++ "," ++ b.render ++ ")"
  | .cat n _ _ => "Catalog(" ++ String.ofList n ++ ")"

/- names of the selected members of all catalogs met on the selected path, with the
controller of each (what `str(expression)` shows as `[catalog: member]`) -/
mutual
  def Expr.selectedNames (st : St) : Expr → List (Name × Name × Name)
    | .num _ => [] | .beta _ => [] | .var _ => []
    | .neg a => a.selectedNames st
    | .bin _ a b => a.selectedNames st ++ b.selectedNames st
    | .cat n c ms => ms.selectedNth st n c (st c)
  def Members.selectedNth (st : St) (cat ctrl : Name) : Members → Nat → List (Name × Name × Name)
    | .nil, _ => []
    | .cons m e _, 0 => (cat, ctrl, m) :: e.selectedNames st
    | .cons _ _ t, k + 1 => t.selectedNth st cat ctrl k
end

end Cat
