/-
Round 3 additions to the model of the catalog machinery (Model/Catalog.lean).

* **Construction** (`catalog.py: Catalog.__init__`, `Catalog.from_dict`,
  `multiple_expressions.py: MultipleExpression.__init__`): a formula is written with `Controller`
  objects the user created beforehand (`decl`: name and specification names of each, independent of
  any catalog) and catalogs that are either handed one of them (`controlled_by=`) or make their own
  controller from their member names.  `Expr.build decl e` performs the checks of the constructors in
  the order Python executes them (members first, then the catalog): reserved characters in the catalog
  name, empty member list, and — for a catalog handed a controller — the *list* of member names must
  be the tuple of specification names of the controller, same names in the same order
  (`names != controller_names` → "Incompatible IDs").  The order matters because the selection is
  positional: `Catalog.selected()` is `named_expressions[controlled_by.current_index]`.
  (The test "Catalog … cannot contain itself" of the constructor is dead code: `dict_of_catalogs`
  never records a catalog; the case is refused later by `merge_controllers`, error `sameName`
  of `central`.)

* **Tree operations that rewrite leaves**, delegated to the selected member only
  (`MultipleExpression.rename_elementary`, `fix_betas`, `change_init_values`: `_, expr =
  self.selected(); expr.op(...)`): `Expr.mapSel st f` applies the leaf rewriting `f` along the
  selected path and leaves the members that are not selected untouched.

* **Iteration over chosen configurations** (`SelectedExpressionsIterator(expression, configurations)`
  as `BIOGEME.estimate_catalog(selected_configurations=…)` calls it): `iterVisited` of Model/Catalog.lean
  on any list.

Core Lean only.
-/
import Model.Catalog

namespace Cat

/-! ## construction -/

inductive BErr where
  | base (e : Err)
  | incompatible        -- "Incompatible IDs between catalog [...] and controller [...]"
deriving DecidableEq, Repr

def BErr.tag : BErr → String
  | .base e => e.tag
  | .incompatible => "incompatible"

/-- `Catalog(n, members, controlled_by=…)` once the members are built: `names` are the member
names, `c` the name of the controller (`decl` knows it: the object handed over; otherwise a
controller is made from the member names, as `Catalog.__init__` does with `controller_name =
catalog_name`, or as the caller does with `Controller(c, names)`) -/
def mkCatalog (decl : List Controller) (n c : Name) (names : List Name) : Except BErr Unit :=
  if !nameOK n then .error (.base .badName)
  else if names.isEmpty then .error (.base .emptyCatalog)
  else match findCtrl decl c with
    | some ctrl => if names = ctrl.specs then .ok () else .error .incompatible
    | none =>
      match mkController c names with
      | .error e => .error (.base e)
      | .ok _ => .ok ()

/- the constructors run over a whole formula: the members of a catalog are Python values built
before the catalog that holds them -/
mutual
  def Expr.build (decl : List Controller) : Expr → Except BErr Unit
    | .num _ => .ok () | .beta _ => .ok () | .var _ => .ok ()
    | .neg a => a.build decl
    | .bin _ a b =>
      match a.build decl with
      | .error e => .error e
      | .ok _ => b.build decl
    | .cat n c ms =>
      match ms.build decl with
      | .error e => .error e
      | .ok _ => mkCatalog decl n c ms.names
  def Members.build (decl : List Controller) : Members → Except BErr Unit
    | .nil => .ok ()
    | .cons _ e t =>
      match e.build decl with
      | .error er => .error er
      | .ok _ => t.build decl
end

/-- the declared controllers themselves (`Controller.__init__`, repaired validation) -/
def checkDecl : List Controller → Except BErr Unit
  | [] => .ok ()
  | c :: t =>
    match mkController c.name c.specs with
    | .error e => .error (.base e)
    | .ok _ => checkDecl t

/-- what the user's script does: create the controllers, then write the formula, then ask for the
central controller -/
def construct (decl : List Controller) (e : Expr) : Except BErr Space :=
  match checkDecl decl with
  | .error er => .error er
  | .ok _ =>
    match e.build decl with
    | .error er => .error er
    | .ok _ =>
      match central e with
      | .error er => .error (.base er)
      | .ok sp => .ok sp

/-- the name a catalog shows (`Catalog.selected_name`): positional -/
def shownName (st : St) (c : Name) (names : List Name) : Name := names.getD (st c) []

/-! ## leaf rewriting delegated to the selected member -/

/-- a leaf rewriting: what happens to a parameter (name, fixed value if any) and to a variable name.
`rename_elementary(names, prefix, suffix)`, `fix_betas(values, prefix, suffix)` and
`change_init_values(values)` are of this form. -/
structure LeafMap where
  beta : Name → Name
  var : Name → Name

/-- the rewriting applied to a formula without catalogs (`Expression.rename_elementary` &c.:
`for e in self.get_children(): e.op(...)`) -/
def Expr.mapPlain (f : LeafMap) : Expr → Expr
  | .num v => .num v
  | .beta n => .beta (f.beta n)
  | .var n => .var (f.var n)
  | .neg a => .neg (a.mapPlain f)
  | .bin op a b => .bin op (a.mapPlain f) (b.mapPlain f)
  | .cat n c ms => .cat n c ms

/- the rewriting applied to a formula with catalogs: a catalog hands it to its selected member -/
mutual
  def Expr.mapSel (st : St) (f : LeafMap) : Expr → Expr
    | .num v => .num v
    | .beta n => .beta (f.beta n)
    | .var n => .var (f.var n)
    | .neg a => .neg (a.mapSel st f)
    | .bin op a b => .bin op (a.mapSel st f) (b.mapSel st f)
    | .cat n c ms => .cat n c (ms.mapNth st f (st c))
  def Members.mapNth (st : St) (f : LeafMap) : Members → Nat → Members
    | .nil, _ => .nil
    | .cons m e t, 0 => .cons m (e.mapSel st f) t
    | .cons m e t, k + 1 => .cons m e (t.mapNth st f k)
end

/-- the member stored at a position of a catalog, as written (`named_expressions[k].expression`) -/
def Members.nth : Members → Nat → Option Expr
  | .nil, _ => none
  | .cons _ e _, 0 => some e
  | .cons _ _ t, k + 1 => t.nth k

/-- `Elementary.rename_elementary(names, prefix, suffix)` on one name (`none` = argument `None`) -/
def renameLeaf (names : List Name) (pre suf : Option Name) (n : Name) : Name :=
  if names.contains n then (pre.getD []) ++ n ++ (suf.getD []) else n

def renameMap (names : List Name) (pre suf : Option Name) : LeafMap :=
  ⟨renameLeaf names pre suf, renameLeaf names pre suf⟩

/-- `Beta.fix_betas(values, prefix, suffix)` renames the parameters listed in `values`; variables
are not concerned -/
def fixMap (keys : List Name) (pre suf : Option Name) : LeafMap :=
  ⟨renameLeaf keys pre suf, id⟩

/-! ## the loop of `BIOGEME.estimate_catalog` -/

inductive EErr where
  | base (e : Err)
  | tooMany                 -- ValueOutOfRange "There are too many […] different specifications"
  | unknownConfiguration    -- `BIOGEME.from_configuration`: "Unknown configuration"
deriving DecidableEq, Repr

def EErr.tag : EErr → String
  | .base e => e.tag
  | .tooMany => "tooMany"
  | .unknownConfiguration => "unknownConfiguration"

/-- one entry of the dict `estimate_catalog` returns: the identifier and the formula that was
estimated under it (the formula the expression delegates to at that moment) -/
abbrev Estimated := List Char × Option Expr

/-- `from_configuration`: `if expression.set_of_configurations(): … if config_id not in the_set` -/
def unknownId : Option (List Config) → List Char → Bool
  | some L, sid => !L.isEmpty && !(L.map stringId).contains sid
  | none, _ => false

/-- the loop body for every configuration the iterator yields: `configure_catalogs` (iterator),
`current_configuration().get_string_id()`, then `BIOGEME.from_configuration(config_id, expression)`:
membership test, `Configuration.from_string(config_id)`, `configure_catalogs` again; the model
estimated is the formula then selected -/
def estimateLoop (sp : Space) (e : Expr) (known : Option (List Config)) :
    St → List Config → Except EErr (List Estimated)
  | _, [] => .ok []
  | st, cfg :: t =>
    match setConfiguration sp st cfg with
    | .error er => .error (.base er)
    | .ok st1 =>
      match getConfiguration sp st1 with
      | .error er => .error (.base er)
      | .ok c =>
        if unknownId known (stringId c) then .error .unknownConfiguration
        else match fromString (stringId c) with
          | .error er => .error (.base er)
          | .ok c' =>
            match setConfiguration sp st1 c' with
            | .error er => .error (.base er)
            | .ok st2 =>
              match estimateLoop sp e known st2 t with
              | .error er => .error er
              | .ok r => .ok ((stringId c, e.select st2) :: r)

/-- `BIOGEME.estimate_catalog(selected_configurations)` on the formula `e` (`selected = none`: all
configurations, refused above the cap), started while the controllers are in state `st` -/
def estimateCatalog (e : Expr) (maxN : Nat) (selected : Option (List Config)) (st : St) :
    Except EErr (List Estimated) :=
  match central e with
  | .error er => .error (.base er)
  | .ok sp =>
    match setOfConfigurations sp maxN with
    | .error er => .error (.base er)
    | .ok known =>
      match selected with
      | some chosen => estimateLoop sp e known st chosen
      | none =>
        match known with
        | none => .error .tooMany
        | some L => estimateLoop sp e known st L

/-! ## a formula used inside a bigger formula

Repaired behaviour (finding FC16f): what a formula reports (`number_of_multiple_expressions`,
`set_of_configurations`, iteration, `configure_catalogs`) is computed from its own catalogs —
`central e` — whatever bigger formula it has been made part of.  The code of /repo overwrites the
central controller of every sub-formula with the one of the last enclosing formula that was asked
(`Expression.set_central_controller` propagates to the children). -/

/-- a configuration of an enclosing formula read on the controllers of an embedded formula -/
def restrictCfg (spa : Space) (cfg : Config) : Config :=
  spa.map fun c => (c.name, (getSelection cfg c.name).getD [])

/-! ## several formulas on the same catalogs

The state of a selection lives in the `Controller` objects (`current_index`).  Every formula has
its own `CentralController` (its space: the controllers of its catalogs), but formulas written
with the same catalog objects share the controllers, which are also publicly mutable
(`set_index`, `set_name`, `modify_controller`, `reset_selection`).  The state is therefore ONE
function `St` for all formulas; `fs` lists the spaces of the formulas. -/

inductive MOp where
  /-- `f.configure_catalogs(cfg)` / `f.central_controller.set_configuration(cfg)` / `…_from_id` -/
  | select (f : Nat) (cfg : Config)
  /-- `f.select_expression(name, index)` / `f.central_controller.set_controller` -/
  | setCtrl (f : Nat) (n : Name) (i : Int)
  /-- an operator of `f.central_controller.prepare_operators()` applied to `cfg` -/
  | apply (f : Nat) (o : Op) (cfg : Config) (step : Int) (choices : List Nat)
  /-- `controller.set_index(i)` on the controller object itself (`reset_selection` = index 0) -/
  | directIndex (c : Controller) (i : Int)
  /-- `controller.set_name(v)` -/
  | directName (c : Controller) (v : Name)
  /-- `controller.modify_controller(step, circular)` -/
  | directModify (c : Controller) (step : Int) (circular : Bool)

def stepM (fs : List Space) (st : St) : MOp → Except Err St
  | .select f cfg =>
    match fs[f]? with
    | none => .error .unknownController
    | some sp => setConfiguration sp st cfg
  | .setCtrl f n i =>
    match fs[f]? with
    | none => .error .unknownController
    | some sp => setController sp st n i
  | .apply f o cfg step ch =>
    match fs[f]? with
    | none => .error .unknownController
    | some sp =>
      match applyOp sp st o cfg step ch with
      | .error e => .error e
      | .ok (st', _, _) => .ok st'
  | .directIndex c i =>
    match setIndex c i with
    | .error e => .error e
    | .ok k => .ok (st.set c.name k)
  | .directName c v =>
    match setName c v with
    | .error e => .error e
    | .ok k => .ok (st.set c.name k)
  | .directModify c step circular =>
    match modifyController c (st c.name) step circular with
    | .error e => .error e
    | .ok (k, _) => .ok (st.set c.name k)

/-- a history of operations on several formulas and on the controller objects -/
def runM (fs : List Space) : St → List MOp → Except Err St
  | st, [] => .ok st
  | st, o :: t =>
    match stepM fs st o with
    | .error e => .error e
    | .ok st' => runM fs st' t

/-! ## construction interleaved with selection

A script creates catalogs and formulas at any point of a history of selections and controller
moves: a catalog may be handed a controller that has already been moved.  A catalog has no state of
its own (`Catalog.selected()` reads `controlled_by.current_index` at the time of the call), so the
world is: the state of the controllers, the central controllers (spaces) of the formulas made so
far, and the catalogs made so far (name, controller name, member names). -/

structure World where
  st : St
  fs : List Space
  cats : List (Name × Name × List Name)

inductive WOp where
  /-- an operation on the formulas / controllers that exist -/
  | op (o : MOp)
  /-- `Catalog(n, members, controlled_by=…)` now: handed the declared controller named `c`, or
  making its own controller (a new `Controller` object starts at index 0) -/
  | newCatalog (n c : Name) (names : List Name)
  /-- a formula written now with catalogs made so far, and its central controller -/
  | newFormula (e : Expr)

def stepW (decl : List Controller) (w : World) : WOp → Except BErr World
  | .op o =>
    match stepM w.fs w.st o with
    | .error e => .error (.base e)
    | .ok st' => .ok { w with st := st' }
  | .newCatalog n c names =>
    match mkCatalog decl n c names with
    | .error e => .error e
    | .ok _ =>
      .ok { w with cats := w.cats ++ [(n, c, names)],
                   st := match findCtrl decl c with
                     | some _ => w.st
                     | none => w.st.set c 0 }
  | .newFormula e =>
    match central e with
    | .error er => .error (.base er)
    | .ok sp => .ok { w with fs := w.fs ++ [sp] }

def runW (decl : List Controller) : World → List WOp → Except BErr World
  | w, [] => .ok w
  | w, o :: t =>
    match stepW decl w o with
    | .error e => .error e
    | .ok w' => runW decl w' t

end Cat
