/-
`Database.split(slices)` (src/biogeme/database.py) without groups:
`shuffled = data.sample(frac=1)` (a permutation of the rows), `the_slices = numpy.array_split(shuffled, slices)`,
validation set `i` = slice `i`, estimation set `i` = `pd.concat` of the other slices in order.
`numpy.array_split`: `each, extras = divmod(n, k)`; the first `extras` sections have `each + 1` rows, the
others `each`.  Core Lean only.
-/
namespace Likelihood

variable {β : Type}

/-- sections still to cut, sections that still receive one more row, rows per section -/
def arraySplitAux : List β → Nat → Nat → Nat → List (List β)
  | _, 0, _, _ => []
  | l, s + 1, extras, each =>
    let sz := if 0 < extras then each + 1 else each
    l.take sz :: arraySplitAux (l.drop sz) s (extras - 1) each

/-- `numpy.array_split(l, k)` -/
def arraySplit (l : List β) (k : Nat) : List (List β) :=
  arraySplitAux l k (l.length % k) (l.length / k)

/-- `pd.concat(the_slices[:i] + the_slices[i+1:])` -/
def othersOf (parts : List (List β)) (i : Nat) : List β :=
  ((parts.take i) ++ (parts.drop (i + 1))).flatten

/-- `Database.split(k)` after the shuffle: the list of (estimation, validation) sets -/
def dbSplit (shuffled : List β) (k : Nat) : List (List β × List β) :=
  let parts := arraySplit shuffled k
  (List.range parts.length).map fun i => (othersOf parts i, parts.getD i [])

end Likelihood
