/-
The process state around a call of a deprecated name (`src/biogeme/deprecated.py` seen with its
side effects).  `Model/Dispatch.lean` says WHICH function runs; this file says what else happens:

* `Action`, `WFilter`, `firstAction` : the part of the `warnings` module the wrappers go through —
  `warnings.warn(msg, DeprecationWarning, stacklevel=2)` takes the action of the first entry of
  `warnings.filters` that matches (category, message regex, module regex, line), or
  `warnings.defaultaction`.
* `World σ`  : everything a call can observe or change: the warning filters, the default action,
  the registries consulted by the actions default/module/once, the warnings delivered to
  `showwarning`, and `rest : σ` — ALL the remaining state (receiver, arguments, module globals,
  logging configuration, random generators, files of the working directory, environment).
* `warn`      : one `warnings.warn` call.
* `runAlias`  : the wrapper made by `@deprecated(new_func)` as a state transformer: the
  `RAISE_EXCEPTION` branch, the warning, then the dispatch of `Model/Dispatch.lean` with the
  arguments passed on unchanged.  `sem` is ANY semantics of the function objects (they may do
  anything to the world, raise, emit warnings of their own).
* `runNew`    : `receiver.new_name(*args, **kwargs)`.
* `runKw`     : the wrapper made by `@deprecated_parameters(map)`: one warning per obsolete spelling
  in the order of the call, then the function with the renamed keyword arguments.
* `warnForced`: NOT the code — a helper that first calls `warnings.simplefilter('default',
  DeprecationWarning)`; used only to state that such a side effect is observable (Props/C20).

Core Lean only.
-/
import Model.Dispatch

namespace Disp

inductive Action
  | error | ignore | always | default | module | once
deriving Repr, DecidableEq

/-- one entry of `warnings.filters` as seen by the warning being emitted -/
structure WFilter where
  action : Action
  matching : Bool     -- category ⊇ DeprecationWarning, regexes match text and module, line 0 or equal
deriving Repr, DecidableEq

def firstAction : List WFilter → Action → Action
  | [], d => d
  | f :: t, d => if f.matching then f.action else firstAction t d

abbrev MsgId := Nat    -- (text, category, location) of a warning, interned

structure World (σ : Type) where
  filters : List WFilter
  defaultAction : Action
  registry : List MsgId     -- `__warningregistry__` of the caller / `onceregistry`
  shown : List MsgId        -- delivered to `showwarning`, oldest first
  rest : σ

inductive Exc
  | deprecationWarning (m : MsgId)   -- the warning turned into an exception by an `error` filter
  | biogemeDeprecated                -- `raise BiogemeError('Deprecated')` (RAISE_EXCEPTION)
  | attributeError                   -- the new name does not exist on the receiver
  | typeError                        -- the same keyword given twice
  | other (k : Nat)                  -- raised by the function that runs
deriving Repr, DecidableEq

inductive Res (σ ρ : Type)
  | returned (r : ρ) (w : World σ)
  | raised (e : Exc) (w : World σ)

/-- `warnings.warn(msg, DeprecationWarning)`: (raised?, world afterwards) -/
def warn {σ} (w : World σ) (m : MsgId) : Bool × World σ :=
  match firstAction w.filters w.defaultAction with
  | .error => (true, w)
  | .ignore => (false, w)
  | .always => (false, { w with shown := w.shown ++ [m] })
  | _ =>   -- default / module / once: shown unless the registry already holds it
    if w.registry.contains m then (false, w)
    else (false, { w with registry := m :: w.registry, shown := w.shown ++ [m] })

/-- `receiver.new_name(*args, **kwargs)` -/
def runNew {σ ρ α} (sem : ImplId → α → World σ → Res σ ρ) (H : Hier) (c : ClassId) (newName : NameId)
    (args : α) (w : World σ) : Res σ ρ :=
  match callNew H c newName with
  | none => .raised .attributeError w
  | some i => sem i args w

/-- the wrapper of `@deprecated(new_func)` called with a receiver of class `c` -/
def runAlias {σ ρ α} (raiseFlag : Bool) (sem : ImplId → α → World σ → Res σ ρ) (H : Hier) (c : ClassId)
    (newName : NameId) (captured : ImplId) (msg : MsgId) (args : α) (w : World σ) : Res σ ρ :=
  if raiseFlag then .raised .biogemeDeprecated w
  else
    match warn w msg with
    | (true, w') => .raised (.deprecationWarning msg) w'
    | (false, w') =>
      match aliasCall H c newName captured with
      | none => .raised .attributeError w'
      | some i => sem i args w'

/-- a call without receiver (module function, static alias): the captured function -/
def runAliasNoReceiver {σ ρ α} (raiseFlag : Bool) (sem : ImplId → α → World σ → Res σ ρ)
    (captured : ImplId) (msg : MsgId) (args : α) (w : World σ) : Res σ ρ :=
  if raiseFlag then .raised .biogemeDeprecated w
  else
    match warn w msg with
    | (true, w') => .raised (.deprecationWarning msg) w'
    | (false, w') => sem captured args w'

/-- several warnings in a row; stops at the first one turned into an exception -/
def warnMany {σ} (w : World σ) : List MsgId → Option MsgId × World σ
  | [] => (none, w)
  | m :: t =>
    match warn w m with
    | (true, w') => (some m, w')
    | (false, w') => warnMany w' t

/-- the obsolete spellings of a call, in the order of the call (one warning each) -/
def obsoleteKeys {V} (m : KwMap) : List (NameId × V) → List NameId
  | [] => []
  | (k, _) :: t => match mapGet m k with
    | some _ => k :: obsoleteKeys m t
    | none => obsoleteKeys m t

/-- the wrapper of `@deprecated_parameters(map)`; `msgOf` = identity of the warning about one
obsolete keyword; `f` = the decorated function on (renamed keyword arguments, world) -/
def runKw {σ ρ V} (m : KwMap) (msgOf : NameId → MsgId) (f : List (NameId × V) → World σ → Res σ ρ)
    (kw : List (NameId × V)) (w : World σ) : Res σ ρ :=
  match warnMany w ((obsoleteKeys m kw).map msgOf) with
  | (some bad, w') => .raised (.deprecationWarning bad) w'
  | (none, w') => f (renameKwargs m kw).1 w'

/-- NOT the code: a warning helper that forces the display first
(`warnings.simplefilter('default', DeprecationWarning)` = remove an equal entry, insert in front) -/
def warnForced {σ} (w : World σ) (m : MsgId) : Bool × World σ :=
  let f : WFilter := ⟨.default, true⟩
  warn { w with filters := f :: w.filters.filter (· != f) } m

/-- the wrapper that only looks at `vars(type(receiver))` (NOT the code: the shape excluded by
`C20.override_anywhere_honoured`): dispatch on the receiver only when its own class redefines the name -/
def aliasShallow (H : Hier) (c : ClassId) (newName : NameId) (captured : ImplId) : Option ImplId :=
  match classGet H c newName with
  | some i => if i = captured then some captured else resolve H c newName
  | none => some captured


/-! ## the ARGUMENT dimension: which calls a function object accepts (round 3, follow-up)

`Sig` is the signature of a python function with positional-or-keyword parameters (after `self`),
optionally `*args` / `**kwargs`; a call is (number of positional arguments, keyword names).
`sigAccepts` is `inspect.Signature.bind` succeeding = the call not raising `TypeError` for its
arguments.  `aliasAccepts`: the code's wrapper checks nothing itself and passes the arguments on
unchanged, so it accepts what the function that runs accepts.  `precheckAccepts` is NOT the code: a
wrapper that first binds the arguments to the signature of the CAPTURED function. -/

structure Sig where
  params : List (NameId × Bool)     -- name, has a default
  varPos : Bool
  varKw : Bool
deriving Repr, DecidableEq

def sigAccepts (s : Sig) (npos : Nat) (kws : List NameId) : Bool :=
  let names := s.params.map (·.1)
  (npos ≤ names.length || s.varPos) && nodupNat kws &&
    kws.all (fun k => ((names.drop npos).contains k) || (s.varKw && !(names.contains k))) &&
    ((s.params.drop npos).all fun p => p.2 || kws.contains p.1)

/-- does the call go through when made under the old name (receiver of class `c`) -/
def aliasAccepts (sigOf : ImplId → Sig) (H : Hier) (c : ClassId) (newName : NameId) (captured : ImplId)
    (npos : Nat) (kws : List NameId) : Bool :=
  match aliasCall H c newName captured with
  | none => false
  | some i => sigAccepts (sigOf i) npos kws

/-- … and under the new name -/
def newAccepts (sigOf : ImplId → Sig) (H : Hier) (c : ClassId) (newName : NameId)
    (npos : Nat) (kws : List NameId) : Bool :=
  match callNew H c newName with
  | none => false
  | some i => sigAccepts (sigOf i) npos kws

/-- NOT the code: arguments bound to the captured function's signature before the dispatch -/
def precheckAccepts (sigOf : ImplId → Sig) (H : Hier) (c : ClassId) (newName : NameId) (captured : ImplId)
    (npos : Nat) (kws : List NameId) : Bool :=
  sigAccepts (sigOf captured) npos kws && aliasAccepts sigOf H c newName captured npos kws

end Disp
