/-
How derivatives leave the library (C02, round 3): the code between the engine's arrays and the user.

* `indices`            — `idmanager.expressions_names_indices`: name ↦ position in the sorted list of the
                          free parameters of the WHOLE id manager (all formulas that share it);
* `convertToDict`      — `function_output.convert_to_dict` (range check, then name ↦ sequence[index]);
* `namedVec/namedMat`  — `NamedFunctionOutput`, `NamedBiogemeFunctionOutput`,
                          `NamedBiogemeDisaggregateFunctionOutput` (vector, two-level matrix, one per observation);
* `calcPackage`        — `calculator.calculate_function_and_derivatives`: which slots are returned, the `[0]`
                          selection of the aggregated mode, `unique_entry` of the mode without a database;
* `getValueAndDerivatives` — flags check + packaging + naming (the part of `Expression.get_value_and_derivatives`
                          after the engine call);
* `Proxy`              — `SmartOutputProxy.__iter__`: unpacking yields f, g, h, bhhh in that order, once;
* `myFunction`, `objF/objFG/objFGH` — `Expression.create_function` (positional point, length check, named
                          aggregated output) and the three closures of `create_objective_function.Function`;
* `pointEnv`           — the valuation of the parameters defined by a positional vector: coordinate k is the
                          value of the k-th name of the id manager's list;
* `runCalls`           — successive calls on one object: every call allocates the arrays it returns.
Core Lean only.
-/
import Model.Diff
import Model.IdManager

namespace DerivOut
open Diff

/-- the names of the parameters that occur in a formula -/
def pars {α : Type} : E α → List String
  | .num _ => []
  | .par n => [n]
  | .var _ => []
  | .add a b => pars a ++ pars b
  | .sub a b => pars a ++ pars b
  | .mul a b => pars a ++ pars b
  | .div a b => pars a ++ pars b
  | .neg a => pars a
  | .exp a => pars a
  | .log a => pars a
  | .powc a _ => pars a

/-! ### name ↦ index -/

def enumFrom (k : Nat) : List String → List (String × Nat)
  | [] => []
  | n :: t => (n, k) :: enumFrom (k + 1) t

/-- `expressions_names_indices(...).indices` for the sorted names `names` -/
def indices (names : List String) : List (String × Nat) := enumFrom 0 names

/-- `convert_to_dict`: `none` = IndexError (an index of the map is outside the sequence) -/
def convertToDict {β : Type} : List (String × Nat) → List β → Option (List (String × β))
  | [], _ => some []
  | (n, i) :: m, seq =>
    match seq[i]?, convertToDict m seq with
    | some v, some r => some ((n, v) :: r)
    | _, _ => none

/-- reading a Python dict built from a list of pairs with distinct keys -/
def dictGet {β : Type} (d : List (String × β)) (n : String) : Option β :=
  match d with
  | [] => none
  | (m, v) :: t => if m = n then some v else dictGet t n

/-- `[convert_to_dict(row, mapping) for row in matrix]` -/
def rowsToDict {β : Type} (m : List (String × Nat)) : List (List β) → Option (List (List (String × β)))
  | [] => some []
  | r :: t =>
    match convertToDict m r, rowsToDict m t with
    | some d, some ds => some (d :: ds)
    | _, _ => none

abbrev NVec (β : Type) := List (String × β)
abbrev NMat (β : Type) := List (String × List (String × β))

def namedVec {β : Type} (m : List (String × Nat)) (v : List β) : Option (NVec β) := convertToDict m v

/-- two-level dictionary of a matrix (Hessian, BHHH) -/
def namedMat {β : Type} (m : List (String × Nat)) (h : List (List β)) : Option (NMat β) :=
  match rowsToDict m h with
  | some rows => convertToDict m rows
  | none => none

def matGet {β : Type} (d : NMat β) (i j : String) : Option β := (dictGet d i).bind (dictGet · j)

/-! ### packaging of the engine's arrays -/

/-- `pyEvaluateOneExpression.getResults()`: one entry per observation, one entry when aggregated -/
structure Raw (α : Type) where
  f : List α
  g : List (List α)
  h : List (List (List α))
  b : List (List (List α))

/-- `BiogemeFunctionOutput` -/
structure Agg (α : Type) where
  f : α
  g : Option (List α)
  h : Option (List (List α))
  b : Option (List (List α))

/-- `BiogemeDisaggregateFunctionOutput` -/
structure Dis (α : Type) where
  fs : List α
  gs : Option (List (List α))
  hs : Option (List (List (List α)))
  bs : Option (List (List (List α)))

inductive Out (α : Type) where
  | agg : Agg α → Out α
  | dis : Dis α → Out α

/-- `x[0] if x is not None else None` -/
def slot0 {β : Type} : Option (List β) → Except String (Option β)
  | none => .ok none
  | some (x :: _) => .ok (some x)
  | some [] => .error "IndexError"

/-- `BiogemeDisaggregateFunctionOutput.unique_entry` (`none` = more or fewer than one entry) -/
def uniqueEntry {α : Type} (d : Dis α) : Except String (Option (Agg α)) :=
  match d.fs with
  | [f] => do
    let g ← slot0 d.gs
    let h ← slot0 d.hs
    let b ← slot0 d.bs
    pure (some ⟨f, g, h, b⟩)
  | _ => .ok none

/-- `calculate_function_and_derivatives` after `getResults()` -/
def calcPackage {α : Type} (fl : Flags) (aggregation hasDb : Bool) (raw : Raw α) : Except String (Out α) :=
  let gres := if fl.gradient then some raw.g else none
  let hres := if fl.hessian then some raw.h else none
  let bres := if fl.bhhh then some raw.b else none
  if aggregation then
    match raw.f with
    | [] => .error "IndexError"
    | f0 :: _ => do
      let g ← slot0 gres
      let h ← slot0 hres
      let b ← slot0 bres
      pure (.agg ⟨f0, g, h, b⟩)
  else
    let d : Dis α := ⟨raw.f, gres, hres, bres⟩
    if hasDb then .ok (.dis d)
    else
      match uniqueEntry d with
      | .error e => .error e
      | .ok (some a) => .ok (.agg a)
      | .ok none => .error "BiogemeError"

/-! ### named outputs -/

structure NamedAgg (α : Type) where
  f : α
  g : Option (NVec α)
  h : Option (NMat α)
  b : Option (NMat α)

structure NamedDis (α : Type) where
  fs : List α
  gs : Option (List (NVec α))
  hs : Option (List (NMat α))
  bs : Option (List (NMat α))

inductive Result (α : Type) where
  | agg : Agg α → Result α
  | dis : Dis α → Result α
  | namedAgg : NamedAgg α → Result α
  | namedDis : NamedDis α → Result α

/-- apply a partial conversion to an optional slot (`None if x is None else convert(x)`) -/
def optConv {β γ : Type} (f : β → Option γ) : Option β → Except String (Option γ)
  | none => .ok none
  | some x => match f x with
    | some y => .ok (some y)
    | none => .error "IndexError"

def allConv {β γ : Type} (f : β → Option γ) : List β → Option (List γ)
  | [] => some []
  | x :: t => match f x, allConv f t with
    | some y, some ys => some (y :: ys)
    | _, _ => none

def nameAgg {α : Type} (m : List (String × Nat)) (o : Agg α) : Except String (NamedAgg α) := do
  let g ← optConv (namedVec m) o.g
  let h ← optConv (namedMat m) o.h
  let b ← optConv (namedMat m) o.b
  pure ⟨o.f, g, h, b⟩

def nameDis {α : Type} (m : List (String × Nat)) (o : Dis α) : Except String (NamedDis α) := do
  let g ← optConv (allConv (namedVec m)) o.gs
  let h ← optConv (allConv (namedMat m)) o.hs
  let b ← optConv (allConv (namedMat m)) o.bs
  pure ⟨o.fs, g, h, b⟩

/-- the part of `Expression.get_value_and_derivatives` around the engine call: flags check, packaging, and
naming with the mapping of the id manager `names` (ALL free parameters of the manager, whatever the formula) -/
def getValueAndDerivatives {α : Type} (names : List String) (fl : Flags) (aggregation hasDb named : Bool)
    (raw : Raw α) : Except String (Result α) :=
  match package fl with
  | none => .error "BiogemeError"
  | some _ =>
    match calcPackage fl aggregation hasDb raw with
    | .error e => .error e
    | .ok (.agg o) => if named then (nameAgg (indices names) o).map .namedAgg else .ok (.agg o)
    | .ok (.dis o) => if named then (nameDis (indices names) o).map .namedDis else .ok (.dis o)

/-! ### tuple unpacking of an output (`SmartOutputProxy.__iter__`) -/

structure Proxy (α : Type) where
  data : Agg α
  iterated : Bool := false

/-- one unpacking: the four slots in the order f, g, h, bhhh - only once per object -/
def Proxy.iter {α : Type} (p : Proxy α) :
    Except String (α × Option (List α) × Option (List (List α)) × Option (List (List α))) × Proxy α :=
  if p.iterated then (.error "TypeError", p)
  else (.ok (p.data.f, p.data.g, p.data.h, p.data.b), { p with iterated := true })

/-- the state of the proxy after a sequence of unpackings, with what each returned -/
def Proxy.iters {α : Type} (p : Proxy α) : Nat →
    List (Except String (α × Option (List α) × Option (List (List α)) × Option (List (List α)))) × Proxy α
  | 0 => ([], p)
  | k + 1 => let (r, p') := p.iter; let (rs, p'') := p'.iters k; (r :: rs, p'')

/-! ### a positional point: coordinate k is the value of the k-th name -/

variable {α : Type} [NumOps α]

/-- the valuation after `id_manager.free_betas_values = x`: the parameter named `names[k]` has value `x[k]`;
other names (fixed parameters) keep the value of `base` -/
def pointEnv (names : List String) (x : List α) (base : Env α) : Env α :=
  { base with par := fun n => match IdM.indexOf n names with
      | some k => x.getD k (base.par n)
      | none => base.par n }

/-- the aggregated engine output of formula `e` on the rows `envs` at the positional point `x` -/
def engineAgg (names : List String) (envs : List (Env α)) (e : E α) (x : List α) : Raw α :=
  let es := envs.map (pointEnv names x)
  { f := [aggValue es e], g := [aggGrad names es e], h := [aggHess names es e],
    b := [bhhh names.length (es.map fun env => grad names env e)] }

/-- `Expression.create_function(...)(x)`: length check, positional point, aggregated NAMED output -/
def myFunction (names : List String) (envs : List (Env α)) (e : E α) (fl : Flags) (x : List α) :
    Except String (NamedAgg α) :=
  match package fl with
  | none => .error "BiogemeError"
  | some _ =>
    if x.length ≠ names.length then .error "BiogemeError"
    else match calcPackage fl true true (engineAgg names envs e x) with
      | .error er => .error er
      | .ok (.agg o) => (nameAgg (indices names) o).map fun n => n
      | .ok (.dis _) => .error "unreachable"

/-- `.function_output` of what `my_function` returns (the positional output wrapped by the named one) -/
def myFunctionRaw (names : List String) (envs : List (Env α)) (e : E α) (fl : Flags) (x : List α) :
    Except String (Agg α) :=
  match package fl with
  | none => .error "BiogemeError"
  | some _ =>
    if x.length ≠ names.length then .error "BiogemeError"
    else match calcPackage fl true true (engineAgg names envs e x) with
      | .error er => .error er
      | .ok (.agg o) => .ok o
      | .ok (.dis _) => .error "unreachable"

/-- the three closures of `create_objective_function.Function` -/
def objF (names : List String) (envs : List (Env α)) (e : E α) (x : List α) : Except String α :=
  (myFunctionRaw names envs e ⟨false, false, false⟩ x).map (·.f)

def objFG (names : List String) (envs : List (Env α)) (e : E α) (x : List α) :
    Except String (α × Option (List α) × Option (List (List α))) :=
  (myFunctionRaw names envs e ⟨true, false, false⟩ x).map fun o => (o.f, o.g, none)

def objFGH (names : List String) (envs : List (Env α)) (e : E α) (x : List α) :
    Except String (α × Option (List α) × Option (List (List α))) :=
  (myFunctionRaw names envs e ⟨true, true, false⟩ x).map fun o => (o.f, o.g, o.h)

/-! ### successive calls on one object -/

/-- every call allocates the arrays it returns (`np.empty` per call): the store of returned outputs after
the calls at the points `xs` -/
def runCalls {β γ : Type} (H : β → γ) (xs : List β) : List γ := xs.foldl (fun heap x => heap ++ [H x]) []

end DerivOut
