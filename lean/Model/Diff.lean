/-
Symbolic differentiation on the differentiable fragment of the expression language (C02).

`E α` is a tree language: literals, parameters, data variables, + − × ÷, unary minus, exp, log
and power with a constant exponent.  The harness expands `bioMultSum`, `bioLinearUtility`,
`LogLogit` (V_c − log Σ_{available} exp V_j) and row-wise resolved `Elem`/`ConditionalSum`
selectors into this fragment.  `ev` is the value, `diff n` the symbolic partial derivative with
respect to parameter `n`, `grad`/`hess`/`bhhh` the vectors and matrices built from it in the
order of a list of names (the library's sorted free parameters).  Core Lean only.
-/
import Model.Num

namespace Diff
open Num

inductive E (α : Type) where
  | num : α → E α
  | par : String → E α
  | var : String → E α
  | add : E α → E α → E α
  | sub : E α → E α → E α
  | mul : E α → E α → E α
  | div : E α → E α → E α
  | neg : E α → E α
  | exp : E α → E α
  | log : E α → E α
  | powc : E α → α → E α          -- a ^ c, c a literal

structure Env (α : Type) where
  par : String → α
  var : String → α

variable {α : Type} [NumOps α]

def ev (env : Env α) : E α → α
  | .num v => v
  | .par n => env.par n
  | .var n => env.var n
  | .add a b => ev env a + ev env b
  | .sub a b => ev env a - ev env b
  | .mul a b => ev env a * ev env b
  | .div a b => ev env a / ev env b
  | .neg a => -(ev env a)
  | .exp a => Num.exp (ev env a)
  | .log a => Num.log (ev env a)
  | .powc a c => Num.pow (ev env a) c

/-- symbolic partial derivative with respect to parameter `n` -/
def diff (n : String) : E α → E α
  | .num _ => .num (0 : α)
  | .par m => if m = n then .num (1 : α) else .num (0 : α)
  | .var _ => .num (0 : α)
  | .add a b => .add (diff n a) (diff n b)
  | .sub a b => .sub (diff n a) (diff n b)
  | .mul a b => .add (.mul (diff n a) b) (.mul a (diff n b))
  | .div a b => .div (.sub (.mul (diff n a) b) (.mul a (diff n b))) (.mul b b)
  | .neg a => .neg (diff n a)
  | .exp a => .mul (.exp a) (diff n a)
  | .log a => .div (diff n a) a
  | .powc a c => .mul (.mul (.num c) (.powc a (c - (1 : α)))) (diff n a)

def Env.setPar (env : Env α) (n : String) (t : α) : Env α :=
  { env with par := fun m => if m = n then t else env.par m }

/-- gradient / Hessian in the order of the given names -/
def grad (names : List String) (env : Env α) (e : E α) : List α :=
  names.map fun n => ev env (diff n e)

def hess (names : List String) (env : Env α) (e : E α) : List (List α) :=
  names.map fun i => names.map fun j => ev env (diff j (diff i e))

def outer (g : List α) : List (List α) := g.map fun a => g.map fun b => a * b

def vadd (a b : List α) : List α := List.zipWith (· + ·) a b
def madd (a b : List (List α)) : List (List α) := List.zipWith vadd a b

def vzero (k : Nat) : List α := List.replicate k (0 : α)
def mzero (k : Nat) : List (List α) := List.replicate k (vzero k)

/-- BHHH = Σ over observations of the outer product of the per-observation gradient -/
def bhhh (k : Nat) (gs : List (List α)) : List (List α) := gs.foldr (fun g acc => madd (outer g) acc) (mzero k)

/-- aggregation over rows: sums of the per-observation value, gradient, Hessian -/
def aggValue (envs : List (Env α)) (e : E α) : α := Num.sum (envs.map fun env => ev env e)
def aggGrad (names : List String) (envs : List (Env α)) (e : E α) : List α :=
  envs.foldr (fun env acc => vadd (grad names env e) acc) (vzero names.length)
def aggHess (names : List String) (envs : List (Env α)) (e : E α) : List (List α) :=
  envs.foldr (fun env acc => madd (hess names env e) acc) (mzero names.length)

/-- which outputs `calculate_function_and_derivatives` returns for the requested flags;
`none` = refused (second derivatives without first ones) -/
structure Flags where
  gradient : Bool
  hessian : Bool
  bhhh : Bool

def package (fl : Flags) : Option (Bool × Bool × Bool) :=
  if (fl.hessian || fl.bhhh) && !fl.gradient then none else some (fl.gradient, fl.hessian, fl.bhhh)

end Diff
