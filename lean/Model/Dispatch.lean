/-
Model of `src/biogeme/deprecated.py` and of the attribute look-up it relies on.

* A *hierarchy* is a list of classes; each class has its linearised list of bases (`__mro__`,
  beginning with the class itself) and the function-valued entries of its own `__dict__`
  (`vars(cls)`): attribute name ↦ identity of the function object.  A module is the degenerate
  case: one "class" whose mro is itself.  Names, classes and function objects are natural
  numbers (interned by the translator; identities are compared with `is` in the code).
* `resolve`         : `getattr(type(x), name)` — first class of the mro that defines the name.
* `foundInMro`      : the test of the wrapper, `vars(a_class).get(new_name) is new_func` for
                      some class of `type(args[0]).__mro__`.
* `aliasCall`       : the wrapper produced by `@deprecated(new_func)` as it is now (dispatch on
                      the receiver when the captured function is found in the receiver's mro,
                      otherwise direct call of the captured function).
* `aliasCaptured`   : the wrapper as it was before the repair (always the captured function).
* `renameKwargs`    : the loop of the wrapper produced by `@deprecated_parameters(map)`.
* table checks      : executable predicates over the table the translator regenerates from the
                      live package (`Generated/Aliases.lean`).

Core Lean only.
-/

namespace Disp

abbrev ClassId := Nat
abbrev NameId := Nat
abbrev ImplId := Nat

structure Cls where
  id : ClassId
  mro : List ClassId
  dict : List (NameId × ImplId)
deriving Repr, DecidableEq

abbrev Hier := List Cls

def findCls : Hier → ClassId → Option Cls
  | [], _ => none
  | c :: t, k => if c.id = k then some c else findCls t k

def dictGet : List (NameId × ImplId) → NameId → Option ImplId
  | [], _ => none
  | (k, v) :: t, n => if k = n then some v else dictGet t n

/-- `vars(a_class).get(name)` for a class given by its id (a class the table does not list
defines nothing relevant) -/
def classGet (H : Hier) (k : ClassId) (n : NameId) : Option ImplId :=
  match findCls H k with
  | none => none
  | some c => dictGet c.dict n

/-- look-up along a list of classes: the first that defines the name -/
def lookupAlong (H : Hier) (n : NameId) : List ClassId → Option ImplId
  | [] => none
  | k :: t =>
    match classGet H k n with
    | some i => some i
    | none => lookupAlong H n t

def mroOf (H : Hier) (c : ClassId) : List ClassId :=
  match findCls H c with
  | none => []
  | some cl => cl.mro

/-- `getattr(type(x), name)` (functions are found on the type; `none` = AttributeError) -/
def resolve (H : Hier) (c : ClassId) (n : NameId) : Option ImplId := lookupAlong H n (mroOf H c)

/-- the wrapper's loop `for a_class in type(args[0]).__mro__: if vars(a_class).get(new_name) is new_func` -/
def foundAlong (H : Hier) (n : NameId) (captured : ImplId) : List ClassId → Bool
  | [] => false
  | k :: t => (classGet H k n == some captured) || foundAlong H n captured t

def foundInMro (H : Hier) (c : ClassId) (n : NameId) (captured : ImplId) : Bool :=
  foundAlong H n captured (mroOf H c)

/-- which function object finally runs when the alias is called on a receiver of class `c`
(the repaired wrapper).  The positional and keyword arguments are passed on unchanged in both
branches, so the function that runs is all there is to compare. -/
def aliasCall (H : Hier) (c : ClassId) (newName : NameId) (captured : ImplId) : Option ImplId :=
  if foundInMro H c newName captured then resolve H c newName else some captured

/-- the wrapper before the repair: always the function captured at decoration time -/
def aliasCaptured (_H : Hier) (_c : ClassId) (_newName : NameId) (captured : ImplId) : Option ImplId :=
  some captured

/-- what the user is told to write instead: `receiver.new_name(...)` -/
def callNew (H : Hier) (c : ClassId) (newName : NameId) : Option ImplId := resolve H c newName

/-- a call without receiver (module-level function, or a method alias reached through the
class with no positional argument): `if args:` is false, the captured function is called -/
def aliasCallNoReceiver (captured : ImplId) : Option ImplId := some captured

/-! ## keyword renaming (`deprecated_parameters`) -/

abbrev KwMap := List (NameId × Option NameId)     -- obsolete name ↦ new name (none: ignored)

def mapGet : KwMap → NameId → Option (Option NameId)
  | [], _ => none
  | (k, v) :: t, n => if k = n then some v else mapGet t n

/-- `processed_kwargs[name] = value` (dict assignment: a later equal key replaces the value) -/
def kwSet {V} : List (NameId × V) → NameId → V → List (NameId × V)
  | [], k, v => [(k, v)]
  | (k', v') :: t, k, v => if k' = k then (k, v) :: t else (k', v') :: kwSet t k v

/-- the loop over `kwargs.items()`: processed keyword arguments and number of warnings -/
def renameLoop {V} (m : KwMap) : List (NameId × V) → List (NameId × V) → Nat → List (NameId × V) × Nat
  | [], acc, w => (acc, w)
  | (k, v) :: t, acc, w =>
    match mapGet m k with
    | some (some k') => renameLoop m t (kwSet acc k' v) (w + 1)
    | some none => renameLoop m t acc (w + 1)
    | none => renameLoop m t (kwSet acc k v) w

def renameKwargs {V} (m : KwMap) (kw : List (NameId × V)) : List (NameId × V) × Nat :=
  renameLoop m kw [] 0

/-! ## the generated table -/

/-- one `@deprecated(new_func)` definition found in the live package -/
structure Alias where
  owner : ClassId          -- class (or module) whose dict holds the alias
  oldName : NameId
  wrapper : ImplId         -- identity of the wrapper stored in the dict
  newName : NameId         -- `wrapper.__newname__` (what the warning names)
  capturedName : NameId    -- `new_func.__name__` of the closure cell
  captured : ImplId        -- identity of the function in the closure cell
  isModule : Bool          -- module-level function (no receiver)
  isStatic : Bool          -- wrapped in `staticmethod` (no receiver)
deriving Repr, DecidableEq

/-- the class exposes the alias: looking the old name up on the class finds this wrapper -/
def exposes (H : Hier) (c : Cls) (a : Alias) : Bool := resolve H c.id a.oldName == some a.wrapper

/-- conditions on one alias definition: the warning names the function that is called, and
that name, looked up where the alias lives, is the captured function -/
def aliasDefOK (H : Hier) (a : Alias) : Bool :=
  a.newName == a.capturedName && classGet H a.owner a.newName == some a.captured

/-- dispatch condition of one class slot (a class exposing a method alias): the captured
function is found in the mro of the receiver's class -/
def slotOK (H : Hier) (c : Cls) (a : Alias) : Bool :=
  a.isModule || a.isStatic || foundInMro H c.id a.newName a.captured

def isKnownBad (bad : List (ClassId × NameId)) (c : ClassId) (n : NameId) : Bool :=
  bad.any fun p => p.1 == c && p.2 == n

/-- every alias definition is sound and every class slot satisfies the dispatch condition,
except the listed known findings (owner class, old name) -/
def checkAliases (H : Hier) (al : List Alias) (bad : List (ClassId × NameId)) : Bool :=
  al.all fun a =>
    isKnownBad bad a.owner a.oldName ||
    (aliasDefOK H a && H.all fun c => !exposes H c a || slotOK H c a)

/-- the listed known findings are really unsound (the list hides nothing that is fine) -/
def checkKnownBad (H : Hier) (al : List Alias) (bad : List (ClassId × NameId)) : Bool :=
  bad.all fun p => al.any fun a =>
    a.owner == p.1 && a.oldName == p.2 &&
      !(aliasDefOK H a && H.all fun c => !exposes H c a || slotOK H c a)

/-- number of (class, alias) slots of the table -/
def countSlots (H : Hier) (al : List Alias) : Nat :=
  (al.map fun a => (H.filter fun c => exposes H c a).length).foldl (· + ·) 0

/-! legacy spelling: an old name is the legacy spelling of its target when both agree after
dropping '_' and lower-casing, or the pair is in the reviewed exception list -/

def lowerChar (c : Char) : Char :=
  if 'A'.toNat ≤ c.toNat ∧ c.toNat ≤ 'Z'.toNat then Char.ofNat (c.toNat + 32) else c

def normName (s : List Char) : List Char := (s.filter (· != '_')).map lowerChar

def nameOf (names : List (NameId × List Char)) (n : NameId) : List Char :=
  match names.find? (·.1 == n) with
  | some p => p.2
  | none => []

def legacyOK (names : List (NameId × List Char)) (exceptions : List (List Char × List Char))
    (a : Alias) : Bool :=
  let o := nameOf names a.oldName
  let n := nameOf names a.newName
  (o != n && normName o == normName n) || exceptions.contains (o, n)

def checkLegacy (names : List (NameId × List Char)) (exceptions : List (List Char × List Char))
    (al : List Alias) : Bool := al.all (legacyOK names exceptions)

/-- one `@deprecated_parameters(map)` use: the map and the parameters of the decorated function -/
structure KwUse where
  owner : ClassId
  func : NameId
  map : KwMap
  params : List NameId         -- explicit parameters of the function
  extra : List NameId          -- names accepted through `**kwargs` (empty if there is none)
deriving Repr, DecidableEq

def nodupNat : List Nat → Bool
  | [] => true
  | a :: t => !t.contains a && nodupNat t

/-- keyword maps: obsolete names are not parameters themselves and are distinct, the new names
exist (explicitly or through `**kwargs`), and no two obsolete names share a target -/
def kwUseOK (u : KwUse) : Bool :=
  let olds := u.map.map (·.1)
  let news := u.map.filterMap (·.2)
  nodupNat olds && nodupNat news &&
    olds.all (fun o => !u.params.contains o && !u.extra.contains o) &&
    news.all (fun n => u.params.contains n || u.extra.contains n)

def checkKw (us : List KwUse) : Bool := us.all kwUseOK

/-- every obsolete keyword is the legacy spelling of its replacement (or a reviewed exception;
an ignored keyword is listed with an empty replacement) -/
def kwLegacyOK (names : List (NameId × List Char)) (exceptions : List (List Char × List Char))
    (u : KwUse) : Bool :=
  u.map.all fun p =>
    let o := nameOf names p.1
    match p.2 with
    | none => exceptions.contains (o, [])
    | some n =>
      let nn := nameOf names n
      (o != nn && normName o == normName nn) || exceptions.contains (o, nn)

def checkKwLegacy (names : List (NameId × List Char)) (exceptions : List (List Char × List Char))
    (us : List KwUse) : Bool := us.all (kwLegacyOK names exceptions)

end Disp
