/-
Model of the draw generators of biogeme (property C11):

* `draws.py`        : get_uniform, get_latin_hypercube_draws, get_halton_draws, get_antithetic,
                      get_normal_wichura_draws
* `native_draws.py` : the 21 catalogued types (helper functions binding a generator to its
                      keyword arguments) — their extracted parameters are regenerated into
                      Generated/DrawCatalogue.lean on every run
* `database.py`     : Database.generate_draws (shape enforcement)

Numeric parts are written over `[NumOps α]` (run on `Float` in the same order of operations
as numpy, proved on `ℝ`).  The external random calls `np.random.uniform` / `np.random.shuffle`
are parameters: a list of uniform numbers and a permutation (list of source indices).

Two versions of Wichura's PPND16 are modelled: `wichuraCode` — the code as it stands, whose
branch test is `|u| <= 0.45` — and `as241`, the published algorithm (`|u - 0.5| <= 0.425`).
They share everything else (`ppnd`).  Known finding F02.  Core Lean only.
-/
import Model.Num
open Num

namespace Draws

variable {α : Type} [NumOps α]

/-! ## Halton -/

/-- radical inverse of `k` in base `b`: the digits of `k` mirrored at the radix point
    (`Σ_j d_j b^{-(j+1)}`) -/
def radInv (b k : Nat) : α :=
  if h : b < 2 ∨ k = 0 then 0
  else (NumOps.ofNat (k % b) + radInv b (k / b)) / NumOps.ofNat b
termination_by k
decreasing_by exact Nat.div_lt_self (by omega) (by omega)

/-- exact radical inverse as a fraction (numerator, denominator), by fuel -/
def radInvQ (b : Nat) : Nat → Nat → Nat × Nat
  | 0, _ => (0, 1)
  | fuel + 1, k =>
    if k = 0 then (0, 1)
    else
      let r := radInvQ b fuel (k / b)
      ((k % b) * r.2 + r.1, r.2 * b)

/-- the inner loop `while i < base and numbers_idx < req_length` of `get_halton_draws`:
    `numbers[idx : idx + m] = numbers[:m] + d * i` with `m = min(req - idx, size)` -/
def haltonInner (b req : Nat) (d : α) (size : Nat) : Nat → Nat → List α → List α
  | 0, _, nums => nums
  | fuel + 1, i, nums =>
    if i < b ∧ nums.length < req then
      let m := min (req - nums.length) size
      haltonInner b req d size fuel (i + 1)
        (nums ++ (nums.take m).map (fun x => x + d * NumOps.ofNat i))
    else nums

/-- the outer loop `while numbers_idx < req_length` (`d = 1 / base**t`) -/
def haltonOuter (b req : Nat) : Nat → Nat → List α → List α
  | 0, _, nums => nums
  | fuel + 1, t, nums =>
    if nums.length < req then
      let d : α := NumOps.ofNat 1 / NumOps.ofNat (b ^ t)
      haltonOuter b req fuel (t + 1) (haltonInner b req d nums.length b 1 nums)
    else nums

/-- the array `numbers` after the loops (`numbers[0] = 0`); `req` outer rounds always suffice -/
def haltonNumbers (b req : Nat) : List α := haltonOuter b req req 1 [(0 : α)]

def symMap (x : α) : α := 2.0 * x - 1.0

/-- `get_halton_draws` (not shuffled), flat: `numbers[skip+1 : length+skip+1]`, then `2u - 1` -/
def haltonDraws (b skip len : Nat) (symmetric : Bool) : List α :=
  let nums : List α := haltonNumbers b (len + skip + 1)
  let s := (nums.drop (skip + 1)).take len
  if symmetric then s.map symMap else s

/-! ## uniform, Latin hypercube, antithetic -/

def uniformDraws (us : List α) (symmetric : Bool) : List α :=
  if symmetric then us.map symMap else us

/-- `(float(i) + u[i]) / float(N)` for i < N = len(us) -/
def lhsBaseFrom (n : Nat) : Nat → List α → List α
  | _, [] => []
  | i, u :: t => (NumOps.ofNat i + u) / NumOps.ofNat n :: lhsBaseFrom n (i + 1) t

def lhsBase (us : List α) : List α := lhsBaseFrom us.length 0 us

/-- `np.random.shuffle` as the harness replays it: element j of the result is element
    `perm[j]` of the array -/
def applyPerm (perm : List Nat) (xs : List α) : List α := perm.map fun i => xs.getD i (0 : α)

/-- `get_latin_hypercube_draws`, flat -/
def lhsDraws (us : List α) (perm : List Nat) (symmetric : Bool) : List α :=
  let base := lhsBase us
  applyPerm perm (if symmetric then base.map symMap else base)

/-- rows of `r` columns (`numbers.shape = (sample_size, number_of_draws)`) -/
def chunk (r : Nat) : Nat → List α → List (List α)
  | 0, _ => []
  | n + 1, xs => xs.take r :: chunk r n (xs.drop r)

inductive Mirror where
  | oneMinus     -- `1 - draws`  (antithetic of U[0,1])
  | neg          -- `-draws`     (antithetic of U[-1,1] and of normal draws)
deriving Repr, DecidableEq

def mirror : Mirror → α → α
  | .oneMinus, x => 1.0 - x
  | .neg, x => -x

/-- `np.concatenate((draws, mirror(draws)), axis=1)` -/
def antitheticRows (m : Mirror) (rows : List (List α)) : List (List α) :=
  rows.map fun row => row ++ row.map (mirror m)

/-! ## Wichura's AS241 (PPND16) -/

def poly7 (c0 c1 c2 c3 c4 c5 c6 c7 r : α) : α :=
  ((((((c7 * r + c6) * r + c5) * r + c4) * r + c3) * r + c2) * r + c1) * r + c0

def numA (r : α) : α := poly7 3.3871328727963666080 1.3314166789178437745e2 1.9715909503065514427e3
  1.3731693765509461125e4 4.5921953931549871457e4 6.7265770927008700853e4
  3.3430575583588128105e4 2.5090809287301226727e3 r
def denB (r : α) : α := poly7 1.0 4.2313330701600911252e1 6.8718700749205790830e2
  5.3941960214247511077e3 2.1213794301586595867e4 3.9307895800092710610e4
  2.8729085735721942674e4 5.2264952788528545610e3 r
def numC (r : α) : α := poly7 1.42343711074968357734 4.63033784615654529590 5.76949722146069140550
  3.64784832476320460504 1.27045825245236838258 2.41780725177450611770e-1
  2.27238449892691845833e-2 7.74545014278341407640e-4 r
def denD (r : α) : α := poly7 1.0 2.05319162663775882187 1.67638483018380384940
  6.89767334985100004550e-1 1.48103976427480074590e-1 1.51986665636164571966e-2
  5.47593808499534494600e-4 1.05075007164441684324e-9 r
def numE (r : α) : α := poly7 6.65790464350110377720 5.46378491116411436990 1.78482653991729133580
  2.96560571828504891230e-1 2.65321895265761230930e-2 1.24266094738807843860e-3
  2.71155556874348757815e-5 2.01033439929228813265e-7 r
def denF (r : α) : α := poly7 1.0 5.99832206555887937690e-1 1.36929880922735805310e-1
  1.48753612908506148525e-2 7.86869131145613259100e-4 1.84631831751005468180e-5
  1.42151175831644588870e-7 2.04426310338993978564e-15 r

inductive Branch where
  | central | zero | middle | far
deriving Repr, DecidableEq

/-- tail probability used by the tail branches: `u` below the median, `1 - u` above -/
def tailArg (u : α) : α := if Num.lt (u - 0.5) 0.0 then u else 1 - u

/-- which formula is applied, given the test for the central region -/
def branchOf (isCentral : Bool) (u : α) : Branch :=
  if isCentral then .central
  else
    let r := tailArg u
    if Num.le r 0 then .zero
    else if Num.le (Num.sqrt (-(Num.log r))) 5.0 then .middle else .far

/-- PPND16 with the test for the central region as a parameter -/
def ppnd (isCentral : Bool) (u : α) : α :=
  let q := u - 0.5
  match branchOf isCentral u with
  | .central =>
    let r := 0.180625 - q * q
    q * numA r / denB r
  | .zero => if Num.lt q 0.0 then -(0.0 : α) else 0.0
  | .middle =>
    let r := Num.sqrt (-(Num.log (tailArg u))) - 1.6
    let v := numC r / denD r
    if Num.lt q 0.0 then -v else v
  | .far =>
    let r := Num.sqrt (-(Num.log (tailArg u))) - 5.0
    let v := numE r / denF r
    if Num.lt q 0.0 then -v else v

/-- the test of the code: `np.abs(uniform_numbers) <= 0.45` (else `> 0.45`) -/
def codeCentral (u : α) : Bool := Num.le (Num.abs u) 0.45
/-- the published test: `|u - 0.5| <= 0.425` -/
def refCentral (u : α) : Bool := Num.le (Num.abs (u - 0.5)) 0.425

/-- `get_normal_wichura_draws` on one uniform number, as coded -/
def wichuraCode (u : α) : α := ppnd (codeCentral u) u
/-- Wichura's algorithm AS241 as published -/
def as241 (u : α) : α := ppnd (refCentral u) u

/-! ## the catalogue -/

inductive Family where
  | uniform
  | halton (base skip : Nat)
  | mlhs
  | unknown            -- the translator did not recognise the source shape
deriving Repr, DecidableEq

/-- what the helper function of a catalogued type does -/
structure Gen where
  family : Family
  symmetric : Bool
  antithetic : Bool
  normal : Bool
deriving Repr, DecidableEq

inductive Interval where
  | unit | sym | real
deriving Repr, DecidableEq

/-- what the description string advertises (`none` = not stated) -/
structure Adv where
  kind : Nat                 -- 0 uniform, 1 Halton, 2 MLHS
  base : Option Nat
  skip : Option Nat
  interval : Interval
  antithetic : Bool
  normal : Bool
deriving Repr, DecidableEq

structure CatEntry where
  name : String
  gen : Gen
  adv : Adv
deriving Repr

def Gen.kind (g : Gen) : Nat :=
  match g.family with
  | .uniform => 0
  | .halton _ _ => 1
  | .mlhs => 2
  | .unknown => 99

def Gen.interval (g : Gen) : Interval :=
  if g.normal then .real else if g.symmetric then .sym else .unit

/-- the entry delivers what its description advertises -/
def CatEntry.ok (e : CatEntry) : Bool :=
  e.gen.kind == e.adv.kind
  && (match e.gen.family, e.adv.base with
      | .halton b _, some ab => b == ab
      | .halton _ _, none => false
      | _, some _ => false
      | _, none => true)
  && (match e.gen.family, e.adv.skip with
      | .halton _ s, some as => s == as
      | _, some _ => false
      | _, none => true)
  && e.gen.interval == e.adv.interval
  && e.gen.antithetic == e.adv.antithetic
  && e.gen.normal == e.adv.normal
  && !(e.gen.normal && e.gen.symmetric)

/-- first number of the Halton sequence an entry is built on, as an exact fraction -/
def Gen.firstQ (g : Gen) : Option (Nat × Nat) :=
  match g.family with
  | .halton b s => some (radInvQ b (s + 2) (s + 1))
  | _ => none

/-- entries advertising different Halton bases start with different numbers -/
def distinctBasesOK (cat : List CatEntry) : Bool :=
  cat.all fun e1 => cat.all fun e2 =>
    match e1.adv.base, e2.adv.base, e1.gen.firstQ, e2.gen.firstQ with
    | some b1, some b2, some q1, some q2 => b1 == b2 || q1.1 * q2.2 != q2.1 * q1.2
    | some b1, some b2, _, _ => b1 == b2
    | _, _, _, _ => true

inductive GenErr where
  | badDraws       -- BiogemeError: invalid number of draws (also R/2 = 0 for antithetic types)
  | badSample      -- BiogemeError: invalid sample size
  | oddDraws       -- BiogemeError: even number of draws required (antithetic normal draws)
  | unknown
deriving Repr, DecidableEq

/-- number of draws actually generated per observation: half of them for antithetic types -/
def drawsPerRow (g : Gen) (R : Nat) : Nat := if g.antithetic then R / 2 else R

/-- the sizes the generators refuse, in the order of the code -/
def genError (g : Gen) (n R : Nat) : Option GenErr :=
  if g.family == .unknown then some .unknown
  else if R == 0 then some .badDraws
  else if g.antithetic && g.normal && R % 2 != 0 then some .oddDraws
  else if drawsPerRow g R == 0 then some .badDraws
  else if n == 0 then some .badSample
  else none

/-- the mirror image used by the antithetic types -/
def Gen.mirror (g : Gen) : Mirror := if g.normal || g.symmetric then .neg else .oneMinus

/-- the numbers generated for `n` observations and `r` draws each, before any mirroring, flat -/
def genFlat (g : Gen) (n r : Nat) (us : List α) (perm : List Nat) : List α :=
  let flat : List α := match g.family with
    | .uniform => uniformDraws us g.symmetric
    | .halton b s => haltonDraws b s (n * r) g.symmetric
    | .mlhs => lhsDraws us perm g.symmetric
    | .unknown => []
  if g.normal then flat.map wichuraCode else flat

/-- the array of a catalogued type: rows of `r` generated draws, completed by their mirror
    image for antithetic types -/
def genRows (g : Gen) (n r : Nat) (us : List α) (perm : List Nat) : List (List α) :=
  let rows := chunk r n (genFlat g n r us perm)
  if g.antithetic then antitheticRows g.mirror rows else rows

/-- the array returned by the generator of a catalogued type for `n` observations and `R`
    draws, given the uniform numbers and the permutation the random calls deliver -/
def generate (g : Gen) (n R : Nat) (us : List α) (perm : List Nat) :
    Except GenErr (List (List α)) :=
  match genError g n R with
  | some e => .error e
  | none => .ok (genRows g n (drawsPerRow g R) us perm)

/-- how many uniform numbers the generator asks `np.random.uniform` for -/
def uniformsNeeded (g : Gen) (n R : Nat) : Nat :=
  match g.family with
  | .halton _ _ => 0
  | _ => n * drawsPerRow g R

def shapeOf (rows : List (List α)) : Nat × List Nat := (rows.length, rows.map List.length)

/-- `Database.generate_draws`: the generator's array must have shape (n, R) -/
def shapeAccepted (n R : Nat) (rows : List (List α)) : Bool :=
  rows.length == n && rows.all (fun row => row.length == R)

/-! ## `Database.generate_draws` for ANY generator (native or user defined)

What a generator delivered is a numpy array: its `shape` (any number of dimensions) and its
elements in row-major order.  The code tests `array.shape != (sample_size, number_of_draws)`
for each variable in the order of `names` and raises on the first one that fails; the accepted
arrays are stacked (`np.array(list_of_draws)`, variables first) and the variable axis is moved
to the end (`np.moveaxis(·, 0, -1)`). -/

/-- what the generator of one variable delivered -/
structure Delivered (α : Type) where
  dims : List Nat          -- `array.shape`
  flat : List α            -- the elements, row-major

/-- the test of the code: the shape *is* `(n, R)` — the same number of elements in another
    layout (transposed, one-dimensional, extra axes of length 1) is not enough -/
def dimsAccepted (n R : Nat) (dims : List Nat) : Bool := dims == [n, R]

/-- number of elements of an array of that shape -/
def dimsCount (dims : List Nat) : Nat := dims.foldr (· * ·) 1

/-- position (counted from `i`) of the first variable whose array is refused -/
def firstRefused (n R : Nat) : Nat → List (List Nat) → Option Nat
  | _, [] => none
  | i, d :: t => if dimsAccepted n R d then firstRefused n R (i + 1) t else some i

/-- element `[i][j]` of an `(n, R)` array given by its elements in row-major order -/
def elemAt (R i j : Nat) (a : List α) : α := a.getD (i * R + j) (0 : α)

/-- the table of draws: `table[i][j][v] = list_of_draws[v][i][j]` (observations × draws ×
    variables); `arrays` are the accepted `(n, R)` arrays, flat -/
def drawsTable (n R : Nat) (arrays : List (List α)) : List (List (List α)) :=
  (List.range n).map fun i => (List.range R).map fun j => arrays.map (elemAt R i j)

/-- `Database.generate_draws`: `.error v` = BiogemeError raised for variable number `v` -/
def generateDraws (n R : Nat) (vars : List (Delivered α)) : Except Nat (List (List (List α))) :=
  match firstRefused n R 0 (vars.map (·.dims)) with
  | some v => .error v
  | none => .ok (drawsTable n R (vars.map (·.flat)))

end Draws
