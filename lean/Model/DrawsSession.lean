/-
Model of a *Python session* with the draw generators (property C11, round 3): a history of
generator calls — catalogue entries, the generators of `draws.py` called directly with all their
options (`shuffled`, `symmetric`, `base`, `skip`, given `uniform_numbers`, `antithetic`) — mixed
with what a caller does to the arrays it received (in-place arithmetic, overwriting, reordering).

The code that exists keeps NO state between two calls: every generator allocates its arrays
(`np.empty`, `np.array`, `np.zeros`, `np.concatenate`), the `shuffled=True` branch of
`get_halton_draws` shuffles its own local slice, and what is returned belongs to the caller.  So
the model of a session has two components only: what each call returned at the moment it returned,
and the arrays as the caller holds them now (one cell per call; a caller's operation modifies
exactly the cell it names).  Core Lean only.
-/
import Model.Draws
open Num

namespace Draws

variable {α : Type} [NumOps α]

/-! ## the generators of `draws.py` called directly, with their error branches -/

/-- `get_halton_draws` (flat) with the `shuffled` option: the slice `numbers[skip+1 : len+skip+1]`
    is shuffled in place *as one flat array* (before the reshape), then mapped by `2u - 1` -/
def haltonDrawsSh (b skip len : Nat) (symmetric shuffled : Bool) (perm : List Nat) : List α :=
  let s : List α := haltonDraws b skip len false
  let s := if shuffled then applyPerm perm s else s
  if symmetric then s.map symMap else s

inductive CallErr where
  | gen (e : GenErr)     -- the errors of the catalogued types (sizes)
  | uniformCount         -- BiogemeError: `uniform_numbers.size != sample_size * number_of_draws`
deriving Repr, DecidableEq

abbrev Arr (α : Type) := Except CallErr (List (List α))

/-- `get_halton_draws(n, R, symmetric, base, skip, shuffled)` -/
def haltonCall (b skip n R : Nat) (sym shuffled : Bool) (perm : List Nat) : Arr α :=
  if R == 0 then .error (.gen .badDraws)
  else if n == 0 then .error (.gen .badSample)
  else .ok (chunk R n (haltonDrawsSh b skip (R * n) sym shuffled perm))

/-- `get_latin_hypercube_draws(n, R, symmetric, uniform_numbers)` — `us` are the numbers given by
    the caller or the ones `np.random.uniform` delivered -/
def lhsCall (n R : Nat) (sym : Bool) (us : List α) (perm : List Nat) : Arr α :=
  if R == 0 then .error (.gen .badDraws)
  else if n == 0 then .error (.gen .badSample)
  else if us.length != R * n then .error .uniformCount
  else .ok (chunk R n (lhsDraws us perm sym))

/-- `get_normal_wichura_draws(n, R, uniform_numbers, antithetic)` -/
def wichuraCall (n R : Nat) (anti : Bool) (us : List α) : Arr α :=
  if R == 0 then .error (.gen .badDraws)
  else if anti && R % 2 != 0 then .error (.gen .oddDraws)
  else
    let r := if anti then R / 2 else R
    if n == 0 then .error (.gen .badSample)
    else if us.length != r * n then .error .uniformCount
    else
      let rows := chunk r n (us.map wichuraCode)
      .ok (if anti then antitheticRows .neg rows else rows)

/-! ## a session -/

/-- one call of a generator with everything it depends on: its arguments and what the two
    external random calls deliver while it runs -/
inductive Call (α : Type) where
  /-- a catalogue entry (or `get_uniform`, `get_antithetic(get_uniform | get_latin_hypercube_draws)`
      — any `Gen`) -/
  | cat (g : Gen) (n R : Nat) (us : List α) (perm : List Nat)
  | halton (b skip n R : Nat) (sym shuffled : Bool) (perm : List Nat)
  | lhs (n R : Nat) (sym : Bool) (us : List α) (perm : List Nat)
  | wichura (n R : Nat) (anti : Bool) (us : List α)

/-- **the stateless function**: what a call returns, as a function of the call alone -/
def callResult : Call α → Arr α
  | .cat g n R us perm =>
    match generate g n R us perm with
    | .ok rows => .ok rows
    | .error e => .error (.gen e)
  | .halton b skip n R sym sh perm => haltonCall b skip n R sym sh perm
  | .lhs n R sym us perm => lhsCall n R sym us perm
  | .wichura n R anti us => wichuraCall n R anti us

/-- what happens in a session: a call, or the caller working in place on the array that call
    number `k` returned -/
inductive Op (α : Type) where
  | call (c : Call α)
  | scale (k : Nat) (c : α)      -- `a *= c`
  | fill (k : Nat) (c : α)       -- `a[:] = c`
  | reverse (k : Nat)            -- `a[:] = a[::-1]` (rows in reverse order)

structure Sess (α : Type) where
  returned : List (Arr α)     -- what each call returned, at the moment it returned
  held : List (Arr α)         -- the same arrays as the caller holds them now

def mapArr (f : List (List α) → List (List α)) : Arr α → Arr α
  | .ok rows => .ok (f rows)
  | .error e => .error e

def step (s : Sess α) : Op α → Sess α
  | .call c => ⟨s.returned ++ [callResult c], s.held ++ [callResult c]⟩
  | .scale k c => ⟨s.returned, s.held.modify k (mapArr (List.map (List.map (· * c))))⟩
  | .fill k c => ⟨s.returned, s.held.modify k (mapArr (List.map (List.map (fun _ => c))))⟩
  | .reverse k => ⟨s.returned, s.held.modify k (mapArr List.reverse)⟩

def runFrom (s : Sess α) (ops : List (Op α)) : Sess α := ops.foldl step s

def run (ops : List (Op α)) : Sess α := runFrom ⟨[], []⟩ ops

/-- the calls of a history, in order -/
def callsOf (ops : List (Op α)) : List (Call α) :=
  ops.filterMap fun | .call c => some c | _ => none

/-- the cell a caller's operation works on (`none` for a call) -/
def Op.target : Op α → Option Nat
  | .call _ => none
  | .scale k _ => some k
  | .fill k _ => some k
  | .reverse k => some k

/-! ## the registry of user-defined generators of a `Database`, and how `generate_draws` resolves a type name -/

/-- some key of the table is a catalogue name ("reserved keyword") -/
def reservedIn (cat : List CatEntry) (keys : List String) : Bool :=
  keys.any fun k => cat.any fun e => e.name == k

/-- `Database.set_random_number_generators`: `ValueError` — and the registry stays as it is — when
    a key is a catalogue name; otherwise the table REPLACES the registry (it is not merged) -/
def setGenerators (cat : List CatEntry) (reg keys : List String) : Bool × List String :=
  if reservedIn cat keys then (false, reg) else (true, keys)

/-- the registry after a history of registrations -/
def registryAfter (cat : List CatEntry) (sets : List (List String)) : List String :=
  sets.foldl (fun reg keys => (setGenerators cat reg keys).2) []

inductive Resolved where
  | native (g : Gen)      -- the catalogue entry of that name
  | user (key : String)   -- the user-defined generator registered under that name
  | unknownType           -- BiogemeError: unknown type of draws
deriving Repr, DecidableEq

/-- `generate_draws`: `native_random_number_generators.get(draw_type)` first, then the registry -/
def resolve (cat : List CatEntry) (reg : List String) (name : String) : Resolved :=
  match cat.find? (fun e => e.name == name) with
  | some e => .native e.gen
  | none => if reg.contains name then .user name else .unknownType

end Draws
