/-
Signature serialisation (`Expression.get_signature` and its overrides) and the engine's
loader/evaluator (`bioFormula::processFormula`, cythonbiogeme), as an abstract machine.

* `lineOf t k n`  : the line of node `n` (id `k`) with the ids taken from the id table `t`
                    (`"name"[status],elementaryIndex,betaId`, `"name",elementaryIndex,variableId`,
                    children by id, literal payloads).
* `emit t d fuel k` : post-order list of lines of node `k`; the lines of a shared child are
                    re-emitted at every occurrence, exactly as `get_signature` does.
* `loadLine`      : the engine keeps a map id ↦ node; an id already present is returned
                    unchanged (first definition wins); children are looked up by id and must
                    already be present.
* `run`           : evaluation of the loaded node on the engine's inputs: the vector of free
                    parameter values, the vector of fixed parameter values and the data row.
Core Lean only.
-/
import Model.Expr
import Model.IdManager

namespace Engine
open Expr Num

structure SigLine (α : Type) where
  kind : Kind
  id : Nat
  children : List Nat
  name : String
  status : Nat          -- beta: 0 = free
  uid : Nat             -- elementary index
  slot : Nat            -- betaId / variableId
  value : α
  keys : List Int
  members : List α

/-- what the engine is given besides the formula -/
structure EngEnv (α : Type) where
  free : List α
  fixed : List α
  row : List α

variable {α : Type} [NumOps α]

/-- every parameter and variable of the DAG has its ids in the table (otherwise Python raises
"No id has been defined" before the engine is called) -/
def nodeNamesOK (t : IdM.Table String) (n : Node α) : Bool :=
  match n.kind with
  | .beta =>
    if n.fixed then (IdM.indexOf n.name t.fixed).isSome && (IdM.indexOf n.name t.free).isNone
    else (IdM.indexOf n.name t.free).isSome
  | .var => (IdM.indexOf n.name t.cols).isSome
  | _ => true

def namesOKB (t : IdM.Table String) (d : Dag α) : Bool := d.all (nodeNamesOK t)

/-- line of one node (ids from the table) -/
def lineOf (t : IdM.Table String) (k : Nat) (n : Node α) : SigLine α :=
  let base : SigLine α := { kind := n.kind, id := k, children := n.children, name := n.name,
                            status := 0, uid := (t.uid n.name).getD 0, slot := 0, value := n.value,
                            keys := n.keys, members := n.members }
  match n.kind with
  | .beta =>
    let lst := if n.fixed then t.fixed else t.free
    { base with status := if n.fixed then 1 else 0, slot := (IdM.indexOf n.name lst).getD 0 }
  | .var => { base with slot := (IdM.indexOf n.name t.cols).getD 0 }
  | _ => base

/-- post-order serialisation with re-emission of shared children -/
def emit (t : IdM.Table String) (d : Dag α) : Nat → Nat → List (SigLine α)
  | 0, _ => []
  | fuel + 1, k =>
    match d[k]? with
    | none => []
    | some n => (n.children.flatMap (emit t d fuel)) ++ [lineOf t k n]

/-- the node the engine builds from a line (everything except the elementary ids) -/
def toNode (l : SigLine α) : Node α :=
  { kind := l.kind, children := l.children, name := l.name, value := l.value, keys := l.keys,
    members := l.members, fixed := l.status != 0 }

def dummyEnv : Env α := { beta := fun _ => (0 : α), var := fun _ => (0 : α) }

/-- engine semantics of one loaded node: parameters and variables read the input vectors at
the ids written in the line; every other kind is `semEngine` -/
def lineSem (l : SigLine α) (ee : EngEnv α) (rs : List (Res α)) : Res α :=
  match l.kind with
  | .beta =>
    match (if l.status = 0 then ee.free else ee.fixed)[l.slot]? with
    | some v => pure v
    | none => .error .dangling
  | .var =>
    match ee.row[l.slot]? with
    | some v => pure v
    | none => .error .dangling
  | _ => semEngine (toNode l) dummyEnv rs

abbrev Loaded (α : Type) := EngEnv α → Res α
abbrev Store (α : Type) := List (Nat × Loaded α)

def Store.find (s : Store α) (k : Nat) : Option (Loaded α) :=
  match s with
  | [] => none
  | (j, f) :: t => if j = k then some f else Store.find t k

def allSome {β} : List (Option β) → Option (List β)
  | [] => some []
  | none :: _ => none
  | some x :: t => (allSome t).map (x :: ·)

/-- build the node of a line from already loaded children -/
def compile (s : Store α) (l : SigLine α) : Option (Loaded α) :=
  (allSome (l.children.map s.find)).map fun fs => fun ee => lineSem l ee (fs.map (· ee))

def loadLine (s : Store α) (l : SigLine α) : Store α :=
  match s.find l.id with
  | some _ => s
  | none =>
    match compile s l with
    | some f => (l.id, f) :: s
    | none => s

def load (s : Store α) (ls : List (SigLine α)) : Store α := ls.foldl loadLine s

/-- the whole path: serialise node `k`, load into an empty engine, evaluate -/
def run (t : IdM.Table String) (d : Dag α) (k : Nat) (ee : EngEnv α) : Res α :=
  if !namesOKB t d then .error .missing else
  match (load [] (emit t d (k + 1) k)).find k with
  | none => .error .dangling
  | some f => f ee

/-- the input vectors have the sizes of the id table -/
def Sized (t : IdM.Table String) (ee : EngEnv α) : Prop :=
  ee.free.length = t.free.length ∧ ee.fixed.length = t.fixed.length ∧ ee.row.length = t.cols.length

/-- the environment by name that the engine inputs denote through the id table -/
def envOf (t : IdM.Table String) (ee : EngEnv α) : Env α where
  beta := fun n =>
    match IdM.indexOf n t.free with
    | some i => ee.free.getD i (0 : α)
    | none =>
      match IdM.indexOf n t.fixed with
      | some i => ee.fixed.getD i (0 : α)
      | none => (0 : α)
  var := fun n =>
    match IdM.indexOf n t.cols with
    | some i => ee.row.getD i (0 : α)
    | none => (0 : α)

end Engine
