/-
Model of the estimation wrapper of biogeme (src/biogeme/biogeme.py: `estimate`,
`quick_estimate`, `_set_algorithm_parameters`, `optimize`; src/biogeme/optimization.py: the
`algorithms` table and the `*_for_biogeme` wrappers; src/biogeme/negative_likelihood.py).

The optimisers themselves (biogeme_optimization, scipy) are external: the optimiser is a
*parameter* `opt` of the model and only a recorded contract (`OptContract`) is assumed about
it.  Everything around it is modelled: the sign flip, the final evaluation and packaging,
the write-back of the estimates, the option plumbing per algorithm name.

Core Lean only; numbers over `NumOps` (Float in the driver, ℝ in the proofs).
-/
import Model.Num
open Num

namespace Estimate

variable {α : Type} [NumOps α]

abbrev Vec (α : Type) := List α
abbrev Mat (α : Type) := List (List α)
abbrev Bounds (α : Type) := List (Option α × Option α)

/-! ## the sign flip (`NegativeLikelihood`) -/

/-- what `calculate_likelihood_and_derivatives` returns at a point -/
structure Eval (α : Type) where
  f : α
  g : Vec α
  h : Mat α
  bhhh : Mat α

def vneg (v : Vec α) : Vec α := v.map fun x => -x
def mneg (m : Mat α) : Mat α := m.map vneg

/-- `_f`: minus the log likelihood -/
def negF (like : Vec α → α) (x : Vec α) : α := - like x
/-- `_f_g` -/
def negFG (ev : Vec α → Eval α) (x : Vec α) : α × Vec α := (- (ev x).f, vneg (ev x).g)
/-- `_f_g_h` -/
def negFGH (ev : Vec α → Eval α) (x : Vec α) : α × Vec α × Mat α :=
  (- (ev x).f, vneg (ev x).g, mneg (ev x).h)

/-! ## the box -/

def geLower (l : Option α) (x : α) : Bool :=
  match l with
  | none => true
  | some l => Num.le l x

def leUpper (u : Option α) (x : α) : Bool :=
  match u with
  | none => true
  | some u => Num.le x u

/-- `ℓ ≤ x ≤ u` coordinate-wise (missing bounds are infinite) -/
def inBox : Bounds α → Vec α → Bool
  | [], [] => true
  | (l, u) :: bs, x :: xs => geLower l x && leUpper u x && inBox bs xs
  | _, _ => false

/-! ## algorithm names and option plumbing -/

inductive Algo where
  | scipy | lsNewton | trNewton | lsBfgs | trBfgs
  | simpleBounds | simpleBoundsNewton | simpleBoundsBfgs
deriving DecidableEq, Repr

/-- the keys of `optimization.algorithms` -/
def Algo.name : Algo → String
  | .scipy => "scipy"
  | .lsNewton => "LS-newton"
  | .trNewton => "TR-newton"
  | .lsBfgs => "LS-BFGS"
  | .trBfgs => "TR-BFGS"
  | .simpleBounds => "simple_bounds"
  | .simpleBoundsNewton => "simple_bounds_newton"
  | .simpleBoundsBfgs => "simple_bounds_BFGS"

def Algo.all : List Algo :=
  [.scipy, .lsNewton, .trNewton, .lsBfgs, .trBfgs, .simpleBounds, .simpleBoundsNewton, .simpleBoundsBfgs]

/-- `opt.algorithms.get(name)` -/
def Algo.parse (s : String) : Option Algo := Algo.all.find? fun a => a.name == s

/-- `optimize`: 'automatic' runs `simple_bounds`; unknown names are refused (`none`) -/
def resolve (s : String) : Option Algo :=
  if s == "automatic" then some .simpleBounds else Algo.parse s

/-- the routine really uses the bounds it receives -/
def Algo.boundAware : Algo → Bool
  | .scipy | .simpleBounds | .simpleBoundsNewton | .simpleBoundsBfgs => true
  | _ => false

/-- values of the TOML parameters that reach the optimisation -/
structure Cfg (α : Type) where
  algorithm : String          -- [Estimation] optimization_algorithm
  secondDerivatives : α       -- [SimpleBounds] second_derivatives
  tolerance : α               -- [SimpleBounds] tolerance
  steptol : α                 -- [SimpleBounds] steptol
  maxIterations : Nat         -- [SimpleBounds] max_iterations
  infeasibleCg : Bool         -- [SimpleBounds] infeasible_cg
  initialRadius : α           -- [SimpleBounds] initial_radius
  enlargingFactor : α         -- [SimpleBounds] enlarging_factor
  dogleg : Bool               -- [TrustRegion] dogleg

inductive PVal (α : Type) where
  | num (x : α)
  | nat (n : Nat)
  | bool (b : Bool)
  | none
deriving Repr

abbrev Params (α : Type) := List (String × PVal α)

/-- `_set_function_parameters` -/
def functionParameters (c : Cfg α) : Params α :=
  [("tolerance", .num c.tolerance), ("steptol", .num c.steptol)]

/-- `_set_algorithm_parameters` (`complex` = `is_model_complex()`); `none` = `None` -/
def algoParameters (c : Cfg α) (complex : Bool) : Option (Params α) :=
  if c.algorithm == "automatic" then
    some [("proportionAnalyticalHessian", .nat (if complex then 0 else 1)),
          ("infeasibleConjugateGradient", .bool c.infeasibleCg),
          ("radius", .num c.initialRadius),
          ("enlargingFactor", .num c.enlargingFactor),
          ("maxiter", .nat c.maxIterations)]
  else if c.algorithm == "simple_bounds" then
    some [("proportionAnalyticalHessian", .num c.secondDerivatives),
          ("infeasibleConjugateGradient", .bool c.infeasibleCg),
          ("radius", .num c.initialRadius),
          ("enlargingFactor", .num c.enlargingFactor),
          ("maxiter", .nat c.maxIterations)]
  else if c.algorithm == "simple_bounds_newton" || c.algorithm == "simple_bounds_BFGS" then
    some [("infeasibleConjugateGradient", .bool c.infeasibleCg),
          ("radius", .num c.initialRadius),
          ("enlargingFactor", .num c.enlargingFactor),
          ("maxiter", .nat c.maxIterations)]
  else if c.algorithm == "TR-newton" || c.algorithm == "TR-BFGS" then
    some [("dogleg", .bool c.dogleg), ("radius", .num c.initialRadius), ("maxiter", .nat c.maxIterations)]
  else if c.algorithm == "LS-newton" || c.algorithm == "LS-BFGS" then
    some [("maxiter", .nat c.maxIterations)]
  else none

/-- `parameters[key]` if present, else the wrapper's default -/
def pget (p : Option (Params α)) (key : String) (dflt : PVal α) : PVal α :=
  match p with
  | none => dflt
  | some l => (l.lookup key).getD dflt

def setKey (l : Params α) (key : String) (v : PVal α) : Params α :=
  if (l.lookup key).isSome then l.map fun (k, w) => if k == key then (k, v) else (k, w)
  else l ++ [(key, v)]

/-- machine epsilon and the default conjugate-gradient tolerance `eps ** 0.3333` -/
def machEps : α := NumOps.ofScientific 2220446049250313 true 31
def cgTolDefault : α := Num.pow machEps (NumOps.ofScientific 3333 true 4)

/-- literal defaults of the wrappers -/
def eta1Default : α := 0.1
def eta2Default : α := 0.9
def radiusDefault : α := 1.0
def gtolDefault : α := 1.0e-7

/-- the external routine a wrapper calls and the keyword arguments it passes -/
structure Call (α : Type) where
  routine : String
  kwargs : Params α

def simpleBoundsCall (p : Option (Params α)) : Call α :=
  { routine := "simple_bounds_newton_algorithm",
    kwargs := [("proportion_analytical_hessian", pget p "proportionAnalyticalHessian" (.num radiusDefault)),
               ("first_radius", pget p "radius" (.num radiusDefault)),
               ("conjugate_gradient_tol", pget p "cgtolerance" (.num cgTolDefault)),
               ("maxiter", pget p "maxiter" (.nat 1000)),
               ("eta1", pget p "eta1" (.num eta1Default)),
               ("eta2", pget p "eta2" (.num eta2Default)),
               ("enlarging_factor", pget p "enlargingFactor" (.nat 2))] }

/-- the `*_for_biogeme` wrappers -/
def wrapperCall (a : Algo) (p : Option (Params α)) : Call α :=
  match a with
  | .scipy =>
    { routine := "scipy.optimize.minimize",
      kwargs := (match p with
        | none => [("ftol", .num machEps), ("gtol", .num gtolDefault)]
        | some l => l.foldl (fun acc (k, v) => setKey acc k v) [("ftol", .num machEps), ("gtol", .num gtolDefault)]) }
  | .lsNewton => { routine := "newton_line_search", kwargs := [("maxiter", pget p "maxiter" (.nat 100))] }
  | .trNewton =>
    { routine := "newton_trust_region",
      kwargs := [("use_dogleg", pget p "dogleg" (.bool false)), ("maxiter", pget p "maxiter" (.nat 100)),
                 ("initial_radius", pget p "radius" (.num radiusDefault))] }
  | .lsBfgs =>
    { routine := "bfgs_line_search",
      kwargs := [("init_bfgs", pget p "initBfgs" .none), ("maxiter", pget p "maxiter" (.nat 100))] }
  | .trBfgs =>
    { routine := "bfgs_trust_region",
      kwargs := [("init_bfgs", pget p "initBfgs" .none), ("use_dogleg", pget p "dogleg" (.bool false)),
                 ("maxiter", pget p "maxiter" (.nat 100)), ("initial_radius", pget p "radius" (.num radiusDefault))] }
  | .simpleBounds => simpleBoundsCall p
  | .simpleBoundsNewton =>
    simpleBoundsCall (some (setKey (p.getD []) "proportionAnalyticalHessian" (.nat 1)))
  | .simpleBoundsBfgs =>
    simpleBoundsCall (some (setKey (p.getD []) "proportionAnalyticalHessian" (.nat 0)))

/-- the whole path from the TOML values to the external call -/
def plumb (c : Cfg α) (complex : Bool) : Option (Algo × Call α) :=
  match resolve c.algorithm with
  | none => none
  | some a => some (a, wrapperCall a (algoParameters c complex))

/-! ## the estimation flow -/

structure OptOut (α : Type) where
  x : Vec α
  converged : Bool

/-- an optimiser: (f, f_g, f_g_h of the function to *minimise*) → bounds → start → result -/
abbrev Optimizer (α : Type) :=
  (Vec α → α) → (Vec α → α × Vec α) → (Vec α → α × Vec α × Mat α) → Bounds α → Vec α → OptOut α

structure Result (α : Type) where
  x : Vec α
  logLike : α
  initLogLike : Option α
  g : Option (Vec α)
  h : Option (Mat α)
  bhhh : Option (Mat α)
  converged : Bool

def isFinite (x : α) : Bool := Num.eq x x && Num.le (Num.abs x) (NumOps.ofScientific 17976931348623157 false 292)
def allFinite (m : Mat α) : Bool := m.all fun r => r.all isFinite

/-- the finite-difference fallback of `estimate` as written: the inner test looks at the
*analytical* Hessian again, so the finite-difference matrix is never selected -/
def finalHessian (h fd : Mat α) : Mat α :=
  if !allFinite h then
    (if !allFinite h then h else fd)
  else h

/-- `BIOGEME.estimate` (no saved iteration, no bootstrap): initial likelihood, optimise the
negative likelihood from the starting values, evaluate everything at the returned point -/
def estimate (like : Vec α → α) (ev : Vec α → Eval α) (fd : Vec α → Mat α) (opt : Optimizer α)
    (bounds : Bounds α) (x0 : Vec α) : Result α :=
  let init := like x0
  let out := opt (negF like) (negFG ev) (negFGH ev) bounds x0
  let e := ev out.x
  { x := out.x, logLike := e.f, initLogLike := some init, g := some e.g,
    h := some (finalHessian e.h (fd out.x)), bhhh := some e.bhhh, converged := out.converged }

/-- `BIOGEME.quick_estimate`: only the likelihood is evaluated at the returned point; the
initial likelihood is whatever was stored before -/
def quickEstimate (like : Vec α → α) (ev : Vec α → Eval α) (opt : Optimizer α)
    (bounds : Bounds α) (x0 : Vec α) (prevInit : Option α) : Result α :=
  let out := opt (negF like) (negFG ev) (negFGH ev) bounds x0
  { x := out.x, logLike := like out.x, initLogLike := prevInit, g := none, h := none, bhhh := none,
    converged := out.converged }

/-! ## write-back of the estimates -/

structure Param (α : Type) where
  name : String
  value : α
  fixed : Bool

/-- `f.change_init_values(estimated_betas)`: a Beta whose name is a key takes the value (its
status is irrelevant) — the assignment is guarded by `value != self.initValue`, so a Beta that
already holds a value the comparison calls equal keeps the object it has (on doubles: +0.0 is
kept when the new value is −0.0 and conversely; NaN is never equal and is assigned) —, the
others are untouched -/
def updateParam (est : List (String × α)) (p : Param α) : Param α :=
  match est.lookup p.name with
  | some v => if Num.eq v p.value then p else { p with value := v }
  | none => p

def writeBack (ps : List (Param α)) (est : List (String × α)) : List (Param α) :=
  ps.map (updateParam est)

/-- `r.get_beta_values()`: estimates by name -/
def estimates (names : List String) (x : Vec α) : List (String × α) := names.zip x

/-! ## relations evaluated on real runs -/

def vget (v : Vec α) (i : Nat) : α := v.getD i 0

/-- `Bounds.project` -/
def project : Bounds α → Vec α → Vec α
  | (l, u) :: bs, x :: xs =>
    (let y := match l with
      | some l => if Num.lt x l then l else x
      | none => x
     match u with
      | some u => if Num.lt u y then u else y
      | none => y) :: project bs xs
  | _, xs => xs

def vsub (a b : Vec α) : Vec α := (a.zip b).map fun (p : α × α) => p.1 - p.2

def vmaxAbs (v : Vec α) : α := v.foldl (fun a x => Num.max a (Num.abs x)) 0

/-- the stopping measure of biogeme_optimization for the minimisation of −L at `x`:
max_i |pg_i| · max(|x_i|, 1) / max(|f|, typf), pg = project(x − ∇f) − x with ∇f = −g -/
def relProjGrad (bounds : Option (Bounds α)) (x g : Vec α) (f typf : α) : α :=
  let gf := vneg g
  let step := vsub x gf
  let pg : Vec α := match bounds with
    | some b => vsub (project b step) x
    | none => gf
  let denom := Num.max (Num.abs f) typf
  vmaxAbs ((pg.zip x).map fun (p : α × α) => p.1 * Num.max (Num.abs p.2) 1 / denom)

/-- sup-norm of the projected gradient (scipy's criterion) -/
def projGradNorm (bounds : Bounds α) (x g : Vec α) : α :=
  let gf := vneg g
  vmaxAbs (vsub (project bounds (vsub x gf)) x)

/-- approximate KKT for the maximisation of L on the box: a coordinate that can move up has
g ≤ tol, one that can move down has g ≥ −tol (`slack` = distance under which a bound counts
as active) -/
def kktUp (tol slack : α) (u : Option α) (x g : α) : Bool :=
  match u with
  | some u => if Num.lt (x + slack) u then Num.le g tol else true
  | none => Num.le g tol

def kktDown (tol slack : α) (l : Option α) (x g : α) : Bool :=
  match l with
  | some l => if Num.lt l (x - slack) then Num.le (-tol) g else true
  | none => Num.le (-tol) g

def kktB (tol slack : α) : Bounds α → Vec α → Vec α → Bool
  | (l, u) :: bs, x :: xs, g :: gs =>
    kktUp tol slack u x g && kktDown tol slack l x g && kktB tol slack bs xs gs
  | [], [], [] => true
  | _, _, _ => false

def dotv (a b : Vec α) : α := Num.sum ((a.zip b).map fun (p : α × α) => p.1 * p.2)

/-- first-order bound of a concave function: L(y) − L(x) − g(x)·(y − x), must be ≤ 0 -/
def firstOrderExcess (lx : α) (x g : Vec α) (ly : α) (y : Vec α) : α :=
  ly - lx - dotv g (vsub y x)

/-- the part of g(x)·(y − x) that the sign conditions do not remove: an a-posteriori bound
on L(y) − L(x) for any y in the box -/
def gapBound (x g y : Vec α) : α :=
  Num.sum (((g.zip (vsub y x)).map fun (p : α × α) => p.1 * p.2).map fun t => Num.max t 0)

/-- the recorded contract of the optimiser on one run -/
def contractB (boundAware : Bool) (bounds : Bounds α) (fx0 fxs : α) (xs : Vec α) (n : Nat) : Bool :=
  xs.length == n && (!boundAware || inBox bounds xs) && Num.le fxs fx0

/-! ## bootstrap and sequences of operations on one `BIOGEME` object -/

/-- the likelihood of one data set: its value and its value with derivatives -/
structure Objective (α : Type) where
  like : Vec α → α
  ev : Vec α → Eval α

/-- a results object: what `estimate` / `quick_estimate` report, and the bootstrap estimates
(`results.data.bootstrap`, `None` when there are none) -/
structure Report (α : Type) where
  res : Result α
  bootstrap : Option (List (Vec α))

/-- `BIOGEME.estimate(run_bootstrap=…)`: the final evaluation at x* is made on the data of the
database *before* the re-estimations; with bootstrapping (`boot = some samples`) the model is
re-estimated from x* on every resampled data set (the engine is handed the sample, the optimiser
the same bounds), and the data of the database are restored afterwards.  The values packaged
into the results are the ones of the final evaluation. -/
def estimateBoot (like : Vec α → α) (ev : Vec α → Eval α) (fd : Vec α → Mat α) (opt : Optimizer α)
    (bounds : Bounds α) (x0 : Vec α) (boot : Option (List (Objective α))) : Report α :=
  let r := estimate like ev fd opt bounds x0
  { res := r,
    bootstrap := boot.map fun ss => ss.map fun s => (opt (negF s.like) (negFG s.ev) (negFGH s.ev) bounds r.x).x }

/-- what does not change during the life of one `BIOGEME` object -/
structure Env (α : Type) where
  names : List String          -- id_manager.free_betas.names
  obj : Objective α            -- likelihood of the data of the database
  fd : Vec α → Mat α           -- likelihood_finite_difference_hessian
  opt : Optimizer α
  bounds : Bounds α            -- id_manager.bounds

/-- what one `BIOGEME` object remembers between two calls -/
structure Session (α : Type) where
  params : List (Param α)                 -- the Beta objects of the formulas (initValue, status)
  idValues : Vec α                        -- id_manager.free_betas_values: where `estimate` starts
  initLogLike : Option α                  -- self.initLogLike
  bootstrap : Option (List (Vec α))       -- self.bootstrap_results

/-- public operations on the object -/
inductive Op (α : Type) where
  /-- `calculate_likelihood`, `calculate_likelihood_and_derivatives` (any flags, scaled or not),
  `check_derivatives`, `likelihood_finite_difference_hessian` at an explicit point -/
  | eval (x : Vec α)
  /-- `calculate_init_likelihood()` -/
  | initLikelihood
  /-- `estimate(run_bootstrap = boot.isSome)` -/
  | estimate (boot : Option (List (Objective α)))
  /-- `quick_estimate()` -/
  | quickEstimate
  /-- `change_init_values(vals)` -/
  | changeInit (vals : List (String × α))

/-- `BIOGEME.change_init_values` on `id_manager.free_betas_values`: the i-th value is replaced
when the i-th free name is a key -/
def setIdValues (names : List String) (vals : List (String × α)) (xs : Vec α) : Vec α :=
  List.zipWith (fun n x => (vals.lookup n).getD x) names xs

/-- one operation: new state of the object and the results object it returns, if any.
Evaluations at an explicit point leave no trace.  `estimate` starts from
`id_manager.free_betas_values`, writes the estimates into the Beta objects of the formulas
(not into `id_manager.free_betas_values`: a second `estimate` starts from the same values again),
stores the initial likelihood and the bootstrap estimates (`None` without bootstrapping).
`quick_estimate` changes nothing and reports the stored initial likelihood and bootstrap. -/
def step (e : Env α) (s : Session α) : Op α → Session α × Option (Report α)
  | .eval _ => (s, none)
  | .initLikelihood => ({ s with initLogLike := some (e.obj.like s.idValues) }, none)
  | .estimate boot =>
    let r := estimateBoot e.obj.like e.obj.ev e.fd e.opt e.bounds s.idValues boot
    ({ params := writeBack s.params (estimates e.names r.res.x), idValues := s.idValues,
       initLogLike := r.res.initLogLike, bootstrap := r.bootstrap }, some r)
  | .quickEstimate =>
    (s, some { res := quickEstimate e.obj.like e.obj.ev e.opt e.bounds s.idValues s.initLogLike,
               bootstrap := s.bootstrap })
  | .changeInit vals =>
    ({ s with params := writeBack s.params vals, idValues := setIdValues e.names vals s.idValues }, none)

/-- a sequence of operations: final state and the results objects in the order they were returned -/
def run (e : Env α) : Session α → List (Op α) → Session α × List (Report α)
  | s, [] => (s, [])
  | s, op :: ops =>
    let r1 := step e s op
    let r2 := run e r1.1 ops
    (r2.1, match r1.2 with
      | some r => r :: r2.2
      | none => r2.2)

/-- a results object that comes from `estimate` (it carries derivatives) -/
def Report.full (r : Report α) : Bool := r.res.g.isSome

end Estimate
