/-
Round 3 extension of the estimation model (Model/Estimate.lean): the parts of
src/biogeme/biogeme.py and src/biogeme/negative_likelihood.py around `estimate` that the base
model leaves out.

* `NegativeLikelihood._f/_f_g/_f_g_h` call by call: which entry point of `BIOGEME` is called, with
  which flags (`scaled=False`, `hessian` only for `_f_g_h`, `bhhh=False`, `batch=None`), and what is
  handed back to the optimiser (`FunctionData` with the negated values, `hessian=None` for `_f_g`).
* the saved iterations: the tail of `calculate_likelihood_and_derivatives` (`bestIteration`, rewrite of
  `__<model>.iter`), `_load_saved_iteration` at the start of `estimate`, `bestIteration = None`, and the
  life of the file through a sequence of public operations (an explicit evaluation with derivatives
  *does* leave a trace when `save_iterations` is on; `quick_estimate` neither loads the file nor resets
  `bestIteration`).
* `calculate_null_loglikelihood` and how `initLogLike` / `nullLogLike` reach a results object
  (`RawResults` reads what the object holds when the results are packaged).
* `estimate_catalog`: one fresh object per configuration, `estimate` or `quick_estimate` on each, results
  keyed by the configuration identifier.

The optimiser is still a parameter; here it also reports the points at which it asked for derivatives
(`evals`), because those calls rewrite the iterations file.  Core Lean only.
-/
import Model.Estimate
open Num

namespace Estimate

variable {α : Type} [NumOps α]

/-! ## `NegativeLikelihood`, call by call -/

inductive NegKind where
  | f | fg | fgh
deriving DecidableEq, Repr

/-- the call a method of `NegativeLikelihood` makes on the `BIOGEME` object -/
structure LikeCall where
  derivatives : Bool      -- `like_derivatives` (true) or `like` (false)
  scaled : Bool
  hessian : Bool
  bhhh : Bool
  batchNone : Bool
deriving DecidableEq, Repr

def negFlags : NegKind → LikeCall
  | .f => { derivatives := false, scaled := false, hessian := false, bhhh := false, batchNone := true }
  | .fg => { derivatives := true, scaled := false, hessian := false, bhhh := false, batchNone := true }
  | .fgh => { derivatives := true, scaled := false, hessian := true, bhhh := false, batchNone := true }

/-- what goes back to the optimiser: `float` for `_f`, `FunctionData(function, gradient, hessian)` -/
structure NegOut (α : Type) where
  f : α
  g : Option (Vec α)
  h : Option (Mat α)

def negCall (like : Vec α → α) (ev : Vec α → Eval α) : NegKind → Vec α → NegOut α
  | .f, x => { f := negF like x, g := none, h := none }
  | .fg, x => { f := (negFG ev x).1, g := some (negFG ev x).2, h := none }
  | .fgh, x => { f := (negFGH ev x).1, g := some (negFGH ev x).2.1, h := some (negFGH ev x).2.2 }

/-! ## saved iterations -/

/-- `self.bestIteration` and the parsed content of `__<modelName>.iter` (`none`: no readable file) -/
structure IterSt (α : Type) where
  best : Option α
  file : Option (List (String × α))

/-- `np.isfinite(np.linalg.norm(g))` -/
def gradNormFinite (g : Vec α) : Bool := isFinite (Num.sqrt (Num.sum (g.map fun v => v * v)))

/-- the tail of `calculate_likelihood_and_derivatives` with `save_iterations` on, for an evaluation
whose value is `f` and gradient `g` at `x`:
`if bestIteration is None: bestIteration = f`; `if f >= bestIteration:` store and rewrite the file -/
def saveEval (names : List String) (it : IterSt α) (x : Vec α) (f : α) (g : Vec α) : IterSt α :=
  if !gradNormFinite g then it
  else
    let b := it.best.getD f
    if Num.le b f then { best := some f, file := some (names.zip x) }
    else { it with best := some b }

/-- the evaluations of one objective at a list of points, in order -/
def saveEvals (names : List String) (ev : Vec α → Eval α) (it : IterSt α) (pts : List (Vec α)) : IterSt α :=
  pts.foldl (fun it x => saveEval names it x (ev x).f (ev x).g) it

/-! ## the optimiser with its trace -/

structure OptOutT (α : Type) where
  x : Vec α
  converged : Bool
  /-- the points at which `_f_g` / `_f_g_h` were called, in order (`_f` does not write the file) -/
  evals : List (Vec α)

abbrev OptimizerT (α : Type) :=
  (Vec α → α) → (Vec α → α × Vec α) → (Vec α → α × Vec α × Mat α) → Bounds α → Vec α → OptOutT α

def OptimizerT.toOpt (o : OptimizerT α) : Optimizer α :=
  fun f fg fgh b x0 => { x := (o f fg fgh b x0).x, converged := (o f fg fgh b x0).converged }

/-! ## null log likelihood -/

/-- `calculate_null_loglikelihood(avail)`: the sum over the rows of `-log(Σ_i avail_i)` -/
def nullLogLike (rows : List (List α)) : α := Num.sum (rows.map fun r => -(Num.log (Num.sum r)))

/-! ## the object with `save_iterations`, the file and the null log likelihood -/

structure EnvT (α : Type) where
  names : List String
  obj : Objective α
  fd : Vec α → Mat α
  opt : OptimizerT α
  bounds : Bounds α

def EnvT.toEnv (e : EnvT α) : Env α :=
  { names := e.names, obj := e.obj, fd := e.fd, opt := e.opt.toOpt, bounds := e.bounds }

structure FState (α : Type) where
  s : Session α
  it : IterSt α
  nullLL : Option α        -- self.nullLogLike
  save : Bool              -- self.save_iterations

/-- a results object together with the null log likelihood it reports -/
structure FReport (α : Type) where
  rep : Report α
  nullLL : Option α

inductive FOp (α : Type) where
  /-- `calculate_likelihood(x)`: no derivatives, never writes the file -/
  | like (x : Vec α)
  /-- `calculate_likelihood_and_derivatives(x, …)` with any flags -/
  | evalD (x : Vec α)
  | initLikelihood
  | estimate (boot : Option (List (Objective α)))
  | quickEstimate
  | changeInit (vals : List (String × α))
  /-- `biogeme.save_iterations = b` -/
  | setSave (b : Bool)
  /-- `calculate_null_loglikelihood(avail)`; the rows are the values of the availabilities -/
  | nullLL (rows : List (List α))
  /-- the user removes `__<modelName>.iter` -/
  | removeFile

/-- `_load_saved_iteration`: `change_init_values` with the content of the file, nothing without a file -/
def loadSaved (names : List String) (s : Session α) : Option (List (String × α)) → Session α
  | some vals => { s with params := writeBack s.params vals, idValues := setIdValues names vals s.idValues }
  | none => s

def fstep (e : EnvT α) (st : FState α) : FOp α → FState α × Option (FReport α)
  | .like _ => (st, none)
  | .evalD x =>
    (if st.save then { st with it := saveEval e.names st.it x (e.obj.ev x).f (e.obj.ev x).g } else st, none)
  | .initLikelihood => ({ st with s := (step e.toEnv st.s .initLikelihood).1 }, none)
  | .changeInit vals => ({ st with s := (step e.toEnv st.s (.changeInit vals)).1 }, none)
  | .setSave b => ({ st with save := b }, none)
  | .nullLL rows => ({ st with nullLL := some (nullLogLike rows) }, none)
  | .removeFile => ({ st with it := { st.it with file := none } }, none)
  | .estimate boot =>
    -- `_load_saved_iteration` only when `save_iterations` is on; `bestIteration = None` always
    let s1 := if st.save then loadSaved e.names st.s st.it.file else st.s
    let out := e.opt (negF e.obj.like) (negFG e.obj.ev) (negFGH e.obj.ev) e.bounds s1.idValues
    let r := step e.toEnv s1 (.estimate boot)
    let it0 : IterSt α := { best := none, file := st.it.file }
    -- the optimiser's evaluations, then the final evaluation at x*; saving is suspended during the
    -- bootstrap re-estimations (`self.save_iterations = False` around the loop, /repo feecadb): the
    -- values of a resample's likelihood never meet `bestIteration`
    let it1 := if st.save then saveEvals e.names e.obj.ev it0 (out.evals ++ [out.x]) else it0
    ({ st with s := r.1, it := it1 }, r.2.map fun rep => { rep := rep, nullLL := st.nullLL })
  | .quickEstimate =>
    -- no load, no reset of `bestIteration`, no final evaluation with derivatives
    let out := e.opt (negF e.obj.like) (negFG e.obj.ev) (negFGH e.obj.ev) e.bounds st.s.idValues
    let r := step e.toEnv st.s .quickEstimate
    ({ st with s := r.1, it := if st.save then saveEvals e.names e.obj.ev st.it out.evals else st.it },
     r.2.map fun rep => { rep := rep, nullLL := st.nullLL })

def frun (e : EnvT α) : FState α → List (FOp α) → FState α × List (FReport α)
  | st, [] => (st, [])
  | st, op :: ops =>
    let r1 := fstep e st op
    let r2 := frun e r1.1 ops
    (r2.1, match r1.2 with
      | some r => r :: r2.2
      | none => r2.2)

/-! ## `estimate_catalog` -/

/-- one configuration of the catalog: its identifier, and the fresh object `from_configuration` builds
for it (its own free parameters, likelihood, bounds and starting values) -/
structure Config (α : Type) where
  id : String
  env : Env α
  s0 : Session α

/-- `estimate_catalog(quick_estimate=…, run_bootstrap=…)` without recycling: for each configuration in
the order of the iterator, `quick_estimate()` or `estimate(run_bootstrap)` on its own fresh object -/
def estimateCatalog (quick : Bool) (boot : Config α → Option (List (Objective α))) (cfgs : List (Config α)) :
    List (String × Report α) :=
  cfgs.filterMap fun c =>
    (step c.env c.s0 (if quick then Op.quickEstimate else Op.estimate (boot c))).2.map fun r => (c.id, r)

end Estimate
