/-
The expression language of `biogeme.expressions` as a DAG of kind-independent nodes, and its
three semantics:

* `semMath`   — the ordinary mathematical value (what property C01 calls "the value");
* `semEngine` — what the C++ engine computes per node (Appendix A of DESIGN.md);
* `semPy`     — the `get_value` methods of the pure-Python evaluator.

A formula is a `Dag α := List (Node α)`: node id = position, children are smaller ids.
Sharing a sub-formula = two parents naming the same id.  `evalN sem d env fuel k` evaluates
node `k`.  A node semantics receives the *results* of the children and decides which of them
it inspects (lazy reading: an error in a child that is not inspected does not propagate).
Core Lean only; numbers through `NumOps`.
-/
import Model.Num

namespace Expr
open Num

inductive Kind
  | num | beta | var
  | plus | minus | times | divide | power | bmin | bmax | and | or
  | eq | ne | le | ge | lt | gt
  | neg | exp | log | logzero | sin | cos | normalCdf
  | powConst | belongsTo | elem | multSum | condSum | linUtil | logLogit
deriving DecidableEq, Repr, Inhabited

inductive Err
  | fuel | dangling | arity | keyMissing | choiceMissing | unsupported | domain | missing
deriving DecidableEq, Repr, Inhabited

structure Node (α : Type) where
  kind : Kind
  children : List Nat := []
  name : String := ""          -- beta / variable name
  value : α                    -- literal value (num), exponent (powConst), init value (beta)
  keys : List Int := []        -- elem keys / logit alternative ids (in child order)
  members : List α := []       -- belongsTo set
  fixed : Bool := false        -- beta status

abbrev Dag (α : Type) := List (Node α)

structure Env (α : Type) where
  beta : String → α
  var : String → α

abbrev Res (α : Type) := Except Err α

/-- a semantics: value of a node from the node, the environment and the children's results -/
abbrev Sem (α : Type) := Node α → Env α → List (Res α) → Res α

variable {α : Type} [NumOps α]

def isZero (x : α) : Bool := Num.eq x (0 : α)

def nth (rs : List (Res α)) (i : Nat) : Res α := rs.getD i (.error .arity)

def bin (rs : List (Res α)) (f : α → α → α) : Res α := do
  let a ← nth rs 0
  let b ← nth rs 1
  if rs.length = 2 then pure (f a b) else .error .arity

def un (rs : List (Res α)) (f : α → α) : Res α := do
  let a ← nth rs 0
  if rs.length = 1 then pure (f a) else .error .arity

/-- integer key selected by a real value: the integer `k` with `k ≤ x < k+1` for `x ≥ 0`,
`k-1 < x ≤ k` for `x < 0` (truncation towards zero, as C and Python `int`) -/
def keyMatches (x : α) (k : Int) : Bool :=
  if Num.le (0 : α) x then Num.le (Num.int k) x && Num.lt x (Num.int (k + 1))
  else Num.lt (Num.int (k - 1)) x && Num.le x (Num.int k)

def findKey (x : α) : List Int → Nat → Option Nat
  | [], _ => none
  | k :: t, i => if keyMatches x k then some i else findKey x t (i + 1)

def sumRes : List (Res α) → Res α
  | [] => pure (0 : α)
  | r :: t => do
    let a ← r
    let s ← sumRes t
    pure (a + s)

/-- terms `[c₁,t₁,c₂,t₂,…]`: sum of the `tᵢ` whose condition is non-zero; `tᵢ` is read only then -/
def condSumRes : List (Res α) → Res α
  | c :: t :: rest => do
    let cv ← c
    let s ← condSumRes rest
    if isZero cv then pure s else do
      let tv ← t
      pure (tv + s)
  | [] => pure (0 : α)
  | [_] => .error .arity

/-- `bs ++ vs` (children of `bioLinearUtility`: all parameters, then all variables) → Σ bᵢ·vᵢ -/
def linUtilZip : List (Res α) → List (Res α) → Res α
  | b :: bs, v :: vs => do
    let bv ← b
    let vv ← v
    let s ← linUtilZip bs vs
    pure (bv * vv + s)
  | [], [] => pure (0 : α)
  | _, _ => .error .arity

def linUtilRes (rs : List (Res α)) : Res α :=
  let h := rs.length / 2
  if rs.length = 2 * h then linUtilZip (rs.take h) (rs.drop h) else .error .arity

/-- utilities `us` and availabilities `avs` (same order) → Σ over available j of
exp(uⱼ − shift); utilities of unavailable alternatives are not read -/
def logitDenom (shift : α) : List (Res α) → List (Res α) → Res α
  | u :: us, av :: avs => do
    let a ← av
    let s ← logitDenom shift us avs
    if isZero a then pure s else do
      let uv ← u
      pure (Num.exp (uv - shift) + s)
  | [], [] => pure (0 : α)
  | _, _ => .error .arity

def boolNum (b : Bool) : α := if b then (1 : α) else (0 : α)

/-- `Elem`: children = key, then the branches in the order of `keys`; only the selected branch is read -/
def elemRes (keys : List Int) (rs : List (Res α)) : Res α :=
  match nth rs 0 with
  | .error e => .error e
  | .ok key =>
    if rs.length ≠ keys.length + 1 then .error .arity else
    match findKey key keys 0 with
    | none => .error .keyMissing
    | some i => nth rs (i + 1)

/-- `LogLogit`: children = choice, then the utilities, then the availabilities (same alternative
order as `keys`); value V_c − log Σ_{available} exp(V_j − V_c) written as −log Σ exp(V_j − V_c) -/
def logLogitRes (keys : List Int) (rs : List (Res α)) : Res α :=
  match nth rs 0 with
  | .error e => .error e
  | .ok choice =>
    if rs.length ≠ 2 * keys.length + 1 then .error .arity else
    match findKey choice keys 0 with
    | none => .error .choiceMissing
    | some i =>
      match nth rs (1 + keys.length + i) with
      | .error e => .error e
      | .ok avc =>
        if isZero avc then .error .domain else
        match nth rs (1 + i) with
        | .error e => .error e
        | .ok vc =>
          match logitDenom vc ((rs.drop 1).take keys.length) (rs.drop (1 + keys.length)) with
          | .error e => .error e
          | .ok den => .ok (-(Num.log den))

/-- shared part of the three semantics; `divide`, `power`, `powConst`, `log`, `condSum`,
`var`, `normalCdf`, `belongsTo`, `linUtil` are supplied by the caller where they differ -/
def semCommon (n : Node α) (env : Env α) (rs : List (Res α)) : Res α :=
  match n.kind with
  | .num => pure n.value
  | .beta => pure (env.beta n.name)
  | .var => pure (env.var n.name)
  | .plus => bin rs (· + ·)
  | .minus => bin rs (· - ·)
  | .times => bin rs (· * ·)
  | .divide => bin rs (· / ·)
  | .power => bin rs Num.pow
  | .bmin => bin rs Num.min
  | .bmax => bin rs Num.max
  | .and => bin rs fun a b => boolNum (!isZero a && !isZero b)
  | .or => bin rs fun a b => boolNum (!isZero a || !isZero b)
  | .eq => bin rs fun a b => boolNum (Num.eq a b)
  | .ne => bin rs fun a b => boolNum (!Num.eq a b)
  | .le => bin rs fun a b => boolNum (Num.le a b)
  | .ge => bin rs fun a b => boolNum (Num.le b a)
  | .lt => bin rs fun a b => boolNum (Num.lt a b)
  | .gt => bin rs fun a b => boolNum (Num.lt b a)
  | .neg => un rs fun a => -a
  | .exp => un rs Num.exp
  | .log => un rs Num.log
  | .logzero => un rs fun a => if isZero a then (0 : α) else Num.log a
  | .sin => un rs Num.sin
  | .cos => un rs Num.cos
  | .normalCdf => un rs Num.normalCdf
  | .powConst => un rs fun a => Num.pow a n.value
  | .belongsTo => un rs fun a => boolNum (n.members.any (Num.eq a))
  | .elem => elemRes n.keys rs
  | .multSum => sumRes rs
  | .condSum => condSumRes rs
  | .linUtil => linUtilRes rs
  | .logLogit => logLogitRes n.keys rs

/-- **the mathematical value** -/
def semMath : Sem α := semCommon

/-- the pure-Python evaluator: parameters take their initial value; data variables, the
normal cdf, set membership and linear utilities are not implemented there;
`PowerConstant` returns 0 at 0 -/
def semPy : Sem α := fun n env rs =>
  match n.kind with
  | .var | .normalCdf | .belongsTo | .linUtil => .error .unsupported
  | .beta => pure n.value
  | .powConst => un rs fun a => if isZero a then (0 : α) else Num.pow a n.value
  | .and => do            -- `And.get_value` returns 0 before reading the right operand
    let a ← nth rs 0
    if rs.length ≠ 2 then .error .arity else
    if isZero a then pure (0 : α) else do
      let b ← nth rs 1
      pure (boolNum (!isZero b))
  | .or => do
    let a ← nth rs 0
    if rs.length ≠ 2 then .error .arity else
    if !isZero a then pure (1 : α) else do
      let b ← nth rs 1
      pure (boolNum (!isZero b))
  | _ => semCommon n env rs

/-- the engine: `Divide` returns 0 for a zero numerator, `Times` returns 0 when either factor is 0
(`bioExprTimes`: both factors are evaluated — an error of either propagates — then `f = 0.0` in
the branches `l = 0` and `l ≠ 0, r = 0`, so 0·∞ = ∞·0 = 0·NaN = 0 where IEEE gives NaN),
`PowerConstant` returns 1 for a zero exponent; all coincide with the mathematical value in the
regular domain -/
def semEngine : Sem α := fun n env rs =>
  match n.kind with
  | .divide => bin rs fun a b => if isZero a then (0 : α) else a / b
  | .times => bin rs fun a b => if isZero a || isZero b then (0 : α) else a * b
  | .powConst => un rs fun a => if isZero n.value then (1 : α) else Num.pow a n.value
  | _ => semCommon n env rs

/-- the engine semantics with the missing-data test of `bioExprVariable`: reading a variable whose
value equals the code is an error -/
def semMissing (code : α) : Sem α := fun n env rs =>
  match n.kind with
  | .var => if Num.eq (env.var n.name) code then .error .missing else pure (env.var n.name)
  | _ => semEngine n env rs

/-- evaluation of node `k` with the given per-node semantics -/
def evalN (sem : Sem α) (d : Dag α) (env : Env α) : Nat → Nat → Res α
  | 0, _ => .error .fuel
  | fuel + 1, k =>
    match d[k]? with
    | none => .error .dangling
    | some n => sem n env (n.children.map (evalN sem d env fuel))

/-- value of the root `k` (fuel `k+1` suffices for a well-formed DAG) -/
def eval (sem : Sem α) (d : Dag α) (env : Env α) (k : Nat) : Res α := evalN sem d env (k + 1) k

/-- children refer to earlier nodes -/
def WF (d : Dag α) : Prop := ∀ (k : Nat) (n : Node α), d[k]? = some n → ∀ c ∈ n.children, c < k

def wfB (d : Dag α) : Bool :=
  (List.range d.length).all fun k =>
    match d[k]? with
    | none => true
    | some n => n.children.all (· < k)

end Expr
