/-
Round 3 — edits of a formula object that change what the evaluators are given:
`Expression.change_init_values` (`Beta.change_init_values`: the starting value of every named
parameter, free or fixed, is replaced) and `Expression.fix_betas` (`Beta.fix_betas`: a named
parameter takes the given value, becomes fixed and is renamed `prefix ++ name ++ suffix`).
Both walk the formula and act on the `Beta` leaves only.  Core Lean only.
-/
import Model.Expr
import Model.Engine

namespace ExprEdit
open Expr Engine

variable {α : Type}

/-- `Beta.change_init_values` on one node -/
def changeInitNode (f : String → Option α) (n : Node α) : Node α :=
  if n.kind = .beta then
    match f n.name with
    | some v => { n with value := v }
    | none => n
  else n

def changeInit (f : String → Option α) (d : Dag α) : Dag α := d.map (changeInitNode f)

/-- `Beta.fix_betas` on one node -/
def fixNode (f : String → Option α) (pre suf : String) (n : Node α) : Node α :=
  if n.kind = .beta then
    match f n.name with
    | some v => { n with value := v, fixed := true, name := pre ++ n.name ++ suf }
    | none => n
  else n

def fixBetas (f : String → Option α) (pre suf : String) (d : Dag α) : Dag α := d.map (fixNode f pre suf)

/-- the parameter declarations written in a formula (name, status, starting value) -/
def decls (d : Dag α) : List (IdM.Decl String α) :=
  (d.filter (·.kind == .beta)).map fun n => { name := n.name, fixed := n.fixed, init := n.value }

/-- what `change_init_values` does to one declaration -/
def changeInitDecl (f : String → Option α) (dc : IdM.Decl String α) : IdM.Decl String α :=
  match f dc.name with
  | some v => { dc with init := v }
  | none => dc

/-- what `fix_betas` does to one declaration -/
def fixDecl (f : String → Option α) (pre suf : String) (dc : IdM.Decl String α) : IdM.Decl String α :=
  match f dc.name with
  | some v => { dc with init := v, fixed := true, name := pre ++ dc.name ++ suf }
  | none => dc

end ExprEdit
