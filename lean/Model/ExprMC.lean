/-
Round 3 — the expression language extended by the three operators that evaluate their argument
*several times in different contexts*: `bioDraws` (leaf read from the table of draws at the
current draw), `MonteCarlo` (average of the argument over the draws of the current individual) and
`PanelLikelihoodTrajectory` (product of the argument over the rows of the current individual,
computed as exp Σ log as `bioExprPanelTrajectory::getValueAndDerivatives` does).

The shared model (`Model/Expr.lean`, `Model/Engine.lean`, `Model/Sig.lean`) is used unchanged: an
extended node is a node of the shared language with a tag; a `base` node has the semantics of the
shared language (any of `semMath`, `semEngine`, `semPy`) in the environment of the *current* row.
The engine side mirrors cythonbiogeme: `bioExprDraws::getLiteralValue` reads
`draws[individual][*drawIndex][drawId]` and fails when no `MonteCarlo` above it has set the draw
index; `bioExprMontecarlo` runs `for (drawIndex = 0 …) f += child` and divides by the number of
draws (no draws: exception); `bioExprPanelTrajectory` runs over the rows of the individual.
The reader of the engine treats a `bioDraws` line exactly as a `Variable` line (name, items[1],
items[2]) and `MonteCarlo` / `PanelLikelihoodTrajectory` exactly as `UnaryMinus` (items[1]):
`parseLineX` re-tags the class and calls the shared reader.
Core Lean only.
-/
import Model.Sig

namespace ExprMC
open Expr Engine Num

inductive XKind | base | draws | monteCarlo | panelTraj
deriving DecidableEq, Repr, Inhabited

/-- a node of the extended language: for `base` the node of the shared language; for the three new
kinds only `node.children` / `node.name` are used -/
structure XNode (α : Type) where
  x : XKind := .base
  node : Node α

abbrev XDag (α : Type) := List (XNode α)

/-- evaluation context by name: the parameter values, the rows of the current individual (one row
for cross-sectional data) with the current one, the draws of the current individual with the
current one (`none` outside `MonteCarlo`) -/
structure XEnv (α : Type) where
  beta : String → α
  rows : List (String → α)
  row : Nat
  draws : List (String → α)
  draw : Option Nat

variable {α : Type} [NumOps α]

/-- the environment of the shared language at the current row -/
def XEnv.env (xe : XEnv α) : Env α where
  beta := xe.beta
  var := fun n =>
    match xe.rows[xe.row]? with
    | some f => f n
    | none => (0 : α)

/-- `f = acc; for r: f += child_r` — the first failing evaluation is the error -/
def sumLeft : α → List (Res α) → Res α
  | acc, [] => pure acc
  | acc, r :: t =>
    match r with
    | .error e => .error e
    | .ok a => sumLeft (acc + a) t

/-- `bioExprMontecarlo`: no draws is an error, else the sum divided by the number of draws -/
def avgRes (rs : List (Res α)) : Res α :=
  if rs.isEmpty then .error .domain else
  match sumLeft (0 : α) rs with
  | .error e => .error e
  | .ok s => .ok (s / (NumOps.ofNat rs.length : α))

def logRes : Res α → Res α
  | .ok v => .ok (Num.log v)
  | .error e => .error e

/-- `bioExprPanelTrajectory`: exp of the sum of the logarithms over the rows -/
def trajRes (rs : List (Res α)) : Res α :=
  match sumLeft (0 : α) (rs.map logRes) with
  | .error e => .error e
  | .ok s => .ok (Num.exp s)

/-- evaluation of node `k` of the extended DAG in the context `xe` -/
def evalX (sem : Sem α) (d : XDag α) : Nat → XEnv α → Nat → Res α
  | 0, _, _ => .error .fuel
  | fuel + 1, xe, k =>
    match d[k]? with
    | none => .error .dangling
    | some n =>
      match n.x with
      | .base => sem n.node xe.env (n.node.children.map (evalX sem d fuel xe))
      | .draws =>
        match xe.draw with
        | none => .error .domain
        | some r =>
          match xe.draws[r]? with
          | some f => .ok (f n.node.name)
          | none => .error .dangling
      | .monteCarlo =>
        match n.node.children with
        | [c] => avgRes ((List.range xe.draws.length).map fun r =>
                   evalX sem d fuel { xe with draw := some r } c)
        | _ => .error .arity
      | .panelTraj =>
        match n.node.children with
        | [c] => trajRes ((List.range xe.rows.length).map fun t =>
                   evalX sem d fuel { xe with row := t } c)
        | _ => .error .arity

def evalXRoot (sem : Sem α) (d : XDag α) (xe : XEnv α) (k : Nat) : Res α := evalX sem d (k + 1) xe k

def WFX (d : XDag α) : Prop :=
  ∀ (k : Nat) (n : XNode α), d[k]? = some n → ∀ c ∈ n.node.children, c < k

def wfXB (d : XDag α) : Bool :=
  (List.range d.length).all fun k =>
    match d[k]? with
    | none => true
    | some n => n.node.children.all (· < k)

/-- the shared DAG a DAG without the new kinds is -/
def baseDag (d : XDag α) : Dag α := d.map (·.node)

def allBase (d : XDag α) : Bool := d.all fun n => n.x == .base

/-! ### the engine side -/

/-- what the engine holds for one individual: parameter vectors, the rows of the individual in the
data, the current row, the draws `draws[r][drawId]` of the individual, the current draw -/
structure XEngEnv (α : Type) where
  free : List α
  fixed : List α
  rows : List (List α)
  row : Nat
  draws : List (List α)
  draw : Option Nat

/-- the inputs of the shared engine model at the current row -/
def XEngEnv.ee (xe : XEngEnv α) : EngEnv α :=
  { free := xe.free, fixed := xe.fixed, row := (xe.rows[xe.row]?).getD [] }

/-- a line of the extended signature: the tag and the fields, stored in the layout of the shared
kind whose text layout the line has (`bioDraws` as `Variable`, the two operators as `UnaryMinus`) -/
structure XLine (α : Type) where
  x : XKind
  line : SigLine α

def nodeNamesOKX (t : IdM.Table String) (n : XNode α) : Bool :=
  match n.x with
  | .base => nodeNamesOK t n.node
  | .draws => (IdM.indexOf n.node.name t.draws).isSome
  | _ => true

def namesOKXB (t : IdM.Table String) (d : XDag α) : Bool := d.all (nodeNamesOKX t)

def lineOfX (t : IdM.Table String) (k : Nat) (n : XNode α) : XLine α :=
  match n.x with
  | .base => { x := .base, line := lineOf t k n.node }
  | .draws =>
    { x := .draws,
      line := { kind := .var, id := k, children := n.node.children, name := n.node.name, status := 0,
                uid := (t.uid n.node.name).getD 0, slot := (IdM.indexOf n.node.name t.draws).getD 0,
                value := n.node.value, keys := [], members := [] } }
  | x =>
    { x := x,
      line := { kind := .neg, id := k, children := n.node.children, name := "", status := 0,
                uid := 0, slot := 0, value := n.node.value, keys := [], members := [] } }

/-- post-order serialisation, shared children re-emitted (`get_signature`) -/
def emitX (t : IdM.Table String) (d : XDag α) : Nat → Nat → List (XLine α)
  | 0, _ => []
  | fuel + 1, k =>
    match d[k]? with
    | none => []
    | some n => (n.node.children.flatMap (emitX t d fuel)) ++ [lineOfX t k n]

abbrev XLoaded (α : Type) := XEngEnv α → Res α
abbrev XStore (α : Type) := List (Nat × XLoaded α)

def XStore.find (s : XStore α) (k : Nat) : Option (XLoaded α) :=
  match s with
  | [] => none
  | (j, f) :: t => if j = k then some f else XStore.find t k

/-- `bioExprDraws::getLiteralValue` -/
def drawSem (l : SigLine α) (xe : XEngEnv α) : Res α :=
  match xe.draw with
  | none => .error .domain
  | some r =>
    match xe.draws[r]? with
    | none => .error .dangling
    | some dr =>
      match dr[l.slot]? with
      | some v => .ok v
      | none => .error .dangling

/-- the engine object of one line, from the objects of its children -/
def semX (l : XLine α) (fs : List (XLoaded α)) : XLoaded α := fun xe =>
  match l.x with
  | .base => lineSem l.line xe.ee (fs.map (· xe))
  | .draws => drawSem l.line xe
  | .monteCarlo =>
    match fs with
    | [f] => avgRes ((List.range xe.draws.length).map fun r => f { xe with draw := some r })
    | _ => .error .arity
  | .panelTraj =>
    match fs with
    | [f] => trajRes ((List.range xe.rows.length).map fun t => f { xe with row := t })
    | _ => .error .arity

def compileX (s : XStore α) (l : XLine α) : Option (XLoaded α) :=
  (allSome (l.line.children.map s.find)).map fun fs => semX l fs

/-- first definition of an id wins; children must be loaded already -/
def loadLineX (s : XStore α) (l : XLine α) : XStore α :=
  match s.find l.line.id with
  | some _ => s
  | none =>
    match compileX s l with
    | some f => (l.line.id, f) :: s
    | none => s

def loadX (s : XStore α) (ls : List (XLine α)) : XStore α := ls.foldl loadLineX s

/-- serialise node `k`, load into an empty engine, evaluate for one individual -/
def runX (t : IdM.Table String) (d : XDag α) (k : Nat) (xe : XEngEnv α) : Res α :=
  if !namesOKXB t d then .error .missing else
  match (loadX [] (emitX t d (k + 1) k)).find k with
  | none => .error .dangling
  | some f => f xe

/-- sizes of the inputs: vectors as the table, every row as the columns, every draw as the draw
variables, the current row exists, the current draw (if any) exists -/
def SizedX (t : IdM.Table String) (xe : XEngEnv α) : Prop :=
  xe.free.length = t.free.length ∧ xe.fixed.length = t.fixed.length ∧
  (∀ r ∈ xe.rows, r.length = t.cols.length) ∧ xe.row < xe.rows.length ∧
  (∀ dr ∈ xe.draws, dr.length = t.draws.length) ∧ (∀ r, xe.draw = some r → r < xe.draws.length)

def byName (names : List String) (vals : List α) : String → α := fun n =>
  match IdM.indexOf n names with
  | some i => vals.getD i (0 : α)
  | none => (0 : α)

/-- the context by name that the engine inputs denote through the id table -/
def xenvOf (t : IdM.Table String) (xe : XEngEnv α) : XEnv α where
  beta := (envOf t xe.ee).beta
  rows := xe.rows.map (byName t.cols)
  row := xe.row
  draws := xe.draws.map (byName t.draws)
  draw := xe.draw

/-! ### the text -/

def classX : XKind → List Char
  | .base => []
  | .draws => "bioDraws".toList
  | .monteCarlo => "MonteCarlo".toList
  | .panelTraj => "PanelLikelihoodTrajectory".toList

/-- the class whose layout (and reader branch) the line shares -/
def layoutKind : XKind → Kind
  | .draws => .var
  | _ => .neg

/-- replace the class between `<` and `>` -/
def retag (cls : List Char) (f : List Char) : Option (List Char) :=
  (Sig.dropUntil '>' f).map fun rest => '<' :: cls ++ '>' :: rest

/-- the line as `bioDraws.get_signature` / `UnaryOperator.get_signature` write it -/
def renderLineX (txt : α → List Char) (info : Nat → Nat × List Char) (l : XLine α) : List Char :=
  match l.x with
  | .base => Sig.renderLine txt info l.line
  | .draws =>
    '<' :: classX .draws ++ '>' :: '{' :: Sig.natText l.line.id ++ '}' :: '"' ::
      Sig.sanitize l.line.name.toList ++ '"' :: Sig.commaJoin [Sig.natText l.line.uid, Sig.natText l.line.slot]
  | x =>
    '<' :: classX x ++ '>' :: '{' :: Sig.natText l.line.id ++ '}' :: '(' ::
      Sig.natText l.line.children.length ++ ')' :: Sig.commaJoin (l.line.children.map Sig.natText)

def xkindOfClass (c : List Char) : XKind :=
  if c = classX .draws then .draws
  else if c = classX .monteCarlo then .monteCarlo
  else if c = classX .panelTraj then .panelTraj
  else .base

/-- `bioFormula::processFormula` on one line: the three new classes take the branch of the class
with the same code -/
def parseLineX (numOf : List Char → Option α) (f : List Char) : Option (XLine α) :=
  match Sig.extract '<' '>' f with
  | none => none
  | some cls =>
    match xkindOfClass cls with
    | .base => (Sig.parseLine numOf f).map fun l => { x := .base, line := l }
    | x =>
      match retag (Sig.className (layoutKind x)) f with
      | none => none
      | some f' => (Sig.parseLine numOf f').map fun l => { x := x, line := l }

def canonX (l : XLine α) : XLine α := { x := l.x, line := Sig.canon l.line }

/-- layout of the line of a new kind -/
def lineOKX (l : XLine α) : Bool :=
  match l.x with
  | .base => true
  | x => l.line.kind == layoutKind x

def loadTextX (numOf : List Char → Option α) (s : XStore α) (ls : List (List Char)) :
    Option (XStore α) :=
  match ls with
  | [] => some s
  | f :: rest =>
    match parseLineX numOf f with
    | none => none
    | some l => loadTextX numOf (loadLineX s l) rest

/-- what the round trip needs of one extended line -/
structure TextWFX (txt : α → List Char) (numOf : List Char → Option α) (l : XLine α) : Prop where
  layout : lineOKX l = true
  wf : Sig.TextWF txt numOf l.line

/-- the engine path through the text, one individual -/
def runTextX (txt : α → List Char) (numOf : List Char → Option α) (info : Nat → Nat × List Char)
    (t : IdM.Table String) (d : XDag α) (k : Nat) (xe : XEngEnv α) : Res α :=
  if !namesOKXB t d then .error .missing else
  match loadTextX numOf [] ((emitX t d (k + 1) k).map (renderLineX txt info)) with
  | none => .error .dangling
  | some st =>
    match st.find k with
    | none => .error .dangling
    | some f => f xe

end ExprMC
