/-
Model of the output-file protocol of biogeme (core Lean only).

* `biogeme.filenames.get_new_file_name(name, ext)`:
      file_name = name + '.' + ext ; number = 0
      while Path(file_name).is_file():
          file_name = f'{name}~{number:02d}.{ext}' ; number += 1
      return file_name
  used by `bioResults.write_html / write_latex / write_f12 / write_pickle`,
  `Database.dump_on_file` (`<db>_dumped.dat`), `BIOGEME.validate`
  (`<model>_validation.pickle`) and, after the proposed repair, by
  `Database.generate_flat_panel_dataframe(save_on_file=True)` (`<db>_flatten.csv`).
  Every writer opens the returned name with mode 'w'.
* `biogeme.tools.files.create_backup(filename, rename)`:
      base, ext = os.path.splitext(filename)
      if exists(filename): counter = 1
          while exists(f'{base}_{counter}{ext}'): counter += 1
          rename / copy filename -> f'{base}_{counter}{ext}'
* `BIOGEME.files_of_type(ext)` + `estimate(recycle=True)`: the pickle files
  `<model>.pickle`, `<model>~*.pickle` of the directory; the *last written* one is read
  (repaired behaviour; the code sorts the names as strings, see `recycleChoiceLex`).

A directory is a list of (name, content); names are `List Char`, contents are opaque.
The `while` loops become fuel-bounded searches; the fuel `|dir| + 1` is proved sufficient.
-/

namespace Files

abbrev Name := List Char

/-! ## names -/

/-- Python's `f'{k:02d}'` for `k ≥ 0`: decimal digits, at least two of them. -/
def pad2 (k : Nat) : List Char :=
  let d := Nat.toDigits 10 k
  if d.length < 2 then '0' :: d else d

/-- the sequence of names tried by `get_new_file_name`:
`name.ext`, `name~00.ext`, `name~01.ext`, … -/
def candidate (name ext : Name) : Nat → Name
  | 0 => name ++ '.' :: ext
  | k + 1 => name ++ '~' :: (pad2 k ++ '.' :: ext)

/-- the sequence of names tried by `create_backup` (`ext` includes its dot, may be empty):
`base_1ext`, `base_2ext`, … (index 0 ↦ counter 1) -/
def backupCandidate (base ext : Name) (k : Nat) : Name :=
  base ++ '_' :: (Nat.toDigits 10 (k + 1) ++ ext)

/-- first index `≥ k` (within `fuel` tries) whose candidate does not exist -/
def searchFrom (ex : Name → Bool) (cand : Nat → Name) : Nat → Nat → Option Name
  | 0, _ => none
  | fuel + 1, k =>
    if ex (cand k) then searchFrom ex cand fuel (k + 1) else some (cand k)

/-! ## directories -/

abbrev Dir (γ : Type) := List (Name × γ)

def names {γ} (d : Dir γ) : List Name := d.map (·.1)
def existsB {γ} (d : Dir γ) (n : Name) : Bool := (names d).contains n
def get {γ} (d : Dir γ) (n : Name) : Option γ := d.lookup n
def del {γ} (d : Dir γ) (n : Name) : Dir γ := d.filter (fun e => !(e.1 == n))
/-- `open(n, 'w')` + write + close: creates or replaces -/
def put {γ} (d : Dir γ) (n : Name) (c : γ) : Dir γ := (n, c) :: del d n

/-- `get_new_file_name` in directory `d` (fuel `|d| + 1`) -/
def newFileName {γ} (d : Dir γ) (name ext : Name) : Option Name :=
  searchFrom (existsB d) (candidate name ext) (d.length + 1) 0

/-- one output written through `get_new_file_name`: returns the new directory and the
name used.  (`none` = the search ran out of fuel; proved impossible.) -/
def writeNew {γ} (d : Dir γ) (name ext : Name) (c : γ) : Option (Dir γ × Name) :=
  match newFileName d name ext with
  | some n => some (put d n c, n)
  | none => none

/-! ## os.path.splitext for names without directory separator -/

/-- `os.path.splitext(p)` for a plain file name (no directory separator): split at the last
'.', unless there is none or only dots precede it (leading dots are never an extension).
The extension is empty or starts with '.'. -/
def splitext (p : Name) : Name × Name :=
  let r := p.reverse
  let extRev := r.takeWhile (fun c => !(c == '.'))      -- what follows the last dot, reversed
  if extRev.length = r.length then (p, [])             -- no dot at all
  else
    let root := (r.drop (extRev.length + 1)).reverse   -- what precedes the last dot
    if root.all (fun c => c == '.') then (p, []) else (root, '.' :: extRev.reverse)

/-- `create_backup(filename, rename)`: `none` when the file does not exist (nothing is
done); otherwise the backup name and the new directory. -/
def createBackup {γ} (d : Dir γ) (filename : Name) (rename : Bool) : Option (Dir γ × Name) :=
  match get d filename with
  | none => none
  | some c =>
    let (base, ext) := splitext filename
    match searchFrom (existsB d) (backupCandidate base ext) (d.length + 1) 0 with
    | none => none
    | some n => if rename then some (put (del d filename) n c, n) else some (put d n c, n)

/-! ## histories -/

/-- what can happen in an output directory -/
inductive Op (γ : Type) where
  | write (name ext : Name) (c : γ)        -- any writer that goes through get_new_file_name
  | delete (file : Name)                    -- the user removes a file
  | backup (file : Name) (rename : Bool)    -- create_backup
  | create (file : Name) (c : γ)            -- the user (or any other program) creates or replaces a file
deriving Repr

/-- one step; the second component is the name produced (if any) -/
def step {γ} (d : Dir γ) : Op γ → Dir γ × Option Name
  | .write name ext c =>
    match writeNew d name ext c with
    | some (d', n) => (d', some n)
    | none => (d, none)
  | .delete f => (del d f, none)
  | .backup f r =>
    match createBackup d f r with
    | some (d', n) => (d', some n)
    | none => (d, none)
  | .create f c => (put d f c, none)

/-- run a history; returns the final directory and the produced names in order -/
def run {γ} (d : Dir γ) : List (Op γ) → Dir γ × List (Option Name)
  | [] => (d, [])
  | op :: t =>
    let (d', n) := step d op
    let (d'', ns) := run d' t
    (d'', n :: ns)

/-! ## recycling: which pickle is read by `estimate(recycle=True)` -/

def startsWith : List Char → List Char → Bool
  | _, [] => true
  | [], _ :: _ => false
  | a :: s, b :: p => a == b && startsWith s p

def endsWith (s p : List Char) : Bool := startsWith s.reverse p.reverse

/-- `files_of_type(ext)`: `model.ext` and `model~*.ext` (glob `*` matches anything, and
the model name is taken literally) -/
def ofTypeB (model ext n : Name) : Bool :=
  n == model ++ '.' :: ext ||
  (startsWith n (model ++ ['~']) && endsWith n ('.' :: ext) &&
    decide (n.length ≥ model.length + 1 + (ext.length + 1)))

def ofType (names : List Name) (model ext : Name) : List Name :=
  names.filter (ofTypeB model ext)

/-- lexicographic `<` on names (Python's string order on code points) -/
def ltName : List Char → List Char → Bool
  | [], [] => false
  | [], _ :: _ => true
  | _ :: _, [] => false
  | a :: s, b :: t => a.toNat < b.toNat || (a == b && ltName s t)

def maxBy (lt : Name → Name → Bool) : List Name → Option Name
  | [] => none
  | a :: t => match maxBy lt t with
    | none => some a
    | some b => if lt b a then some a else some b

/-- what the code does today: `pickle_files.sort(); pickle_files[-1]` -/
def recycleChoiceLex (names : List Name) (model ext : Name) : Option Name :=
  maxBy ltName (ofType names model ext)

/-- the order used by the proposed repair (`sort(key=lambda f: (len(f), f))`): shorter names
first, then string order -/
def ltLenLex (a b : Name) : Bool := a.length < b.length || (a.length == b.length && ltName a b)

/-- choice of the patched code -/
def recycleChoiceLenLex (names : List Name) (model ext : Name) : Option Name :=
  maxBy ltLenLex (ofType names model ext)

/-- the repaired choice: the file of the candidate sequence with the largest index among
the existing ones, i.e. the most recently created one when nothing was deleted -/
def recycleChoice (names : List Name) (model ext : Name) : Option Name :=
  let idx := (List.range (names.length + 1)).filter fun k => names.contains (candidate model ext k)
  match idx.getLast? with
  | none => none
  | some k => some (candidate model ext k)

end Files
