/-
Model of `biogeme.tools.derivatives` (C02): the finite-difference self-check offered to users.

`fdStep` is the three-branch choice of the step of `findiff_g` / `findiff_h`
(relative step `tau·xᵢ` when |xᵢ| ≥ 1, `+tau` when 0 ≤ xᵢ < 1, `−tau` when xᵢ < 0 and |xᵢ| < 1),
`findiffG` the forward-difference gradient, `findiffH` the forward-difference Jacobian of the
gradient stored column by column (`h[:, i] = (g(x + s eᵢ) − g(x)) / s`), `checkDerivatives` the
tuple `f, g, h, gdiff, hdiff` returned by `check_derivatives`.  The function under test is an
argument (the driver passes the table of the values the real function returned).  Core Lean only.
-/
import Model.Num

namespace FinDiff
open Num

variable {α : Type} [NumOps α]

/-- `tau = 0.0000001` in `findiff_g`, `tau = 1.0e-7` in `findiff_h` -/
def tau : α := 1.0e-7

/-- the step for a coordinate of value `xi` -/
def fdStep (t xi : α) : α :=
  if Num.le 1 (Num.abs xi) then t * xi else if Num.le 0 xi then t else -t

/-- `xp = x.copy(); xp[i] = xi + s` -/
def perturbed (t : α) (x : List α) (i : Nat) : List α :=
  x.set i (x.getD i 0 + fdStep t (x.getD i 0))

/-- the points at which `findiff_g` (and `findiff_h`) evaluate the function, in order -/
def evalPoints (t : α) (x : List α) : List (List α) :=
  x :: (List.range x.length).map (perturbed t x)

/-- `findiff_g`: `g[i] = (f(xp) − f(x)) / s` -/
def findiffG (t : α) (f : List α → α) (x : List α) : List α :=
  (List.range x.length).map fun i =>
    (f (perturbed t x i) - f x) / fdStep t (x.getD i 0)

/-- column `i` of `findiff_h` -/
def hColumn (t : α) (g : List α → List α) (x : List α) (i : Nat) : List α :=
  let gp := g (perturbed t x i)
  let g0 := g x
  (List.range x.length).map fun r => (gp.getD r 0 - g0.getD r 0) / fdStep t (x.getD i 0)

/-- `findiff_h`, by rows: entry (r, i) is entry r of column i -/
def findiffH (t : α) (g : List α → List α) (x : List α) : List (List α) :=
  (List.range x.length).map fun r =>
    (List.range x.length).map fun i => (hColumn t g x i).getD r 0

def vsub (a b : List α) : List α := List.zipWith (· - ·) a b
def msub (a b : List (List α)) : List (List α) := List.zipWith vsub a b

structure Check (α : Type) where
  f : α
  g : List α
  h : List (List α)
  gdiff : List α
  hdiff : List (List α)

/-- `check_derivatives(the_function, x)`: the analytical value, gradient, Hessian at `x` and their
differences with the finite-difference approximations -/
def checkDerivatives (t : α) (F : List α → α × List α × List (List α)) (x : List α) : Check α :=
  let out := F x
  { f := out.1, g := out.2.1, h := out.2.2,
    gdiff := vsub out.2.1 (findiffG t (fun p => (F p).1) x),
    hdiff := msub out.2.2 (findiffH t (fun p => (F p).2.1) x) }

end FinDiff
