/-
Model of the specification helpers of biogeme (property C17):

* `models/piecewise.py`  : piecewise_variables, piecewise_formula, piecewise_as_variable,
                           piecewise_function
* `models/boxcox.py`     : boxcox
* `distributions.py`     : normalpdf, lognormalpdf, uniformpdf, triangularpdf, logisticcdf
* `loglikelihood.py`     : loglikelihoodregression
* `segmentation.py`      : Segmentation.segmented_beta, Segmentation.segmented_code
* `nests.py`             : NestsForNestedLogit.correlation

Written once over `[NumOps α]`: the driver runs it on `Float`, the theorems are about the
`ℝ` instance.  The expressions built by the helpers are evaluated by the C++ engine; the
arithmetic peculiarities of the engine that matter for these helpers are part of the model
(`emul`, `ediv`: a zero left operand gives zero whatever the right operand, so
`(x > 0) * num / den` is 0 and not NaN at x ≤ 0; `bioMin`/`bioMax` branch on `<=` / `>`).

`pwVars` (one variable per pair of consecutive thresholds) and `pwAsVariable` (β_i times the
variable of interval i) are what the code computes since the fixes of FC17a (two thresholds:
the single variable used to be returned twice) and FC17b (β_i used to multiply the variable of
interval i-1); `pwVarsAsCoded` / `pwAsVariableAsCoded` keep the former behaviour for the two
theorems that document those findings.  The expression TREES the helpers return are modelled in
Model/HelpersBuild.lean; this file gives their values in closed form.  For three or more
thresholds `pwVars` is exactly what the code computes.  Core Lean only.
-/
import Model.Num
open Num

namespace Helpers

variable {α : Type} [NumOps α]

/-- engine product `bioExprTimes`: a zero left operand gives 0 whatever the right one -/
def emul (a b : α) : α := if Num.eq a 0 then 0 else a * b
/-- engine quotient `bioExprDivide`: a zero numerator gives 0 whatever the denominator -/
def ediv (a b : α) : α := if Num.eq a 0 then 0 else a / b

/-- `e ** n` for a literal integer exponent (`PowerConstant`) -/
def powN (a : α) : Nat → α
  | 0 => 1
  | n + 1 => a * powN a n

/-! ## piecewise linear specification -/

/-- the variable of one interval `[a, b[`; `none` = −∞ on the left, +∞ on the right
    (`bioMin(x, b)`, `bioMax(0, x - a)`, `bioMax(0, bioMin(x - a, b - a))`) -/
def pwVar (x : α) : Option α → Option α → α
  | none, none => x
  | none, some b => Num.min x b
  | some a, none => Num.max 0 (x - a)
  | some a, some b => Num.max 0 (Num.min (x - a) (b - a))

/-- `piecewise_variables`: one variable per interval of consecutive thresholds -/
def pwVars (x : α) : List (Option α) → List α
  | [] => []
  | [_] => []
  | a :: b :: rest => pwVar x a b :: pwVars x (b :: rest)

/-- what `piecewise_variables` returns as the code stands: first variable, the variables of
    `range(1, K-2)`, last variable — for K = 2 the single interval appears twice
    (used only to state the known finding FC17a; closed thresholds) -/
def pwVarsAsCoded (x : α) (ths : List α) : List α :=
  match ths with
  | [a, b] => [pwVar x (some a) (some b), pwVar x (some a) (some b)]
  | _ => pwVars x (ths.map some)

/-- a threshold list with optional open ends: `[None]? ++ ts ++ [None]?` -/
def mkThs (openL : Bool) (ts : List α) (openR : Bool) : List (Option α) :=
  (if openL then [none] else []) ++ (ts.map some ++ (if openR then [none] else []))

inductive PwErr where
  | noThreshold      -- BiogemeError 'No threshold has been provided.'
  | allNone          -- BiogemeError 'All thresholds … are set to None.'
  | innerNone        -- BiogemeError 'only the first and the last thresholds can be None'
  | indexError       -- a single numeric threshold: IndexError
  | badBetas         -- BiogemeError: wrong number of parameters
  | emptySum         -- BiogemeError 'The argument of bioMultSum cannot be empty' (as_variable, one interval)
deriving Repr, DecidableEq

def dropLast {β : Type} : List β → List β
  | [] => []
  | [_] => []
  | a :: t => a :: dropLast t

/-- the argument checks of `piecewise_variables`, in the order of the code -/
def pwCheck (ths : List (Option α)) : Option PwErr :=
  if ths.isEmpty then some .noThreshold
  else if ths.all Option.isNone then some .allNone
  else if (dropLast ths.tail).any Option.isNone then some .innerNone
  else if ths.length == 1 then some .indexError
  else none

/-- the checks of `piecewise_formula` (`betas` given; the number of parameters is tested
    before `piecewise_variables` is called, after the two threshold tests) -/
def pwFormulaCheck (ths : List (Option α)) (nBetas : Nat) : Option PwErr :=
  if ths.all Option.isNone then some .allNone      -- includes the empty list
  else if (dropLast ths.tail).any Option.isNone then some .innerNone
  else if nBetas + 1 != ths.length then some .badBetas
  else pwCheck ths

/-- the checks of `piecewise_as_variable` (`nBetas = some n`: n parameters given; `none`: created by
    the helper, K − 2 of them): threshold tests, number of parameters when given (K − 2), the checks
    of `piecewise_variables`, and finally `bioMultSum` refuses an empty list of terms — a single
    interval (K = 2) cannot be written as a transformed variable -/
def pwAsVariableCheck (ths : List (Option α)) (nBetas : Option Nat) : Option PwErr :=
  if ths.all Option.isNone then some .allNone
  else if (dropLast ths.tail).any Option.isNone then some .innerNone
  else if (match nBetas with | some n => n + 2 != ths.length | none => false) then some .badBetas
  else match pwCheck ths with
    | some e => some e
    | none => if ths.length == 2 then some .emptySum else none

def dot (βs vs : List α) : α := Num.sum (List.zipWith (fun b v => b * v) βs vs)

/-- value of `piecewise_formula(x, thresholds, betas)` = `bioMultSum([β_i * x_i])` -/
def pwFormula (x : α) (ths : List (Option α)) (βs : List α) : α := dot βs (pwVars x ths)

/-- value of `piecewise_as_variable` as documented: `x_1 + Σ_{i≥2} β_i x_i` -/
def pwAsVariable (x : α) (ths : List (Option α)) (βs : List α) : α :=
  match pwVars x ths with
  | [] => 0
  | v :: vs => v + dot βs vs

/-- value of `piecewise_as_variable` as coded: `x_1 + Σ_{i≥2} β_i x_{i-1}` (known finding
    FC17b) -/
def pwAsVariableAsCoded (x : α) (ths : List (Option α)) (βs : List α) : α :=
  match pwVars x ths with
  | [] => 0
  | v :: vs => v + dot βs (v :: vs)

/-- the loop of `piecewise_function`: `ths` = thresholds from index i on, `βs` = parameters
    from index i on -/
def pwLoop (x : α) : α → α → List (Option α) → List α → α
  | _, total, [], _ => total
  | _, total, [_], _ => total
  | _, total, _ :: _ :: _, [] => total
  | rest, total, ti :: tn :: more, v :: vs =>
    match tn with
    | none => total + v * rest
    | some t =>
      if Num.lt x t then total + v * rest
      else
        let lo : α := match ti with
          | none => 0
          | some a => a
        pwLoop x (x - t) (total + v * (t - lo)) (tn :: more) vs

/-- `piecewise_function(x, thresholds, betas)` (pure Python), after its argument checks -/
def pwFunction (x : α) (ths : List (Option α)) (βs : List α) : α :=
  match ths with
  | [] => 0
  | some t0 :: _ => if Num.lt x t0 then 0 else pwLoop x (x - t0) 0 ths βs
  | none :: _ => pwLoop x x 0 ths βs

def pwFunctionCheck (ths : List (Option α)) (nBetas : Nat) : Option PwErr :=
  if ths.all Option.isNone then some .allNone
  else if (dropLast ths.tail).any Option.isNone then some .innerNone
  else if nBetas + 1 != ths.length then some .badBetas
  else none

/-! ## Box-Cox -/

def boxcoxRegular (x l : α) : α := (Num.pow x l - 1.0) / l

def boxcoxSeries (x l : α) : α :=
  Num.log x + l * powN (Num.log x) 2 / 2.0 + powN l 2 * powN (Num.log x) 3 / 6.0
    + powN l 3 * powN (Num.log x) 4 / 24.0

/-- `(ell < 1e-5) * (ell > -1e-5)` -/
def closeToZero (l : α) : Bool := Num.lt l 1.0e-5 && Num.lt (-(1.0e-5 : α)) l

/-- `Elem({0: Elem({0: regular, 1: mclaurin}, close_to_zero), 1: 0}, x == 0)` -/
def boxcox (x l : α) : α :=
  if Num.eq x 0 then 0
  else if closeToZero l then boxcoxSeries x l else boxcoxRegular x l

/-! ## densities -/

/-- the constant the code uses for √(2π) -/
def sqrt2pi : α := 2.506628275

def normalpdf (x mu s : α) : α :=
  Num.exp (ediv (emul (-(x - mu)) (x - mu)) (2.0 * s * s)) / (s * sqrt2pi)

def lognormalpdf (x mu s : α) : α :=
  ediv (emul (Num.ofBool (Num.lt 0 x))
      (Num.exp (ediv (emul (-(Num.log x - mu)) (Num.log x - mu)) (2.0 * s * s))))
    (x * s * sqrt2pi)

def uniformpdf (x a b : α) : α :=
  emul (Num.ofBool (Num.lt x a)) 0.0 + emul (Num.ofBool (Num.lt b x)) 0.0
    + ediv (emul (Num.ofBool (Num.le a x)) (Num.ofBool (Num.le x b))) (b - a)

def triangularpdf (x a b c : α) : α :=
  let r1 := emul (Num.ofBool (Num.lt x a)) 0.0
  let r2 := emul (emul (emul (Num.ofBool (Num.le a x)) (Num.ofBool (Num.lt x c))) 2.0)
              (ediv (x - a) ((b - a) * (c - a)))
  let r3 := ediv (emul (Num.ofBool (Num.eq x c)) 2.0) (b - a)
  let r4 := ediv (emul (emul (emul (Num.ofBool (Num.lt c x)) (Num.ofBool (Num.le x b))) 2.0) (b - x))
              ((b - a) * (b - c))
  let r5 := emul (Num.ofBool (Num.lt b x)) 0.0
  Num.sum [r1, r2, r3, r4, r5]

def logisticcdf (x mu s : α) : α := 1.0 / (1.0 + Num.exp (ediv (-(x - mu)) s))

/-- `loglikelihoodregression(meas, model, sigma)` -/
def loglikReg (y m s : α) : α :=
  -(powN (ediv (y - m) s) 2) / 2 - Num.log (powN s 2) / 2 - 0.9189385332

/-- `likelihoodregression(meas, model, sigma)` = `exp` of the log likelihood -/
def likReg (y m s : α) : α := Num.exp (loglikReg y m s)

/-! ### argument checks of the density helpers (made when the values are known while the formula is built)

`true` = the helper raises `ValueError` -/

def scaleCheck (s : α) : Bool := Num.le s 0                      -- normalpdf, lognormalpdf, logisticcdf: s <= 0
def argCheck (x : α) : Bool := Num.le x 0                        -- lognormalpdf with a literal argument: x <= 0
def uniformCheck (a b : α) : Bool := Num.lt b a                  -- a > b   (a = b passes)
def triCheck (a b c : α) : Bool := Num.le c a || Num.le b c      -- c <= a or c >= b

/-! ## segmentation -/

/-- one `DiscreteSegmentationTuple`: variable name, mapping value ↦ category (dict order),
    reference category (None = the first category of the mapping) -/
structure SegSpec where
  varName : String
  mapping : List (Int × String)
  reference : Option String
deriving Repr

def SegSpec.ref (s : SegSpec) : String :=
  match s.reference with
  | some r => r
  | none => match s.mapping with
    | [] => ""
    | (_, c) :: _ => c

/-- the constructor refuses a reference that is not a category of the mapping -/
def SegSpec.valid (s : SegSpec) : Bool :=
  !s.mapping.isEmpty && (match s.reference with
    | none => true
    | some r => s.mapping.any (·.2 == r))

/-- `OneSegmentation.mapping`: the reference category is removed -/
def SegSpec.kept (s : SegSpec) : List (Int × String) := s.mapping.filter (·.2 != s.ref)

def paramName (beta cat : String) : String := beta ++ "_" ++ cat

/-- value of `Segmentation.segmented_beta()` on a row:
    `bioMultSum([β] + [β_cat * (var == value) …])` -/
def segmentedBeta (beta : String) (specs : List SegSpec) (param row : String → α) : α :=
  Num.sum (param beta ::
    specs.flatMap fun s => s.kept.map fun kc =>
      emul (param (paramName beta kc.2)) (Num.ofBool (Num.eq (row s.varName) (Num.int kc.1))))

/-- the generated specification code, as an abstract syntax: assignments
    `name = Beta('name', …)` then `bioMultSum([Beta('β', …), name * (Variable('v') == k), …])` -/
structure SegCode where
  assigns : List String                       -- python names bound to `Beta('<same name>', …)`
  refBeta : String
  terms : List (String × String × Int)        -- (python name, variable, value)
deriving Repr

def segmentedCode (beta : String) (specs : List SegSpec) : SegCode :=
  { assigns := specs.flatMap fun s => s.kept.map fun kc => paramName beta kc.2
    refBeta := beta
    terms := specs.flatMap fun s => s.kept.map fun kc => (paramName beta kc.2, s.varName, kc.1) }

/-- running the code: a name evaluates to the parameter it was bound to (NameError = none) -/
def evalCode (c : SegCode) (param row : String → α) : Option α :=
  if c.terms.all (fun t => c.assigns.contains t.1) then
    some (Num.sum (param c.refBeta :: c.terms.map fun (t : String × String × Int) =>
      emul (param t.1) (Num.ofBool (Num.eq (row t.2.1) (Num.int t.2.2)))))
  else none

/-- text of the generated code (`init lb ub status` are the tokens Python prints for the
    attributes of the segmented parameter) -/
def renderCode (beta init lb ub status pref : String) (specs : List SegSpec) : String :=
  let c := (segmentedCode beta specs).assigns
  let head := "\n".intercalate (c.map fun n =>
    n ++ " = Beta('" ++ n ++ "', " ++ init ++ ", None, None, " ++ status ++ ")") ++ "\n"
  let refCode := "Beta('" ++ beta ++ "', " ++ init ++ ", " ++ lb ++ ", " ++ ub ++ ", " ++ status ++ ")"
  let ts := specs.flatMap fun s => s.kept.map fun kc =>
    paramName beta kc.2 ++ " * (Variable('" ++ s.varName ++ "') == " ++ toString kc.1 ++ ")"
  if ts.isEmpty then head ++ refCode
  else head ++ pref ++ "_" ++ beta ++ " = bioMultSum([" ++ ", ".intercalate (refCode :: ts) ++ "])"

/-! ## correlation of the nested logit model -/

/-- `itertools.combinations(l, 2)` -/
def combos {β : Type} : List β → List (β × β)
  | [] => []
  | a :: t => t.map (fun b => (a, b)) ++ combos t

structure Nest (α : Type) where
  mu : α
  alts : List Int

/-- the value written for a pair of one nest (`mu` = scale of the model, default 1.0) -/
def nestCorr (mu : α) (n : Nest α) : α :=
  if Num.eq mu 1.0 then 1.0 - 1.0 / (n.mu * n.mu) else 1.0 - (mu * mu) / (n.mu * n.mu)

def pairIn (n : Nest α) (i j : Int) : Bool :=
  (combos n.alts).any fun p => (p.1 == i && p.2 == j) || (p.1 == j && p.2 == i)

/-- entry (i, j): identity matrix, then every nest in order overwrites the entries of the
    pairs of its alternatives -/
def corrEntry (mu : α) (nests : List (Nest α)) (i j : Int) : α :=
  nests.foldl (fun acc n => if pairIn n i j then nestCorr mu n else acc)
    (if i == j then (1.0 : α) else 0.0)

def corrMatrix (mu : α) (choiceSet : List Int) (nests : List (Nest α)) : List (List α) :=
  choiceSet.map fun i => choiceSet.map fun j => corrEntry mu nests i j

end Helpers
