/-
The FORMULAS the specification helpers build (property C17), as trees.

`Model/Helpers.lean` gives the *value* of each helper in closed form.  This file models what the
helpers really return: an expression tree of `biogeme.expressions` nodes, built with the same
statements as the Python sources

* `models/piecewise.py`  : `piecewise_variables`, `piecewise_formula`, `piecewise_as_variable`
* `models/boxcox.py`     : `boxcox`
* `distributions.py`     : `normalpdf`, `lognormalpdf`, `uniformpdf`, `triangularpdf`, `logisticcdf`
* `loglikelihood.py`     : `loglikelihoodregression`, `loglikelihood`/`likelihoodregression`
* `segmentation.py`      : `Segmentation.segmented_beta`, the expression the text of
                           `segmented_code` denotes once `exec`'ed

`HE α` is the tree, `evalT` its value with the node semantics of the C++ engine (`Times` and
`Divide` return 0 for a zero left operand whatever the right one; `PowerConstant` returns 1 for a
zero exponent; `Elem` selects the branch whose integer key is the truncated value of the key
expression and evaluates only that one; `bioMultSum` adds its terms).  `ofLines` rebuilds the
tree from the lines of a signature *text* as read by the model of the engine's reader
(`Sig.parseLine`), so the driver can compare, node by node, the formula the library built with
the formula built here (`HE.same`).  Core Lean only.
-/
import Model.Helpers
import Model.Sig
open Num

namespace HelpersBuild
open Helpers Expr

inductive HE (α : Type) where
  | num (v : α)
  | var (n : String)
  | beta (n : String)
  | un (k : Kind) (a : HE α)
  | powc (a : HE α) (e : α)
  | bin (k : Kind) (a b : HE α)
  | elem (key : HE α) (keys : List Int) (branches : List (HE α))
  | msum (ts : List (HE α))

variable {α : Type} [NumOps α]

/-- the value written where the engine would raise (unknown operator, key without branch): NaN on
`Float`, never a number that could be mistaken for a result -/
def poison : α := (0 : α) / (0 : α)

def unOp (k : Kind) (a : α) : α :=
  match k with
  | .neg => -a
  | .exp => Num.exp a
  | .log => Num.log a
  | _ => poison

/-- binary nodes as the engine evaluates them (`emul`/`ediv`: zero left operand ⇒ 0) -/
def binOp (k : Kind) (a b : α) : α :=
  match k with
  | .plus => a + b
  | .minus => a - b
  | .times => emul a b
  | .divide => ediv a b
  | .power => Num.pow a b
  | .bmin => Num.min a b
  | .bmax => Num.max a b
  | .eq => Num.ofBool (Num.eq a b)
  | .ne => Num.ofBool (!Num.eq a b)
  | .le => Num.ofBool (Num.le a b)
  | .ge => Num.ofBool (Num.le b a)
  | .lt => Num.ofBool (Num.lt a b)
  | .gt => Num.ofBool (Num.lt b a)
  | _ => poison

def pick (vs : List α) : Option Nat → α
  | some i => vs.getD i poison
  | none => poison

def evalT (env : Env α) : HE α → α
  | .num v => v
  | .var n => env.var n
  | .beta n => env.beta n
  | .un k a => unOp k (evalT env a)
  | .powc a e => if Num.eq e 0 then 1 else Num.pow (evalT env a) e
  | .bin k a b => binOp k (evalT env a) (evalT env b)
  | .elem key keys bs => pick (bs.map (evalT env)) (findKey (evalT env key) keys 0)
  | .msum ts => Num.sum (ts.map (evalT env))

/-! ## the builders: one statement of the Python source = one line here -/

def eNum (v : α) : HE α := .num v
def eMinus (a b : HE α) : HE α := .bin .minus a b
def ePlus (a b : HE α) : HE α := .bin .plus a b
def eTimes (a b : HE α) : HE α := .bin .times a b
def eDiv (a b : HE α) : HE α := .bin .divide a b

/-- one interval of `piecewise_variables`: `bioMin(x, b)`, `bioMax(Numeric(0), x - a)`,
`bioMax(Numeric(0), bioMin(x - a, b - a))` (the width `b - a` is computed by Python) -/
def pwVarE (X : HE α) : Option α → Option α → HE α
  | none, none => X
  | none, some b => .bin .bmin X (.num b)
  | some a, none => .bin .bmax (.num 0) (eMinus X (.num a))
  | some a, some b => .bin .bmax (.num 0) (.bin .bmin (eMinus X (.num a)) (.num (b - a)))

def pwVarsE (X : HE α) : List (Option α) → List (HE α)
  | [] => []
  | [_] => []
  | a :: b :: rest => pwVarE X a b :: pwVarsE X (b :: rest)

/-- `bioMultSum([beta * the_vars[i] for i, beta in enumerate(betas)])` -/
def pwFormulaE (X : HE α) (ths : List (Option α)) (Bs : List (HE α)) : HE α :=
  .msum (List.zipWith eTimes Bs (pwVarsE X ths))

/-- `theVars[0] + bioMultSum([beta * theVars[i + 1] …])` -/
def pwAsVariableE (X : HE α) (ths : List (Option α)) (Bs : List (HE α)) : HE α :=
  match pwVarsE X ths with
  | [] => .msum []
  | v :: vs => ePlus v (.msum (List.zipWith eTimes Bs vs))

/-- the name of the parameter `piecewise_formula` creates for an interval when none is given:
`beta_<var>_<a>_<b>` with `minus_inf` / `inf` for the open ends (`sa`, `sb` = Python's `str`) -/
def pwBetaName (v : String) (sa sb : Option String) : String :=
  "beta_" ++ v ++ "_" ++ sa.getD "minus_inf" ++ "_" ++ sb.getD "inf"

def pwBetaNames (v : String) : List (Option String) → List String
  | [] => []
  | [_] => []
  | a :: b :: rest => pwBetaName v a b :: pwBetaNames v (b :: rest)

/-- `Expression.__pow__`: a literal exponent (number or `Numeric`) gives `PowerConstant`, any other
expression gives `Power` -/
def ePow (X L : HE α) : HE α :=
  match L with
  | .num v => .powc X v
  | _ => .bin .power X L

/-- `boxcox(x, ell)` -/
def boxcoxE (X L : HE α) : HE α :=
  let regular := eDiv (eMinus (ePow X L) (.num 1.0)) L
  let lg : HE α := .un .log X
  let mclaurin :=
    ePlus (ePlus (ePlus lg (eDiv (eTimes L (.powc lg 2.0)) (.num 2.0)))
                 (eDiv (eTimes (.powc L 2.0) (.powc lg 3.0)) (.num 6.0)))
          (eDiv (eTimes (.powc L 3.0) (.powc lg 4.0)) (.num 24.0))
  let closeTo0 := eTimes (.bin .lt L (.num 1.0e-5)) (.bin .gt L (.un .neg (.num 1.0e-5)))
  let smooth : HE α := .elem closeTo0 [0, 1] [regular, mclaurin]
  .elem (.bin .eq X (.num 0)) [0, 1] [smooth, .num 0]

def normalpdfE (X MU S : HE α) : HE α :=
  let d := eTimes (.un .neg (eMinus X MU)) (eMinus X MU)
  let n := eTimes (eTimes (.num 2.0) S) S
  eDiv (.un .exp (eDiv d n)) (eTimes S (.num 2.506628275))

def lognormalpdfE (X MU S : HE α) : HE α :=
  let lx : HE α := .un .log X
  let d := eTimes (.un .neg (eMinus lx MU)) (eMinus lx MU)
  let n := eTimes (eTimes (.num 2.0) S) S
  let num : HE α := .un .exp (eDiv d n)
  let den := eTimes (eTimes X S) (.num 2.506628275)
  eDiv (eTimes (.bin .gt X (.num 0)) num) den

def uniformpdfE (X A B : HE α) : HE α :=
  ePlus (ePlus (eTimes (.bin .lt X A) (.num 0.0)) (eTimes (.bin .gt X B) (.num 0.0)))
    (eDiv (eTimes (.bin .ge X A) (.bin .le X B)) (eMinus B A))

def triangularpdfE (X A B C : HE α) : HE α :=
  let r1 := eTimes (.bin .lt X A) (.num 0.0)
  let r2 := eTimes (eTimes (eTimes (.bin .ge X A) (.bin .lt X C)) (.num 2.0))
              (eDiv (eMinus X A) (eTimes (eMinus B A) (eMinus C A)))
  let r3 := eDiv (eTimes (.bin .eq X C) (.num 2.0)) (eMinus B A)
  let r4 := eDiv (eTimes (eTimes (eTimes (.bin .gt X C) (.bin .le X B)) (.num 2.0)) (eMinus B X))
              (eTimes (eMinus B A) (eMinus B C))
  let r5 := eTimes (.bin .gt X B) (.num 0.0)
  .msum [r1, r2, r3, r4, r5]

def logisticcdfE (X MU S : HE α) : HE α :=
  eDiv (.num 1.0) (ePlus (.num 1.0) (.un .exp (eDiv (.un .neg (eMinus X MU)) S)))

/-- `loglikelihoodregression(meas, model, sigma)` -/
def loglikRegE (Y M S : HE α) : HE α :=
  let t := eDiv (eMinus Y M) S
  eMinus (eMinus (eDiv (.un .neg (.powc t 2.0)) (.num 2.0)) (eDiv (.un .log (.powc S 2.0)) (.num 2.0)))
    (.num 0.9189385332)

/-- `likelihoodregression` = `exp(loglikelihoodregression(…))` -/
def likRegE (Y M S : HE α) : HE α := .un .exp (loglikRegE Y M S)

/-- `loglikelihood(prob)` = `log(prob)` -/
def loglikE (P : HE α) : HE α := .un .log P

/-- the terms of one segmentation: `Beta(β_cat) * (variable == Numeric(value))` for the
non-reference entries of the mapping, in dictionary order -/
def segTermsE (beta : String) (s : SegSpec) : List (HE α) :=
  s.kept.map fun kc => eTimes (.beta (paramName beta kc.2)) (.bin .eq (.var s.varName) (.num (Num.int kc.1)))

/-- `Segmentation.segmented_beta()` (also the module-level `segmented_beta`) -/
def segmentedBetaE (beta : String) (specs : List SegSpec) : HE α :=
  .msum (.beta beta :: specs.flatMap (segTermsE beta))

/-- what `exec(segmented_code())` binds: with no term at all the code is the bare reference
parameter, otherwise the `bioMultSum` of the same terms -/
def segmentedCodeE (beta : String) (specs : List SegSpec) : HE α :=
  if (specs.flatMap (segTermsE (α := α) beta)).isEmpty then .beta beta
  else segmentedBetaE beta specs

/-! ## from the text handed to the engine back to a tree -/

open Engine in
/-- the tree of one line, given the trees of the lines already read -/
def nodeOfLine (store : List (Nat × HE α)) (l : SigLine α) : Option (HE α) :=
  let kids := Engine.allSome (l.children.map fun c => store.lookup c)
  match l.kind, kids with
  | .num, some [] => some (.num l.value)
  | .beta, some [] => some (.beta l.name)
  | .var, some [] => some (.var l.name)
  | .powConst, some [a] => some (.powc a l.value)
  | .multSum, some ts => some (.msum ts)
  | .elem, some (key :: bs) => some (.elem key l.keys bs)
  | k, some [a] => if k == .neg || k == .exp || k == .log then some (.un k a) else none
  | k, some [a, b] => if Sig.shapeOf k == .binary then some (.bin k a b) else none
  | _, _ => none

open Engine in
/-- the tree of the last line of a signature (children precede their parents; an id defined
twice keeps its first definition, as in the engine) -/
def ofLines : List (Nat × HE α) → List (SigLine α) → Option (HE α)
  | _, [] => none
  | store, [l] => match store.lookup l.id with
    | some t => some t
    | none => nodeOfLine store l
  | store, l :: rest =>
    match store.lookup l.id with
    | some _ => ofLines store rest
    | none =>
      match nodeOfLine store l with
      | none => none
      | some t => ofLines ((l.id, t) :: store) rest

/-- node-by-node comparison (`eqv` compares literals) -/
def HE.same (eqv : α → α → Bool) : HE α → HE α → Bool
  | .num a, .num b => eqv a b
  | .var a, .var b => a == b
  | .beta a, .beta b => a == b
  | .un k a, .un k' a' => k == k' && HE.same eqv a a'
  | .powc a e, .powc a' e' => eqv e e' && HE.same eqv a a'
  | .bin k a b, .bin k' a' b' => k == k' && HE.same eqv a a' && HE.same eqv b b'
  | .elem key ks bs, .elem key' ks' bs' => ks == ks' && HE.same eqv key key' && sameL bs bs'
  | .msum ts, .msum ts' => sameL ts ts'
  | _, _ => false
where
  sameL : List (HE α) → List (HE α) → Bool
    | [], [] => true
    | a :: as, b :: bs => HE.same eqv a b && sameL as bs
    | _, _ => false

def HE.size : HE α → Nat
  | .num _ | .var _ | .beta _ => 1
  | .un _ a => 1 + a.size
  | .powc a _ => 1 + a.size
  | .bin _ a b => 1 + a.size + b.size
  | .elem key _ bs => 1 + key.size + sizeL bs
  | .msum ts => 1 + sizeL ts
where
  sizeL : List (HE α) → Nat
    | [] => 0
    | a :: as => a.size + sizeL as

end HelpersBuild
