/-
Model of `biogeme.expressions.idmanager.IdManager.prepare` and of the by-name plumbing
around it (value vectors, bounds, dictionaries of values).

Names live in any type `ν` with a decidable strict order (Python strings compared by code
point = Lean's `String` order).  Numbering: sorted free betas ++ sorted fixed betas ++ sorted
random variables ++ sorted draws ++ columns in table order; one name in two places is refused.
Core Lean only.
-/

namespace IdM

variable {ν : Type} [LT ν] [DecidableEq ν] [DecidableRel (α := ν) (· < ·)]

/-- insertion into a strictly sorted list without duplicates -/
def insertS (x : ν) : List ν → List ν
  | [] => [x]
  | y :: t => if x < y then x :: y :: t else if y < x then y :: insertS x t else y :: t

/-- `sorted(dict)`: the distinct names in increasing order -/
def sortDedup (l : List ν) : List ν := l.foldr insertS []

/-- declaration of a parameter as written in a formula (`Beta(name, init, lb, ub, status)`) -/
structure Decl (ν α : Type) where
  name : ν
  fixed : Bool
  init : α
  lb : Option α := none
  ub : Option α := none

/-- `dict(expr, **d)`: the last declaration of a name with the given status wins -/
def lookupLast {α} (ds : List (Decl ν α)) (fixed : Bool) (n : ν) : Option (Decl ν α) :=
  ds.reverse.find? fun d => d.name = n && d.fixed == fixed

structure Table (ν : Type) where
  free : List ν
  fixed : List ν
  rvs : List ν
  draws : List ν
  cols : List ν

def Table.all (t : Table ν) : List ν := t.free ++ t.fixed ++ t.rvs ++ t.draws ++ t.cols

def nodupB : List ν → Bool
  | [] => true
  | x :: t => !t.contains x && nodupB t

def duplicates (l : List ν) : List ν := (l.filter fun x => 1 < l.count x).eraseDups

/-- `IdManager.prepare`: the id table, or the duplicated names -/
def prepare {α} (decls : List (Decl ν α)) (rvs draws cols : List ν) : Except (List ν) (Table ν) :=
  let t : Table ν := {
    free := sortDedup ((decls.filter (!·.fixed)).map (·.name))
    fixed := sortDedup ((decls.filter (·.fixed)).map (·.name))
    rvs := sortDedup rvs
    draws := sortDedup draws
    cols := cols }
  if nodupB t.all then .ok t else .error (duplicates t.all)

/-- position of a name in a list (the id handed to the engine) -/
def indexOf (n : ν) : List ν → Option Nat
  | [] => none
  | x :: t => if x = n then some 0 else (indexOf n t).map (· + 1)

/-- elementary index of a name = position in the concatenation -/
def Table.uid (t : Table ν) (n : ν) : Option Nat := indexOf n t.all

/-- `free_betas_values` as rebuilt by `get_value_and_derivatives(betas=dict)`: the dictionary
value if the name is in the dictionary, else the starting value -/
def freeValues {α} [Inhabited α] (t : Table ν) (decls : List (Decl ν α)) (dict : ν → Option α) : List α :=
  t.free.map fun n => (dict n).getD (((lookupLast decls false n).map (·.init)).getD default)

/-- `fixed_betas_values`: always the declared value (a dictionary does not reach them) -/
def fixedValues {α} [Inhabited α] (t : Table ν) (decls : List (Decl ν α)) : List α :=
  t.fixed.map fun n => ((lookupLast decls true n).map (·.init)).getD default

/-- `IdManager.bounds` -/
def bounds {α} (t : Table ν) (decls : List (Decl ν α)) : List (Option α × Option α) :=
  t.free.map fun n =>
    match lookupLast decls false n with
    | some d => (d.lb, d.ub)
    | none => (none, none)

/-- `BIOGEME.beta_values_dict_to_list`: every free name must be in the dictionary -/
def dictToList {α} (t : Table ν) (dict : ν → Option α) : Option (List α) :=
  t.free.mapM dict

/-- `Beta.change_init_values` over all declarations: named ones take the new value -/
def changeInit {α} (decls : List (Decl ν α)) (dict : ν → Option α) : List (Decl ν α) :=
  decls.map fun d =>
    match dict d.name with
    | some v => { d with init := v }
    | none => d

/-- `Beta.fix_betas` (no prefix/suffix): named ones take the value and become fixed -/
def fixBetas {α} (decls : List (Decl ν α)) (dict : ν → Option α) : List (Decl ν α) :=
  decls.map fun d =>
    match dict d.name with
    | some v => { d with init := v, fixed := true }
    | none => d

end IdM
