/-
C03 — the library's own renamings of parameters.

  * `Expression.rename_elementary(names, prefix, suffix)`: every elementary expression whose name is
    in `names` gets the name `prefix ++ name ++ suffix`;
  * `Expression.fix_betas(beta_values, prefix, suffix)`: every parameter named by the dictionary takes
    the dictionary value, becomes fixed and is renamed in the same way.
The new name is any function `f` of the old one (the driver instantiates it with the prefix/suffix map).
Core Lean only.
-/
import Model.IdManager

namespace IdM

variable {ν : Type} [DecidableEq ν]

/-- `rename_elementary` on the declarations of parameters -/
def renameElem {α} (names : List ν) (f : ν → ν) (decls : List (Decl ν α)) : List (Decl ν α) :=
  decls.map fun d => if names.contains d.name then { d with name := f d.name } else d

/-- `fix_betas` with its renaming -/
def fixBetasRen {α} (decls : List (Decl ν α)) (dict : ν → Option α) (f : ν → ν) : List (Decl ν α) :=
  decls.map fun d =>
    match dict d.name with
    | some v => { d with init := v, fixed := true, name := f d.name }
    | none => d

/-- the prefix/suffix map of the two functions (`None` = nothing added) -/
def affix (pre suf : Option String) (n : String) : String :=
  (pre.getD "") ++ n ++ (suf.getD "")

end IdM
