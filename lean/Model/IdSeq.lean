/-
C03 — the state that lives in one `IdManager` and the operations that read or write it.

One numbering (`Table`) is shared by every evaluation of a formula owned by a `BIOGEME` object, or
prepared once with `Expression.prepare`; the object keeps
  * the declarations (the `Beta` expressions; `change_init_values` rewrites their `initValue`),
  * `free_betas_values`  (rewritten by `get_value_and_derivatives(betas=dict)`, by the function made
    by `create_function`, by `BIOGEME.change_init_values`),
  * `fixed_betas_values` (written once by `prepare`).
`step` is one public call on that state; it returns the new state and the two vectors handed to the
engine (when the call evaluates something).  Core Lean only.
-/
import Model.IdManager

namespace IdM

variable {ν : Type} [LT ν] [DecidableEq ν] [DecidableRel (α := ν) (· < ·)]

/-- the table `IdManager.prepare` builds before it looks for duplicates -/
def mkTable {α} (decls : List (Decl ν α)) (rvs draws cols : List ν) : Table ν :=
  { free := sortDedup ((decls.filter (!·.fixed)).map (·.name))
    fixed := sortDedup ((decls.filter (·.fixed)).map (·.name))
    rvs := sortDedup rvs
    draws := sortDedup draws
    cols := cols }

/-- the five kinds of element, in numbering order: 0 free parameters, 1 fixed parameters,
2 random variables of numerical integration, 3 draws, 4 columns of the database -/
def Table.kind (t : Table ν) : Nat → List ν
  | 0 => t.free
  | 1 => t.fixed
  | 2 => t.rvs
  | 3 => t.draws
  | 4 => t.cols
  | _ => []

/-- what one `IdManager` (and the `Beta` expressions behind it) remembers between two calls -/
structure St (ν α : Type) where
  decls : List (Decl ν α)
  vec : List α
  fixedVec : List α

/-- the public calls that read or write that state -/
inductive Op (ν α : Type) where
  /-- `get_value_c / get_value_and_derivatives (betas=dict, prepare_ids=False)` -/
  | evalDict (d : ν → Option α)
  /-- the same with `betas=None`: the stored vector is used as it is -/
  | evalNone
  /-- the function returned by `create_function`, called on a vector in reported order -/
  | setVector (x : List α)
  /-- `Expression.change_init_values`: rewrites the declarations only -/
  | changeInitE (d : ν → Option α)
  /-- `BIOGEME.change_init_values`: rewrites the declarations and the named entries of the vector -/
  | changeInitB (d : ν → Option α)

/-- state just after `prepare` -/
def initSt {α} [Inhabited α] (t : Table ν) (decls : List (Decl ν α)) : St ν α :=
  { decls := decls, vec := freeValues t decls (fun _ => none), fixedVec := fixedValues t decls }

/-- one call: new state, and (free vector, fixed vector) handed to the engine if it evaluates -/
def step {α} [Inhabited α] (t : Table ν) (s : St ν α) : Op ν α → St ν α × Option (List α × List α)
  | .evalDict d =>
    let v := freeValues t s.decls d
    ({ s with vec := v }, some (v, s.fixedVec))
  | .evalNone => (s, some (s.vec, s.fixedVec))
  | .setVector x =>
    if x.length = t.free.length then ({ s with vec := x }, some (x, s.fixedVec)) else (s, none)
  | .changeInitE d => ({ s with decls := changeInit s.decls d }, none)
  | .changeInitB d =>
    ({ s with decls := changeInit s.decls d,
              vec := (t.free.zip s.vec).map fun (n, v) => (d n).getD v }, none)

/-- state after a sequence of calls -/
def runState {α} [Inhabited α] (t : Table ν) (s : St ν α) : List (Op ν α) → St ν α
  | [] => s
  | o :: os => runState t (step t s o).1 os

/-- what the engine received at each call of a sequence -/
def run {α} [Inhabited α] (t : Table ν) (s : St ν α) : List (Op ν α) → List (Option (List α × List α))
  | [] => []
  | o :: os => (step t s o).2 :: run t (step t s o).1 os

/-- the declarations after a sequence of calls: only the two `change_init_values` touch them -/
def declsAfter {α} (decls : List (Decl ν α)) : List (Op ν α) → List (Decl ν α)
  | [] => decls
  | .changeInitE d :: os => declsAfter (changeInit decls d) os
  | .changeInitB d :: os => declsAfter (changeInit decls d) os
  | _ :: os => declsAfter decls os

end IdM
