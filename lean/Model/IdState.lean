/-
The *state* of the numbering: which `IdManager` every node of a formula currently holds, and how
`Expression.set_id_manager`, `Expression.prepare` and the `prepare_ids=True` bracket of
`Expression.get_value_and_derivatives` move it (`base_expressions.py`, `beta_parameters.py`,
`elementary_expressions.py`).

One Python object per DAG node.  Every node stores a reference `id_manager`; a parameter or a
variable stores, *assigned at the same moment*, its `elementaryIndex` and `betaId`/`variableId`
read from that manager.  The state is therefore a map node ↦ handle of a manager (or `None`), and
a list of the managers (id tables) created so far; the ids a leaf writes in its signature line are
those of the table of the manager *the leaf itself* holds, while the value vectors handed to the
engine are those of the manager the *evaluated node* holds.

* `setMgr`     : `set_id_manager(m)` — recursive over the sub-formula;
* `persist`    : `IdManager(formulas, database, 0)` + `set_id_manager` on each (what
                 `BIOGEME.reset_id_manager` does, and what a caller does by hand);
* `functionAt` : the preamble of `Expression.create_function`;
* `aloneAt`    : evaluation with `prepare_ids=True`: remember the manager of the evaluated node,
                 renumber the sub-formula on its own, evaluate, put the remembered manager back on the
                 whole sub-formula (`KeyError` ⇒ reset to `None`);
* `runSt`      : evaluation in the current state (`prepare_ids=False`).
Core Lean only.
-/
import Model.Engine

namespace IdState
open Expr Engine

structure St where
  mgr : Nat → Option Nat
  tables : List (IdM.Table String)

def St.init : St := { mgr := fun _ => none, tables := [] }

variable {α : Type}

/-- the nodes of the sub-formula `k` (with repetitions, in the order `set_id_manager` visits them) -/
def reach (d : Dag α) : Nat → Nat → List Nat
  | 0, _ => []
  | fuel + 1, k =>
    match d[k]? with
    | none => []
    | some n => k :: n.children.flatMap (reach d fuel)

def reachOf (d : Dag α) (k : Nat) : List Nat := reach d (k + 1) k

/-- `set_id_manager(m)` on the nodes `R` -/
def setMgr (st : St) (R : List Nat) (m : Option Nat) : St :=
  { st with mgr := fun j => if R.contains j then m else st.mgr j }

/-- the id table a node currently refers to -/
def tableAt (st : St) (j : Nat) : Option (IdM.Table String) := (st.mgr j).bind (st.tables[·]?)

/-- the parameters declared by a list of nodes -/
def declsOfNodes (ns : List (Node α)) : List (IdM.Decl String α) :=
  (ns.filter (·.kind == .beta)).map fun n => { name := n.name, fixed := n.fixed, init := n.value }

def nodesAt (d : Dag α) (R : List Nat) : List (Node α) := R.filterMap (d[·]?)

/-- `IdManager(expressions, database, 0)` for the sub-formulas `R` -/
def tableFor (d : Dag α) (R : List Nat) (cols : List String) : Except (List String) (IdM.Table String) :=
  IdM.prepare (declsOfNodes (nodesAt d R)) [] [] cols

variable [NumOps α]

/-- does the table know every parameter / variable of the nodes `R` (otherwise
`Elementary.set_id_manager` raises `KeyError`) -/
def knows (t : IdM.Table String) (d : Dag α) (R : List Nat) : Bool :=
  R.all fun j =>
    match d[j]? with
    | some n => nodeNamesOK t n
    | none => true

/-- one numbering for several formulas side by side -/
def persist (st : St) (d : Dag α) (roots : List Nat) (cols : List String) : Except (List String) St :=
  let R := roots.flatMap (reachOf d)
  match tableFor d R cols with
  | .error e => .error e
  | .ok t => .ok (setMgr { st with tables := st.tables ++ [t] } R (some st.tables.length))

/-- `Expression.prepare`: reset, number the sub-formula on its own, propagate -/
def prepareAt (st : St) (d : Dag α) (k : Nat) (cols : List String) : Except (List String) St :=
  persist st d [k] cols

/-- is the node a parameter or a variable -/
def isLeaf (n : Node α) : Bool :=
  match n.kind with
  | .beta | .var => true
  | _ => false

inductive FnPre
  | fresh (st : St)      -- no leaf had ids: a new manager for this formula
  | kept                 -- every leaf has ids: nothing changes
  | mixed                -- "IDs are defined for some expressions but not for some"
  | dup (names : List String)

/-- preamble of `create_function`: `get_status_id_manager` then, if no leaf has ids, a new manager -/
def functionAt (st : St) (d : Dag α) (k : Nat) (cols : List String) : FnPre :=
  let R := reachOf d k
  let leaves := R.filter fun j => match d[j]? with | some n => isLeaf n | none => false
  let withId := leaves.filter fun j => (st.mgr j).isSome
  let without := leaves.filter fun j => (st.mgr j).isNone
  if without.isEmpty then .kept
  else if !withId.isEmpty then .mixed
  else match persist st d [k] cols with
    | .ok st' => .fresh st'
    | .error e => .dup e

/-- the end of the `prepare_ids=True` bracket: `set_id_manager(keep)`, on `KeyError` `set_id_manager(None)` -/
def restoreAt (st : St) (d : Dag α) (k : Nat) (keep : Option Nat) : St :=
  let R := reachOf d k
  match keep with
  | none => setMgr st R none
  | some h =>
    match st.tables[h]? with
    | none => setMgr st R none
    | some t => if knows t d R then setMgr st R (some h) else setMgr st R none

def emptyTable : IdM.Table String := { free := [], fixed := [], rvs := [], draws := [], cols := [] }

/-- the signature line a node writes in the current state -/
def lineSt (st : St) (j : Nat) (n : Node α) : SigLine α :=
  match tableAt st j with
  | some t => lineOf t j n
  | none => lineOf emptyTable j n

/-- a leaf without ids cannot write its line ("No id has been defined") -/
def nodeOK (st : St) (d : Dag α) (j : Nat) : Bool :=
  match d[j]? with
  | none => true
  | some n =>
    match tableAt st j with
    | some t => nodeNamesOK t n
    | none => !isLeaf n

/-- post-order serialisation with an arbitrary line writer -/
def emitL (line : Nat → Node α → SigLine α) (d : Dag α) : Nat → Nat → List (SigLine α)
  | 0, _ => []
  | fuel + 1, k =>
    match d[k]? with
    | none => []
    | some n => (n.children.flatMap (emitL line d fuel)) ++ [line k n]

/-- `get_signature()` of node `k` in the current state -/
def sigSt (st : St) (d : Dag α) (k : Nat) : Option (List (SigLine α)) :=
  if (reachOf d k).all (nodeOK st d) then some (emitL (lineSt st) d (k + 1) k) else none

/-- evaluation of node `k` in the current state (the vectors `ee` are those of the manager of `k`) -/
def runSt (st : St) (d : Dag α) (k : Nat) (ee : EngEnv α) : Res α :=
  if !(reachOf d k).all (nodeOK st d) then .error .missing else
  match (load [] (emitL (lineSt st) d (k + 1) k)).find k with
  | none => .error .dangling
  | some f => f ee

/-- evaluation with `prepare_ids=False`: refused when the node holds no manager -/
def ctxAt (st : St) (d : Dag α) (k : Nat) (ee : EngEnv α) : Option (Res α) :=
  match st.mgr k with
  | none => none
  | some _ => some (runSt st d k ee)

/-- evaluation with `prepare_ids=True`: the state in which the engine is called, and the state left behind -/
def aloneAt (st : St) (d : Dag α) (k : Nat) (cols : List String) : Except (List String) (St × St) :=
  match prepareAt st d k cols with
  | .error e => .error e
  | .ok st1 => .ok (st1, restoreAt st1 d k (st.mgr k))

/-- several evaluations with `prepare_ids=True` in a row (what the audit of a logit does with the choice and
the availabilities — `Database.check_availability_of_chosen_alt` — before the formula that contains them
is evaluated) -/
def aloneSeq (st : St) (d : Dag α) (cols : List String) : List Nat → Except (List String) St
  | [] => .ok st
  | k :: ks =>
    match aloneAt st d k cols with
    | .error e => .error e
    | .ok (_, st2) => aloneSeq st2 d cols ks

/-- what a restoration of the evaluated node's *own reference only* would leave (the state is then
no longer uniform: the leaves keep the temporary numbering) -/
def restoreShallow (st : St) (k : Nat) (keep : Option Nat) : St :=
  { st with mgr := fun j => if j = k then keep else st.mgr j }

end IdState
