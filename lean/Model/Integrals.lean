/-
Model of simulated integrals (src/biogeme/database.py generate_draws /
set_random_number_generators, expressions/idmanager.py prepare (draws), elementary_expressions.py
bioDraws, unary_expressions.py MonteCarlo / Derive, biogeme.py seed; engine bioExprMontecarlo,
bioExprDraws, bioExprDerive — modelled, not verified).

* `IdManager.prepare`: the draw variables of all formulas are collected in a dict by name,
  `names = sorted(dict)`, `drawId(name)` = position in `names`, `draw_types()` = name ↦ declared type;
* `Database.generate_draws(types, names, R)`: for the i-th name, the generator registered for its
  type (native catalogue first, then the user-defined ones, else `BiogemeError`) is called with
  `(sample size, R)`; its output must have that shape (else `BiogemeError`); the per-variable
  tables are stacked (`np.array`, axes [variable][observation][draw]) and the first axis is moved
  to the end (`np.moveaxis(·, 0, -1)`, axes [observation][draw][variable]);
* `set_random_number_generators(rng)`: a key that is a native type name ⇒ `ValueError`;
* engine: `bioDraws` reads `draws[individual][drawIndex][drawId]`; `MonteCarlo` =
  `(Σ_{r<R} child at draw index r) / R`; `Derive(e, name)` = gradient entry of `e` w.r.t. the
  literal `name`;
* `IdManager.prepare`: all literals are numbered together — free betas, fixed betas, random
  variables, draw variables (each group sorted by name), database columns (in their order);
  `Derive.get_signature` writes `elementary_expressions.indices[name]`; the engine's
  `bioExprDerive` asks its child for the gradient w.r.t. that one literal id;
* `BIOGEME.__init__`: `if seed != 0: np.random.seed(seed)`, before anything else uses the generator.

Core Lean only.
-/
import Model.Num

namespace Integrals
open Num

/-! ## names, ids, dispatch -/

/-- `sorted(dict_of_draws)` : distinct names in lexicographic (code point) order -/
def sortNames (names : List String) : List String :=
  (names.eraseDups).mergeSort (fun a b => decide (a ≤ b))

/-- `bioDraws.drawId` -/
def drawId (names : List String) (name : String) : Nat := (sortNames names).idxOf name

inductive Source where
  | native (ty : String)
  | user (ty : String)
deriving Repr, DecidableEq

inductive Err where
  | unknownType        -- BiogemeError "Unknown type of draws"
  | wrongShape         -- BiogemeError "must generate a numpy array of dimensions"
  | reservedKeyword    -- ValueError in set_random_number_generators
deriving Repr, DecidableEq

/-- which generator serves a declared type -/
def dispatch (native user : List String) (ty : String) : Except Err Source :=
  if native.contains ty then .ok (.native ty)
  else if user.contains ty then .ok (.user ty)
  else .error .unknownType

/-- `set_random_number_generators`: the new dictionary of user generators, or the refusal -/
def setUserGenerators (native : List String) (rng : List String) : Except Err (List String) :=
  if native.any (fun k => rng.contains k) then .error .reservedKeyword else .ok rng

/-! ## the draw table -/

variable {α : Type}

/-- a generator's output as rows: `N` lists of `R` numbers; shape test of `generate_draws` -/
def shapeOk (tbl : List (List α)) (N R : Nat) : Bool :=
  tbl.length == N && tbl.all (fun row => row.length == R)

/-- `np.moveaxis(np.array(list_of_draws), 0, -1)`: [variable][obs][draw] ↦ [obs][draw][variable] -/
def moveAxis (dflt : α) (stack : List (List (List α))) (N R : Nat) : List (List (List α)) :=
  (List.range N).map fun n => (List.range R).map fun r =>
    stack.map fun series => (series.getD n []).getD r dflt

/-- the loop of `generate_draws` over the names: one checked table per name, or the first error -/
def collect (native user : List String) (typeOf : String → String)
    (gen : Source → Nat → Nat → List (List α)) (N R : Nat) : List String → Except Err (List (List (List α)))
  | [] => .ok []
  | name :: rest =>
    match dispatch native user (typeOf name) with
    | .error e => .error e
    | .ok src =>
      let tbl := gen src N R
      if shapeOk tbl N R then
        match collect native user typeOf gen N R rest with
        | .error e => .error e
        | .ok t => .ok (tbl :: t)
      else .error .wrongShape

/-- `generate_draws(types, names, R)` for the names in the order given (the id manager passes the
sorted names).  `gen src N R` is the table the generator of that source returns. -/
def generateDraws (dflt : α) (native user : List String) (typeOf : String → String)
    (gen : Source → Nat → Nat → List (List α)) (names : List String) (N R : Nat) :
    Except Err (List (List (List α))) :=
  match collect native user typeOf gen N R names with
  | .error e => .error e
  | .ok stack => .ok (moveAxis dflt stack N R)

/-- entry read by the engine for draw variable `k` of observation `n` at draw `r` -/
def entry (dflt : α) (table : List (List (List α))) (n r k : Nat) : α :=
  ((table.getD n []).getD r []).getD k dflt

/-! ## a small integrand family and the Monte-Carlo operator -/

/-- formulas of this property: parameters by position, data columns by position, draw variables by
*name* -/
inductive IExpr where
  | num (m : Nat) (neg : Bool) (e : Nat)     -- ±m·10^(−e)
  | nat (k : Nat)
  | beta (i : Nat)
  | var (j : Nat)
  | draw (name : String)
  | add (a b : IExpr)
  | sub (a b : IExpr)
  | mul (a b : IExpr)
  | exp (a : IExpr)
deriving Repr

section eval
variable [NumOps α]

def litVal (m : Nat) (neg : Bool) (e : Nat) : α :=
  let v : α := NumOps.ofScientific m true e
  if neg then -v else v

/-- value of an integrand given parameters, one row and a value for each draw *name* -/
def evalI (betas row : List α) (xi : String → α) : IExpr → α
  | .num m neg e => litVal m neg e
  | .nat k => NumOps.ofNat k
  | .beta i => betas.getD i 0
  | .var j => row.getD j 0
  | .draw name => xi name
  | .add a b => evalI betas row xi a + evalI betas row xi b
  | .sub a b => evalI betas row xi a - evalI betas row xi b
  | .mul a b => evalI betas row xi a * evalI betas row xi b
  | .exp a => Num.exp (evalI betas row xi a)

/-- names of the draw variables occurring in a formula -/
def drawsOf : IExpr → List String
  | .draw name => [name]
  | .add a b => drawsOf a ++ drawsOf b
  | .sub a b => drawsOf a ++ drawsOf b
  | .mul a b => drawsOf a ++ drawsOf b
  | .exp a => drawsOf a
  | _ => []

/-- engine `MonteCarlo` for observation `n`: `sum = 0; for r < R: sum += child; sum / R`, the draw
variable `name` reading `table[n][r][drawId name]` -/
def monteCarlo (names : List String) (table : List (List (List α))) (betas row : List α) (n R : Nat)
    (e : IExpr) : α :=
  ((List.range R).foldl
    (fun acc r => acc + evalI betas row (fun name => entry 0 table n r (drawId names name)) e) 0) / nat R

/-- symbolic derivative w.r.t. parameter `i` (the engine's `Derive` on this family) -/
def diffBeta (i : Nat) : IExpr → IExpr
  | .num _ _ _ => .nat 0
  | .nat _ => .nat 0
  | .beta k => if k = i then .nat 1 else .nat 0
  | .var _ => .nat 0
  | .draw _ => .nat 0
  | .add a b => .add (diffBeta i a) (diffBeta i b)
  | .sub a b => .sub (diffBeta i a) (diffBeta i b)
  | .mul a b => .add (.mul (diffBeta i a) b) (.mul a (diffBeta i b))
  | .exp a => .mul (.exp a) (diffBeta i a)

/-- symbolic derivative w.r.t. data column `j` -/
def diffVar (j : Nat) : IExpr → IExpr
  | .num _ _ _ => .nat 0
  | .nat _ => .nat 0
  | .beta _ => .nat 0
  | .var k => if k = j then .nat 1 else .nat 0
  | .draw _ => .nat 0
  | .add a b => .add (diffVar j a) (diffVar j b)
  | .sub a b => .sub (diffVar j a) (diffVar j b)
  | .mul a b => .add (.mul (diffVar j a) b) (.mul a (diffVar j b))
  | .exp a => .mul (.exp a) (diffVar j a)

/-- engine `bioExprDerive(child, literalId)`: every elementary expression of the formula (parameter,
data column, draw variable) is a *literal* carrying the unique id written in its own signature line;
the derivative of a literal w.r.t. the requested id is `1` iff the two ids are equal, else `0`
(`bioExprLiteral::getValueAndDerivatives`); the operators propagate by the usual rules.
`bid`, `vid`, `did` give the id of the parameter at position `i`, of the data column at position `j`
and of the draw variable `name`. -/
def diffLit (lit : Nat) (bid vid : Nat → Nat) (did : String → Nat) : IExpr → IExpr
  | .num _ _ _ => .nat 0
  | .nat _ => .nat 0
  | .beta k => if bid k = lit then .nat 1 else .nat 0
  | .var k => if vid k = lit then .nat 1 else .nat 0
  | .draw n => if did n = lit then .nat 1 else .nat 0
  | .add a b => .add (diffLit lit bid vid did a) (diffLit lit bid vid did b)
  | .sub a b => .sub (diffLit lit bid vid did a) (diffLit lit bid vid did b)
  | .mul a b => .add (.mul (diffLit lit bid vid did a) b) (.mul a (diffLit lit bid vid did b))
  | .exp a => .mul (.exp a) (diffLit lit bid vid did a)

end eval

/-! ## the global numbering of the literals (`IdManager.prepare`) and `Derive.get_signature` -/

/-- `elementary_expressions.names`: free parameters, fixed parameters, random variables of numerical
integration, draw variables (each group `sorted(dict)`), then the columns of the database in their
own order -/
def allLiterals (free fixed rvs draws cols : List String) : List String :=
  sortNames free ++ sortNames fixed ++ sortNames rvs ++ sortNames draws ++ cols

/-- `elementary_expressions.indices[name]`, the id written in the literal's signature line and the
one `Derive.get_signature` sends to the engine for the name it was given (the id manager refuses
formulas in which one name denotes two literals) -/
def literalIndex (all : List String) (name : String) : Nat := all.idxOf name

/-- value of `Derive(e, name)` as the engine computes it for one row and one value of every draw
variable: `e` differentiated w.r.t. the literal whose id is the global index of `name`; `bname i` /
`vname j` are the names of the parameter at position `i` / the data column at position `j` -/
def deriveNamed (all : List String) (bname vname : Nat → String) (name : String) (e : IExpr) : IExpr :=
  diffLit (literalIndex all name) (fun i => literalIndex all (bname i))
    (fun j => literalIndex all (vname j)) (fun n => literalIndex all n) e

/-! ## seeding -/

/-- `BIOGEME.__init__`: `if seed != 0: np.random.seed(seed)` — state of the generator afterwards -/
def seedPolicy {σ : Type} (fresh : Nat → σ) (seed : Nat) (current : σ) : σ :=
  if seed ≠ 0 then fresh seed else current

end Integrals
