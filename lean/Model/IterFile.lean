/-
Model of the saved-iteration file of `BIOGEME` (src/biogeme/biogeme.py):

* `calculate_likelihood_and_derivatives` : after each evaluation with a finite
  gradient norm and `save_iterations` on,
      if bestIteration is None: bestIteration = f
      if f >= bestIteration:   bestIteration = f ; rewrite the file
  (the file is written to `<file>.tmp` and then moved over `<file>`).
* `estimate` : `_load_saved_iteration()` then `bestIteration = None`.
* `_load_saved_iteration` : every line is split at the last '=', the name is
  stripped, the value is converted by `float`.

Values are opaque tokens (what Python's `str(float)` printed); names are strings
modelled as `List Char`.  Core Lean only.
-/

namespace IterFile

/-! ## the state machine -/

/-- One evaluation issued by an optimiser: the point, its log likelihood and whether
the gradient norm was finite. -/
structure Eval (α : Type) where
  x : List String
  f : α
  finite : Bool
deriving Repr

structure St (α : Type) where
  best : Option α
  file : Option (List String)        -- the values in the file (one per free name), if it exists
deriving Repr

/-- `BIOGEME.estimate`: the best-so-far marker is reset, the file stays. -/
def reset {α} (s : St α) : St α := { s with best := none }

/-- branch structure of `calculate_likelihood_and_derivatives` (save_iterations on).
`ge a b` is Python's `a >= b`. -/
def step {α} (ge : α → α → Bool) (s : St α) (e : Eval α) : St α :=
  if !e.finite then s
  else
    let b := match s.best with
      | none => e.f
      | some b => b
    if ge e.f b then { best := some e.f, file := some e.x }
    else { s with best := some b }

def run {α} (ge : α → α → Bool) (s : St α) (h : List (Eval α)) : St α := h.foldl (step ge) s

/-- all intermediate file contents (what the harness observes after every call) -/
def trace {α} (ge : α → α → Bool) (s : St α) : List (Eval α) → List (Option (List String))
  | [] => []
  | e :: t => let s' := step ge s e; s'.file :: trace ge s' t

/-! ## text of the file -/

def isBlank (c : Char) : Bool := c = ' ' || c = '\t' || c = '\n' || c = '\r' || c = '\x0b' || c = '\x0c'

def lstrip : List Char → List Char
  | [] => []
  | c :: t => if isBlank c then lstrip t else c :: t

def rstrip (l : List Char) : List Char := (lstrip l.reverse).reverse

def strip (l : List Char) : List Char := rstrip (lstrip l)

/-- `line.rsplit("=", 1)`: split at the last '='; `none` when there is no '='
(Python then raises IndexError on `ell[1]`). -/
def rsplitEq : List Char → Option (List Char × List Char)
  | [] => none
  | c :: t =>
    match rsplitEq t with
    | some (a, b) => some (c :: a, b)
    | none => if c = '=' then some ([], t) else none

/-- one line as printed: `print(f"{name} = {v}", file=pf)` (without the newline) -/
def renderLine (name value : List Char) : List Char := name ++ [' ', '=', ' '] ++ value

/-- one line as read back: name stripped, value stripped (`float` ignores blanks) -/
def parseLine (line : List Char) : Option (List Char × List Char) :=
  match rsplitEq line with
  | none => none
  | some (a, b) => some (strip a, strip b)

def NameOK (n : List Char) : Prop := strip n = n
def ValueOK (v : List Char) : Prop := '=' ∉ v ∧ strip v = v

/-- `_load_saved_iteration` followed by `change_init_values`: the values of the file
override the starting values of the names it contains. -/
def restart (inits : List (String × String)) (file : Option (List (String × String))) :
    List (String × String) :=
  match file with
  | none => inits
  | some entries => inits.map fun (n, v) =>
      match entries.reverse.lookup n with    -- later lines win, as in a dict
      | some w => (n, w)
      | none => (n, v)

/-! ## the write protocol and crashes -/

inductive FsOp where
  | openTrunc (path : String)            -- open(path, "w")
  | write (path : String) (chunk : String)
  | close (path : String)
  | replace (src dst : String)           -- os.replace(src, dst)
deriving Repr, DecidableEq

abbrev Dir := List (String × String)     -- path ↦ content

def Dir.get (d : Dir) (p : String) : Option String := d.lookup p
def Dir.set (d : Dir) (p : String) (c : String) : Dir := (p, c) :: d.filter (·.1 != p)
def Dir.del (d : Dir) (p : String) : Dir := d.filter (·.1 != p)

def applyOp (d : Dir) : FsOp → Dir
  | .openTrunc p => d.set p ""
  | .write p c => d.set p ((d.get p).getD "" ++ c)
  | .close _ => d
  | .replace s t =>
    match d.get s with
    | some c => (d.del s).set t c
    | none => d

def applyOps (d : Dir) (ops : List FsOp) : Dir := ops.foldl applyOp d

/-- the protocol of the repaired code: write everything to `tmp`, then rename -/
def protocol (tmp file : String) (chunks : List String) : List FsOp :=
  [.openTrunc tmp] ++ chunks.map (.write tmp) ++ [.close tmp, .replace tmp file]

/-- the protocol of the code before the repair: rewrite in place -/
def protocolInPlace (file : String) (chunks : List String) : List FsOp :=
  [.openTrunc file] ++ chunks.map (.write file) ++ [.close file]

/-- state of the directory when the process stops after `k` primitive operations -/
def crash (d : Dir) (ops : List FsOp) (k : Nat) : Dir := applyOps d (ops.take k)

def concat (chunks : List String) : String := chunks.foldl (· ++ ·) ""

/-- executable check used by the driver on the trace recorded from the real code -/
def crashSafeB (d : Dir) (ops : List FsOp) (file : String) (newContent : String) : Bool :=
  (List.range (ops.length + 1)).all fun k =>
    let c := (crash d ops k).get file
    c == d.get file || c == some newContent

/-! ## the write protocol with user-space buffers (round 3)

The primitives recorded from the real code are the calls on the Python file object and on `os`:
a `write` only appends to the buffer of the handle; the text reaches the file at `flush`/`close`
(a stopped process loses its buffers).  `os.replace` switches the directory entry atomically; a
handle that is still open follows its file (it now writes into the published name), a handle on
the replaced file is orphaned. -/

inductive BOp where
  | openTrunc (h : String)                 -- `open(h, "w")`: file created/truncated, empty buffer
  | write (h : String) (chunk : String)    -- `pf.write(chunk)`: buffered
  | flush (h : String)                     -- `pf.flush()`
  | close (h : String)                     -- `pf.close()` / end of the `with` block: flush, handle gone
  | replace (src dst : String)             -- `os.replace(src, dst)` / `os.rename`
  | remove (p : String)                    -- `os.remove(p)` / `os.unlink`
deriving Repr, DecidableEq

/-- an open handle: the path it was opened with (its identity in the recorded trace), the path
under which its file is visible now (`none`: replaced or removed), the text not yet in the file -/
structure Handle where
  id : String
  cur : Option String
  buf : String
deriving Repr, DecidableEq

structure Fs where
  disk : Dir
  hs : List Handle
deriving Repr

/-- the buffer of handle `h` reaches the file it refers to -/
def flushH (fs : Fs) (h : String) : Fs :=
  match fs.hs.find? (·.id == h) with
  | none => fs
  | some hd =>
    { disk := match hd.cur with
        | some q => fs.disk.set q ((fs.disk.get q).getD "" ++ hd.buf)
        | none => fs.disk
      hs := fs.hs.map fun x => if x.id == h then { x with buf := "" } else x }

def applyB (fs : Fs) : BOp → Fs
  | .openTrunc p =>
    { disk := fs.disk.set p "", hs := ⟨p, some p, ""⟩ :: fs.hs.filter (·.id != p) }
  | .write h c => { fs with hs := fs.hs.map fun x => if x.id == h then { x with buf := x.buf ++ c } else x }
  | .flush h => flushH fs h
  | .close h => let fs' := flushH fs h; { fs' with hs := fs'.hs.filter (·.id != h) }
  | .replace s t =>
    if s == t then fs else
    match fs.disk.get s with
    | none => fs                            -- FileNotFoundError in the real code
    | some c =>
      { disk := (fs.disk.del s).set t c
        hs := fs.hs.map fun x =>
          if x.cur == some t then { x with cur := none }
          else if x.cur == some s then { x with cur := some t } else x }
  | .remove p =>
    { disk := fs.disk.del p
      hs := fs.hs.map fun x => if x.cur == some p then { x with cur := none } else x }

def applyBs (fs : Fs) (ops : List BOp) : Fs := ops.foldl applyB fs

/-- what is on disk when the process stops after `k` primitives (the buffers are lost) -/
def crashB (d : Dir) (ops : List BOp) (k : Nat) : Dir := (applyBs ⟨d, []⟩ (ops.take k)).disk

/-- the protocol of the code: everything written to `tmp`, `tmp` closed, then renamed -/
def protocolB (tmp file : String) (chunks : List String) : List BOp :=
  [.openTrunc tmp] ++ chunks.map (.write tmp) ++ [.close tmp, .replace tmp file]

/-- the same statements with the rename INSIDE the `with` block: published before it is closed -/
def protocolReplaceBeforeClose (tmp file : String) (chunks : List String) : List BOp :=
  [.openTrunc tmp] ++ chunks.map (.write tmp) ++ [.replace tmp file, .close tmp]

/-- rewrite in place with buffers -/
def protocolInPlaceB (file : String) (chunks : List String) : List BOp :=
  [.openTrunc file] ++ chunks.map (.write file) ++ [.close file]

/-- executable form of "the primitive touches only the handle / the path `tmp` and publishes nothing" -/
def onlyTmpOp (tmp : String) : BOp → Bool
  | .openTrunc p => p == tmp
  | .write p _ => p == tmp
  | .flush p => p == tmp
  | .close p => p == tmp
  | .replace _ _ => false
  | .remove _ => false

/-- the family of shapes "anything on the temporary file, then one rename as the LAST primitive"
(explicit flushes, one write or many, ...): decided by the driver on a recorded trace -/
def tmpThenReplace (ops : List BOp) (tmp file : String) : Bool :=
  tmp != file && ops.getLast? == some (.replace tmp file) && ops.dropLast.all (onlyTmpOp tmp)

/-- the crash points (number of completed primitives) after which the published file is neither
what it was nor the complete new content: decided by the model on the recorded trace -/
def unsafePoints (d : Dir) (ops : List BOp) (file newContent : String) : List Nat :=
  (List.range (ops.length + 1)).filter fun k =>
    let c := (crashB d ops k).get file
    !(c == d.get file || c == some newContent)

/-! ## sessions on one object: several entry points, option combinations, renames

One `BIOGEME` object receives a sequence of public calls.  Every derivative evaluation
(`calculate_likelihood_and_derivatives` called directly with any `scaled/hessian/bhhh`,
or through `check_derivatives`, `likelihood_finite_difference_hessian`, the optimiser
inside `estimate`/`quick_estimate`) runs the same save block *before* the division by
the sample size: the marker `bestIteration` is always compared with the log likelihood
on the data, whatever `scaled` is.  `modelName` is a plain attribute read at every save
(`_save_iterations_file_name` builds the name each time): the file written is the one of
the name the object has *at that evaluation*.  `estimate` resets the marker and nothing
else does (`quick_estimate`, a rename do not). -/

inductive Op (α : Type) where
  /-- one derivative evaluation; `e.f` is the log likelihood on the data (what the engine
  returns), `scaled` the flag of the call (the caller receives `f / N` when it is on) -/
  | eval (e : Eval α) (scaled : Bool)
  /-- `biogeme.modelName = name` -/
  | rename (name : String)
  /-- `estimate()`: `bestIteration = None` (the evaluations of the optimiser follow as `eval`) -/
  | reset
  /-- one derivative evaluation issued while the engine holds a bootstrap resample (the loop of
  `estimate(run_bootstrap=True)`): its value is not a log likelihood on the estimation data.
  Repaired code (finding F-C15-boot): saving is suspended, neither marker nor file change. -/
  | bootEval (e : Eval α)
deriving Repr

/-- `_save_iterations_file_name`: the file of a model is `__<modelName>.iter`, every character of the name kept -/
def iterFileName (n : String) : String := "__" ++ n ++ ".iter"

/-- model name ↦ values in `__<name>.iter` -/
abbrev Files := List (String × List String)

def Files.get (d : Files) (n : String) : Option (List String) := d.lookup n
def Files.set (d : Files) (n : String) (v : List String) : Files := (n, v) :: d.filter (·.1 != n)

structure Sess (α : Type) where
  name : String
  best : Option α
  files : Files
deriving Repr

/-- the save block of `calculate_likelihood_and_derivatives` rewrites the file iff the
gradient is finite and `f >= bestIteration` (after `bestIteration = f` when it was None) -/
def saves {α} (ge : α → α → Bool) (best : Option α) (e : Eval α) : Bool :=
  e.finite && ge e.f (best.getD e.f)

def sstep {α} (ge : α → α → Bool) (s : Sess α) : Op α → Sess α
  | .eval e _ =>
    { name := s.name
      best := (step ge ⟨s.best, none⟩ e).best
      files := if saves ge s.best e then s.files.set s.name e.x else s.files }
  | .rename n => { s with name := n }
  | .reset => { s with best := none }
  | .bootEval _ => s

def srun {α} (ge : α → α → Bool) (s : Sess α) (ops : List (Op α)) : Sess α :=
  ops.foldl (sstep ge) s

/-- the files after every operation (what the harness observes) -/
def strace {α} (ge : α → α → Bool) (s : Sess α) : List (Op α) → List Files
  | [] => []
  | o :: t => let s' := sstep ge s o; s'.files :: strace ge s' t

/-- a segment of a session between two estimations: no `reset` inside -/
def NoReset {α} : List (Op α) → Prop
  | [] => True
  | .reset :: _ => False
  | _ :: t => NoReset t

/-- every evaluation of a session together with the model name the object had when it was
issued -/
def namedEvals {α} (name : String) : List (Op α) → List (String × Eval α)
  | [] => []
  | .eval e _ :: t => (name, e) :: namedEvals name t
  | .rename n :: t => namedEvals n t
  | .reset :: t => namedEvals name t
  | .bootEval _ :: t => namedEvals name t

/-! ## several objects in one working directory (round 3)

Every `BIOGEME` object has its own `modelName` and its own marker `bestIteration`; the files are
those of the working directory, shared by all objects (two objects with the same model name write
the same file; `estimate_catalog` and `validate` create one object per model). -/

structure Obj (α : Type) where
  name : String
  best : Option α
deriving Repr

structure World (α : Type) where
  objs : List (Obj α)
  files : Files
deriving Repr

/-- operation `p.2` on object number `p.1` (an unknown number: nothing happens) -/
def wstep {α} (ge : α → α → Bool) (w : World α) (p : Nat × Op α) : World α :=
  match w.objs[p.1]? with
  | none => w
  | some o =>
    let s' := sstep ge ⟨o.name, o.best, w.files⟩ p.2
    { objs := w.objs.set p.1 ⟨s'.name, s'.best⟩, files := s'.files }

def wrun {α} (ge : α → α → Bool) (w : World α) (ops : List (Nat × Op α)) : World α :=
  ops.foldl (wstep ge) w

def wtrace {α} (ge : α → α → Bool) (w : World α) : List (Nat × Op α) → List Files
  | [] => []
  | o :: t => let w' := wstep ge w o; w'.files :: wtrace ge w' t

end IterFile
