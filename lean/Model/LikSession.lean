/-
Round 3 additions to the model of C04 (core Lean only).

1. The whole option matrix of `BIOGEME.calculate_likelihood_and_derivatives(x, scaled, hessian, bhhh)`
   (src/biogeme/biogeme.py): the engine fills the function value and the gradient always, the Hessian
   only if `hessian`, the BHHH matrix only if `bhhh` (the arrays that were not requested come back as
   `numpy.empty` left them: no value); `if scaled:` **every** returned quantity is divided by
   `float(database.get_sample_size())`.  The secondary entry points are clients of one cell of that
   matrix: `NegativeLikelihood._f / _f_g / _f_g_h` (negative_likelihood.py: `scaled=False`,
   `hessian = False / True`, `bhhh=False`, every quantity negated), `check_derivatives`
   (`scaled=False, hessian=True, bhhh=False`), `likelihood_finite_difference_hessian`
   (`scaled=False, hessian=False, bhhh=False`), `calculate_init_likelihood` (`scaled=False`).

2. Histories over ONE `Database` shared by several `BIOGEME` objects (database.py / biogeme.py):
   * `Database(name, df)`: `data` and `fullData` are the same pandas object;
   * `BIOGEME(database, …)` without `skip_audit`: `database.data = database.data.replace(…)` — `data`
     is rebound to a NEW frame, `fullData` keeps the old one; then `theC.setData(database.data)`: the
     engine of the object receives a COPY of the current table;
   * `scale_column`, `add_column`, `define_variable`, `remove`: change the frame `data` in place
     (`fullData` follows only while it is the same object);
   * `estimate(run_bootstrap=True)`: for every bootstrap sample `theC.setData(sample)` (a resampling of
     the current table), after the loop `theC.setData(database.data)`; without bootstrap: no transfer;
   * `calculate_likelihood`, `calculate_likelihood_and_derivatives`: the engine's table, divided by the
     sample size of the *database* when `scaled`; `simulate` hands `database.data` over at every call,
     but the engine evaluates the copy it already holds (observed: an object built before an edit
     simulates the table of its construction, dimensioned by the current sample size — finding F-C04-3);
     for an object in step with the table the two coincide.
-/
import Model.Likelihood

namespace Likelihood
open Num

variable {α : Type} [NumOps α]

/-! ## 1. the option matrix -/

/-- per-observation quantities of one data set at one parameter point -/
structure Obs (α : Type) where
  w : Option (Nat → α)
  l : Nat → α
  g : Nat → Nat → α
  h : Nat → Nat → Nat → α

/-- what `calculate_likelihood_and_derivatives` hands back; `none`: the matrix was not requested
(the array is not filled by the engine) -/
structure Derivs (α : Type) where
  f : α
  g : List α
  h : Option (List (List α))
  b : Option (List (List α))

def matrixOf (K : Nat) (e : Nat → Nat → α) : List (List α) :=
  (List.range K).map fun i => (List.range K).map fun j => e i j

/-- `theC.calculateLikelihoodAndDerivatives(x, …, g, h, bh, hessian, bhhh)` for `K` free parameters -/
def engineDerivs (o : Obs α) (K N T : Nat) (hessian bhhh : Bool) : Derivs α :=
  { f := loglike o.w o.l N T
    g := (List.range K).map fun i => gradEntry o.w o.g N T i
    h := if hessian then some (matrixOf K fun i j => hessEntry o.w o.h N T i j) else none
    b := if bhhh then some (matrixOf K fun i j => bhhhEntry o.w o.g N T i j) else none }

def Derivs.map (φ : α → α) (d : Derivs α) : Derivs α :=
  { f := φ d.f
    g := d.g.map φ
    h := d.h.map fun m => m.map fun r => r.map φ
    b := d.b.map fun m => m.map fun r => r.map φ }

/-- `calculate_likelihood_and_derivatives(x, scaled, hessian, bhhh)` on a data base with `nRows` rows
(`panel = some ids`: panel data) with the parameter `number_of_threads = param` -/
def likelihoodAndDerivatives (o : Obs α) (K : Nat) (panel : Option (List Int)) (nRows param cpu : Nat)
    (scaled hessian bhhh : Bool) : Derivs α :=
  (engineDerivs o K (sampleSize panel nRows) (resolveThreads param cpu) hessian bhhh).map
    fun x => reported panel nRows scaled x

/-- `NegativeLikelihood._f`: `-like(x, scaled=False)` -/
def negF (o : Obs α) (panel : Option (List Int)) (nRows param cpu : Nat) : α :=
  - reported panel nRows false (loglike o.w o.l (sampleSize panel nRows) (resolveThreads param cpu))

/-- `NegativeLikelihood._f_g` (`hessian = false`) and `._f_g_h` (`hessian = true`):
`like_derivatives(x, scaled=False, hessian=…, bhhh=False)`, function, gradient and Hessian negated -/
def negDerivs (o : Obs α) (K : Nat) (panel : Option (List Int)) (nRows param cpu : Nat)
    (hessian : Bool) : Derivs α :=
  (likelihoodAndDerivatives o K panel nRows param cpu false hessian false).map fun x => -x

/-! ## 2. one data base, several objects, edits in between -/

/-- `τ`: a table.  `aliased`: `fullData is data` (one pandas object).  `engines[k]`: the table held by
the engine of the `k`-th `BIOGEME` object built on this data base. -/
structure Sess (τ : Type) where
  data : τ
  fullData : τ
  aliased : Bool
  engines : List τ

inductive SOp (τ : Type) where
  /-- `BIOGEME(database, formulas, skip_audit = ¬audit)` -/
  | build (audit : Bool)
  /-- `scale_column` / `add_column` / `define_variable` / `remove`: in place on the frame `data` -/
  | edit (f : τ → τ)
  /-- `estimate(run_bootstrap = boot.isSome)` on object `k`; `boot = some rs`: one resampling of the
  current table per bootstrap sample -/
  | estimate (k : Nat) (boot : Option (List (τ → τ)))
  /-- `calculate_likelihood` / `calculate_likelihood_and_derivatives` / `simulate` on object `k` -/
  | query (k : Nat)

/-- the table held by an engine after a sequence of `setData` calls: the last one given -/
def setDataSeq {τ : Type} (e : τ) (tables : List τ) : τ := tables.foldl (fun _ t => t) e

def Sess.init {τ : Type} (df : τ) : Sess τ := { data := df, fullData := df, aliased := true, engines := [] }

def Sess.step {τ : Type} (s : Sess τ) : SOp τ → Sess τ
  | .build audit =>
    -- `database.data = database.data.replace(…)` (a new frame with the same content), then setData
    { s with aliased := if audit then false else s.aliased, engines := s.engines ++ [s.data] }
  | .edit f =>
    { s with data := f s.data, fullData := if s.aliased then f s.fullData else s.fullData }
  | .estimate _ none => s
  | .estimate k (some rs) =>
    -- `for b: theC.setData(sample_b)` … then, after the loop, `theC.setData(self.database.data)`
    let held := setDataSeq (s.engines.getD k s.data) (rs.map (fun r => r s.data) ++ [s.data])
    { s with engines := s.engines.set k held }
  | .query _ => s

def Sess.run {τ : Type} (s : Sess τ) (ops : List (SOp τ)) : Sess τ := ops.foldl Sess.step s

/-- the objects whose engine received the table after the last edit: built, or estimated with
bootstrap, since then (a syntactic function of the history) -/
def syncedStep {τ : Type} (st : Nat × List Nat) : SOp τ → Nat × List Nat
  | .build _ => (st.1 + 1, st.1 :: st.2)
  | .edit _ => (st.1, [])
  | .estimate _ none => st
  | .estimate k (some _) => (st.1, if k < st.1 then k :: st.2 else st.2)
  | .query _ => st

/-- (number of objects built, objects in step with the current table) after a history -/
def synced {τ : Type} (ops : List (SOp τ)) : Nat × List Nat := ops.foldl syncedStep (0, [])

/-- what object `k` reports for its log likelihood: the engine's order of additions over the rows of
the table its engine holds (each row reduced by `rowsOf` to (weight, value) at the parameter point),
divided when `scaled` by the sample size **of the data base** -/
def Sess.reportedLoglike {τ : Type} (s : Sess τ) (k : Nat) (rowsOf : τ → List (α × α)) (weighted : Bool)
    (T : Nat) (scaled : Bool) : α :=
  scaledBy scaled (tableLoglike weighted (rowsOf (s.engines.getD k s.data)) T) (rowsOf s.data).length

end Likelihood
