/-
Model of how the sample log likelihood (and g, H, BHHH) is aggregated over the rows.

Python side (src/biogeme/biogeme.py):
* `number_of_threads` property: the parameter, `0 ↦ mp.cpu_count()`;
* `__init__`: `theC.setExpressions(loglike, number_of_threads[, weight])`;
* `calculate_likelihood(x, scaled)`: `f = theC.calculateLikelihood(..)`, `f / float(sample size)` if `scaled`;
* `calculate_likelihood_and_derivatives(x, scaled, hessian, bhhh)`: f, g, H, BHHH of the engine,
  every one divided by the sample size if `scaled`.

Engine side (cythonbiogeme/cpp/biogeme.cc, *modelled, not verified*):
* `prepareData`: `size = ceil(N / T)`, `nb = ceil(N / size)`, `T' = (nb < T) ? nb : T`,
  thread `t < T'` receives rows `[t·size, (t = T'−1) ? N : (t+1)·size)`;
* `computeFunctionForThread`: `result = 0; for row: result += f` (no weight) or `result += w * f`;
  the same for every gradient entry, every Hessian entry `(i, j)`, and for BHHH
  `bhhh[i][j] += g[i] * g[j]`  /  `+= w * g[i] * g[j]`  for `j ≥ i`;
* `applyTheFormula`: `result = 0; for thread: result += thread.result` (after joining it), gradient the
  same, Hessian and BHHH for `j ≥ i` only, then the lower triangle is filled by symmetry.

Rows are identified by their position `0 … N−1`; per-row quantities are abstract functions
`Nat → α`.  Core Lean only; runs on `Float` (the driver reproduces the order of the engine's
additions exactly) and is reasoned about on `ℝ`.
-/
import Model.Num

namespace Likelihood
open Num

/-! ## thread count and row blocks -/

/-- `number_of_threads` property of `BIOGEME`: 0 means "all processors". -/
def resolveThreads (param cpu : Nat) : Nat := if param = 0 then cpu else param

/-- `ceil(bioReal(a) / bioReal(b))` for the sizes that occur -/
def ceilDiv (a b : Nat) : Nat := (a + b - 1) / b

def blockSize (N T : Nat) : Nat := ceilDiv N T

/-- number of threads really used: `if (numberOfBlocks < nbrOfThreads) nbrOfThreads = numberOfBlocks` -/
def nBlocks (N T : Nat) : Nat :=
  let nb := ceilDiv N (blockSize N T)
  if nb < T then nb else T

def blockStart (N T t : Nat) : Nat := t * blockSize N T

def blockEnd (N T t : Nat) : Nat :=
  if t = nBlocks N T - 1 then N else (t + 1) * blockSize N T

/-- rows handled by thread `t`: `for (row = startData; row < endData; ++row)` -/
def block (N T t : Nat) : List Nat :=
  List.range' (blockStart N T t) (blockEnd N T t - blockStart N T t)

def blocks (N T : Nat) : List (List Nat) := (List.range (nBlocks N T)).map (block N T)

/-! ## accumulation -/

variable {α : Type} [NumOps α]

/-- contribution of one row: `f` without weight formula, `w * f` with one -/
def term (w : Option (Nat → α)) (x : Nat → α) (n : Nat) : α :=
  match w with
  | none => x n
  | some w => w n * x n

/-- one thread: `result = 0; for row in rows: result += term` -/
def threadSum (w : Option (Nat → α)) (x : Nat → α) (rows : List Nat) : α :=
  rows.foldl (fun acc n => acc + term w x n) 0

/-- `applyTheFormula`: `result = 0; for thread: result += thread.result` -/
def total (w : Option (Nat → α)) (x : Nat → α) (bs : List (List Nat)) : α :=
  bs.foldl (fun acc b => acc + threadSum w x b) 0

/-- the engine's log likelihood for `N` rows and `T` requested threads (`T ≥ 1`) -/
def loglike (w : Option (Nat → α)) (l : Nat → α) (N T : Nat) : α := total w l (blocks N T)

/-- entry `i` of the gradient -/
def gradEntry (w : Option (Nat → α)) (g : Nat → Nat → α) (N T i : Nat) : α :=
  total w (fun n => g n i) (blocks N T)

/-- contribution of one row to BHHH entry (i, j): `g[i] * g[j]` or `w * g[i] * g[j]` -/
def bhhhTerm (w : Option (Nat → α)) (g : Nat → Nat → α) (i j n : Nat) : α :=
  match w with
  | none => g n i * g n j
  | some w => w n * g n i * g n j

def bhhhThread (w : Option (Nat → α)) (g : Nat → Nat → α) (i j : Nat) (rows : List Nat) : α :=
  rows.foldl (fun acc n => acc + bhhhTerm w g i j n) 0

def bhhhUpper (w : Option (Nat → α)) (g : Nat → Nat → α) (N T i j : Nat) : α :=
  (blocks N T).foldl (fun acc b => acc + bhhhThread w g i j b) 0

/-- BHHH entry as returned: accumulated for `j ≥ i`, lower triangle copied from the upper one -/
def bhhhEntry (w : Option (Nat → α)) (g : Nat → Nat → α) (N T i j : Nat) : α :=
  if i ≤ j then bhhhUpper w g N T i j else bhhhUpper w g N T j i

/-- Hessian entry as returned: accumulated for `j ≥ i`, lower triangle copied from the upper one -/
def hessEntry (w : Option (Nat → α)) (h : Nat → Nat → Nat → α) (N T i j : Nat) : α :=
  if i ≤ j then total w (fun n => h n i j) (blocks N T)
  else total w (fun n => h n j i) (blocks N T)

/-- Python: `f / float(self.database.get_sample_size())` when `scaled` -/
def scaledBy (scaled : Bool) (x : α) (sampleSize : Nat) : α :=
  if scaled then x / nat sampleSize else x

/-- `calculate_likelihood(x, scaled)` -/
def calculateLikelihood (w : Option (Nat → α)) (l : Nat → α) (N param cpu : Nat) (scaled : Bool) : α :=
  scaledBy scaled (loglike w l N (resolveThreads param cpu)) N

/-! ## reference quantities (what the property states) -/

/-- Σ_n w_n·x_n over the rows of a list, in list order (`w = 1` without weight formula) -/
def weightedSum (w : Option (Nat → α)) (x : Nat → α) (rows : List Nat) : α :=
  sum (rows.map (term w x))

/-- the same over an abstract list of (weight, value) pairs: used for permutations and splits of a table -/
def pairSum (rows : List (α × α)) : α := sum (rows.map fun p => p.1 * p.2)

/-- a table as the list of its rows, each reduced to (value of the weight formula, value of the
log-likelihood formula) on that row; `weighted = false`: no weight formula was given -/
def tableLoglike (weighted : Bool) (rows : List (α × α)) (T : Nat) : α :=
  loglike (if weighted then some (fun n => (rows.getD n (0, 0)).1) else none)
    (fun n => (rows.getD n (0, 0)).2) rows.length T

/-- what the property states for such a table: Σ w·ℓ, or Σ ℓ without weight formula -/
def tableSum (weighted : Bool) (rows : List (α × α)) : α :=
  sum (rows.map fun p => if weighted then p.1 * p.2 else p.2)

/-! ## named parameter values → the vector handed to the engine

`BIOGEME.beta_values_dict_to_list(beta_dict)` (used by `simulate`): a Python dict is the list of
its items in insertion order (keys distinct).  The code walks `id_manager.free_betas.names` and
looks every name up in the dict; an entry whose key is not a free parameter is only reported
(`logger.warning`), a free parameter without entry raises `BiogemeError` naming it. -/

/-- `for x in names: v = beta_dict.get(x); if v is None: raise …(x); beta_list.append(v)` —
`.error x` carries the name reported by the exception (the first missing one in `names` order) -/
def betaVector {β : Type} : List String → List (String × β) → Except String (List β)
  | [], _ => .ok []
  | n :: ns, d =>
    match d.lookup n with
    | none => .error n
    | some v =>
      match betaVector ns d with
      | .error e => .error e
      | .ok vs => .ok (v :: vs)

/-- the keys the warning "Parameter … not present in the model" is logged for, in dict order -/
def foreignKeys {β : Type} (names : List String) (d : List (String × β)) : List String :=
  (d.map Prod.fst).filter fun k => !names.contains k

/-! ## sample size and individuals (`Database.get_sample_size`, `build_panel_map`)

`ids` is the panel column row by row (after `build_panel_map` sorted the rows, which is a
permutation of the rows).  The individual map has one line per *distinct* value, in order of first
appearance (`pandas.unique`); the sample size of panel data is its number of lines, that of
cross-sectional data the number of rows. -/

/-- `data[panelColumn].unique()` -/
def distinct : List Int → List Int
  | [] => []
  | a :: l => a :: (distinct l).filter (fun b => b != a)

/-- rows of individual `i`: `data.loc[data[panelColumn] == i].index` -/
def individualRows (ids : List Int) (i : Int) : List Nat :=
  (List.range ids.length).filter fun n => ids[n]? == some i

/-- `Database.get_sample_size()`; `panel = none`: `Database.panel` was not called -/
def sampleSize (panel : Option (List Int)) (nRows : Nat) : Nat :=
  match panel with
  | none => nRows
  | some ids => (distinct ids).length

/-- `calculate_likelihood` / `calculate_likelihood_and_derivatives` on a data base with `nRows`
rows: the engine adds one value per line of the individual map (per row without panel), the
Python layer divides **every** returned quantity by `get_sample_size()` when `scaled` -/
def reported (panel : Option (List Int)) (nRows : Nat) (scaled : Bool) (engineValue : α) : α :=
  scaledBy scaled engineValue (sampleSize panel nRows)

end Likelihood
