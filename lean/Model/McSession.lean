/-
Model of a *session* with the draw table (property C10, round 3): the generators have a state (numpy's
global generator), the table lives in the `Database` object (`theDraws`), every construction of an
`IdManager` regenerates it, and a `BIOGEME` object hands a copy to its engine at construction.

Code modelled (src/biogeme):
* `Database.generate_draws` with the generator state threaded through the loop over the names
  (`collectS` / `generateDrawsS`: the j-th name is served from the state left by the names before it; on a
  refusal the state is the one left by the calls already made and `theDraws` is not assigned);
* `IdManager.__init__` → `prepare`: `if requires_draws: database.generate_draws(draw_types(), draws.names, R)`
  with `draws.names = sorted(dict of the draw variables of all formulas)` (`prepareDraws`) — reached from
  `Expression.prepare` (`get_value_c`, `get_value_and_derivatives(prepare_ids=True)`), from
  `Expression.create_function` and from `BIOGEME.reset_id_manager`;
* `BIOGEME.__init__`: `if seed != 0: np.random.seed(seed)`; `reset_id_manager()` (round 1);
  `_generate_draws(R)` (round 2, the second call site: `generate_draws(id_manager.draw_types(),
  id_manager.draws.names, R)`); `theC.setDraws(database.theDraws)`; `reset_id_manager()` (round 3)
  (`newBiogeme`);
* `BIOGEME.simulate / calculate_likelihood / calculate_likelihood_and_derivatives / estimate` read the
  engine's copy with the `drawId` of the object's own numbering (`readBiogeme`); `B.number_of_draws = R`
  changes an attribute only (`setNumberOfDraws`);
* `calculate_function_and_derivatives` (calculator.py): `the_cpp.setDraws(database.theDraws)` — an
  expression evaluated with `prepare_ids=True` reads the table generated in that very call (`readExpr`);
* `Expression.create_function`: one `IdManager` (one generation) at creation, then every call evaluates with
  `prepare_ids=False` and reads `database.theDraws` as it is at the time of the call (`createFunction`,
  `callFunction`): a generation on the same database in between changes what the function reads.

Core Lean only.
-/
import Model.Integrals

namespace McSession
open Integrals

variable {σ α : Type}

/-- a registered generator run from the state `s` of the global generator for `(N, R)`: the table it
returns and the state it leaves (deterministic generators leave `s` unchanged) -/
abbrev Gen (σ α : Type) := Source → σ → Nat → Nat → List (List α) × σ

/-- the loop of `generate_draws` over the names with the generator state threaded: result (stack of tables or
the refusal) and the state left -/
def collectS (native user : List String) (typeOf : String → String) (gen : Gen σ α) (N R : Nat) :
    List String → σ → Except Err (List (List (List α))) × σ
  | [], s => (.ok [], s)
  | name :: rest, s =>
    match dispatch native user (typeOf name) with
    | .error e => (.error e, s)
    | .ok src =>
      if shapeOk (gen src s N R).1 N R then
        match collectS native user typeOf gen N R rest (gen src s N R).2 with
        | (.error e, s') => (.error e, s')
        | (.ok t, s') => (.ok ((gen src s N R).1 :: t), s')
      else (.error .wrongShape, (gen src s N R).2)

/-- state of the global generator when the `k`-th name of the list is served -/
def stateBefore (native user : List String) (typeOf : String → String) (gen : Gen σ α) (N R : Nat) :
    List String → σ → Nat → σ
  | [], s, _ => s
  | _ :: _, s, 0 => s
  | name :: rest, s, k + 1 =>
    match dispatch native user (typeOf name) with
    | .error _ => s
    | .ok src => stateBefore native user typeOf gen N R rest (gen src s N R).2 k

/-- `Database.generate_draws(types, names, R)` from generator state `s` -/
def generateDrawsS (dflt : α) (native user : List String) (typeOf : String → String) (gen : Gen σ α)
    (names : List String) (N R : Nat) (s : σ) : Except Err (List (List (List α))) × σ :=
  match collectS native user typeOf gen N R names s with
  | (.error e, s') => (.error e, s')
  | (.ok stack, s') => (.ok (moveAxis dflt stack N R), s')

/-! ## the draw variables of the formulas -/

/-- the draw variables of the formulas of one object: (name, declared type) in the order in which the
formulas are walked (first appearance) -/
abbrev Decl := List (String × String)

def declNames (d : Decl) : List String := d.map Prod.fst

/-- `IdManager.draw_types()[name]` -/
def declType (d : Decl) (name : String) : String := (d.lookup name).getD ""

/-- the list of names BOTH call sites hand to `generate_draws`: `IdManager.draws.names` -/
def callNames (d : Decl) : List String := sortNames (declNames d)

/-! ## the world: global generator, `Database.theDraws`, the BIOGEME objects created so far -/

abbrev Table (α : Type) := List (List (List α))

structure Obj (α : Type) where
  decl : Decl
  /-- what `theC.setDraws` received (`none`: no Monte-Carlo in the formulas) -/
  engine : Option (Table α)
  /-- the attribute `number_of_draws` -/
  numberOfDraws : Nat

structure World (σ α : Type) where
  rng : σ
  theDraws : Option (Table α)
  objs : List (Obj α)

structure Env (σ α : Type) where
  dflt : α
  native : List String
  user : List String
  gen : Gen σ α
  /-- `np.random.seed(s)` -/
  fresh : Nat → σ
  /-- state after `k` numbers were taken from the global generator by something else -/
  advance : σ → Nat → σ
  /-- sample size of the database -/
  N : Nat

/-- construction of an `IdManager` on the formulas with draw variables `d` (`prepare`, last statement): the
world afterwards and the error raised, if any -/
def prepareDraws (E : Env σ α) (d : Decl) (R : Nat) (w : World σ α) : World σ α × Option Err :=
  if d.isEmpty then (w, none)
  else
    match generateDrawsS E.dflt E.native E.user (declType d) E.gen (callNames d) E.N R w.rng with
    | (.error e, s) => ({ w with rng := s }, some e)
    | (.ok t, s) => ({ w with rng := s, theDraws := some t }, none)

/-- `BIOGEME.__init__` (seed, three generation rounds, copy of the second one to the engine): the world
afterwards, the object (none if the constructor raised) and the error -/
def initBiogeme (E : Env σ α) (seed : Nat) (d : Decl) (R : Nat) (w : World σ α) :
    World σ α × Option (Obj α) × Option Err :=
  let w0 := { w with rng := seedPolicy E.fresh seed w.rng }
  match prepareDraws E d R w0 with                 -- reset_id_manager()
  | (w1, some e) => (w1, none, some e)
  | (w1, none) =>
    match prepareDraws E d R w1 with               -- _generate_draws(number_of_draws)
    | (w2, some e) => (w2, none, some e)
    | (w2, none) =>
      let engine := if d.isEmpty then none else w2.theDraws   -- theC.setDraws(database.theDraws)
      match prepareDraws E d R w2 with             -- reset_id_manager()
      | (w3, some e) => (w3, none, some e)
      | (w3, none) => (w3, some { decl := d, engine := engine, numberOfDraws := R }, none)

inductive Op where
  /-- `BIOGEME(database, formulas, number_of_draws=R, seed=seed)` -/
  | newBiogeme (seed : Nat) (d : Decl) (R : Nat)
  /-- `B.number_of_draws = R` on the `i`-th object -/
  | setNumberOfDraws (i R : Nat)
  /-- `simulate` / `calculate_likelihood` / `calculate_likelihood_and_derivatives` / `estimate` on the `i`-th
  object: reads the engine's copy, changes nothing here -/
  | evalBiogeme (i : Nat)
  /-- `get_value_c` / `get_value_and_derivatives` with `prepare_ids=True`, `create_function` -/
  | evalExpr (d : Decl) (R : Nat)
  /-- something else takes `k` numbers from the global generator -/
  | consume (k : Nat)
  /-- `f = expr.create_function(database, number_of_draws=R)`: an `IdManager` is built (one generation) and kept -/
  | createFunction (d : Decl) (R : Nat)
  /-- `f(x)`: `get_value_and_derivatives(prepare_ids=False)` — nothing is generated, the calculator hands
  `database.theDraws` *as it is at the time of the call* to the engine (`readExpr` on the current world) -/
  | callFunction

def step (E : Env σ α) (w : World σ α) : Op → World σ α × Option Err
  | .newBiogeme seed d R =>
    match initBiogeme E seed d R w with
    | (w', some o, e) => ({ w' with objs := w'.objs ++ [o] }, e)
    | (w', none, e) => (w', e)
  | .setNumberOfDraws i R =>
    ({ w with objs := w.objs.modify i fun o => { o with numberOfDraws := R } }, none)
  | .evalBiogeme _ => (w, none)
  | .evalExpr d R => prepareDraws E d R w
  | .consume k => ({ w with rng := E.advance w.rng k }, none)
  | .createFunction d R => prepareDraws E d R w
  | .callFunction => (w, none)

/-- operations that do not regenerate `Database.theDraws` -/
def Op.quiet : Op → Bool
  | .setNumberOfDraws _ _ => true
  | .evalBiogeme _ => true
  | .consume _ => true
  | .callFunction => true
  | _ => false

/-- an operation that submits a formula whose draw generation is refused (unknown type, wrong shape): an expression
evaluated / a function created (one `IdManager`), or a BIOGEME constructor refused in its first round -/
def refusedIn (E : Env σ α) (w : World σ α) : Op → Bool
  | .evalExpr d R => (prepareDraws E d R w).2.isSome
  | .createFunction d R => (prepareDraws E d R w).2.isSome
  | .newBiogeme seed d R => (prepareDraws E d R { w with rng := seedPolicy E.fresh seed w.rng }).2.isSome
  | _ => false

/-- a history made of quiet operations and refused generations only -/
def calmRun (E : Env σ α) : World σ α → List Op → Bool
  | _, [] => true
  | w, op :: rest => (op.quiet || refusedIn E w op) && calmRun E (step E w op).1 rest

/-- a history (errors are raised to the caller and the session goes on) -/
def run (E : Env σ α) (w : World σ α) : List Op → World σ α
  | [] => w
  | op :: rest => run E (step E w op).1 rest

/-- value substituted for the draw variable `name` at draw `r` of observation `n` by an evaluation through the
BIOGEME object `o` -/
def readBiogeme (dflt : α) (o : Obj α) (n r : Nat) (name : String) : α :=
  entry dflt (o.engine.getD []) n r (drawId (declNames o.decl) name)

/-- the same for an expression with draw variables `d` evaluated on the database (calculator.py) -/
def readExpr (dflt : α) (w : World σ α) (d : Decl) (n r : Nat) (name : String) : α :=
  entry dflt (w.theDraws.getD []) n r (drawId (declNames d) name)

/-! ## the instance run by the driver: generator states and table cells are *descriptions*

The state of the global generator is the list of what happened to it since it was last seeded; a cell of a
table is (history of the generator up to and including the call that produced the table, observation, draw).  The harness replays the description
on the real numpy generator with the real registered generators and compares with the real tables. -/

inductive Ev where
  | seed (s : Nat)
  | consume (k : Nat)
  | call (src : Source) (N R : Nat)
deriving Repr, DecidableEq

/-- `log`: what happened to the generator since it was last seeded, the call that produced the cell's table included -/
structure Cell where
  log : List Ev
  n : Nat
  r : Nat
deriving Repr, DecidableEq

/-- the user type `GBAD` stands for a registered generator returning one column too many (refused by the shape test) -/
def logGen : Gen (List Ev) Cell := fun src s N R =>
  let cols := if src = .user "GBAD" then R + 1 else R
  ((List.range N).map fun n => (List.range cols).map fun r => ⟨s ++ [.call src N R], n, r⟩, s ++ [.call src N R])

def logEnv (native user : List String) (N : Nat) : Env (List Ev) Cell where
  dflt := ⟨[], 0, 0⟩
  native := native
  user := user
  gen := logGen
  fresh := fun s => [.seed s]
  advance := fun s k => s ++ [.consume k]
  N := N

end McSession
