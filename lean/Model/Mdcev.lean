/-
Model of the forecasting side of the MDCEV models (src/biogeme/mdcev/mdcev.py, translated.py,
gamma_profile.py, generalized.py, non_monotonic.py).

Every alternative is described by the *values* its expressions take on the observation at hand
(baseline utility ψ, γ or none for the outside good, α, price, μ) and its error draw ε; the
list of alternatives is in the order of `Mdcev.index_to_key` (iteration order of the Python
set of labels), which is also the order of the vector `epsilon`.

* per variant: `U` (`utility_one_alternative`), `dU` (`derivative_utility_one_alternative`),
  `inv` (`optimal_consumption_one_alternative`), `lowerBound` (`lower_bound_dual_variable`)
* `identifyChosen` (`identification_chosen_alternatives` + `is_next_alternative_chosen`)
* `bisect` / `forecast` (`forecast_bisection_one_draw`)
* `sumUtilities` (`sum_of_utilities`)

Where the code tests the *label* of an alternative against the *position* of the outside good
(gamma_profile.derivative_utility_one_alternative, finding F-C18-1) the model is the repaired
behaviour: the test is "this is the outside good".  Where the bisection stops because the budget
criterion is met, the model returns the consumptions at the multiplier that met it (repaired
behaviour, finding F-C18-3; the code returns them at the midpoint of the updated bracket).
Core Lean only.
-/
import Model.Num
open Num

namespace Mdcev

inductive Variant where
  | translated | gammaProfile | generalized | nonMonotonic
deriving Repr, DecidableEq

structure Alt (α : Type) where
  label : Int
  psi : α
  gamma : Option α      -- none: the outside good
  alpha : α
  price : α             -- 1 when the model has no prices
  mu : α                -- non-monotonic only
  eps : α               -- the draw of this alternative (unscaled)
deriving Repr

section num
variable {α : Type} [NumOps α]

/-- `np.log(np.finfo(float).max)` -/
def maxExpArgument : α := 709.782712893384
/-- `np.finfo(np.float64).max` -/
def floatMax : α := 1.7976931348623157e308

def isOutside (a : Alt α) : Bool := a.gamma.isNone

/-- `epsilon /= scale_parameter.get_value()` -/
def scaledEps (scale : Option α) (a : Alt α) : α :=
  match scale with
  | none => a.eps
  | some s => a.eps / s

/-! ## utility, derivative, inverse of the derivative -/

def U (v : Variant) (scale : Option α) (a : Alt α) (x : α) : α :=
  let e := scaledEps scale a
  match v, a.gamma with
  | .translated, none =>
      if Num.eq x 0 then 0 else Num.exp (a.psi + e + a.alpha * Num.log x)
  | .translated, some g => Num.exp (a.psi + e + a.alpha * Num.log (x + g))
  | .gammaProfile, none => Num.exp (a.psi + e) * Num.log (x / a.price)
  | .gammaProfile, some g => Num.exp (a.psi + e) * g * Num.log (1 + x / (a.price * g))
  | .generalized, none => Num.exp (a.psi + e) * Num.pow (x / a.price) a.alpha / a.alpha
  | .generalized, some g =>
      Num.exp (a.psi + e) * g * (Num.pow (1 + x / (a.price * g)) a.alpha - 1) / a.alpha
  | .nonMonotonic, none => Num.exp a.psi * Num.pow x a.alpha / a.alpha + (a.mu + e) * x
  | .nonMonotonic, some g =>
      g * Num.exp a.psi * (Num.pow (1 + x / g) a.alpha - 1) / a.alpha + (a.mu + e) * x

def dU (v : Variant) (scale : Option α) (a : Alt α) (x : α) : α :=
  let e := scaledEps scale a
  match v, a.gamma with
  | .translated, none =>
      Num.exp (if Num.eq x 0 then 0
               else a.psi + e + Num.log a.alpha + (a.alpha - 1) * Num.log x)
  | .translated, some g =>
      Num.exp (a.psi + e + Num.log a.alpha + (a.alpha - 1) * Num.log (x + g))
  | .gammaProfile, none =>
      -- "For the outside good, the value at zero consumption is +infinity"
      if Num.eq x 0 then 1 / 0 else Num.exp (a.psi + e) / x
  | .gammaProfile, some g => Num.exp (a.psi + e) * g / (x + a.price * g)
  | .generalized, none => Num.exp (a.psi + e) * Num.pow (x / a.price) (a.alpha - 1) / a.price
  | .generalized, some g =>
      Num.exp (a.psi + e) * Num.pow (1 + x / (a.price * g)) (a.alpha - 1) / a.price
  | .nonMonotonic, none => Num.exp a.psi * Num.pow x (a.alpha - 1) + a.mu + e
  | .nonMonotonic, some g => Num.exp a.psi * Num.pow (1 + x / g) (a.alpha - 1) + a.mu + e

def inv (v : Variant) (scale : Option α) (a : Alt α) (lam : α) : α :=
  let e := scaledEps scale a
  match v, a.gamma with
  | .translated, og =>
      if Num.eq lam 0 then 0
      else
        let logRatio := Num.log lam - a.psi - e - Num.log a.alpha
        let logResult := Num.min (logRatio / (a.alpha - 1)) maxExpArgument
        match og with
        | none => Num.exp logResult
        | some g => Num.exp logResult - g
  | .gammaProfile, none => Num.exp (a.psi + e) / lam
  | .gammaProfile, some g => Num.exp (a.psi + e) * g / lam - a.price * g
  | .generalized, og =>
      let ratio := a.price * lam / Num.exp (a.psi + e)
      let ex := 1 / (a.alpha - 1)
      match og with
      | none => a.price * Num.pow ratio ex
      | some g => a.price * g * (Num.pow ratio ex - 1)
  | .nonMonotonic, og =>
      let base := (lam - a.mu - e) * Num.exp (-a.psi)
      let ex := 1 / (a.alpha - 1)
      match og with
      | none => Num.pow base ex
      | some g => g * (Num.pow base ex - 1)

/-- `lower_bound_dual_variable`; `none` is −∞ -/
def lowerBound (v : Variant) (scale : Option α) (chosen : List (Alt α)) : Option α :=
  match v with
  | .nonMonotonic =>
      chosen.foldl (fun lb a =>
        let m := a.mu + scaledEps scale a
        match lb with
        | none => some m
        | some l => if Num.lt l m then some m else some l) none
  | _ => some 0

/-- `sum_of_utilities` -/
def sumUtilities (v : Variant) (scale : Option α) (alts : List (Alt α)) (xs : List α) : α :=
  Num.sum ((alts.zip xs).map fun ax => U v scale ax.1 ax.2)

/-! ## identification of the chosen alternatives -/

/-- insertion into a list sorted by decreasing key, after the elements with an equal key
(Python's stable `sorted(..., reverse=True)`) -/
def insertDesc (w : α) (a : Alt α) : List (α × Alt α) → List (α × Alt α)
  | [] => [(w, a)]
  | (w', a') :: t => if Num.lt w' w then (w, a) :: (w', a') :: t else (w', a') :: insertDesc w a t

def sortDesc (l : List (α × Alt α)) : List (α × Alt α) :=
  l.foldl (fun acc wa => insertDesc wa.1 wa.2 acc) []

/-- `optimal_consumption` summed over a set of alternatives -/
def totalAt (v : Variant) (scale : Option α) (chosen : List (Alt α)) (lam : α) : α :=
  Num.sum (chosen.map fun a => inv v scale a lam)

structure Ident (α : Type) where
  chosen : List (Alt α)
  lo : α
  hi : α

/-- a lower bound as a number (−∞ is never used as a bound of the bisection) -/
def lbOr (o : Option α) : α := match o with | some l => l | none => 0 - floatMax
/-- `derivative_zero_expenditure_candidate < model_lower_bound` -/
def belowLb (o : Option α) (w : α) : Bool := match o with | some l => Num.lt w l | none => false
/-- derivative at zero of the last alternative that entered, `np.finfo(np.float64).max` if none -/
def ubOf (last : Option α) : α := match last with | some u => u | none => floatMax

/-- the loop of `identification_chosen_alternatives`; `last` is the derivative at zero of the last
alternative that entered the choice set -/
def identLoop (v : Variant) (scale : Option α) (budget : α) :
    List (α × Alt α) → List (Alt α) → Option α → Ident α
  | [], chosen, last =>
      -- the full choice set is chosen
      ⟨chosen, lbOr (lowerBound v scale chosen), ubOf last⟩
  | (w, c) :: rest, chosen, last =>
      if belowLb (lowerBound v scale chosen) w then
        ⟨chosen, lbOr (lowerBound v scale chosen), ubOf last⟩
      else if Num.le budget (totalAt v scale (chosen ++ [c]) w) then
        ⟨chosen, w, ubOf last⟩
      else identLoop v scale budget rest (chosen ++ [c]) (some w)

def identifyChosen (v : Variant) (scale : Option α) (budget : α) (alts : List (Alt α)) : Ident α :=
  let inside := alts.filter fun a => !isOutside a
  let ws := sortDesc (inside.map fun a => (dU v scale a 0, a))
  let start := alts.filter isOutside
  identLoop v scale budget ws start none

/-! ## bisection on the multiplier -/

structure BisState (α : Type) where
  lo : α
  hi : α
  go : Bool              -- `continue_iterations`
  negative : Bool        -- a negative consumption was met (`raise ValueError`)
  met : Option α := none -- the multiplier of the last pass if it met the budget criterion (repaired
                         -- behaviour, finding F-C18-3: the code recomputes the midpoint of the bracket
                         -- it has just updated and returns the consumptions there)

/-- one pass through the body of the `for _ in range(5000)` loop -/
def bisStep (g : α → α) (anyNeg : α → Bool) (budget tolDual tolBudget : α) (s : BisState α) : BisState α :=
  if !s.go || s.negative then s
  else
    let mid := (s.lo + s.hi) / 2
    if anyNeg mid then { s with negative := true }
    else
      let total := g mid
      let hi := if Num.lt total budget then mid else s.hi
      let lo := if Num.lt total budget then s.lo else if Num.lt budget total then mid else s.lo
      let stop := Num.le (hi - lo) tolDual || Num.le (Num.abs (total - budget)) tolBudget
      { lo := lo, hi := hi, go := !stop, negative := false,
        met := if Num.le (Num.abs (total - budget)) tolBudget then some mid else none }

def bisLoop (g : α → α) (anyNeg : α → Bool) (budget tolDual tolBudget : α) : Nat → BisState α → BisState α
  | 0, s => s
  | n + 1, s => bisLoop g anyNeg budget tolDual tolBudget n (bisStep g anyNeg budget tolDual tolBudget s)

inductive FcErr where
  | lowerAboveUpper | negativeConsumption
deriving Repr, DecidableEq

structure Forecast (α : Type) where
  chosen : List Int
  lam : α
  x : List (Int × α)       -- consumption by label, in the order of `alts`

def anyNegAt (v : Variant) (scale : Option α) (chosen : List (Alt α)) (lam : α) : Bool :=
  chosen.any fun a => Num.lt (inv v scale a lam) 0

def isChosenIn (chosen : List (Alt α)) (a : Alt α) : Bool := chosen.any fun c => c.label == a.label

/-- the end of `forecast_bisection_one_draw`: the consumptions at the final multiplier -/
def finish (v : Variant) (scale : Option α) (alts chosen : List (Alt α)) (s : BisState α) :
    Except FcErr (Forecast α) :=
  if s.negative then .error .negativeConsumption
  else
    let lam := match s.met with
      | some l => l
      | none => (s.lo + s.hi) / 2
    .ok ⟨chosen.map (·.label), lam,
         alts.map fun a => (a.label, if isChosenIn chosen a then inv v scale a lam else 0)⟩

/-- `forecast_bisection_one_draw` -/
def forecast (v : Variant) (scale : Option α) (budget tolDual tolBudget : α) (alts : List (Alt α)) :
    Except FcErr (Forecast α) :=
  let id := identifyChosen v scale budget alts
  if Num.lt id.hi id.lo then .error .lowerAboveUpper
  else
    finish v scale alts id.chosen
      (bisLoop (totalAt v scale id.chosen) (anyNegAt v scale id.chosen) budget tolDual tolBudget 5000
        { lo := id.lo, hi := id.hi, go := true, negative := false })

/-! ## the property as a relation on a forecast (evaluated by the driver on real outputs) -/

/-- non-negativity, budget exhaustion, equal marginal utility `lam` on the support, marginal
utility at zero not above `lam` elsewhere, outside good consumed.  `tolB` absolute tolerance on
the budget, `tolM` relative tolerance on marginal utilities. -/
def kktB (v : Variant) (scale : Option α) (budget tolB tolM : α) (alts : List (Alt α)) (xs : List α) (lam : α) : Bool :=
  let ax := alts.zip xs
  ax.all (fun p => Num.le 0 p.2) &&
  Num.le (Num.abs (Num.sum xs - budget)) tolB &&
  ax.all (fun p =>
    if Num.lt 0 p.2 then
      Num.le (Num.abs (dU v scale p.1 p.2 - lam)) (tolM * Num.max 1 (Num.abs lam))
    else
      !isOutside p.1 && Num.le (dU v scale p.1 0) (lam + tolM * Num.max 1 (Num.abs lam)))

end num

end Mdcev
