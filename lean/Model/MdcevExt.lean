/-
Round 3 extension of the MDCEV model (Model/Mdcev.lean is unchanged).

* `FExp` / `utilityExpr` — the *symbolic* utility built by `utility_expression_one_alternative`
  of the four variants (translated.py, gamma_profile.py, generalized.py, non_monotonic.py), as a
  formula tree over the sub-expressions of the model (baseline utility ψ, γ, α, price — `Numeric(1)`
  when the model has no prices —, μ, scale parameter, the unscaled ε and the consumption), with the
  code's branches: ε or ε / scale, γ is None (outside good) or not.
* `Params` / `updateModel` — `Mdcev._update_parameters_in_expressions` (run by the setter of
  `estimation_results`): the groups of expressions whose parameters receive the estimated values
  (baseline utilities, the γ that are not None, α when given, scale, weights, and the variant's
  own `_list_of_expressions`: μ utilities / prices / nothing).
* `gammaReport` — `Mdcev.info_gamma_parameters`.

Core Lean only.
-/
import Model.Mdcev
open Num

namespace Mdcev

/-! ## the symbolic utility -/

inductive Leaf where
  | psi | gamma | alpha | price | mu | scale | eps | x
deriving Repr, DecidableEq

inductive FExp where
  | leaf (l : Leaf)
  | one
  | add (a b : FExp)
  | sub (a b : FExp)
  | mul (a b : FExp)
  | div (a b : FExp)
  | pow (a b : FExp)
  | exp (a : FExp)
  | log (a : FExp)
deriving Repr

section num
variable {α : Type} [NumOps α]

def evalF (env : Leaf → α) : FExp → α
  | .leaf l => env l
  | .one => 1
  | .add a b => evalF env a + evalF env b
  | .sub a b => evalF env a - evalF env b
  | .mul a b => evalF env a * evalF env b
  | .div a b => evalF env a / evalF env b
  | .pow a b => Num.pow (evalF env a) (evalF env b)
  | .exp a => Num.exp (evalF env a)
  | .log a => Num.log (evalF env a)

/-- `unscaled_epsilon if self.scale_parameter is None else unscaled_epsilon / self.scale_parameter` -/
def epsExpr (hasScale : Bool) : FExp :=
  if hasScale then .div (.leaf .eps) (.leaf .scale) else .leaf .eps

/-- `utility_expression_one_alternative` of each variant -/
def utilityExpr (v : Variant) (hasScale gammaNone : Bool) : FExp :=
  let e := epsExpr hasScale
  let psi := FExp.leaf .psi
  let g := FExp.leaf .gamma
  let al := FExp.leaf .alpha
  let p := FExp.leaf .price
  let x := FExp.leaf .x
  match v, gammaNone with
  | .translated, true => .exp (.add (.add psi e) (.mul al (.log x)))
  | .translated, false => .exp (.add (.add psi e) (.mul al (.log (.add x g))))
  | .gammaProfile, true => .mul (.exp (.add psi e)) (.log (.div x p))
  | .gammaProfile, false => .mul (.mul (.exp (.add psi e)) g) (.log (.add .one (.div x (.mul p g))))
  | .generalized, true => .div (.mul (.exp (.add psi e)) (.pow (.div x p) al)) al
  | .generalized, false =>
      .div (.mul (.mul (.exp (.add psi e)) g) (.sub (.pow (.add .one (.div x (.mul p g))) al) .one)) al
  | .nonMonotonic, true =>
      .add (.div (.mul (.exp psi) (.pow x al)) al) (.mul (.add (.leaf .mu) e) x)
  | .nonMonotonic, false =>
      .add (.div (.mul (.mul g (.exp psi)) (.sub (.pow (.add .one (.div x g)) al) .one)) al)
        (.mul (.add (.leaf .mu) e) x)

/-- the values of the sub-expressions on the observation at hand (γ and the scale are not read
when absent) -/
def envOf (scale : Option α) (a : Alt α) (x : α) : Leaf → α
  | .psi => a.psi
  | .gamma => match a.gamma with | some g => g | none => 0
  | .alpha => a.alpha
  | .price => a.price
  | .mu => a.mu
  | .scale => match scale with | some s => s | none => 1
  | .eps => a.eps
  | .x => x

/-- value of the symbolic utility of alternative `a` at consumption `x` -/
def symbolicU (v : Variant) (scale : Option α) (a : Alt α) (x : α) : α :=
  evalF (envOf scale a x) (utilityExpr v scale.isSome a.gamma.isNone)

end num

/-! ## parameters after estimation -/

/-- an expression as far as `change_init_values` is concerned: its parameters `(name, value)` -/
abbrev PExpr (α : Type) := List (String × α)

/-- the expressions held by a model object (labels in `index_to_key` order) -/
structure Params (α : Type) where
  variant : Variant
  baseline : List (Int × PExpr α)
  gamma : List (Int × Option (PExpr α))
  alpha : Option (List (Int × PExpr α))
  scale : Option (PExpr α)
  weights : Option (PExpr α)
  mu : List (Int × PExpr α)                 -- NonMonotonic
  prices : Option (List (Int × PExpr α))    -- GammaProfile, Generalized

/-- `Expression.change_init_values(betas)`: every parameter named in `betas` takes its value -/
def changeInit {α : Type} (betas : List (String × α)) (e : PExpr α) : PExpr α :=
  e.map fun nv => match betas.lookup nv.1 with | some b => (nv.1, b) | none => nv

/-- `_list_of_expressions` of the variant -/
def childUpdated (v : Variant) : Bool × Bool :=   -- (μ utilities, prices)
  match v with
  | .translated => (false, false)
  | .gammaProfile => (false, true)
  | .generalized => (false, true)
  | .nonMonotonic => (true, false)

/-- `_update_parameters_in_expressions` -/
def updateModel {α : Type} (betas : List (String × α)) (m : Params α) : Params α :=
  let up := changeInit betas
  let upl := fun (l : List (Int × PExpr α)) => l.map fun ke => (ke.1, up ke.2)
  { m with
    baseline := upl m.baseline
    gamma := m.gamma.map fun ke => (ke.1, ke.2.map up)
    alpha := m.alpha.map upl
    scale := m.scale.map up
    weights := m.weights.map up
    mu := if (childUpdated m.variant).1 then upl m.mu else m.mu
    prices := if (childUpdated m.variant).2 then m.prices.map upl else m.prices }

/-- every expression a forecast reads (for the variant at hand) -/
def forecastExprs {α : Type} (m : Params α) : List (PExpr α) :=
  m.baseline.map (·.2) ++ m.gamma.filterMap (·.2) ++
    (match m.alpha with | some l => l.map (·.2) | none => []) ++
    (match m.scale with | some s => [s] | none => []) ++
    (if (childUpdated m.variant).1 then m.mu.map (·.2) else []) ++
    (if (childUpdated m.variant).2 then (match m.prices with | some l => l.map (·.2) | none => []) else [])

/-- `info_gamma_parameters`: 0 / 1 / several outside goods -/
def gammaReport {α : Type} (gammas : List (Option α)) : Nat :=
  match (gammas.filter Option.isNone).length with
  | 0 => 0
  | 1 => 1
  | _ => 2

end Mdcev
