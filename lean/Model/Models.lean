/-
Semantic model of biogeme's choice-model family (what the expressions built by
`biogeme.models.*` evaluate to on one observation), written once over `[NumOps α]`:
run on `Float` by Driver/C05.lean and Driver/C06.lean, reasoned about on `ℝ` in
Proofs/Models*.lean.

Anchors (src/biogeme):
* expressions/logit_expressions.py + engine `bioExprLogLogit.cc` : log-sum-exp kernel over
  the alternatives whose availability value is `!= 0`; the utilities of the other
  alternatives are *not evaluated*; unavailable chosen alternative ⇒ `log(0)` (= −∞).
* models/logit.py  : `loglogit`, `logit = exp(loglogit)`.
* models/mev.py    : `logmev` = logit kernel on `V_i + ln G_i`, `mev = exp(logmev)`.
* models/nested.py : `get_mev_for_nested`, `get_mev_for_nested_mu` (nest sums are
  `ConditionalSum`s over `availability[i] != 0`; alternatives outside every nest get `0`,
  resp. `log(mu) + (mu-1) V_i`), `get_mev_generating_for_nested`.
* models/cnl.py    : `get_mev_for_cross_nested(_mu)` (availability *multiplies* the term;
  `logzero` resp. `log(mu * Σ)`, resp. the term of an alone alternative when every membership
  is the constant 0).
* models/ordered.py: `ordered_likelihood` (thresholds = cumulated differences, dict result).
* nests.py         : `Nests.__init__` (alone alternatives, members outside the choice set),
  `check_union`, `check_intersection`, `check_partition`, `check_validity`, conversion of the
  legacy tuple syntax.
* distributions.py : `logisticcdf`.

Conventions.  Alternatives are integer labels.  A Python dict `util`/`av` is a list of keys
(`alts`, insertion order) and a total function on labels (the driver checks that every key
is present before it builds the function).  `availability = None` is the all-ones function.
An IEEE `-inf` produced by `log(0)` of the kernel is `none : Option α` (`expL none = 0`),
because `ℝ` has no −∞.

Engine facts used (cythonbiogeme/cpp, modelled, not verified): `bioExprTimes` returns 0 as
soon as one factor is 0 (`emul`); `PowerConstant`/`Power` on a non-negative base are C `pow`;
`logzero` maps `[-√ε, 0]` to 0.
Core Lean only.
-/
import Model.Num

namespace Models
open Num

variable {α : Type} [NumOps α]

/-! ## engine-level arithmetic -/

/-- `bioExprTimes`: a zero factor gives zero (also against inf/nan) -/
def emul (a b : α) : α := if eq a 0 then 0 else if eq b 0 then 0 else a * b

/-- `constants::get_almost_zero()` = √(machine epsilon) -/
def almostZero : α := 1.4901161193847656e-08

/-- `bioExprLogzero`: values in `[-√ε, 0]` give 0, otherwise the logarithm -/
def logzero (x : α) : α := if le (-almostZero) x && le x 0 then 0 else log x

/-- an alternative is available iff its availability value is not 0
(`if (av == 0.0)` in `bioExprLogLogit`, `availability[i] != Numeric(0)` in nested.py) -/
def avail (av : Int → α) (i : Int) : Bool := !(eq (av i) 0)

/-- value of a log that may be `log(0) = −∞` -/
def expL : Option α → α
  | none => 0
  | some x => exp x

/-! ## logit kernel, logit, MEV -/

/-- denominator of the kernel: only available alternatives are read -/
def denom (alts : List Int) (V av : Int → α) : α :=
  sum ((alts.filter (avail av)).map fun j => exp (V j))

/-- `_bioLogLogit(util, av, c)`; `none` is `log(0)` (chosen alternative unavailable) -/
def logLogit (alts : List Int) (V av : Int → α) (c : Int) : Option α :=
  if avail av c then some (V c - log (denom alts V av)) else none

/-- `models.logit` = `exp(_bioLogLogit(...))` -/
def logitP (alts : List Int) (V av : Int → α) (c : Int) : α := expL (logLogit alts V av c)

/-- `models.logmev`: `h_i = V_i + ln G_i`, then the kernel -/
def logMev (alts : List Int) (V logG av : Int → α) (c : Int) : Option α :=
  logLogit alts (fun i => V i + logG i) av c

/-- `models.mev` = `exp(logmev(...))` -/
def mevP (alts : List Int) (V logG av : Int → α) (c : Int) : α := expL (logMev alts V logG av c)

/-! ## nests -/

structure Nest (α : Type) where
  mu : α
  alts : List Int

structure CNest (α : Type) where
  mu : α
  alphas : List (Int × α)       -- `dict_of_alpha` (keys in insertion order)

def CNest.alts (m : CNest α) : List Int := m.alphas.map (·.1)

/-- a nest as the user wrote it: an object (`OneNestFor…(nest_param, …)`) or a legacy tuple -/
inductive Spec (ν : Type) where
  | obj (n : ν)
  | tup (n : ν)

def Spec.isObj {ν} : Spec ν → Bool
  | .obj _ => true
  | .tup _ => false

def Spec.get {ν} : Spec ν → ν
  | .obj n => n
  | .tup n => n

/-- `Nests…Logit.__init__`: if not every element is a nest object, *every* element goes through
`from_tuple` (`cls(*the_tuple)`), which fails with `TypeError` on a nest object. -/
def convertSpecs {ν} (specs : List (Spec ν)) : Except String (List ν) :=
  if specs.all Spec.isObj then pure (specs.map Spec.get)
  else specs.mapM fun
    | .tup n => pure n
    | .obj _ => throw "TypeError"

/-- how the `nests` argument of a model function was written -/
inductive NestsArg (ν : Type) where
  | object (choiceSet : List Int) (specs : List (Spec ν))   -- `Nests…Logit(choice_set, tuple_of_nests)`
  | legacy (specs : List (Spec ν))                          -- a bare tuple: `choice_set = list(util)`

/-- the validated nest object: `choice_set`, `tuple_of_nests` -/
structure NestsObj (ν : Type) where
  choiceSet : List Int
  nests : List ν

def unionAlts (lists : List (List Int)) : List Int := lists.flatten

/-- `Nests.__init__`: members outside the choice set are refused -/
def mkNests {ν} (altsOf : ν → List Int) (choiceSet : List Int) (nests : List ν) :
    Except String (NestsObj ν) :=
  if (unionAlts (nests.map altsOf)).any (fun i => !choiceSet.contains i) then throw "BiogemeError"
  else pure ⟨choiceSet, nests⟩

/-- `self.alone = set(choice_set) - mev_alternatives` (a set: each label once) -/
def aloneOf (choiceSet : List Int) (lists : List (List Int)) : List Int :=
  (choiceSet.filter fun i => !(unionAlts lists).contains i).eraseDups

/-- `check_union`: union of the nests ∪ alone = choice set (as sets) -/
def checkUnion (choiceSet : List Int) (lists : List (List Int)) : Bool :=
  let u := unionAlts lists ++ aloneOf choiceSet lists
  choiceSet.all (fun i => u.contains i) && u.all (fun i => choiceSet.contains i)

def interEmpty (a b : List Int) : Bool := a.all fun i => !b.contains i

/-- `check_intersection`: no nest meets `alone`; nests at *different positions* are disjoint -/
def checkIntersection (choiceSet : List Int) (lists : List (List Int)) : Bool :=
  let al := aloneOf choiceSet lists
  let idx := (List.range lists.length).zip lists
  idx.all fun (i, ni) =>
    interEmpty ni al && idx.all fun (j, nj) => i == j || interEmpty ni nj

/-- `NestsForNestedLogit.check_partition` -/
def checkPartition (choiceSet : List Int) (lists : List (List Int)) : Bool :=
  checkUnion choiceSet lists && checkIntersection choiceSet lists

/-- `NestsForCrossNestedLogit.check_validity`: the Boolean is the one of `check_union`
(the rest only extends the message) -/
def checkValidity (choiceSet : List Int) (lists : List (List Int)) : Bool :=
  checkUnion choiceSet lists

/-- resolution of the `nests` argument as done at the top of every model function -/
def resolve {ν} (altsOf : ν → List Int) (utilKeys : List Int) : NestsArg ν → Except String (NestsObj ν)
  | .object cs specs => do
      let ns ← convertSpecs specs
      mkNests altsOf cs ns
  | .legacy specs => do
      let ns ← convertSpecs specs
      mkNests altsOf utilKeys ns

/-! ## nested logit: ln G_i -/

/-- availability-conditioned nest sum `ConditionalSum[(av_j != 0, exp(mu_m * V_j)) for j in nest]` -/
def nestSum (V av : Int → α) (m : Nest α) : α :=
  sum ((m.alts.filter (avail av)).map fun j => exp (emul m.mu (V j)))

/-- the nest whose loop iteration wrote `log_gi[i]` last -/
def findNest : List (Nest α) → Int → Option (Nest α)
  | [], _ => none
  | m :: ms, i =>
    match findNest ms i with
    | some m' => some m'
    | none => if m.alts.contains i then some m else none

/-- `get_mev_for_nested`: `(mu_m - 1) V_i + (1/mu_m - 1) log(sum_m)`; alone ⇒ `0` -/
def nestedLogG (nests : List (Nest α)) (V av : Int → α) (i : Int) : α :=
  match findNest nests i with
  | none => 0
  | some m => emul (m.mu - 1) (V i) + emul (1 / m.mu - 1) (log (nestSum V av m))

/-- `get_mev_for_nested_mu`: `log mu + (mu_m - 1) V_i + (mu/mu_m - 1) log(sum_m)`;
alone ⇒ `log mu + (mu - 1) V_i` -/
def nestedMuLogG (nests : List (Nest α)) (mu : α) (V av : Int → α) (i : Int) : α :=
  match findNest nests i with
  | none => log mu + emul (mu - 1) (V i)
  | some m => log mu + emul (m.mu - 1) (V i) + emul (mu / m.mu - 1) (log (nestSum V av m))

def logNestedP (nests : List (Nest α)) (alts : List Int) (V av : Int → α) (c : Int) : Option α :=
  logMev alts V (nestedLogG nests V av) av c
def nestedP (nests : List (Nest α)) (alts : List Int) (V av : Int → α) (c : Int) : α :=
  mevP alts V (nestedLogG nests V av) av c
def logNestedMuP (nests : List (Nest α)) (mu : α) (alts : List Int) (V av : Int → α) (c : Int) : Option α :=
  logMev alts V (nestedMuLogG nests mu V av) av c
def nestedMuP (nests : List (Nest α)) (mu : α) (alts : List Int) (V av : Int → α) (c : Int) : α :=
  expL (logNestedMuP nests mu alts V av c)

/-! ## nested logit: generating function -/

/-- `get_mev_generating_for_nested` as a function of `y` (`y_j = exp V_j`):
`Σ_m (Σ_{j∈m, av_j≠0} y_j^{mu_m})^{1/mu_m} + Σ_{i alone} y_i` -/
def nestedG (nests : List (Nest α)) (alone : List Int) (av y : Int → α) : α :=
  sum (nests.map fun m => pow (sum ((m.alts.filter (avail av)).map fun j => pow (y j) m.mu)) (1 / m.mu))
    + sum (alone.map y)

/-- the same as the code writes it on the utilities: `exp(mu_m V_j)`, `exp(V_i)` -/
def nestedGofV (nests : List (Nest α)) (alone : List Int) (V av : Int → α) : α :=
  sum (nests.map fun m => pow (nestSum V av m) (1 / m.mu)) + sum (alone.map fun i => exp (V i))

/-! ## cross-nested logit: ln G_i -/

/-- `bioMultSum([availability[j] * a**mu_m * exp(mu_m * V_j) for j, a in dict_of_alpha])`
(`e` is the exponent of alpha: `mu_m`, resp. `mu_m / mu`) -/
def cnlBiosum (V av : Int → α) (m : CNest α) (e : α) : α :=
  sum (m.alphas.map fun p => emul (emul (av p.1) (pow p.2 e)) (exp (emul m.mu (V p.1))))

/-- `a**mu_m * exp((mu_m - 1) V_i) * biosum ** ((1 - mu_m)/mu_m)` -/
def cnlTerm (V av : Int → α) (m : CNest α) (i : Int) (a : α) : α :=
  emul (emul (pow a m.mu) (exp (emul (m.mu - 1) (V i)))) (pow (cnlBiosum V av m m.mu) ((1 - m.mu) / m.mu))

/-- `a**(mu_m/mu) * exp((mu_m - 1) V_i) * biosum ** (mu/mu_m - 1)` -/
def cnlMuTerm (mu : α) (V av : Int → α) (m : CNest α) (i : Int) (a : α) : α :=
  emul (emul (pow a (m.mu / mu)) (exp (emul (m.mu - 1) (V i))))
    (pow (cnlBiosum V av m (m.mu / mu)) (mu / m.mu - 1))

/-- `gi_terms[i]`: one term per nest whose `dict_of_alpha` has key `i` -/
def giTerms (term : CNest α → Int → α → α) (nests : List (CNest α)) (i : Int) : List α :=
  nests.flatMap fun m => (m.alphas.filter fun p => p.1 == i).map fun p => term m i p.2

def inSomeCNest (nests : List (CNest α)) (i : Int) : Bool := nests.any fun m => m.alts.contains i

/-- `get_mev_for_cross_nested`: `logzero(Σ terms)`; alone ⇒ `0` -/
def cnlLogG (nests : List (CNest α)) (V av : Int → α) (i : Int) : α :=
  if inSomeCNest nests i then logzero (sum (giTerms (cnlTerm V av) nests i)) else 0

/-- `all(isinstance(a, Numeric) and a.get_value() == 0 for a in memberships)` in
`get_mev_for_cross_nested_mu` (`memberships` = the alphas of `i` in the nests that list it):
every membership of `i` is zero (vacuously true for an alternative listed nowhere).
The model carries the *value* of a membership only and tests the value, as `logzero` does in the
version without `mu`: this is the *repaired* behaviour (known finding F-C06-2: the code
recognises constants only; for a `Beta` of value 0 in every nest it computes `log(mu * 0)`).
The main streams of the harness write the zeros of an alternative that belongs to no nest as
constants, on which code and model agree. -/
def zeroMember (nests : List (CNest α)) (i : Int) : Bool :=
  (giTerms (fun _ _ a => a) nests i).all fun a => eq a 0

/-- `get_mev_for_cross_nested_mu`: `log(mu * Σ terms)`; alone, or membership zero in every nest
that lists the alternative ("alone in its own nest") ⇒ `log mu + (mu - 1) V_i` -/
def cnlMuLogG (nests : List (CNest α)) (mu : α) (V av : Int → α) (i : Int) : α :=
  if inSomeCNest nests i && !zeroMember nests i then
    log (emul mu (sum (giTerms (cnlMuTerm mu V av) nests i)))
  else log mu + emul (mu - 1) (V i)

def logCnlP (nests : List (CNest α)) (alts : List Int) (V av : Int → α) (c : Int) : Option α :=
  logMev alts V (cnlLogG nests V av) av c
def cnlP (nests : List (CNest α)) (alts : List Int) (V av : Int → α) (c : Int) : α :=
  expL (logCnlP nests alts V av c)
def logCnlMuP (nests : List (CNest α)) (mu : α) (alts : List Int) (V av : Int → α) (c : Int) : Option α :=
  logMev alts V (cnlMuLogG nests mu V av) av c
def cnlMuP (nests : List (CNest α)) (mu : α) (alts : List Int) (V av : Int → α) (c : Int) : α :=
  expL (logCnlMuP nests mu alts V av c)

/-- the cross-nested structure in which every alternative of a nested structure belongs
wholly (alpha = 1) to its nest -/
def toCNest (m : Nest α) : CNest α := ⟨m.mu, m.alts.map fun i => (i, 1)⟩

/-- the same with an allocation parameter `a i` for alternative `i` (still one nest each) -/
def toCNestA (a : Int → α) (m : Nest α) : CNest α := ⟨m.mu, m.alts.map fun i => (i, a i)⟩

/-- memberships written as a table: the nest also lists the alternatives `extra m` that do not
belong to it, with the constant alpha 0 (`extra m` = the rest of the choice set: the full table
of the Swissmetro cross-nested examples; an alternative outside every nest then has alpha 0 in
every nest).  The zeros are put after the members (a dict: the place of a key only changes the
order of the summation). -/
def withZeros (extra : CNest α → List Int) (m : CNest α) : CNest α :=
  ⟨m.mu, m.alphas ++ (extra m).map fun i => (i, 0)⟩

/-! ## the model functions with their validation (what a call returns or raises) -/

/-- `nested / lognested / nested_mev_mu / lognested_mev_mu` up to the choice of `ln G_i`:
resolve the nests, `check_partition` (⇒ `BiogemeError`), then the dictionary accesses:
`util[i]` for the alone alternatives (only the `_mu` version reads it) and for every member of
a nest, and `log_gi[i]` for every key of `util` in `logmev` (⇒ `KeyError`). -/
def nestedSetup (utilKeys : List Int) (arg : NestsArg (Nest α)) (aloneNeedsUtil : Bool) :
    Except String (List (Nest α) × List Int) := do
  let o ← resolve Nest.alts utilKeys arg
  let lists := o.nests.map Nest.alts
  if !checkPartition o.choiceSet lists then throw "BiogemeError"
  let al := aloneOf o.choiceSet lists
  if aloneNeedsUtil && !(al.all fun i => utilKeys.contains i) then throw "KeyError"
  if !((unionAlts lists).all fun i => utilKeys.contains i) then throw "KeyError"
  if !(utilKeys.all fun i => (unionAlts lists ++ al).contains i) then throw "KeyError"
  pure (o.nests, al)

/-- `cnl / logcnl / cnlmu / logcnlmu`: `check_validity`, `util[i]` as above; a key of `util`
that is neither alone nor in a nest has an empty list of terms: `bioMultSum([])` raises
`BiogemeError` (in both versions: the test "zero membership everywhere" of the `mu` version
requires a non-empty list of memberships). -/
def cnlSetup (utilKeys : List Int) (arg : NestsArg (CNest α)) (aloneNeedsUtil : Bool) :
    Except String (List (CNest α) × List Int) := do
  let o ← resolve CNest.alts utilKeys arg
  let lists := o.nests.map CNest.alts
  if !checkValidity o.choiceSet lists then throw "BiogemeError"
  let al := aloneOf o.choiceSet lists
  if aloneNeedsUtil && !(al.all fun i => utilKeys.contains i) then throw "KeyError"
  if !((unionAlts lists).all fun i => utilKeys.contains i) then throw "KeyError"
  if !(utilKeys.all fun i => (unionAlts lists ++ al).contains i) then
    throw "BiogemeError"
  pure (o.nests, al)

/-! ## ordered models -/

/-- `distributions.logisticcdf(x)` with the default location 0 and scale 1:
`1 / (1 + exp(-(x - 0) / 1))` -/
def logisticCdf (x : α) : α := 1 / (1 + exp (-(x - 0) / 1))

/-- Python `d[k] = v` on an insertion-ordered dict -/
def dictSet {β} (d : List (Int × β)) (k : Int) (v : β) : List (Int × β) :=
  if d.any (fun p => p.1 == k) then d.map (fun p => if p.1 == k then (k, v) else p) else d ++ [(k, v)]

def middle {β} (l : List β) : List β := (l.drop 1).dropLast

/-- loop over `list_of_discrete_values[1:-1]` -/
def orderedLoop (F : α → α) (x : α) (diffOf : Int → α) :
    List Int → α → List (Int × α) → List (Int × α) × α
  | [], tau, d => (d, tau)
  | item :: rest, tau, d =>
    let next := tau + diffOf item
    orderedLoop F x diffOf rest next (dictSet d item (F (x - tau) - F (x - next)))

/-- `ordered_likelihood(x, labels, tau, cdf)`: the returned dict (insertion order), with the
`diff` parameter of a label looked up by label (the Beta's name contains the label).
Fewer than two discrete values are refused: this is the *repaired* behaviour (known finding
F-C05-2: the code as it stands raises `IndexError` on `[]` and returns `{v: F(x - tau)}` on `[v]`,
the last term overwriting the first). -/
def orderedLikelihood (F : α → α) (x tau : α) (diffOf : Int → α) (labels : List Int) :
    Except String (List (Int × α)) :=
  match labels with
  | [] => throw "BiogemeError"
  | [_] => throw "BiogemeError"
  | [a, b] => pure (dictSet [(a, 1 - F (x - tau))] b (F (x - tau)))
  | first :: _ =>
    let d0 := [(first, 1 - F (x - tau))]
    let (d, t) := orderedLoop F x diffOf (middle labels) tau d0
    pure (dictSet d (labels.getLast?.getD first) (F (x - t)))

end Models
