/-
How the library BUILDS the kernel expression of every choice model from the Python dictionaries the
user wrote (round 3 of C05).  Model/Models.lean is the semantic level (functions on labels); this
file is the level of the calls: insertion-ordered dictionaries (`List (Int × α)`, keys distinct),
`availability = None`, look-ups by key, the branch of `models/logit.py` / `models/mev.py` that
selects `_bioLogLogitFullChoiceSet`, the correction terms of `logmev_endogenous_sampling`, and the
`tau_parameter` test of `ordered_likelihood`.

Anchors (src/biogeme):
* expressions/logit_expressions.py `LogLogit.__init__` (`av is None` ⇒ `{k: Numeric(1) for k in util}`),
  `LogLogit.get_signature` (`for i, e in self.util.items(): … self.av[i]` — the availability is
  read BY KEY, a missing key is a `KeyError`), `_bioLogLogitFullChoiceSet.__init__`
  (`super().__init__(util=util, av=None, choice=choice)`); engine `bioExprLogLogit`: the chosen
  alternative is found by its label among the triples, an availability value 0 skips the triple.
* models/logit.py `loglogit`, `logit` (`if av is None: _bioLogLogitFullChoiceSet(util, choice=i)`).
* models/mev.py `logmev` (`h = {i: v + log_gi[i] for i, v in util.items()}`, same branch), `mev`,
  `logmev_endogenous_sampling` (`h = {i: v + log_gi[i] + correction[i] …}`, always `_bioLogLogit`),
  `mev_endogenous_sampling`.
* models/ordered.py `ordered_likelihood`: `tau_parameter` must be a `Beta`.
Core Lean only.
-/
import Model.Models

namespace Models
open Num

variable {α : Type} [NumOps α]

/-! ## the kernel as it is built from two dictionaries -/

/-- Python `d[k]` on an insertion-ordered dict -/
def dictGet {β : Type} (d : List (Int × β)) (k : Int) : Option β := d.lookup k

/-- a dict comprehension `{i: f(i, v) for i, v in d.items()}` whose body looks other dictionaries up
by key: the first key for which a look-up fails raises `KeyError` -/
def mapKeys {β γ : Type} (f : Int → β → Option γ) : List (Int × β) → Except String (List (Int × γ))
  | [] => pure []
  | p :: rest =>
    match f p.1 p.2 with
    | none => throw "KeyError"
    | some y =>
      match mapKeys f rest with
      | .error e => .error e
      | .ok l => pure ((p.1, y) :: l)

/-- `LogLogit.__init__` + `get_signature`: one triple (label, utility, availability) per key of
`util`, in the order of `util`; the availability is `self.av[i]` (by key, `KeyError` when the key is
missing); `av is None` gives `Numeric(1)` for every key of `util`. -/
def kernelTriples (util : List (Int × α)) :
    Option (List (Int × α)) → Except String (List (Int × α × α))
  | none => pure (util.map fun p => (p.1, p.2, 1))
  | some a => mapKeys (fun i v => (dictGet a i).map fun x => (v, x)) util

/-- the triples the engine reads (availability value `!= 0`) -/
def liveTriples (ts : List (Int × α × α)) : List (Int × α × α) := ts.filter fun t => !(eq t.2.2 0)

/-- engine `bioExprLogLogit` on the triples: the chosen alternative is the first triple with that
label (none ⇒ the engine raises); its availability 0 ⇒ `log 0`; otherwise
`V_c − log Σ_{triples with av ≠ 0} exp V_j` -/
def kernelValue (ts : List (Int × α × α)) (c : Int) : Except String (Option α) :=
  match ts.find? (fun t => t.1 == c) with
  | none => throw "choice"
  | some t =>
    if eq t.2.2 0 then pure none
    else pure (some (t.2.1 - log (sum ((liveTriples ts).map fun t => exp t.2.1))))

/-- `_bioLogLogit(util, av, choice)` evaluated -/
def bioLogLogit (util : List (Int × α)) (av : Option (List (Int × α))) (c : Int) :
    Except String (Option α) := do
  let ts ← kernelTriples util av
  kernelValue ts c

/-- `_bioLogLogitFullChoiceSet(util, choice)`: `super().__init__(util=util, av=None, choice=choice)` -/
def bioLogLogitFull (util : List (Int × α)) (c : Int) : Except String (Option α) :=
  bioLogLogit util none c

/-- `models.loglogit(util, av, i)`: `if av is None` the full-choice-set kernel, else the kernel with
the availability dictionary AS GIVEN (numbers 0/1 included: they are converted to `Numeric`, their
value still decides) -/
def loglogitCall (util : List (Int × α)) (av : Option (List (Int × α))) (c : Int) :
    Except String (Option α) :=
  match av with
  | none => bioLogLogitFull util c
  | some a => bioLogLogit util (some a) c

/-- `models.logit = exp(loglogit)` -/
def logitCall (util : List (Int × α)) (av : Option (List (Int × α))) (c : Int) : Except String α :=
  (loglogitCall util av c).map expL

/-! ## evaluation: the audit comes first -/

/-- `LogLogit.audit`: `self.util.keys() != self.av.keys()` (comparison of the key SETS) is an error -/
def keysAgree {β γ : Type} (util : List (Int × β)) (a : List (Int × γ)) : Bool :=
  (util.all fun p => (dictGet a p.1).isSome) && (a.all fun p => (dictGet util p.1).isSome)

/-- `get_value_c` / `BIOGEME` audit the expression before anything is handed to the engine: a kernel
whose two dictionaries do not have the same keys is refused with `BiogemeError` (so the `KeyError` of
`get_signature` is never reached through the public evaluation) -/
def auditKernel (util : List (Int × α)) : Option (List (Int × α)) → Except String Unit
  | none => pure ()
  | some a => if keysAgree util a then pure () else throw "BiogemeError"

/-- `models.loglogit(util, av, c).get_value_c(...)` -/
def loglogitEval (util : List (Int × α)) (av : Option (List (Int × α))) (c : Int) :
    Except String (Option α) := do
  auditKernel util av
  loglogitCall util av c

/-! ## MEV calls -/

/-- `h = {i: v + log_gi[i] for i, v in util.items()}` -/
def hDict (util logG : List (Int × α)) : Except String (List (Int × α)) :=
  mapKeys (fun i v => (dictGet logG i).map fun g => v + g) util

/-- `models.logmev(util, log_gi, av, choice)` -/
def logmevCall (util logG : List (Int × α)) (av : Option (List (Int × α))) (c : Int) :
    Except String (Option α) := do
  let h ← hDict util logG
  match av with
  | none => bioLogLogitFull h c
  | some a => bioLogLogit h (some a) c

/-- `h = {i: v + log_gi[i] + correction[i] for i, v in util.items()}` -/
def hDictES (util logG corr : List (Int × α)) : Except String (List (Int × α)) :=
  mapKeys (fun i v => (dictGet logG i).bind fun g => (dictGet corr i).map fun w => v + g + w) util

/-- `models.logmev_endogenous_sampling(util, log_gi, av, correction, choice)`:
always `_bioLogLogit(h, av, choice)` (an `av` that is `None` is resolved by `LogLogit.__init__`) -/
def logmevESCall (util logG corr : List (Int × α)) (av : Option (List (Int × α))) (c : Int) :
    Except String (Option α) := do
  let h ← hDictES util logG corr
  bioLogLogit h av c

/-- the two MEV calls evaluated: the dictionary `h` is built when the model function is called (a key
missing in `log_gi` / `correction` is a `KeyError` there), the audit of the kernel comes with the
evaluation -/
def logmevEval (util logG : List (Int × α)) (av : Option (List (Int × α))) (c : Int) :
    Except String (Option α) := do
  let h ← hDict util logG
  auditKernel h av
  loglogitCall h av c

def logmevESEval (util logG corr : List (Int × α)) (av : Option (List (Int × α))) (c : Int) :
    Except String (Option α) := do
  let h ← hDictES util logG corr
  auditKernel h av
  bioLogLogit h av c

/-- semantic level: `V_i + ln G_i + ω_i` in the logit kernel -/
def logMevES (alts : List Int) (V logG corr av : Int → α) (c : Int) : Option α :=
  logLogit alts (fun i => V i + logG i + corr i) av c

/-- `models.mev_endogenous_sampling = exp(logmev_endogenous_sampling)` -/
def mevESP (alts : List Int) (V logG corr av : Int → α) (c : Int) : α :=
  expL (logMevES alts V logG corr av c)

/-- a dictionary read as a function on labels (the value at a label that is no key is never used by
the theorems: they are about keys) -/
def dictFun (d : List (Int × α)) (i : Int) : α := (dictGet d i).getD 0

/-! ## ordered models: the call -/

/-- `ordered_likelihood`: `if not isinstance(tau_parameter, Beta): raise BiogemeError`, then the
dictionary of Model/Models.lean.  `tauIsBeta` is the outcome of the `isinstance` test (a free or a
fixed `Beta`, with or without bounds, passes; a number, a `Numeric`, a `Variable`, an expression
such as `Beta + 0` does not). -/
def orderedCall (tauIsBeta : Bool) (F : α → α) (x tau : α) (diffOf : Int → α) (labels : List Int) :
    Except String (List (Int × α)) :=
  if !tauIsBeta then throw "BiogemeError" else orderedLikelihood F x tau diffOf labels

end Models
