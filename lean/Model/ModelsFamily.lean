/-
Round 3 of C06: more of the nested / cross-nested family inside the model.

* `eulerSum`            : the Euler form `Σ_i y_i · exp(ln G_i)` of the generating function of the
                          nested logit, over the alternatives that contribute to `G`: the AVAILABLE
                          members of every nest (the nest sums of models/nested.py are
                          `ConditionalSum`s over `availability[i] != 0`) and the alone alternatives.
                          `G` is homogeneous of degree one, so the two agree (C06.generating_euler);
                          a sum over *every* key of `util` does not (C06.euler_all_keys_wrong).
* `aloneLogG`           : the term of an alternative alone in its own nest (`0`, resp.
                          `log(mu) + (mu - 1) V_i`) — what a nest reduces to when only one of its
                          members is available (C06.nested_single_available).
* `dropUnitNests`       : the tempting "simplification" of the legacy syntax (a nest written with the
                          constant parameter 1 is dropped, its members become alone): right without
                          explicit scale (C06.unit_nests_droppable), wrong with it
                          (C06.unit_nest_not_alone).
* `alphaRow`            : nests.py `NestsForCrossNestedLogit.get_alpha_dict / get_alpha_values`
                          (`nest.dict_of_alpha.get(alternative_id, Numeric(0.0))` per nest, in the
                          order of the nests): the membership *table* of a sparse specification.
* `nestedCorr`          : nests.py `NestsForNestedLogit.correlation` (identity, then every nest in
                          order writes `1 - 1/mu_m²` (resp. `1 - mu²/mu_m²`) for every pair of its
                          members; a later nest overwrites an earlier one).
Core Lean only.
-/
import Model.Models

namespace Models
open Num

variable {α : Type} [NumOps α]

/-! ## Euler form of the generating function -/

/-- `Σ_m Σ_{j ∈ m, av_j ≠ 0} exp(V_j + ln G_j) + Σ_{i alone} exp(V_i + ln G_i)` -/
def eulerSum (nests : List (Nest α)) (alone : List Int) (V av : Int → α) : α :=
  sum (nests.map fun m =>
      sum ((m.alts.filter (avail av)).map fun j => exp (V j + nestedLogG nests V av j)))
    + sum (alone.map fun i => exp (V i + nestedLogG nests V av i))

/-- the same sum over EVERY member of every nest, available or not (what one gets by summing
`exp(util[i] + log_gi[i])` over the keys of `util`) -/
def eulerSumAllKeys (nests : List (Nest α)) (alone : List Int) (V av : Int → α) : α :=
  sum (nests.map fun m => sum (m.alts.map fun j => exp (V j + nestedLogG nests V av j)))
    + sum (alone.map fun i => exp (V i + nestedLogG nests V av i))

/-! ## alone alternatives, nests with one available member, nests with parameter one -/

/-- `ln G_i` of an alternative alone in its own nest: `0` in `get_mev_for_nested`,
`log(mu) + (mu - 1) V_i` in `get_mev_for_nested_mu` (`mu = none`: the version without scale) -/
def aloneLogG (mu : Option α) (V : Int → α) (i : Int) : α :=
  match mu with
  | none => 0
  | some s => log s + emul (s - 1) (V i)

/-- nests whose parameter is the constant one are dropped (their members become alone) -/
def dropUnitNests (nests : List (Nest α)) : List (Nest α) := nests.filter fun m => !(eq m.mu 1)

/-! ## cross-nested logit: the membership table -/

/-- Python `d.get(k, default)` on an insertion-ordered dict -/
def dictGetD (d : List (Int × α)) (k : Int) (dflt : α) : α :=
  match d.lookup k with
  | some v => v
  | none => dflt

/-- `get_alpha_values(alternative_id)`: one entry per nest (in the order of the nests; the code keys
them by the name of the nest), `0.0` where the nest does not list the alternative -/
def alphaRow (nests : List (CNest α)) (i : Int) : List α := nests.map fun m => dictGetD m.alphas i 0

/-- the whole table: one row per alternative of the choice set -/
def alphaTable (nests : List (CNest α)) (cs : List Int) : List (Int × List α) :=
  cs.map fun i => (i, alphaRow nests i)

/-! ## nested logit: correlation matrix -/

/-- do positions `p ≠ q` of the list carry the labels `i` and `j` (in either order)?
(`itertools.combinations(alt_m, 2)` enumerates pairs of positions; the entry is written
symmetrically) -/
def pairIn (l : List Int) (i j : Int) : Bool :=
  let idx := (List.range l.length).zip l
  idx.any fun (p, a) => idx.any fun (q, b) => p != q && a == i && b == j

/-- the value a nest writes: `1 - 1/mu_m²` when `mu == 1.0`, else `1 - mu²/mu_m²` -/
def corrValue (mu : α) (m : Nest α) : α :=
  if eq mu 1 then 1 - 1 / (m.mu * m.mu) else 1 - (mu * mu) / (m.mu * m.mu)

/-- entry (i, j) of `NestsForNestedLogit.correlation(mu=…)`: the identity matrix, overwritten by
every nest (in order) that contains both labels at two different positions -/
def nestedCorr (nests : List (Nest α)) (mu : α) (i j : Int) : α :=
  nests.foldl (fun acc m => if pairIn m.alts i j then corrValue mu m else acc)
    (if i == j then 1 else 0)

end Models
