/-
Law-free numeric operations: every model that computes numbers is written once over
`[NumOps α]` and is run by the drivers on `Float` (instance below) and reasoned about on
`ℝ` (instance and bridge lemmas in Proofs/NumReal.lean).  Core Lean only.

Notation instances are *scoped* (`open Num`) so that they never compete with Mathlib's
instances on `ℝ` inside proof files.
-/

class NumOps (α : Type) where
  add : α → α → α
  sub : α → α → α
  mul : α → α → α
  div : α → α → α
  neg : α → α
  exp : α → α
  log : α → α
  sin : α → α
  cos : α → α
  sqrt : α → α
  pow : α → α → α            -- x ^ y for real exponents (Python `**` on floats)
  abs : α → α
  ofNat : Nat → α
  ofScientific : Nat → Bool → Nat → α
  lt : α → α → Bool
  le : α → α → Bool
  eq : α → α → Bool
  normalCdf : α → α          -- Φ

namespace Num

scoped instance {α} [NumOps α] : Add α := ⟨NumOps.add⟩
scoped instance {α} [NumOps α] : Sub α := ⟨NumOps.sub⟩
scoped instance {α} [NumOps α] : Mul α := ⟨NumOps.mul⟩
scoped instance {α} [NumOps α] : Div α := ⟨NumOps.div⟩
scoped instance {α} [NumOps α] : Neg α := ⟨NumOps.neg⟩
scoped instance {α} [NumOps α] {n : Nat} : OfNat α n := ⟨NumOps.ofNat n⟩
scoped instance {α} [NumOps α] : OfScientific α := ⟨NumOps.ofScientific⟩

variable {α : Type} [NumOps α]

def exp (x : α) : α := NumOps.exp x
def log (x : α) : α := NumOps.log x
def sin (x : α) : α := NumOps.sin x
def cos (x : α) : α := NumOps.cos x
def sqrt (x : α) : α := NumOps.sqrt x
def pow (x y : α) : α := NumOps.pow x y
def abs (x : α) : α := NumOps.abs x
def lt (x y : α) : Bool := NumOps.lt x y
def le (x y : α) : Bool := NumOps.le x y
def eq (x y : α) : Bool := NumOps.eq x y
def normalCdf (x : α) : α := NumOps.normalCdf x
def nat (n : Nat) : α := NumOps.ofNat n
def int (z : Int) : α := if z < 0 then NumOps.neg (NumOps.ofNat z.natAbs) else NumOps.ofNat z.natAbs

/-- 1 if the Boolean holds else 0 (biogeme's convention for comparison results) -/
def ofBool (b : Bool) : α := if b then NumOps.ofNat 1 else NumOps.ofNat 0

def sum (l : List α) : α := l.foldr (fun a acc => NumOps.add a acc) (NumOps.ofNat 0)
def prod (l : List α) : α := l.foldr (fun a acc => NumOps.mul a acc) (NumOps.ofNat 1)
def max (x y : α) : α := if NumOps.le x y then y else x
def min (x y : α) : α := if NumOps.le x y then x else y

end Num

/-! ## the executable instance -/

namespace FloatNum

/-- Φ as in the engine (`bioNormalCdf`): 0.5·erfc(−x/√2), computed here with the
complementary error function of W. J. Cody-style rational approximations being
unavailable in core Lean, by the series/continued-fraction pair below (|error| < 1e-15
on [-8, 8]; the correspondence check compares against the engine with tolerance). -/
def erfSeries (x : Float) : Float := Id.run do
  -- erf x = 2/√π Σ (-1)^n x^(2n+1) / (n! (2n+1)),   used for |x| < 2.5
  let mut term := x
  let mut s := x
  for n in [1:80] do
    let nf := n.toFloat
    term := term * (-(x * x)) / nf
    s := s + term / (2.0 * nf + 1.0)
  return s * 1.1283791670955126

def erfcCF (x : Float) : Float := Id.run do
  -- erfc x = exp(-x²)/(x√π) · 1/(1+ 1/(2x²)/(1+2/(2x²)/(1+…)))  for x ≥ 2.5 (Lentz, backwards)
  let mut f := 0.0
  for k in [0:120] do
    let n := (120 - k).toFloat
    f := (n / 2.0) / (x + f)
  return Float.exp (-(x * x)) / (x + f) * 0.5641895835477563

def erfc (x : Float) : Float :=
  if x < 0.0 then 2.0 - (if -x < 2.5 then 1.0 - erfSeries (-x) else erfcCF (-x))
  else if x < 2.5 then 1.0 - erfSeries x else erfcCF x

def normalCdf (x : Float) : Float := 0.5 * erfc (-x / 1.4142135623730951)

end FloatNum

instance : NumOps Float where
  add := (· + ·)
  sub := (· - ·)
  mul := (· * ·)
  div := (· / ·)
  neg := fun x => -x
  exp := Float.exp
  log := Float.log
  sin := Float.sin
  cos := Float.cos
  sqrt := Float.sqrt
  pow := Float.pow
  abs := Float.abs
  ofNat := Nat.toFloat
  ofScientific := Float.ofScientific
  lt := fun a b => decide (a < b)
  le := fun a b => decide (a ≤ b)
  eq := fun a b => a == b
  normalCdf := FloatNum.normalCdf
