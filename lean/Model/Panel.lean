/-
Model of panel data (src/biogeme/database.py, tools/database.py, biogeme.py, the engine's
bioExprPanelTrajectory / bioExprMontecarlo / bioExprDraws).

* `count_number_of_groups(df, col)` = number of positions whose value differs from the previous
  one (`!= shift(1)`, cumulated, `unique`) = number of maximal runs  → `countGroups`;
* `Database.panel(col)`: accepted iff `countGroups ids = countGroups (sorted ids)`  → `panelOk`;
* `build_panel_map`: the table is sorted by id, the index renumbered `0 … N−1`, and for each id of
  `unique()` (order of first appearance, i.e. ascending) the pair `[min(indices), max(indices)]` of
  the rows carrying it  → `panelMap`;  `get_sample_size` = number of rows of that map;
* engine: `bioExprPanelTrajectory` = `exp(Σ_{row = first}^{last} log child(row))`;
  `bioExprMontecarlo` = `(Σ_{r<R} child(r)) / R`; `bioExprDraws` reads
  `draws[individualIndex][drawIndex][drawId]`, and on panel data the individual index is the
  position of the individual in the map (rows are selected by the trajectory operator only);
* `check_panel_trajectory`: the set of variables that are not below a `PanelLikelihoodTrajectory`.

Ids are integers here (the harness maps the id values of a table to integers preserving order and
equality).  Core Lean only.
-/
import Model.Num

namespace Panel
open Num

/-! ## contiguity test -/

/-- the list without consecutive repeats (one entry per maximal run) -/
def compress : List Int → List Int
  | [] => []
  | [a] => [a]
  | a :: b :: t => if a = b then compress (b :: t) else a :: compress (b :: t)

/-- `biogeme.tools.count_number_of_groups` -/
def countGroups (l : List Int) : Nat := (compress l).length

/-- `sort_values(by=[col])` on the id column (the multiset of ids in ascending order) -/
def sortIds (l : List Int) : List Int := l.mergeSort (fun a b => decide (a ≤ b))

/-- the test of `Database.panel`: `n_groups == n_individuals` -/
def panelOk (ids : List Int) : Bool := countGroups ids == countGroups (sortIds ids)

/-! ## the individual map -/

/-- positions (after renumbering) of the rows carrying id `a` -/
def indicesOf (s : List Int) (a : Int) : List Nat :=
  (List.range s.length).filter fun i => s.getD i 0 == a

def minList : List Nat → Nat
  | [] => 0
  | a :: t => t.foldl min a

def maxList : List Nat → Nat
  | [] => 0
  | a :: t => t.foldl max a

structure Entry where
  id : Int
  first : Nat
  last : Nat
deriving Repr, DecidableEq

/-- `build_panel_map` applied to the (already sorted) id column -/
def panelMap (s : List Int) : List Entry :=
  s.eraseDups.map fun a => ⟨a, minList (indicesOf s a), maxList (indicesOf s a)⟩

/-- rows visited by the trajectory operator for one entry: `first … last` inclusive -/
def Entry.rows (e : Entry) : List Nat := List.range' e.first (e.last + 1 - e.first)

/-- `Database.get_sample_size()` on panel data -/
def sampleSize (s : List Int) : Nat := (panelMap s).length

/-! ## values -/

variable {α : Type} [NumOps α]

/-- engine: `exp(Σ log child(row))` over the rows of the individual -/
def trajectory (f : Nat → α) (rows : List Nat) : α :=
  exp (rows.foldl (fun acc t => acc + log (f t)) 0)

/-- the product the property speaks about -/
def trajectoryProd (f : Nat → α) (rows : List Nat) : α := prod (rows.map f)

/-- engine: Monte-Carlo mean of the trajectory; the integrand of row `t` at draw `r` receives the
draw vector `draws ind r` of the *individual* -/
def mcPanel (f : Nat → (Nat → α) → α) (draws : Nat → Nat → Nat → α) (ind : Nat) (rows : List Nat)
    (R : Nat) : α :=
  ((List.range R).foldl (fun acc r => acc + trajectory (fun t => f t (draws ind r)) rows) 0) / nat R

/-- per-individual values of a formula `outer(PanelLikelihoodTrajectory(f))` for a sorted id column -/
def panelValues (outer : α → α) (f : Nat → α) (s : List Int) : List α :=
  (panelMap s).map fun e => outer (trajectory f e.rows)

/-- per-individual values of `outer(MonteCarlo(PanelLikelihoodTrajectory(f)))` -/
def panelValuesMC (outer : α → α) (f : Nat → (Nat → α) → α) (draws : Nat → Nat → Nat → α)
    (s : List Int) (R : Nat) : List α :=
  (panelMap s).zipIdx.map fun (e, ind) => outer (mcPanel f draws ind e.rows R)

/-! ## a table: rows as (id, content); the whole pipeline -/

/-- sort the table by id (stable or not does not matter for the theorems: any order of the rows of
one individual gives the same product) -/
def sortTable {ρ : Type} (t : List (Int × ρ)) : List (Int × ρ) :=
  t.mergeSort (fun a b => decide (a.1 ≤ b.1))

/-- value reported for each individual of a table, in the order of the map -/
def tableValues {ρ : Type} (outer : α → α) (g : ρ → α) (dflt : ρ) (t : List (Int × ρ)) : List (Int × α) :=
  let s := sortTable t
  let ids := s.map (·.1)
  (panelMap ids).map fun e => (e.id, outer (trajectory (fun i => g ((s.getD i (0, dflt)).2)) e.rows))

/-! ## the table changes between two evaluations

`database.data` is a public attribute: rows can be appended, dropped, relabelled or reordered
after `panel()` was called.  `Database.individualMap` then describes the *previous* table.
`calculator.calculate_function_and_derivatives` (behind `Expression.get_value_c` /
`get_value_and_derivatives`), `BIOGEME.__init__` / `calculate_likelihood` (`_prepare_database_for_formula`)
and `BIOGEME.simulate` therefore call `build_panel_map()` before handing the map to the engine. -/

/-- the database as far as panel data are concerned: the table and the map *as last built* -/
structure DbState (ρ : Type) where
  table : List (Int × ρ)
  map : List Entry

/-- direct assignment to `database.data`: the map is not touched -/
def DbState.setTable {ρ : Type} (st : DbState ρ) (t : List (Int × ρ)) : DbState ρ := ⟨t, st.map⟩

/-- `build_panel_map`: sort the table by id, renumber the rows, rebuild the map -/
def DbState.rebuild {ρ : Type} (st : DbState ρ) : DbState ρ :=
  let s := sortTable st.table
  ⟨s, panelMap (s.map (·.1))⟩

/-- the engine on the map it is handed: one value per entry, product over the rows `first … last` -/
def DbState.engineValues {ρ : Type} (outer : α → α) (g : ρ → α) (dflt : ρ) (st : DbState ρ) : List (Int × α) :=
  st.map.map fun e => (e.id, outer (trajectory (fun i => g ((st.table.getD i (0, dflt)).2)) e.rows))

/-- one evaluation (`get_value_c`, `simulate`, …): rebuild the map, then run the engine; returns the
new state of the database and the values -/
def DbState.evaluate {ρ : Type} (outer : α → α) (g : ρ → α) (dflt : ρ) (st : DbState ρ) :
    DbState ρ × List (Int × α) :=
  let st' := st.rebuild
  (st', st'.engineValues outer g dflt)

/-- a history: tables assigned to `database.data`, each followed by one evaluation -/
def DbState.history {ρ : Type} (outer : α → α) (g : ρ → α) (dflt : ρ) :
    DbState ρ → List (List (Int × ρ)) → List (List Entry × List (Int × α))
  | _, [] => []
  | st, t :: ts =>
    let r := (st.setTable t).evaluate outer g dflt
    (r.1.map, r.2) :: DbState.history outer g dflt r.1 ts

/-! ## scaled quantities -/

/-- `BIOGEME.calculate_likelihood(scaled=True)` and every field returned by
`calculate_likelihood_and_derivatives(scaled=True)`: the unscaled quantity divided by
`Database.get_sample_size()` (on panel data the number of rows of the map) -/
def scaledBy (s : List Int) (v : α) : α := v / nat (sampleSize s)

/-- log likelihood = sum of the per-individual values -/
def logLikelihood (vals : List α) : α := sum vals

/-! ## placement rule -/

/-- the small formula family of this property -/
inductive PExpr where
  | num (v : Int)
  | beta (name : String)
  | var (name : String)
  | draws (name : String)
  | un (op : String) (e : PExpr)          -- exp, log, unary minus, …
  | bin (op : String) (l r : PExpr)       -- +, −, ×, ÷
  | traj (e : PExpr)                      -- PanelLikelihoodTrajectory
  | mc (e : PExpr)                        -- MonteCarlo
deriving Repr

/-- `Expression.check_panel_trajectory` (as a list; the code builds a set) -/
def checkPanelTrajectory : PExpr → List String
  | .num _ => []
  | .beta _ => []
  | .var n => [n]
  | .draws _ => []
  | .un _ e => checkPanelTrajectory e
  | .bin _ l r => checkPanelTrajectory l ++ checkPanelTrajectory r
  | .traj _ => []
  | .mc e => checkPanelTrajectory e

/-- `count_panel_trajectory_expressions` -/
def countTraj : PExpr → Nat
  | .un _ e => countTraj e
  | .bin _ l r => countTraj l + countTraj r
  | .traj e => 1 + countTraj e
  | .mc e => countTraj e
  | _ => 0

/-- `embed_expression('PanelLikelihoodTrajectory')`: the node itself or one below it -/
def hasTraj : PExpr → Bool
  | .un _ e => hasTraj e
  | .bin _ l r => hasTraj l || hasTraj r
  | .traj _ => true
  | .mc e => hasTraj e
  | _ => false

/-- `embed_expression('bioDraws')` -/
def hasDraws : PExpr → Bool
  | .draws _ => true
  | .un _ e => hasDraws e
  | .bin _ l r => hasDraws l || hasDraws r
  | .traj e => hasDraws e
  | .mc e => hasDraws e
  | _ => false

/-- `embed_expression('MonteCarlo')` -/
def hasMC : PExpr → Bool
  | .un _ e => hasMC e
  | .bin _ l r => hasMC l || hasMC r
  | .traj e => hasMC e
  | .mc _ => true
  | _ => false

/-- `Expression.check_draws`: draws that are not below a `MonteCarlo` -/
def checkDraws : PExpr → List String
  | .draws n => [n]
  | .un _ e => checkDraws e
  | .bin _ l r => checkDraws l ++ checkDraws r
  | .traj e => checkDraws e
  | .mc _ => []
  | _ => []

/-- number of errors listed by `Expression.audit(database)` on a *panel* database whose table has
all the variables of the formula: only `MonteCarlo.audit` contributes - its argument must contain
a `PanelLikelihoodTrajectory`, must contain a `bioDraws`, must not contain a `MonteCarlo`
(`PanelLikelihoodTrajectory.audit` complains on non-panel data only) -/
def auditErrors : PExpr → Nat
  | .un _ e => auditErrors e
  | .bin _ l r => auditErrors l + auditErrors r
  | .traj e => auditErrors e
  | .mc e => auditErrors e + (if hasTraj e then 0 else 1) + (if hasDraws e then 0 else 1)
      + (if hasMC e then 1 else 0)
  | _ => 0

/-- `BIOGEME(database, formula)` on a panel database builds the object (single formula) -/
def initAccepts (e : PExpr) : Bool :=
  (checkPanelTrajectory e).isEmpty && (checkDraws e).isEmpty && auditErrors e == 0

end Panel
