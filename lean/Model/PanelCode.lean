/-
More of the panel code, modelled branch by branch (round 3).

* `biogeme.tools.database.count_number_of_groups(df, col)`:
      df['_bio_groups'] = (df[col] != df[col].shift(1)).cumsum();  len(unique())
  `shift(1)` puts "nothing" (NaN) before the first row, and NaN differs from every value: the first
  row always starts a group, whatever its id (0, negative, …)                    → `countGroupsCode`;
* table level Monte-Carlo: the draw row of an individual is its position in the map built from the
  *sorted* table (not its position in the table as given)                        → `tableValuesMC`;
* formulas that combine several trajectory operators non-additively, e.g. the latent-class
  `log(w·PLT(f₁) + (1−w)·PLT(f₂))`: every operator runs over the same entry     → `tableValuesMulti`;
* bootstrap on panel data (`Database.sample_individual_map_with_replacement`, the loop of
  `BIOGEME.estimate(run_bootstrap=True)`): whole lines of the map are resampled (`iloc[picks]`), handed
  to the engine with `setDataMap(sample)`, and the map of the database is handed back after the loop
                                                                                 → `resample`, `Sess`;
* scaled quantities of `calculate_likelihood_and_derivatives(scaled=True)`       → `scaledOutput`;
* BHHH on panel data: one score per individual (sum over its rows), outer products summed over the
  individuals                                                                    → `bhhhPanel`.

Core Lean only.
-/
import Model.Num
import Model.Panel

namespace Panel
open Num

/-! ## count_number_of_groups, as written -/

/-- `df[col] != df[col].shift(1)`: row by row, does the id differ from the id of the previous row?
`prev = none` stands for the NaN that `shift(1)` puts before the first row (`v != NaN` is true) -/
def startsGroup : Option Int → List Int → List Bool
  | _, [] => []
  | prev, v :: t => (decide (some v ≠ prev)) :: startsGroup (some v) t

/-- `.cumsum()` of a boolean column (running number of `True`) -/
def cumsumB : Nat → List Bool → List Nat
  | _, [] => []
  | acc, b :: t => let a := if b then acc + 1 else acc; a :: cumsumB a t

/-- `len(df['_bio_groups'].unique())` -/
def countGroupsCode (ids : List Int) : Nat := (cumsumB 0 (startsGroup none ids)).eraseDups.length

/-- the same with a fill value instead of NaN before the first row (`shift(1, fill_value=v)`,
counting the `True`s): what a "cleaner" rewriting would compute; NOT the code -/
def countGroupsFill (fill : Int) (ids : List Int) : Nat := ((startsGroup (some fill) ids).filter id).length

/-- the test of `Database.panel` with the code's counter -/
def panelOkCode (ids : List Int) : Bool := countGroupsCode ids == countGroupsCode (sortIds ids)

variable {α : Type} [NumOps α]

/-! ## Monte-Carlo at table level -/

/-- per-individual values of `outer(MonteCarlo(PanelLikelihoodTrajectory(g)))` for a table given in
any order: sort by id, build the map; the individual at position `ind` *of the map* reads
`draws ind r` for all its rows -/
def tableValuesMC {ρ : Type} (outer : α → α) (g : ρ → (Nat → α) → α) (dflt : ρ)
    (draws : Nat → Nat → Nat → α) (R : Nat) (t : List (Int × ρ)) : List (Int × α) :=
  let s := sortTable t
  let ids := s.map (·.1)
  (panelMap ids).zipIdx.map fun q =>
    (q.1.id, outer (mcPanel (fun i xi => g ((s.getD i (0, dflt)).2) xi) draws q.2 q.1.rows R))

/-! ## several trajectory operators in one formula -/

/-- per-individual values of `comb [PLT(g₁), PLT(g₂), …]` (latent classes:
`comb [a, b] = log(w·a + (1−w)·b)`): all operators run over the rows of the same entry -/
def tableValuesMulti {ρ : Type} (comb : List α → α) (gs : List (ρ → α)) (dflt : ρ)
    (t : List (Int × ρ)) : List (Int × α) :=
  let s := sortTable t
  let ids := s.map (·.1)
  (panelMap ids).map fun e =>
    (e.id, comb (gs.map fun g => trajectory (fun i => g ((s.getD i (0, dflt)).2)) e.rows))

/-- the latent-class combination `log(w·a + (1−w)·b)` (other arities: 0) -/
def latentClass (w : α) : List α → α
  | [a, b] => log (w * a + (1 - w) * b)
  | _ => 0

/-! ## bootstrap on panel data -/

/-- `individualMap.iloc[picks]` (`picks = np.random.randint(0, len(map), size=len(map))`) -/
def resample (m : List Entry) (picks : List Nat) : List Entry := picks.filterMap fun i => m[i]?

/-- engine: the log likelihood is the sum, over the lines of the map it holds, of the value of the line -/
def engineLogLik (val : Entry → α) (m : List Entry) : α := sum (m.map val)

/-- one BIOGEME object on an unchanged panel table: the map of the database and the map held by the engine -/
structure Sess where
  dbMap : List Entry
  engMap : List Entry
deriving Repr

/-- public calls on the object -/
inductive SOp where
  | likelihood                                 -- calculate_likelihood / …_and_derivatives
  | simulate                                   -- simulate
  | estimate (bootstrap : List (List Nat))     -- estimate; one list of picks per bootstrap sample ([] = no bootstrap)

/-- `BIOGEME.__init__`: `setDataMap(database.individualMap)` -/
def Sess.init (m : List Entry) : Sess := ⟨m, m⟩

/-- the bootstrap loop: `setDataMap(sample)` + `optimize` for every sample (the maps used by the
optimiser are returned), then - after the loop - `setDataMap(database.individualMap)` -/
def Sess.bootstrapLoop (s : Sess) : List (List Nat) → Sess × List (List Entry)
  | [] => (s, [])
  | p :: ps =>
    let s1 : Sess := ⟨s.dbMap, resample s.dbMap p⟩
    let r := Sess.bootstrapLoop s1 ps
    (r.1, s1.engMap :: r.2)

/-- one public call: new state, the map the *reported* evaluation of that call ran on, and the maps
used inside the bootstrap loop -/
def Sess.step (s : Sess) : SOp → Sess × List Entry × List (List Entry)
  | .likelihood => (s, s.engMap, [])
  | .simulate => (⟨s.dbMap, s.dbMap⟩, s.dbMap, [])           -- build_panel_map + setDataMap
  | .estimate boot =>
    let used := s.engMap                                      -- the estimation itself
    let r := s.bootstrapLoop boot
    let s2 : Sess := if boot.isEmpty then r.1 else ⟨r.1.dbMap, r.1.dbMap⟩   -- restore after the loop
    (s2, used, r.2)

/-- a history of public calls: the map used by each reported evaluation -/
def Sess.run : Sess → List SOp → List (List Entry)
  | _, [] => []
  | s, op :: ops => let r := s.step op; r.2.1 :: Sess.run r.1 ops

/-! ## scaled output, BHHH by individuals -/

/-- `calculate_likelihood_and_derivatives(scaled=True)`: function, gradient, hessian and BHHH are all
divided by `get_sample_size()` = number of lines of the map -/
def scaledOutput (s : List Int) (f : α) (g h b : List α) : α × List α × List α × List α :=
  (scaledBy s f, g.map (scaledBy s), h.map (scaledBy s), b.map (scaledBy s))

/-- per-individual sums over the rows `first … last` (score of an individual for a formula whose
log is additive over its rows) -/
def entrySum (x : Nat → α) (e : Entry) : α := sum (e.rows.map x)

/-- BHHH (one parameter): sum over the *individuals* of the squared score of the individual -/
def bhhhPanel (x : Nat → α) (m : List Entry) : α := sum (m.map fun e => entrySum x e * entrySum x e)

/-- gradient of the log likelihood (one parameter): sum over the individuals of their scores -/
def gradPanel (x : Nat → α) (m : List Entry) : α := sum (m.map (entrySum x))


/-! ## one BIOGEME object while the table of its database changes (repaired behaviour, F-C09-5)

`BIOGEME.__init__` hands the (sorted) table and the map to the engine once.  `calculate_likelihood`,
`calculate_likelihood_and_derivatives` and `simulate` call `_prepare_database_for_formula`, which rebuilds the
map *of the database*; the engine keeps the table of `__init__`.  Repaired: when the rebuilt table is
no longer the one the engine holds, the call is refused (library error) instead of mixing the two. -/

structure Obj (ρ : Type) where
  db : DbState ρ
  engTable : List (Int × ρ)
  engMap : List Entry

/-- `BIOGEME(database, formula)`: `_prepare_database_for_formula`, `setDataMap`, `setData` -/
def Obj.create {ρ : Type} (st : DbState ρ) : Obj ρ :=
  let s := st.rebuild
  ⟨s, s.table, s.map⟩

/-- `database.data = t` after the object was created -/
def Obj.setTable {ρ : Type} (o : Obj ρ) (t : List (Int × ρ)) : Obj ρ := { o with db := o.db.setTable t }

/-- one evaluation on the object: `none` = refused -/
def Obj.evaluate {ρ : Type} [BEq ρ] (outer : α → α) (g : ρ → α) (dflt : ρ) (o : Obj ρ) :
    Obj ρ × Option (List (Int × α)) :=
  let db' := o.db.rebuild
  if db'.table == o.engTable then
    ({ o with db := db' }, some ((⟨o.engTable, o.engMap⟩ : DbState ρ).engineValues outer g dflt))
  else ({ o with db := db' }, none)

/-- tables assigned to `database.data` one after the other, one evaluation on the SAME object after each -/
def Obj.history {ρ : Type} [BEq ρ] (outer : α → α) (g : ρ → α) (dflt : ρ) :
    Obj ρ → List (List (Int × ρ)) → List (Option (List (Int × α)))
  | _, [] => []
  | o, t :: ts =>
    let r := (o.setTable t).evaluate outer g dflt
    r.2 :: Obj.history outer g dflt r.1 ts

end Panel
