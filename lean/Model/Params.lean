/-
Model of the parameter file of biogeme (src/biogeme/parameters.py, check_parameters.py,
default_parameters.py) and of the report rows / pickle protocol of results.py.
Core Lean only.

Parameters
* `Parameters.all_parameters_dict` : dict (name, section) ↦ ParameterTuple, insertion ordered.
* `add_parameter` : runs every check of the tuple (`check_parameter_value`, no short cut:
  a failed check only records a message, a check that raises aborts with its exception);
  refuses with BiogemeError when a check failed; otherwise stores the tuple under its key
  (replacing in place).
* `set_value(name, value, section)` : `get_param_tuple` (unique section of the name when none
  is given), then `add_parameter` with the new value (type, description, checks kept).
* `generate_document` : per section a table; every value is written as it is, except
  Python booleans which are written as the *strings* "True" / "False".
* `import_document` : for each section / entry of the parsed file: unknown key → ignored;
  default type `bool` → `parse_boolean(entry)` (the 8 spellings; anything else ends in
  `raise <str> from e`, i.e. a TypeError); other types → the TOML value as it is; then
  `add_parameter`.
* tomlkit's `dumps` / `parse` are an assumed inverse pair on TOML values (trusted).

Floats are 64-bit patterns (`Nat`), so equality is exact and decidable.
-/

deriving instance DecidableEq for Except

namespace Params

inductive PType where
  | bool | int | float | str
deriving DecidableEq, Repr

/-- a Python value of a parameter = a TOML value as tomlkit hands it back -/
inductive Val where
  | b (v : Bool)
  | i (v : Int)
  | f (bits : Nat)
  | s (v : String)
deriving DecidableEq, Repr

structure Entry where
  sec : String
  name : String
  type : PType
  value : Val
  checks : List String
deriving DecidableEq, Repr

abbrev Key := String × String

def Entry.key (e : Entry) : Key := (e.sec, e.name)

inductive Err where
  | refused      -- BiogemeError
  | typeError    -- a Python TypeError (e.g. `'abc' >= 0`, `raise <str> from e`)
deriving DecidableEq, Repr

/-! ## coding of values in the file -/

/-- `generate_document`: booleans become strings -/
def encode : Val → Val
  | .b true => .s "True"
  | .b false => .s "False"
  | v => v

def trueStr : List String := ["True", "true", "Yes", "yes"]
def falseStr : List String := ["False", "false", "No", "no"]

/-- `parse_boolean` as called from `import_document` (its BiogemeError is turned into a
TypeError by `raise error_msg from e`) -/
def parseBoolean : Val → Except Err Bool
  | .s x => if trueStr.contains x then .ok true
            else if falseStr.contains x then .ok false
            else .error .typeError
  | _ => .error .typeError

/-- `import_document`: decoding by the *default* type of the key -/
def decode (t : PType) (v : Val) : Except Err Val :=
  match t with
  | .bool => match parseBoolean v with
    | .ok b => .ok (.b b)
    | .error e => .error e
  | _ => .ok v

def Val.isBool : Val → Bool
  | .b _ => true
  | _ => false

/-- the value has the declared kind: Booleans for `bool` parameters and only there -/
def typeOK (t : PType) (v : Val) : Bool :=
  match t with
  | .bool => v.isBool
  | _ => !v.isBool

/-! ## check functions (check_parameters.py) -/

inductive CheckRes where
  | ok | fail | raises
deriving DecidableEq, Repr

def ofB (b : Bool) : CheckRes := if b then .ok else .fail

def expAllOnes : Nat := 0x7FF0000000000000
def signBit : Nat := 0x8000000000000000
def oneBits : Nat := 0x3FF0000000000000

/-- `x > 0` on a double given by its bits (false for NaN, −0.0) -/
def fPos (b : Nat) : Bool := 0 < b && b ≤ expAllOnes
/-- `x >= 0` -/
def fNonNeg (b : Nat) : Bool := b ≤ expAllOnes || b == signBit
/-- `0 <= x <= 1` -/
def fZeroOne (b : Nat) : Bool := b ≤ oneBits || b == signBit

def isNumber : Val → Bool
  | .s _ => false
  | _ => true

def knownChecks : List String :=
  ["is_number", "is_boolean", "is_integer", "is_positive", "is_non_negative", "zero_one",
   "check_algo_name"]

/-- one check; `algos` = `['automatic'] + list(opt.algorithms)`; an unknown check name
behaves as an exception (the translator reports it separately) -/
def runCheck (algos : List String) (c : String) (v : Val) : CheckRes :=
  if c == "is_number" then ofB (isNumber v)
  else if c == "is_boolean" then ofB v.isBool
  else if c == "is_integer" then
    (match v with | .i _ => .ok | .b _ => .ok | _ => .fail)
  else if c == "is_positive" then
    (match v with
      | .i n => ofB (decide (n > 0))
      | .b x => ofB x
      | .f bits => ofB (fPos bits)
      | .s _ => .fail)
  else if c == "is_non_negative" then
    (match v with
      | .i n => ofB (decide (n ≥ 0))
      | .b _ => .ok
      | .f bits => ofB (fNonNeg bits)
      | .s _ => .raises)
  else if c == "zero_one" then
    (match v with
      | .i n => ofB (decide (0 ≤ n ∧ n ≤ 1))
      | .b _ => .ok
      | .f bits => ofB (fZeroOne bits)
      | .s _ => .fail)
  else if c == "check_algo_name" then
    (match v with | .s x => ofB (algos.contains x) | _ => .fail)
  else .raises

/-- `check_parameter_value` followed by the test in `add_parameter` -/
def checkAll (algos : List String) : List String → Val → Bool → Except Err Unit
  | [], _, failed => if failed then .error .refused else .ok ()
  | c :: t, v, failed =>
    match runCheck algos c v with
    | .ok => checkAll algos t v failed
    | .fail => checkAll algos t v true
    | .raises => .error .typeError

def admitted (algos : List String) (e : Entry) (v : Val) : Bool :=
  match checkAll algos e.checks v false with
  | .ok _ => true
  | .error _ => false

/-! ## the dictionary -/

def find (ps : List Entry) (k : Key) : Option Entry := ps.find? (fun e => e.key == k)

def getValue (ps : List Entry) (k : Key) : Option Val := (find ps k).map (·.value)

/-- store a tuple under its key (in place when the key exists, else at the end) -/
def store (ps : List Entry) (e : Entry) : List Entry :=
  if ps.any (fun q => q.key == e.key) then ps.map (fun q => if q.key == e.key then e else q)
  else ps ++ [e]

def addParameter (algos : List String) (ps : List Entry) (e : Entry) : Except Err (List Entry) :=
  match checkAll algos e.checks e.value false with
  | .ok _ => .ok (store ps e)
  | .error err => .error err

/-- `get_param_tuple` : section resolution when none is given -/
def resolve (ps : List Entry) (sec : Option String) (name : String) : Except Err Entry :=
  match sec with
  | some s => match find ps (s, name) with
    | some e => .ok e
    | none => .error .refused
  | none =>
    match (ps.filter (fun e => e.name == name)).map (·.sec) |>.eraseDups with
    | [s] => match find ps (s, name) with
      | some e => .ok e
      | none => .error .refused
    | _ => .error .refused

def setValue (algos : List String) (ps : List Entry) (sec : Option String) (name : String)
    (v : Val) : Except Err (List Entry) :=
  match resolve ps sec name with
  | .ok e => addParameter algos ps { e with value := v }
  | .error err => .error err

/-! ## the document -/

/-- parsed TOML file: tables of entries (top level holds tables only) -/
abbrev Doc := List (String × List (String × Val))

def sectionsOf (ps : List Entry) : List String := (ps.map (·.sec)).eraseDups

/-- `generate_document` (sections in order of first appearance; the code's order comes from
a Python set and is irrelevant for reading) -/
def generateDocument (ps : List Entry) : Doc :=
  (sectionsOf ps).map fun s =>
    (s, (ps.filter (fun e => e.sec == s)).map fun e => (e.name, encode e.value))

def importEntry (algos : List String) (ps : List Entry) (sec name : String) (tv : Val) :
    Except Err (List Entry) :=
  match find ps (sec, name) with
  | none => .ok ps                      -- "Entry … is ignored by Biogeme"
  | some d =>
    match decode d.type tv with
    | .ok v => addParameter algos ps { d with value := v }
    | .error err => .error err

def importSection (algos : List String) (sec : String) :
    List Entry → List (String × Val) → Except Err (List Entry)
  | ps, [] => .ok ps
  | ps, (n, tv) :: t =>
    match importEntry algos ps sec n tv with
    | .ok ps' => importSection algos sec ps' t
    | .error err => .error err

def importDocument (algos : List String) : List Entry → Doc → Except Err (List Entry)
  | ps, [] => .ok ps
  | ps, (s, entries) :: t =>
    match importSection algos s ps entries with
    | .ok ps' => importDocument algos ps' t
    | .error err => .error err

/-! ## obligations on a (generated) table -/

def keysNodup (ps : List Entry) : Bool := decide ((ps.map (·.key)).Nodup)

/-- what the generic theorems need from the live default table -/
def tableOK (algos : List String) (tbl : List Entry) : Bool :=
  keysNodup tbl &&
  tbl.all fun e =>
    e.checks.all knownChecks.contains &&
    typeOK e.type e.value &&
    admitted algos e e.value &&
    (e.type != .bool || e.checks.contains "is_boolean") &&
    (e.type == .bool || !(e.checks.contains "is_boolean"))

end Params

/-! # report rows and pickle protocol (results.py) -/

namespace Reports

abbrev Text := List Char

/-- an estimated parameter as the reports see it; `value` is the text produced by Python's
format specification of the report (`.3g`, `+19.12e` — CPython formatting is trusted) -/
structure Row where
  name : Text
  value : Text
deriving DecidableEq, Repr

def padLeft (w : Nat) (s : Text) : Text := List.replicate (w - s.length) ' ' ++ s
def padRight (w : Nat) (s : Text) : Text := s ++ List.replicate (w - s.length) ' '

/-- HTML: `<tr class=biostyle><td>{name}</td><td>{value:.3g}</td>…` -/
def htmlRow (r : Row) : Text :=
  "<tr class=biostyle><td>".toList ++ r.name ++ "</td><td>".toList ++ r.value ++ "</td>".toList

/-- printed form (`Beta.__str__`): `f'{name:15}: {value:.3g}'` -/
def strRow (r : Row) : Text := padRight 15 r.name ++ ": ".toList ++ r.value

/-- F12: `'   0 ' + f'{name[:10]: >10}' + ' F' | ' T' + ' ' + f' {value: >+19.12e}'` -/
def f12Label (name : Text) : Text := padLeft 10 (name.take 10)
def f12Row (active : Bool) (r : Row) : Text :=
  "   0 ".toList ++ f12Label r.name ++ (if active then " T".toList else " F".toList) ++
    "  ".toList ++ padLeft 19 r.value

/-- LaTeX cell formatter of `get_latex` as it is: `.3g`, then ".0" appended when the text
contains no '.' -/
def latexFmt (s : Text) : Text := if s.contains '.' then s else s ++ ".0".toList

/-- repaired formatter: ".0" is appended only to a plain integer literal -/
def isIntLiteral (s : Text) : Bool :=
  match s with
  | '-' :: t => !t.isEmpty && t.all Char.isDigit
  | t => !t.isEmpty && t.all Char.isDigit
def latexFmtFixed (s : Text) : Text := if isIntLiteral s then s ++ ".0".toList else s

/-- LaTeX (pandas Styler): `{name} & {fmt value} & …` -/
def latexRow (fmt : Text → Text) (r : Row) : Text := r.name ++ " & ".toList ++ fmt r.value

def htmlRows (rs : List Row) : List Text := rs.map htmlRow
def strRows (rs : List Row) : List Text := rs.map strRow
def latexRows (fmt : Text → Text) (rs : List Row) : List Text := rs.map (latexRow fmt)
def f12Rows (rs : List (Bool × Row)) : List Text := rs.map fun p => f12Row p.1 p.2

/-! ## pickle: raw results are stored, statistics are recomputed on load -/

/-- `RawResults` object: what the estimation produced (`raw`), what `_calculate_stats`
derived from it (`derived`, stored in the same object), and the names of the files written
so far -/
structure Stored (ρ δ : Type) where
  raw : ρ
  derived : Option δ
  htmlFile : Option Text
  latexFile : Option Text
  f12File : Option Text
  pickleFile : Option Text

/-- `bioResults.__init__` : `_calculate_stats` reads raw data only and overwrites every
derived field -/
def recalc {ρ δ} (stats : ρ → δ) (s : Stored ρ δ) : Stored ρ δ := { s with derived := some (stats s.raw) }

/-- `write_pickle` : records the file name in the object, then dumps the object -/
def writePickle {ρ δ β} (dump : Stored ρ δ → β) (s : Stored ρ δ) (file : Text) : Stored ρ δ × β :=
  let s' := { s with pickleFile := some file }
  (s', dump s')

/-- `bioResults(pickle_file=…)` -/
def loadPickle {ρ δ β} (load : β → Stored ρ δ) (stats : ρ → δ) (bytes : β) : Stored ρ δ :=
  recalc stats (load bytes)

end Reports

/-! ## histories of one `Parameters` object (state = values + the TOML document it holds) -/

namespace Params

/-- the object: the dictionary of parameters and the document left by the last `read_file` /
`dump_file` (`None` at the start) -/
structure PState where
  params : List Entry
  doc : Option Doc

inductive POp where
  /-- `read_file` of a file with this content -/
  | read (d : Doc)
  /-- `set_value(name, value, section)` (also the keyword arguments and property setters of BIOGEME) -/
  | set (sec : Option String) (name : String) (v : Val)
  /-- `add_parameter` of a user parameter -/
  | add (e : Entry)
  /-- `dump_file` -/
  | dump

/-- the file `dump_file` writes: the document is **regenerated from the current values**,
whatever document the object holds (read from an incomplete file, left by an earlier dump) -/
def dumpDoc (s : PState) : Doc := generateDocument s.params

def allTypeOK (ps : List Entry) : Bool := ps.all fun e => typeOK e.type e.value

/-- one operation.  `set_value` / `add_parameter` that are refused raise before anything is stored:
the state is unchanged.  `none`: the history leaves the domain of the round-trip statement — a
`read_file` that raises half-way (the entries before the bad one are already imported), or a
value stored that is not of the declared kind (`param_roundtrip_needs_type`). -/
def stepP (algos : List String) (s : PState) : POp → Option PState
  | .read d =>
    match importDocument algos s.params d with
    | .ok ps => if allTypeOK ps then some ⟨ps, some d⟩ else none
    | .error _ => none
  | .set sec name v =>
    match setValue algos s.params sec name v with
    | .ok ps => if allTypeOK ps then some ⟨ps, s.doc⟩ else none
    | .error _ => some s
  | .add e =>
    match addParameter algos s.params e with
    | .ok ps => if allTypeOK ps then some ⟨ps, s.doc⟩ else none
    | .error _ => some s
  | .dump => some ⟨s.params, some (dumpDoc s)⟩

def runP (algos : List String) : PState → List POp → Option PState
  | s, [] => some s
  | s, op :: ops =>
    match stepP algos s op with
    | some s' => runP algos s' ops
    | none => none

end Params

/-! ## the NAME of the parameter file (tools/files.py: is_valid_filename, as consulted by read_file) -/

namespace Params

def invalidChars : List Char := ['<', '>', ':', '"', '/', '\\', '|', '?', '*']

/-- `is_valid_filename` on a system that is not Windows (the device names CON, NUL, … are tested
only when `os.name == 'nt'`): not empty, none of the characters `<>:"/\|?*`, at most 255 characters -/
def validFileName (n : String) : Bool :=
  !n.toList.isEmpty && !(n.toList.any fun c => invalidChars.contains c) && decide (n.toList.length ≤ 255)

/-- `read_file(name)` when the file exists with content `d` (`base` = `os.path.basename(name)`): a
name that `is_valid_filename` refuses is answered with a warning only, and the object **keeps the
values it had** -/
def readNamed (algos : List String) (ps : List Entry) (base : String) (d : Doc) : Except Err (List Entry) :=
  if validFileName base then importDocument algos ps d else .ok ps

/-- `dump_file(name)` as coded: the name is not looked at (the file system decides) -/
def dumpNamed (ps : List Entry) (_base : String) : Except Err Doc := .ok (generateDocument ps)

/-- `dump_file(name)` repaired (proposed fix FC14-7): a name that `read_file` would not read is refused -/
def dumpNamedFixed (ps : List Entry) (base : String) : Except Err Doc :=
  if validFileName base then .ok (generateDocument ps) else .error .refused

end Params
