/-
C03 — the reporting layer: how `biogeme.results.RawResults` / `bioResults` pair what the optimiser
returned (a vector, matrices, a bootstrap sample — all laid out in the order of the reported free
parameter names) with the NAMES of the parameters.

  * `RawResults.__init__`       : `zip(beta_values, betaNames)`, bounds by `get_bounds_on_beta(name)`
  * `bioResults._calculate_stats`: standard errors from the diagonals (`set_std_err` & co. with their
    `== 0` and `< 0` branches), the table of pairs `secondOrderTable[(names[i], names[j])]`, `j < i`,
    with `_calculate_test`
  * `get_beta_values(my_betas)`, `get_var_covar` & co., `get_correlation_results(subset)`,
    `get_betas_for_sensitivity_analysis(my_betas)`.
The numerical linear algebra (pseudo-inverse, `np.cov`) is NOT modelled: the matrices are inputs.
Core Lean only.
-/
import Model.Num
import Model.IdManager

namespace IdM

variable {ν : Type} [DecidableEq ν]

/-- entry (i, j) of a matrix stored by rows (numpy `M[i, j]`; out of range is an IndexError) -/
def mget {α} (M : List (List α)) (i j : Nat) : Option α := (M[i]?).bind (·[j]?)

/-- the entry of a matrix *designated by two names*: positions are those of the names in the list of
reported names -/
def byName {α} (names : List ν) (M : List (List α)) (a b : ν) : Option α :=
  (indexOf a names).bind fun i => (indexOf b names).bind fun j => mget M i j

/-- `results.Beta` -/
structure RBeta (ν α : Type) where
  name : ν
  value : α
  lb : Option α
  ub : Option α
  stdErr : Option α := none
  tTest : Option α := none
  robStdErr : Option α := none
  robTTest : Option α := none
  bootStdErr : Option α := none
  bootTTest : Option α := none

/-- `BIOGEME.get_bounds_on_beta(name)`: the bounds at the index of the name (unknown ⇒ error) -/
def boundsOn {ν : Type} [LT ν] [DecidableEq ν] [DecidableRel (α := ν) (· < ·)] {α}
    (t : Table ν) (decls : List (Decl ν α)) (n : ν) : Option (Option α × Option α) :=
  (indexOf n t.free).map fun i => (bounds t decls).getD i (none, none)

/-- `RawResults.__init__`: `for beta_value, beta_name in zip(beta_values, betaNames)` -/
def rawBetas {ν : Type} [LT ν] [DecidableEq ν] [DecidableRel (α := ν) (· < ·)] {α}
    (t : Table ν) (decls : List (Decl ν α)) (x : List α) : Option (List (RBeta ν α)) :=
  (x.zip t.free).mapM fun (v, n) =>
    (boundsOn t decls n).map fun b => { name := n, value := v, lb := b.1, ub := b.2 }

section stats
variable {α : Type} [NumOps α]
open Num

/-- standard error from a diagonal entry: `max` if negative, else the square root -/
def diagStat (big v : α) : α := if Num.lt v (Num.nat 0) then big else Num.sqrt v

/-- `set_std_err`: the t statistic is `max` when the standard error is zero, else value / std err -/
def tOf (big value se : α) : α := if Num.eq se (Num.nat 0) then big else value / se

def mapIdxFrom {β γ} (f : Nat → β → γ) : Nat → List β → List γ
  | _, [] => []
  | i, b :: t => f i b :: mapIdxFrom f (i + 1) t

/-- the three loops `for i in range(nparam): betas[i].set_…_std_err(…[i, i])` of `_calculate_stats`;
`none` = IndexError -/
def withStats (big : α) (V R : List (List α)) (B : Option (List (List α))) (bs : List (RBeta ν α)) :
    Option (List (RBeta ν α)) :=
  (mapIdxFrom (fun i b => (i, b)) 0 bs).mapM fun (i, b) => do
    let v ← mget V i i
    let r ← mget R i i
    let se := diagStat big v
    let rse := diagStat big r
    let b1 : RBeta ν α := { b with stdErr := some se, tTest := some (tOf big b.value se),
                                   robStdErr := some rse, robTTest := some (tOf big b.value rse) }
    match B with
    | none => pure b1
    | some Bm => do
      let c ← mget Bm i i
      let bse := diagStat big c
      pure { b1 with bootStdErr := some bse, bootTTest := some (tOf big b1.value bse) }

/-- `_calculate_test(i, j, matrix)` -/
def calcTest (big : α) (x : List α) (M : List (List α)) (i j : Nat) : Option α := do
  let vi ← x[i]?
  let vj ← x[j]?
  let a ← mget M i i
  let b ← mget M j j
  let c ← mget M i j
  let r := a + b - (Num.nat 2) * c
  pure (if Num.le r (Num.nat 0) then big else (vi - vj) / Num.sqrt r)

/-- one line of `secondOrderTable` for one matrix: covariance and t-test of the pair -/
structure PairStat (α : Type) where
  cov : α
  test : α

/-- covariance entry and test of one pair for one matrix -/
def pairStat (big : α) (x : List α) (M : List (List α)) (i j : Nat) : Option (PairStat α) :=
  (mget M i j).bind fun c => (calcTest big x M i j).map fun t => { cov := c, test := t }

/-- one line of the table: `name = (names[i], names[j])` and the statistics of every matrix -/
def secondOrderEntry (big : α) (names : List ν) (x : List α) (Ms : List (List (List α)))
    (p : Nat × Nat) : Option ((ν × ν) × List (PairStat α)) :=
  (names[p.1]?).bind fun a => (names[p.2]?).bind fun b =>
    (Ms.mapM fun M => pairStat big x M p.1 p.2).map fun st => ((a, b), st)

/-- `secondOrderTable`: `for i in range(n): for j in range(i): name = (names[i], names[j])` with the
covariance entries `[i, j]` and the tests of every available matrix -/
def secondOrder (big : α) (names : List ν) (x : List α) (Ms : List (List (List α))) :
    Option (List ((ν × ν) × List (PairStat α))) :=
  ((List.range x.length).flatMap fun i => (List.range i).map fun j => (i, j)).mapM
    (secondOrderEntry big names x Ms)

end stats

/-- `get_correlation_results(subset)`: the lines whose two names are both in the subset -/
def corrSubset {β} (table : List ((ν × ν) × β)) (subset : Option (List ν)) : List ((ν × ν) × β) :=
  match subset with
  | none => table
  | some s => table.filter fun (k, _) => s.contains k.1 && s.contains k.2

/-- `get_beta_values(my_betas)`: `index = betaNames.index(b); values[b] = betas[index].value` -/
def getBetaValues {α} (names : List ν) (bs : List (RBeta ν α)) (req : Option (List ν)) :
    Option (List (ν × α)) :=
  (req.getD names).mapM fun n => (indexOf n names).bind fun i => (bs[i]?).map fun b => (n, b.value)

/-- `get_var_covar` & co.: `vc.at[betai.name, betaj.name] = M[i, j]` -/
def frame {α} (bs : List ν) (M : List (List α)) : Option (List ((ν × ν) × α)) :=
  ((mapIdxFrom (fun i a => (i, a)) 0 bs).flatMap fun (i, a) =>
    (mapIdxFrom (fun j b => (i, a, j, b)) 0 bs)).mapM fun (i, a, j, b) =>
      (mget M i j).map fun v => ((a, b), v)

/-- `get_betas_for_sensitivity_analysis(my_betas)`:
`index = [betaNames.index(b) for b in my_betas]`, then for each row of the sample (bootstrap
estimates or simulated draws) `{my_betas[i]: value for i, value in enumerate(row[index])}` -/
def sens {α} (names : List ν) (req : List ν) (M : List (List α)) : Option (List (List (ν × α))) := do
  let idx ← req.mapM fun n => indexOf n names
  M.mapM fun row => (idx.mapM fun i => row[i]?).map fun vals => req.zip vals

/-- a Python dictionary built from pairs: the last pair with the key wins -/
def dictGet {α} (o : List (ν × α)) (n : ν) : Option α := (o.reverse.find? fun p => p.1 = n).map (·.2)

end IdM
