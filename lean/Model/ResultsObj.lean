/-
C14 — the results object as a set of attributes: what `RawResults.__init__` creates, what
`bioResults._calculate_stats` assigns (and under which `if`), what `write_pickle` stores,
what `bioResults(pickle_file=…)` rebuilds, and which attributes each report / printed form
reads (so: which reports can be produced for which kind of results object).

Source: src/biogeme/results.py — RawResults.__init__, bioResults.__init__, _calculate_stats,
write_pickle, write_html/write_latex/write_f12, __str__, short_summary,
get_general_statistics, print_general_statistics, get_estimated_parameters,
get_correlation_results, get_var_covar, get_robust_var_covar, get_bootstrap_var_covar,
get_html, get_latex, get_f12.

Core Lean only.  An attribute holds *nothing* (`absent`: reading it raises AttributeError),
Python's `None`, or a value of an abstract type `V`.  The numerical content of the statistics
is an abstract function `F` of the raw attributes: what matters for the save / load round
trip is *which* attributes are recomputed from *what*, under which guard.
The names and guards are regenerated from the source by the harness
(`Generated/ResultsAttrs.lean`) and compared with `attrTable` by `decide`.
-/

namespace ResObj

/-- the attributes of a `RawResults` object (all names assigned in `RawResults.__init__` and in
`_calculate_stats`), plus two pseudo attributes for the statistics stored *inside* the `Beta`
objects of `betas`: `betaStats` (stdErr, tTest, pValue, robust_…) and `betaBootStats`
(bootstrap_stdErr, …), which are `None` after the constructor. -/
inductive Attr where
  | modelName | userNotes | nparam | betaValues | betaNames | initLogLike | nullLogLike | betas
  | logLike | g | H | bhhh | dataname | sampleSize | numberOfObservations | monte_carlo
  | numberOfDraws | typesOfDraws | excludedData | drawsProcessingTime | gradientNorm
  | optimizationMessages | convergence | numberOfThreads
  | htmlFileName | F12FileName | latexFileName | pickleFileName
  | bootstrap | bootstrap_time | secondOrderTable
  | likelihoodRatioTestNull | likelihoodRatioTest | rhoSquare | rhoSquareNull | rhoBarSquare
  | rhoBarSquareNull | akaike | bayesian
  | eigenValues | eigenVectors | singularValues | varCovar | correlation | robust_varCovar
  | robust_correlation | bootstrap_varCovar | bootstrap_correlation
  | smallestEigenValue | smallestEigenVector | smallestSingularValue | largestEigenValue
  | largestEigenVector | largestSingularValue | conditionNumber
  | betaStats | betaBootStats
  deriving DecidableEq, Repr

open Attr

/-- every attribute, constructor attributes first in the order of `RawResults.__init__`, then the
assignments of `_calculate_stats` in source order, then the two pseudo attributes -/
def allAttrs : List Attr :=
  [modelName, userNotes, nparam, betaValues, betaNames, initLogLike, nullLogLike, betas, logLike, g, H,
   bhhh, dataname, sampleSize, numberOfObservations, monte_carlo, numberOfDraws, typesOfDraws,
   excludedData, drawsProcessingTime, gradientNorm, optimizationMessages, convergence,
   numberOfThreads, htmlFileName, F12FileName, latexFileName, pickleFileName, bootstrap,
   bootstrap_time, secondOrderTable,
   likelihoodRatioTestNull, likelihoodRatioTest, rhoSquare, rhoSquareNull, rhoBarSquare,
   rhoBarSquareNull, akaike, bayesian,
   eigenValues, eigenVectors, singularValues, varCovar, correlation, robust_varCovar,
   robust_correlation, bootstrap_varCovar, bootstrap_correlation,
   smallestEigenValue, smallestEigenVector, smallestSingularValue, largestEigenValue,
   largestEigenVector, largestSingularValue, conditionNumber, betaStats, betaBootStats]

/-- the Python name -/
def Attr.name : Attr → String
  | modelName => "modelName"
  | userNotes => "userNotes"
  | nparam => "nparam"
  | betaValues => "betaValues"
  | betaNames => "betaNames"
  | initLogLike => "initLogLike"
  | nullLogLike => "nullLogLike"
  | betas => "betas"
  | logLike => "logLike"
  | g => "g"
  | H => "H"
  | bhhh => "bhhh"
  | dataname => "dataname"
  | sampleSize => "sampleSize"
  | numberOfObservations => "numberOfObservations"
  | monte_carlo => "monte_carlo"
  | numberOfDraws => "numberOfDraws"
  | typesOfDraws => "typesOfDraws"
  | excludedData => "excludedData"
  | drawsProcessingTime => "drawsProcessingTime"
  | gradientNorm => "gradientNorm"
  | optimizationMessages => "optimizationMessages"
  | convergence => "convergence"
  | numberOfThreads => "numberOfThreads"
  | htmlFileName => "htmlFileName"
  | F12FileName => "F12FileName"
  | latexFileName => "latexFileName"
  | pickleFileName => "pickleFileName"
  | bootstrap => "bootstrap"
  | bootstrap_time => "bootstrap_time"
  | secondOrderTable => "secondOrderTable"
  | likelihoodRatioTestNull => "likelihoodRatioTestNull"
  | likelihoodRatioTest => "likelihoodRatioTest"
  | rhoSquare => "rhoSquare"
  | rhoSquareNull => "rhoSquareNull"
  | rhoBarSquare => "rhoBarSquare"
  | rhoBarSquareNull => "rhoBarSquareNull"
  | akaike => "akaike"
  | bayesian => "bayesian"
  | eigenValues => "eigenValues"
  | eigenVectors => "eigenVectors"
  | singularValues => "singularValues"
  | varCovar => "varCovar"
  | correlation => "correlation"
  | robust_varCovar => "robust_varCovar"
  | robust_correlation => "robust_correlation"
  | bootstrap_varCovar => "bootstrap_varCovar"
  | bootstrap_correlation => "bootstrap_correlation"
  | smallestEigenValue => "smallestEigenValue"
  | smallestEigenVector => "smallestEigenVector"
  | smallestSingularValue => "smallestSingularValue"
  | largestEigenValue => "largestEigenValue"
  | largestEigenVector => "largestEigenVector"
  | largestSingularValue => "largestSingularValue"
  | conditionNumber => "conditionNumber"
  | betaStats => "betaStats"
  | betaBootStats => "betaBootStats"

/-- where an attribute gets its value -/
inductive Kind where
  /-- handed to the constructor by the caller (possibly `None`); never assigned by `_calculate_stats` -/
  | raw
  /-- computed once by the constructor (`gradientNorm`; `bootstrap_time`, which exists only with bootstrap) -/
  | ctorOnly
  /-- a file name: `None` until the corresponding writer records the name it used -/
  | file
  /-- assigned by every call of `_calculate_stats`; `None` when the guard attribute is `None` -/
  | general (guard : Option Attr)
  /-- assigned only inside `if self.data.H is not None:` -/
  | second
  /-- assigned only inside `if self.data.H is not None:` and `if self.data.bootstrap is not None:` -/
  | boot
  deriving DecidableEq, Repr

def kindOf : Attr → Kind
  | gradientNorm | bootstrap_time => .ctorOnly
  | htmlFileName | F12FileName | latexFileName | pickleFileName => .file
  | likelihoodRatioTestNull | rhoSquareNull | rhoBarSquareNull => .general (some nullLogLike)
  | likelihoodRatioTest | rhoSquare | rhoBarSquare => .general (some initLogLike)
  | akaike | bayesian => .general none
  | eigenValues | eigenVectors | singularValues | varCovar | correlation | robust_varCovar
  | robust_correlation | secondOrderTable | smallestEigenValue | smallestEigenVector
  | smallestSingularValue | largestEigenValue | largestEigenVector | largestSingularValue
  | conditionNumber | betaStats => .second
  | bootstrap_varCovar | bootstrap_correlation | betaBootStats => .boot
  | _ => .raw

/-- the table compared with the one extracted from the source: name, where it is assigned
("ctor" / "stats" / "pseudo"), guards (names of the attributes tested `is not None` by the `if`
statements around the assignment; `?x` for a value `… if self.data.x is not None else None`) -/
def kindRow (a : Attr) : String × String × List String :=
  match kindOf a with
  | .raw | .ctorOnly | .file => (a.name, "ctor", [])
  | .general .none => (a.name, "stats", [])
  | .general (some gd) => (a.name, "stats", ["?" ++ gd.name])   -- `… if self.data.gd is not None else None`
  | .second => (a.name, if a = betaStats then "pseudo" else "stats", ["H"])
  | .boot => (a.name, if a = betaBootStats then "pseudo" else "stats", ["H", "bootstrap"])

/-- `secondOrderTable` is both initialised (to `None`) by the constructor and assigned by
`_calculate_stats`: it appears in both lists of the source -/
def attrTable : List (String × String × List String) :=
  (allAttrs.filter fun a => (kindRow a).2.1 == "ctor" || a == secondOrderTable).map
      (fun a => (a.name, "ctor", []))
    ++ (allAttrs.filter fun a => (kindRow a).2.1 == "stats").map kindRow

/-- the only other assignments to attributes of the stored object: each writer records its file name -/
def writerRows : List (String × String × List String) :=
  [("pickleFileName", "writer:write_pickle", []), ("htmlFileName", "writer:write_html", []),
   ("latexFileName", "writer:write_latex", []), ("F12FileName", "writer:write_f12", [])]

/-- everything the source assigns to a `RawResults` object: constructor, `_calculate_stats`, writers -/
def sourceTable : List (String × String × List String) := attrTable ++ writerRows

inductive Slot (V : Type) where
  | absent            -- no such attribute: AttributeError
  | none              -- Python None
  | val (v : V)
  deriving DecidableEq, Repr

def Slot.isVal {V} : Slot V → Bool
  | .val _ => true
  | _ => false

def Slot.isAbsent {V} : Slot V → Bool
  | .absent => true
  | _ => false

def Slot.ofOption {V} : Option V → Slot V
  | some v => .val v
  | .none => .none

abbrev Obj (V : Type) := Attr → Slot V

def set {V} (o : Obj V) (a : Attr) (s : Slot V) : Obj V := fun m => if m = a then s else o m

inductive Err where
  | attributeError
  | typeError
  deriving DecidableEq, Repr

/-- what the caller hands to `RawResults(the_model, beta_values, f_g_h_b, bootstrap)`, as far as
`None` / not `None` matters; `vals` gives the value of every attribute that holds one -/
structure Ctor (V : Type) where
  vals : Attr → V
  userNotes : Bool      -- the_model.user_notes is not None
  initLogLike : Bool
  nullLogLike : Bool
  g : Bool              -- f_g_h_b.gradient
  H : Bool              -- f_g_h_b.hessian
  bhhh : Bool
  bootstrap : Bool
  k : Nat               -- number of parameters

def opt {V} (b : Bool) (v : V) : Slot V := if b then .val v else .none

/-- `RawResults.__init__` -/
def construct {V} (c : Ctor V) : Obj V := fun a =>
  match a with
  | userNotes => opt c.userNotes (c.vals a)
  | initLogLike => opt c.initLogLike (c.vals a)
  | nullLogLike => opt c.nullLogLike (c.vals a)
  | g => opt c.g (c.vals a)
  | H => opt c.H (c.vals a)
  | bhhh => opt c.bhhh (c.vals a)
  | bootstrap => opt c.bootstrap (c.vals a)
  | gradientNorm => opt c.g (c.vals a)            -- linalg.norm(g) if g is not None else None
  | bootstrap_time => if c.bootstrap then .val (c.vals a) else .absent   -- assigned only with bootstrap
  | htmlFileName | F12FileName | latexFileName | pickleFileName => .none
  | secondOrderTable => .none
  | betaStats | betaBootStats => .none            -- Beta.__init__: stdErr = None, …
  | _ => match kindOf a with
    | .raw => .val (c.vals a)
    | _ => .absent

/-- the part of the object `_calculate_stats` computes from -/
def rawPart {V} (o : Obj V) : Obj V := fun a =>
  match kindOf a with
  | .raw => o a
  | _ => .absent

/-- the attributes `_calculate_stats` tests or uses unconditionally: missing → AttributeError -/
def needed : List Attr := [nullLogLike, initLogLike, logLike, nparam, sampleSize, H]

/-- `_calculate_stats`, attribute by attribute.  `F a raw` is the value computed for `a` (`none`:
the `except ZeroDivisionError` branches of the rho-squares). -/
def calcCore {V} (F : Attr → Obj V → Option V) (o : Obj V) : Obj V := fun a =>
  match kindOf a with
  | .raw | .ctorOnly | .file => o a
  | .general .none => .ofOption (F a (rawPart o))
  | .general (some gd) => if (o gd).isVal then .ofOption (F a (rawPart o)) else .none
  | .second => if (o H).isVal then .ofOption (F a (rawPart o)) else o a
  | .boot => if (o H).isVal && (o bootstrap).isVal then .ofOption (F a (rawPart o)) else o a

def calcStats {V} (F : Attr → Obj V → Option V) (o : Obj V) : Except Err (Obj V) :=
  if needed.any (fun a => (o a).isAbsent) then .error .attributeError
  else if (o H).isVal && (o bootstrap).isAbsent then .error .attributeError
  else if (o H).isVal && !(o bhhh).isVal then
    -- `self.data.varCovar.dot(self.data.bhhh.dot(...))` with bhhh None / missing
    .error .attributeError
  else .ok (calcCore F o)

/-- `bioResults(raw_results)` -/
def build {V} (F : Attr → Obj V → Option V) (c : Ctor V) : Except Err (Obj V) :=
  calcStats F (construct c)

/-- a writer records the name it used (`write_html`, `write_latex`, `write_f12`, `write_pickle`) -/
inductive FileAttr where
  | html | f12 | latex | pickle
  deriving DecidableEq, Repr

def FileAttr.attr : FileAttr → Attr
  | .html => htmlFileName
  | .f12 => F12FileName
  | .latex => latexFileName
  | .pickle => pickleFileName

def record {V} (o : Obj V) : List (FileAttr × V) → Obj V
  | [] => o
  | (f, n) :: ws => record (set o f.attr (.val n)) ws

/-- `write_pickle`: the name is recorded first, then the whole object is dumped -/
def writePickle {V β} (dump : Obj V → β) (o : Obj V) (file : V) : Obj V × β :=
  let o' := set o pickleFileName (.val file)
  (o', dump o')

/-- `bioResults(pickle_file=…)` -/
def loadPickle {V β} (F : Attr → Obj V → Option V) (load : β → Obj V) (bytes : β) : Except Err (Obj V) :=
  calcStats F (load bytes)

/-- a pickle that keeps only what is not assigned by `_calculate_stats` (a tempting "optimisation";
the statistics stored inside the `Beta` objects stay, they are part of `betas`) -/
def dropDerived {V} (o : Obj V) : Obj V := fun a =>
  if a = betaStats ∨ a = betaBootStats then o a
  else match kindOf a with
    | .general _ | .second | .boot => .absent
    | _ => o a

/-! ### what the reports read -/

inductive ReqKind where
  | attr      -- `self.data.x`: AttributeError when missing
  | fmt       -- `f'{self.data.x:.7g}'`: AttributeError when missing, TypeError when None
  | items     -- `self.data.x.items()`: AttributeError when missing or None
  | index     -- `self.data.x[i, j]`: AttributeError when missing, TypeError when None
  deriving DecidableEq, Repr

/-- one read of a report: executed when every guard attribute is not `None` (the guard itself is
read: AttributeError when missing) and, for `pairs`, when there are at least two parameters (the
read sits in a loop over pairs of parameters) -/
structure Req where
  guards : List Attr
  pairs : Bool
  kind : ReqKind
  attr : Attr
  deriving Repr

def req (k : ReqKind) (a : Attr) : Req := ⟨[], false, k, a⟩
def reqIf (gd : Attr) (k : ReqKind) (a : Attr) : Req := ⟨[gd], false, k, a⟩

def readOne {V} (o : Obj V) (k : ReqKind) (a : Attr) : Except Err Unit :=
  match o a, k with
  | .absent, _ => .error .attributeError
  | .none, .attr => .ok ()
  | .none, .fmt => .error .typeError
  | .none, .items => .error .attributeError
  | .none, .index => .error .typeError
  | .val _, _ => .ok ()

/-- `some true`: all guards hold; `some false`: one is `None`; `none`: one is missing -/
def guardsHold {V} (o : Obj V) : List Attr → Option Bool
  | [] => some true
  | gd :: gs =>
    match o gd with
    | .absent => .none
    | .none => some false
    | .val _ => guardsHold o gs

def runView {V} (o : Obj V) (k : Nat) : List Req → Except Err Unit
  | [] => .ok ()
  | r :: rs =>
    if r.pairs && k < 2 then runView o k rs
    else match guardsHold o r.guards with
      | .none => .error .attributeError
      | some false => runView o k rs
      | some true =>
        match readOne o r.kind r.attr with
        | .error e => .error e
        | .ok () => runView o k rs

/-- `short_summary` -/
def shortSummaryView : List Req :=
  [req .attr modelName, req .attr nparam, req .attr sampleSize, req .attr numberOfObservations,
   req .attr excludedData, reqIf nullLogLike .fmt nullLogLike, req .fmt logLike,
   reqIf nullLogLike .fmt likelihoodRatioTestNull, reqIf nullLogLike .fmt rhoSquareNull,
   reqIf nullLogLike .fmt rhoBarSquareNull, req .fmt akaike, req .fmt bayesian]

/-- `__str__` (each `Beta.__str__` tests its statistics for `None` before formatting them) -/
def strView : List Req :=
  [req .attr modelName, reqIf htmlFileName .attr htmlFileName, reqIf latexFileName .attr latexFileName,
   req .attr nparam, req .attr sampleSize, req .attr numberOfObservations, req .attr excludedData,
   reqIf nullLogLike .fmt nullLogLike, reqIf initLogLike .fmt initLogLike, req .fmt logLike,
   reqIf nullLogLike .fmt likelihoodRatioTestNull, reqIf nullLogLike .fmt rhoSquareNull,
   reqIf nullLogLike .fmt rhoBarSquareNull,
   reqIf initLogLike .fmt likelihoodRatioTest, reqIf initLogLike .fmt rhoSquare,
   reqIf initLogLike .fmt rhoBarSquare,
   req .fmt akaike, req .fmt bayesian, reqIf gradientNorm .fmt gradientNorm,
   req .attr betas, req .attr betaStats, req .attr betaBootStats,
   reqIf secondOrderTable .items secondOrderTable]

/-- `get_general_statistics` (builds the dictionary, formats nothing) -/
def generalView : List Req :=
  [req .attr nparam, req .attr betas, req .attr sampleSize, req .attr numberOfObservations,
   req .attr excludedData, reqIf nullLogLike .attr nullLogLike, req .attr initLogLike, req .attr logLike,
   reqIf nullLogLike .attr likelihoodRatioTestNull, reqIf nullLogLike .attr rhoSquareNull,
   reqIf nullLogLike .attr rhoBarSquareNull,
   req .attr likelihoodRatioTest, req .attr rhoSquare, req .attr rhoBarSquare, req .attr akaike,
   req .attr bayesian, req .attr gradientNorm, req .attr monte_carlo,
   reqIf bootstrap .attr bootstrap_time, req .attr numberOfThreads]

/-- the formatting of the dictionary by `print_general_statistics` and `get_latex`
(`f'{value:{precision}}'` for *every* entry: '.7g' of `None` is a TypeError) -/
def generalFormat : List Req :=
  [reqIf nullLogLike .fmt nullLogLike, req .fmt initLogLike, req .fmt logLike,
   reqIf nullLogLike .fmt likelihoodRatioTestNull, reqIf nullLogLike .fmt rhoSquareNull,
   reqIf nullLogLike .fmt rhoBarSquareNull,
   req .fmt likelihoodRatioTest, req .fmt rhoSquare, req .fmt rhoBarSquare, req .fmt akaike,
   req .fmt bayesian, req .fmt gradientNorm]

def generalTextView : List Req := generalView ++ generalFormat

/-- `get_estimated_parameters` (a `None` statistic becomes NaN in the table) -/
def estimatedView : List Req := [req .attr betas, req .attr betaStats, req .attr bootstrap, req .attr betaBootStats]

/-- `get_correlation_results` -/
def correlationView : List Req := [req .attr bootstrap, req .items secondOrderTable]

def varCovarView : List Req := [req .attr betas, req .index varCovar]
def robustVarCovarView : List Req := [req .attr betas, req .index robust_varCovar]
def bootstrapVarCovarView : List Req := [req .attr bootstrap, reqIf bootstrap .attr betas, reqIf bootstrap .index bootstrap_varCovar]

/-- `get_html` (the dictionary entries that are `None` are skipped, not formatted) -/
def htmlView : List Req :=
  [req .attr htmlFileName, req .attr dataname, req .attr convergence, req .fmt smallestEigenValue,
   req .attr userNotes] ++ generalView ++ [req .attr optimizationMessages] ++ estimatedView
   ++ correlationView ++ [req .fmt smallestEigenValue, req .fmt largestEigenValue, req .fmt conditionNumber]

/-- `get_latex` -/
def latexView : List Req :=
  [req .attr modelName, req .attr latexFileName, req .attr dataname, req .attr userNotes] ++ generalView
   ++ generalFormat ++ [req .attr optimizationMessages] ++ estimatedView ++ correlationView

/-- `get_f12`: the correlations are read for each pair of parameters -/
def f12View : List Req :=
  [req .attr modelName] ++ generalView ++ estimatedView
   ++ [req .attr nullLogLike, ⟨[], true, .index, secondOrderTable⟩]

/-- the views by the name used in the harness -/
def views : List (String × List Req) :=
  [("short_summary", shortSummaryView), ("str", strView), ("general", generalView),
   ("general_text", generalTextView), ("estimated", estimatedView), ("correlation", correlationView),
   ("varcovar", varCovarView), ("robust_varcovar", robustVarCovarView),
   ("bootstrap_varcovar", bootstrapVarCovarView), ("html", htmlView), ("latex", latexView),
   ("f12", f12View)]

end ResObj
