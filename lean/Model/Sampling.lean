/-
Model of the sampling of alternatives (src/biogeme/sampling_of_alternatives/*.py and
src/biogeme/partition.py).

* `Partition.__init__`            : `partitionCheck`
* `SamplingContext.__post_init__` : `mkStrata` (the `zip` of segments and sizes, which
                                    truncates to the shorter list) and `checkPartition`
* `SamplingOfAlternatives.sample_alternatives / sample_mev_alternatives` :
      the only random step is `DataFrame.sample(n, replace=False)`; its outcome is the
      parameter `picks` (one list of ids per stratum, contract `pickOK`); everything the
      code does around it is the function `sampleAlternatives` / `sampleMev`
* `ChoiceSetsGeneration.process_row / define_new_variables` : `flattenRow`, `defineVars`
* `GenerateModel.get_logit`       : `sampledLL` ; the model on the full choice set: `fullLL`
* `GenerateModel.get_nested_logit`: `nestedSampledLL` (the dictionary of MEV sums included) ;
                                    `models.lognested` on the full choice set: `fullNestedLL`

Alternative ids are integers; sets are duplicate-free lists.  Core Lean only.
-/
import Model.Num
open Num

namespace Sampling

/-- one element of the partition with the number of alternatives to draw (`StratumTuple`);
`k` is whatever integer the user gave -/
structure Stratum where
  subset : List Int
  k : Int
deriving Repr, DecidableEq

/-! ## `Partition` (partition.py) -/

inductive PartErr where
  | emptySegment | overlap | unionMismatch
deriving Repr, DecidableEq

def disjointB (a b : List Int) : Bool := a.all fun x => !b.contains x

/-- `validate_partition`, first loop: no two different segments intersect -/
def pairwiseDisjointB : List (List Int) → Bool
  | [] => true
  | s :: t => t.all (disjointB s) && pairwiseDisjointB t

def subsetB (a b : List Int) : Bool := a.all fun x => b.contains x
def sameSetB (a b : List Int) : Bool := subsetB a b && subsetB b a

def unionAll (segments : List (List Int)) : List Int := segments.flatten

/-- `if full_set: … else: union`: `full_set` falsy (None or empty) ⇒ union of the segments -/
def fullSetOf (segments : List (List Int)) : Option (List Int) → List Int
  | none => unionAll segments
  | some f => if f.isEmpty then unionAll segments else f

/-- `Partition(segments, full_set)` -/
def partitionCheck (segments : List (List Int)) (full : Option (List Int)) : Except PartErr Unit :=
  let fullSet := fullSetOf segments full
  if segments.any (fun s => s.isEmpty) then .error .emptySegment
  else if !pairwiseDisjointB segments then .error .overlap
  else if !sameSetB (unionAll segments) fullSet then .error .unionMismatch
  else .ok ()

/-! ## `SamplingContext.check_partition` -/

inductive CtxErr where
  | emptyStratum | tooMany | zeroSample | unknownAlt
deriving Repr, DecidableEq

/-- `zip(self.the_partition, self.sample_sizes)` -/
def mkStrata : List (List Int) → List Int → List Stratum
  | s :: ss, k :: ks => ⟨s, k⟩ :: mkStrata ss ks
  | _, _ => []

/-- body of the loop of `check_partition`, the tests in the order of the code -/
def checkStratum (altIds : List Int) (s : Stratum) : Except CtxErr Unit :=
  if s.subset.length = 0 then .error .emptyStratum
  else if s.k > (s.subset.length : Int) then .error .tooMany
  else if s.k = 0 then .error .zeroSample
  else if s.subset.any (fun a => !altIds.contains a) then .error .unknownAlt
  else .ok ()

def checkPartition (altIds : List Int) : List Stratum → Except CtxErr Unit
  | [] => .ok ()
  | s :: t => match checkStratum altIds s with
    | .error e => .error e
    | .ok () => checkPartition altIds t

/-! ## `sample_alternatives` -/

section num
variable {α : Type} [NumOps α]

/-- `np.log(sample_size) - np.log(stratum_size)` -/
def logProba (s : Stratum) : α := Num.log (Num.int s.k) - Num.log (Num.nat s.subset.length)

/-- number of rows requested from pandas in the stratum (`sample_size -= 1` when the chosen
alternative is in the stratum) -/
def needed (chosen : Int) (s : Stratum) : Int :=
  if s.subset.contains chosen then s.k - 1 else s.k

/-- contract of `subset.sample(n=needed, replace=False)` where `subset` holds the rows of the
stratum without the chosen alternative: `needed` distinct rows of that subset -/
def pickOK (chosen : Int) (s : Stratum) (p : List Int) : Bool :=
  decide ((p.length : Int) = needed chosen s) && decide p.Nodup &&
    p.all (fun a => s.subset.contains a && a != chosen)

def picksOK (chosen : Int) : List Stratum → List (List Int) → Bool
  | [], [] => true
  | s :: ss, p :: ps => pickOK chosen s p && picksOK chosen ss ps
  | _, _ => false

/-- `chosen_alternative[LOG_PROBA_COL] = logproba` inside the loop: the last stratum that
contains the chosen alternative decides; no stratum ⇒ the cell stays empty (NaN) -/
def chosenLogp (chosen : Int) : List Stratum → Option α → Option α
  | [], acc => acc
  | s :: t, acc => chosenLogp chosen t (if s.subset.contains chosen then some (logProba s) else acc)

/-- `pd.concat(results)`: the sampled rows stratum after stratum, each with the correction
term of its stratum -/
def body : List Stratum → List (List Int) → List (Int × α)
  | s :: ss, p :: ps => p.map (fun a => (a, logProba s)) ++ body ss ps
  | _, _ => []

inductive SampleErr where
  | unknownAlternative | duplicateAlternative | pandasValueError
deriving Repr, DecidableEq

/-- the whole of `sample_alternatives` given the outcome of the random draws -/
def sampleAlternatives (altIds : List Int) (strata : List Stratum) (chosen : Int)
    (picks : List (List Int)) : Except SampleErr (List (Int × Option α)) :=
  let occ := altIds.count chosen
  if occ < 1 then .error .unknownAlternative
  else if occ > 1 then .error .duplicateAlternative
  else if !picksOK chosen strata picks then .error .pandasValueError
  else .ok ((chosen, chosenLogp chosen strata none) ::
            (body strata picks).map (fun r => (r.1, some r.2)))

/-! ## `sample_mev_alternatives` (second sample, no chosen alternative) -/

/-- `stratum_size / sample_size` -/
def mevWeight (s : Stratum) : α := Num.nat s.subset.length / Num.int s.k

def mevPickOK (s : Stratum) (p : List Int) : Bool :=
  decide ((p.length : Int) = s.k) && decide p.Nodup && p.all (fun a => s.subset.contains a)

def mevPicksOK : List Stratum → List (List Int) → Bool
  | [], [] => true
  | s :: ss, p :: ps => mevPickOK s p && mevPicksOK ss ps
  | _, _ => false

def sampleMev : List Stratum → List (List Int) → List (Int × α)
  | s :: ss, p :: ps => p.map (fun a => (a, mevWeight s)) ++ sampleMev ss ps
  | _, _ => []

/-! ## the protocol (the property statement, as a decidable relation on a result) -/

def countIn (s : Stratum) (ids : List Int) : Nat := (ids.filter fun a => s.subset.contains a).length

/-- what the property demands of a generated choice set `rows = [(id, correction)]`:
chosen first, no alternative twice, from each stratum exactly `k` rows, every row in a stratum
and carrying that stratum's term.  `eqv` is the comparison of correction terms (exact equality
in the theorems, a 1e-12 tolerance in the driver). -/
def protocolB (eqv : α → α → Bool) (strata : List Stratum) (chosen : Int) (rows : List (Int × α)) : Bool :=
  (match rows with
    | [] => false
    | r :: _ => r.1 == chosen) &&
  decide (rows.map (·.1)).Nodup &&
  strata.all (fun s => decide ((countIn s (rows.map (·.1)) : Int) = s.k)) &&
  rows.all (fun r => strata.any fun s => s.subset.contains r.1 && eqv r.2 (logProba s))

/-- the same for the second sample: weights `n/k`, no chosen alternative -/
def mevProtocolB (eqv : α → α → Bool) (strata : List Stratum) (rows : List (Int × α)) : Bool :=
  decide (rows.map (·.1)).Nodup &&
  strata.all (fun s => decide ((countIn s (rows.map (·.1)) : Int) = s.k)) &&
  rows.all (fun r => strata.any fun s => s.subset.contains r.1 && eqv r.2 (mevWeight s))

/-! ## formulas, renaming, flattening (choice_set_generation.py) -/

/-- the fragment of biogeme expressions used for combined variables and utilities in this
model (parameters appear with their value) -/
inductive Formula (α : Type) where
  | const : α → Formula α
  | var : String → Formula α
  | add : Formula α → Formula α → Formula α
  | sub : Formula α → Formula α → Formula α
  | mul : Formula α → Formula α → Formula α
  | div : Formula α → Formula α → Formula α
  | neg : Formula α → Formula α
  | exp : Formula α → Formula α
  | log : Formula α → Formula α

/-- `rename_elementary(names, prefix, suffix)` on a tree -/
def Formula.rename (names : List String) (pre suf : String) : Formula α → Formula α
  | .const c => .const c
  | .var n => if names.contains n then .var (pre ++ n ++ suf) else .var n
  | .add a b => .add (a.rename names pre suf) (b.rename names pre suf)
  | .sub a b => .sub (a.rename names pre suf) (b.rename names pre suf)
  | .mul a b => .mul (a.rename names pre suf) (b.rename names pre suf)
  | .div a b => .div (a.rename names pre suf) (b.rename names pre suf)
  | .neg a => .neg (a.rename names pre suf)
  | .exp a => .exp (a.rename names pre suf)
  | .log a => .log (a.rename names pre suf)

/-- `Elementary.rename_elementary` on one name -/
def renameName (names : List String) (pre suf : String) (n : String) : String :=
  if names.contains n then pre ++ n ++ suf else n

/-- OLD shape of the code (before /repo 883442d, finding F-C19-1): the expression graph was walked
along every path, so a `Variable` object reachable along `visits` paths was renamed `visits` times.
Not a model of the current code (each distinct leaf is processed once); kept for the witness
`C19.shared_object_renamed_twice`. -/
def renameVisited (names : List String) (pre suf : String) : Nat → String → String
  | 0, n => n
  | k + 1, n => renameVisited names pre suf k (renameName names pre suf n)

/-- `set_of_elementary_expression(VARIABLE)` -/
def Formula.vars : Formula α → List String
  | .const _ => []
  | .var n => [n]
  | .add a b | .sub a b | .mul a b | .div a b => a.vars ++ b.vars
  | .neg a | .exp a | .log a => a.vars

/-- value in an environment; an unknown variable is an error (`none`) -/
def Formula.eval (env : String → Option α) : Formula α → Option α
  | .const c => some c
  | .var n => env n
  | .add a b => do let x ← a.eval env; let y ← b.eval env; pure (x + y)
  | .sub a b => do let x ← a.eval env; let y ← b.eval env; pure (x - y)
  | .mul a b => do let x ← a.eval env; let y ← b.eval env; pure (x * y)
  | .div a b => do let x ← a.eval env; let y ← b.eval env; pure (x / y)
  | .neg a => do let x ← a.eval env; pure (-x)
  | .exp a => do let x ← a.eval env; pure (Num.exp x)
  | .log a => do let x ← a.eval env; pure (Num.log x)

/-- a row of the merged table is a Python dict built by successive updates: the last
binding of a name wins -/
def lookupLast : List (String × α) → String → Option α
  | [], _ => none
  | (k, v) :: t, n =>
    match lookupLast t n with
    | some w => some w
    | none => if k = n then some v else none

/-- `f'{col_name}_{row}'` -/
def colKey (pre c : String) (i : Nat) : String := pre ++ c ++ "_" ++ toString i

/-- `first_sample.stack()` turned into a dict: row-major, key = column name + `_` + row number -/
def flattenSample (pre : String) (cols : List String) : List (List α) → Nat → List (String × α)
  | [], _ => []
  | r :: rs, i => (cols.zip r).map (fun cv => (colKey pre cv.1 i, cv.2)) ++ flattenSample pre cols rs (i + 1)

/-- `process_row` (main sample, optional second sample with the `_MEV_` prefix) -/
def flattenRow (ind : List (String × α)) (cols : List String) (rows : List (List α))
    (mevCols : List String) (mevRows : List (List α)) : List (String × α) :=
  ind ++ flattenSample "" cols rows 0 ++ flattenSample "_MEV_" mevCols mevRows 0

/-- attributes of alternatives appearing in a formula (`get_attributes_from_expression`) -/
def attrsOf (altCols : List String) (f : Formula α) : List String := f.vars.filter altCols.contains

/-- one `database.define_variable(name_i, renamed formula)` : the new column is appended -/
def defineOne (altCols : List String) (name : String) (f : Formula α) (pre : String) (i : Nat)
    (row : List (String × α)) : Option (List (String × α)) := do
  let v ← (f.rename (attrsOf altCols f) pre ("_" ++ toString i)).eval (lookupLast row)
  pure (row ++ [(colKey pre name i, v)])

def defineRange (altCols : List String) (name : String) (f : Formula α) (pre : String) :
    List Nat → List (String × α) → Option (List (String × α))
  | [], row => some row
  | i :: is, row => do
    let row' ← defineOne altCols name f pre i row
    defineRange altCols name f pre is row'

/-- `define_new_variables`: for every combined variable, indices 0..J-1 of the main sample,
then (when there is a second sample) 0..J2-1 with the prefix -/
def defineVars (altCols : List String) (J : Nat) (J2 : Option Nat) :
    List (String × Formula α) → List (String × α) → Option (List (String × α))
  | [], row => some row
  | (name, f) :: rest, row => do
    let row1 ← defineRange altCols name f "" (List.range J) row
    let row2 ← match J2 with
      | none => some row1
      | some j2 => defineRange altCols name f "_MEV_" (List.range j2) row1
    defineVars altCols J J2 rest row2

/-! ## `GenerateModel.get_logit` and the model on the full choice set -/

/-- `generate_utility(prefix='', suffix=_i)`: `attributes` = columns of the table of
alternatives ∪ names of the combined variables -/
def utilityOf (attributes : List String) (u : Formula α) (i : Nat) : Formula α :=
  u.rename attributes "" ("_" ++ toString i)

/-- corrected utilities `V_i - _log_proba_i`, i = 0..J-1, on a merged row -/
def correctedUtils (attributes : List String) (u : Formula α) (J : Nat) (row : List (String × α)) :
    Option (List α) :=
  (List.range J).mapM fun i =>
    (Formula.sub (utilityOf attributes u i) (.var (colKey "" "_log_proba" i))).eval (lookupLast row)

/-- `loglogit(V, None, 0)` : V₀ − log Σ exp V_j -/
def logLogitFirst : List α → Option α
  | [] => none
  | v :: t => some (v - Num.log (Num.sum ((v :: t).map Num.exp)))

def sampledLL (attributes : List String) (u : Formula α) (J : Nat) (row : List (String × α)) : Option α := do
  let vs ← correctedUtils attributes u J row
  logLogitFirst vs

/-- abstract form used by the equivalence theorem: rows = (id, correction), `U` = utility of
an alternative (by id) for the individual at hand -/
def sampledLLAbs (U : Int → α) (rows : List (Int × α)) : Option α :=
  logLogitFirst (rows.map fun r => U r.1 - r.2)

/-- the logit log likelihood on the full choice set `alts` -/
def fullLL (U : Int → α) (alts : List Int) (chosen : Int) : α :=
  U chosen - Num.log (Num.sum (alts.map fun a => Num.exp (U a)))

/-- environment of one alternative in the model on the full choice set: its own attributes,
the combined variables computed from them (in the order of their definition), the individual's
columns for everything else -/
def altEnv (ind : List (String × α)) (altCols : List String) (altRow : List α)
    (combined : List (String × Formula α)) : Option (List (String × α)) :=
  combined.foldlM (fun env nf => do
    let v ← nf.2.eval (lookupLast env)
    pure (env ++ [(nf.1, v)])) (ind ++ altCols.zip altRow)

def altUtility (ind : List (String × α)) (altCols : List String) (altRow : List α)
    (combined : List (String × Formula α)) (u : Formula α) : Option α := do
  let env ← altEnv ind altCols altRow combined
  u.eval (lookupLast env)

/-! ## `GenerateModel.get_nested_logit` and the nested logit on the full choice set

The generated model is written once over the type `ι` of what identifies an alternative in a row:
`ι = α` with `belongs` on a merged row of the database (the engine's `BelongsTo` compares reals),
`ι = Int` with `List.contains` in the theorems. -/

/-- one nest: value of the nest parameter and `list_of_alternatives`.  The label of a nest
(`name`) is not part of the generated model. -/
structure Nest (α : Type) where
  mu : α
  alts : List Int

/-- `BelongsTo(Variable(id column), set(list_of_alternatives))` on a number -/
def belongs (alts : List Int) (x : α) : Bool := alts.any fun a => Num.eq (Num.int a) x

section generic
variable {ι : Type}

/-- value of `dict_of_mev_sums[...]` for one nest: the `ConditionalSum`, over the rows
`(alternative, weight, utility)` of the second sample that belong to the nest, of
`weight * exp(mu * utility)` -/
def nestMevSum (mem : List Int → ι → Bool) (mev : List (ι × α × α)) (n : Nest α) : α :=
  Num.sum ((mev.filter fun r => mem n.alts r.1).map fun r => r.2.1 * Num.exp (n.mu * r.2.2))

/-- `dict_of_mev_sums`, filled nest after nest, key `tuple(nest.list_of_alternatives)` -/
def mevSumsDict (mem : List Int → ι → Bool) (mev : List (ι × α × α)) (nests : List (Nest α)) :
    List (List Int × α) :=
  nests.map fun n => (n.alts, nestMevSum mem mev n)

/-- reading a Python dict built by successive assignments: the last assignment of the key wins,
an absent key is a `KeyError` (`none`) -/
def dictGet : List (List Int × α) → List Int → Option α
  | [], _ => none
  | (k, v) :: t, key =>
    match dictGet t key with
    | some w => some w
    | none => if k = key then some v else none

/-- `dict_of_mev_terms[i]`: the sum, over the nests the alternative of the row belongs to, of
`(mu − 1)·V + (1/mu − 1)·log(dict_of_mev_sums[tuple(alternatives of the nest)])` -/
def nestedTerm (mem : List Int → ι → Bool) (dict : List (List Int × α)) (nests : List (Nest α))
    (id : ι) (v : α) : Option α := do
  let terms ← nests.mapM fun n => do
    let s ← dictGet dict n.alts
    pure (mem n.alts id, (n.mu - 1) * v + (1 / n.mu - 1) * Num.log s)
  pure (Num.sum ((terms.filter (·.1)).map (·.2)))

/-- `loglogit` on `V_i − _log_proba_i + dict_of_mev_terms[i]`, rows `(alternative, V, correction)`
of the main sample (chosen first), rows `(alternative, weight, V)` of the second sample -/
def nestedLogitRows (mem : List Int → ι → Bool) (nests : List (Nest α))
    (rows : List (ι × α × α)) (mev : List (ι × α × α)) : Option α := do
  let dict := mevSumsDict mem mev nests
  let cs ← rows.mapM fun r => do
    let t ← nestedTerm mem dict nests r.1 r.2.1
    pure (r.2.1 - r.2.2 + t)
  logLogitFirst cs

end generic

/-- `get_nested_logit` evaluated on one merged row of the database.  Without a second partition
the code takes the utilities 1..J−1 of the main sample for the MEV sums and reads the weights from
columns `_mev_weight_<i>`, which do not exist (`none`: the engine refuses the variable). -/
def nestedSampledLL (attributes : List String) (u : Formula α) (idCol : String) (J : Nat)
    (J2 : Option Nat) (nests : List (Nest α)) (row : List (String × α)) : Option α := do
  let env := lookupLast row
  let rows ← (List.range J).mapM fun i => do
    let id ← env (colKey "" idCol i)
    let v ← (utilityOf attributes u i).eval env
    let lp ← env (colKey "" "_log_proba" i)
    pure (id, v, lp)
  let pre := match J2 with
    | none => ""
    | some _ => "_MEV_"
  let idx := match J2 with
    | none => (List.range J).tail
    | some j2 => List.range j2
  let mev ← idx.mapM fun j => do
    let id ← env (colKey pre idCol j)
    let w ← env (colKey pre "_mev_weight" j)
    let v ← (u.rename attributes pre ("_" ++ toString j)).eval env
    pure (id, w, v)
  nestedLogitRows belongs nests rows mev

/-- abstract form used by the equivalence theorem: main rows `(alternative, correction)`, second
sample `(alternative, weight)`, `U` = utility of an alternative for the individual at hand -/
def nestedSampledLLAbs (U : Int → α) (nests : List (Nest α)) (rows : List (Int × α))
    (mev : List (Int × α)) : Option α :=
  nestedLogitRows (fun l a => l.contains a) nests
    (rows.map fun r => (r.1, U r.1, r.2)) (mev.map fun r => (r.1, r.2, U r.1))

/-- `get_mev_for_nested`: ln ∂G/∂y_a for the nested logit on the full choice set — for the nest
containing `a`, `(mu − 1)·U_a + (1/mu − 1)·log Σ_{b ∈ nest} exp(mu·U_b)`; 0 for an alternative
alone (the nests are disjoint: at most one term) -/
def nestedLogG (U : Int → α) (nests : List (Nest α)) (a : Int) : α :=
  Num.sum ((nests.filter fun n => n.alts.contains a).map fun n =>
    (n.mu - 1) * U a + (1 / n.mu - 1) * Num.log (Num.sum (n.alts.map fun b => Num.exp (n.mu * U b))))

/-- `lognested(V, None, nests, choice)` = `logmev`: logit on `U_a + ln G_a` over the full choice set -/
def fullNestedLL (U : Int → α) (nests : List (Nest α)) (alts : List Int) (chosen : Int) : α :=
  (U chosen + nestedLogG U nests chosen) -
    Num.log (Num.sum (alts.map fun a => Num.exp (U a + nestedLogG U nests a)))

end num

end Sampling
