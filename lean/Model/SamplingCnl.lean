/-
Round 3 — the cross-nested logit generated on a sample
(`GenerateModel.get_cross_nested_logit`, generate_model.py) and `models.logcnl` on the full
choice set (`get_mev_for_cross_nested`, models/cnl.py).

The alphas of a nest travel as columns of the table of alternatives named after the nest
(`SamplingContext.include_cnl_alphas`: `_CNL_<name>`, value `alpha` if the alternative is in
`dict_of_alpha` else 0.0), hence as columns `_CNL_<name>_<i>` / `_MEV__CNL_<name>_<j>` of the merged
row; the dictionary of MEV sums is keyed by the NAME of the nest.  Core Lean only.
-/
import Model.Sampling
open Num

namespace Sampling

section num
variable {α : Type} [NumOps α]

/-- comparison with the constant 0.0 -/
def isZero (x : α) : Bool := Num.eq x 0

/-- `logzero` -/
def logzero (x : α) : α := if isZero x then 0 else Num.log x

/-- one nest of the cross-nested logit: value of the nest parameter, name, `dict_of_alpha`
(alternative ↦ alpha, in the order of the dict) -/
structure CnlNest (α : Type) where
  mu : α
  name : String
  alpha : List (Int × α)

/-- `get_alpha_values(alternative)[nest.name] if alternative in nest.dict_of_alpha else 0.0` -/
def alphaOf (n : CnlNest α) (a : Int) : α :=
  match n.alpha.find? (fun p => p.1 == a) with
  | some p => p.2
  | none => 0

/-- `dict_of_mev_sums[nest.name]`: the `ConditionalSum`, over the rows `(alpha, weight, utility)` of
the second sample whose alpha for the nest is not 0, of `weight * alpha**mu * exp(mu * utility)` -/
def cnlMevSum (mu : α) (mev : List (α × α × α)) : α :=
  Num.sum ((mev.filter fun r => !isZero r.1).map fun r =>
    r.2.1 * Num.pow r.1 mu * Num.exp (mu * r.2.2))

/-- `dict_of_mev_terms[i]`: `logzero` of the `ConditionalSum`, over the nests `(alpha, mu, S)` whose
alpha for the row is not 0, of `alpha**mu * exp((mu − 1)·V) * S**(1/mu − 1)` -/
def cnlTerm (ts : List (α × α × α)) (v : α) : α :=
  logzero (Num.sum ((ts.filter fun t => !isZero t.1).map fun t =>
    Num.pow t.1 t.2.1 * Num.exp ((t.2.1 - 1) * v) * Num.pow t.2.2 (1 / t.2.1 - 1)))

/-- a nest as the generated model sees it: nest parameter, name, and the alphas of the rows of the
second sample for this nest (the columns `<prefix>_CNL_<name>_<j>`, j = 0, 1, …) -/
structure CnlCol (α : Type) where
  mu : α
  name : String
  mevAlpha : List α

/-- `dict_of_mev_sums`, filled nest after nest, key `nest.name`; second sample rows `(weight, V)` -/
def cnlSumsDict (nests : List (CnlCol α)) (mev : List (α × α)) : List (String × α) :=
  nests.map fun n => (n.name, cnlMevSum n.mu ((n.mevAlpha.zip mev).map fun am => (am.1, am.2.1, am.2.2)))

/-- the generated model: main sample rows `(alphas, V, correction)` (alphas in the order of the
nests, chosen alternative first), second sample rows `(weight, V)`.  The sums are stored in a
dictionary keyed by the name of the nest and read back by name (`lookupLast`: a Python dict, the
last assignment of a key wins). -/
def cnlLogitRows (nests : List (CnlCol α)) (rows : List (List α × α × α))
    (mev : List (α × α)) : Option α := do
  let sums := cnlSumsDict nests mev
  let cs ← rows.mapM fun r => do
    let ts ← (nests.zip r.1).mapM fun na => do
      let s ← lookupLast sums na.1.name
      pure (na.2, na.1.mu, s)
    pure (r.2.1 - r.2.2 + cnlTerm ts r.2.1)
  logLogitFirst cs

/-- `get_cross_nested_logit` evaluated on one merged row of the database (as `nestedSampledLL`:
without a second partition the code takes the utilities 1..J−1 of the main sample and reads weights
that do not exist) -/
def cnlSampledLL (attributes : List String) (u : Formula α) (J : Nat) (J2 : Option Nat)
    (nests : List (α × String)) (row : List (String × α)) : Option α := do
  let env := lookupLast row
  let rows ← (List.range J).mapM fun i => do
    let al ← nests.mapM fun n => env (colKey "" ("_CNL_" ++ n.2) i)
    let v ← (utilityOf attributes u i).eval env
    let lp ← env (colKey "" "_log_proba" i)
    pure (al, v, lp)
  let pre := match J2 with
    | none => ""
    | some _ => "_MEV_"
  let idx := match J2 with
    | none => (List.range J).tail
    | some j2 => List.range j2
  let mev ← idx.mapM fun j => do
    let w ← env (colKey pre "_mev_weight" j)
    let v ← (u.rename attributes pre ("_" ++ toString j)).eval env
    pure (w, v)
  let cols ← nests.mapM fun n => do
    let al ← idx.mapM fun j => env (colKey pre ("_CNL_" ++ n.2) j)
    pure (⟨n.1, n.2, al⟩ : CnlCol α)
  cnlLogitRows cols rows mev

/-- abstract form used by the equivalence theorem: main rows `(alternative, correction)`, second
sample `(alternative, weight)`, `U` = utility of an alternative for the individual at hand -/
def cnlSampledLLAbs (U : Int → α) (nests : List (CnlNest α)) (rows mev : List (Int × α)) : Option α :=
  cnlLogitRows (nests.map fun n => ⟨n.mu, n.name, mev.map fun r => alphaOf n r.1⟩)
    (rows.map fun r => (nests.map fun n => alphaOf n r.1, U r.1, r.2))
    (mev.map fun r => (r.2, U r.1))

/-- `bioMultSum([a**mu * exp(mu * util[i]) for i, a in dict_of_alpha.items()])` -/
def cnlBiosum (U : Int → α) (n : CnlNest α) : α :=
  Num.sum (n.alpha.map fun p => Num.pow p.2 n.mu * Num.exp (n.mu * U p.1))

/-- `get_mev_for_cross_nested`: ln G_a = `logzero` of the sum, over the nests whose `dict_of_alpha`
lists `a`, of `alpha**mu * exp((mu − 1)·U_a) * biosum**((1 − mu)/mu)`; 0 for an alternative alone -/
def cnlLogG (U : Int → α) (nests : List (CnlNest α)) (a : Int) : α :=
  logzero (Num.sum ((nests.filter fun n => n.alpha.any fun p => p.1 == a).map fun n =>
    Num.pow (alphaOf n a) n.mu * Num.exp ((n.mu - 1) * U a) *
      Num.pow (cnlBiosum U n) ((1 - n.mu) / n.mu)))

/-- `logcnl(V, None, nests, choice)` = `logmev`: logit on `U_a + ln G_a` over the full choice set -/
def fullCnlLL (U : Int → α) (nests : List (CnlNest α)) (alts : List Int) (chosen : Int) : α :=
  (U chosen + cnlLogG U nests chosen) -
    Num.log (Num.sum (alts.map fun a => Num.exp (U a + cnlLogG U nests a)))

end num

end Sampling
