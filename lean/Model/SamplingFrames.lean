/-
Round 3 — the data frames of the sampling of alternatives WITH THEIR ROW LABELS, and
`generate_segment_size`.

A pandas frame is a list of rows in positional order; every row carries the label of the index.
Labels are whatever the user's frame carries (a permutation of 0..N-1 after `sort_values` /
`sample(frac=1)`, gaps after a filter, repeats after `pd.concat`, strings): the code must pair
rows by POSITION of the loop, never by label.

* `SamplingOfAlternatives.sample_alternatives` : `alternatives[mask]` keeps labels (`maskIds`),
  `DataFrame.sample(..., ignore_index=True)` and `pd.concat(..., ignore_index=True)` relabel
  0, 1, 2, … (`ignoreIndex`); the rows handed over for the picked ids: `rowsOfIds`
* `ChoiceSetsGeneration.process_row`  : `frame.stack()` + dict comprehension, key
  `f'{col}_{row label}'` (`stackDict`, `processRowL`)
* `ChoiceSetsGeneration.sample_and_merge` : `individuals.apply(process_row, axis=1,
  result_type='expand')` = one output row per input row, in order, under the label of the input
  row (`applyRows`), then `define_new_variables` on every row (`sampleAndMerge`)
* `generate_segment_size` : `generateSegmentSize`

Core Lean only.
-/
import Model.Sampling
open Num

namespace Sampling

/-! ## `generate_segment_size(sample_size, number_of_segments)` -/

inductive SegErr where
  | negativeSample | nonPositiveSegments
deriving Repr, DecidableEq

/-- `[base_value] * m`, then `+= 1` on the first `remainder` positions -/
def segmentSizesNat (n m : Nat) : List Nat :=
  (List.range m).map fun i => if i < n % m then n / m + 1 else n / m

/-- the tests in the order of the code; `//` and `%` on non-negative integers -/
def generateSegmentSize (sampleSize segments : Int) : Except SegErr (List Int) :=
  if sampleSize < 0 then .error .negativeSample
  else if segments ≤ 0 then .error .nonPositiveSegments
  else .ok ((segmentSizesNat sampleSize.toNat segments.toNat).map Int.ofNat)

/-! ## frames with row labels -/

section frames
variable {α : Type} {ι κ : Type}

/-- `ignore_index=True`: the rows in the same order, relabelled `start, start+1, …` -/
def relabelFrom : List (ι × List α) → Nat → List (Nat × List α)
  | [], _ => []
  | r :: t, i => (i, r.2) :: relabelFrom t (i + 1)

def ignoreIndex (f : List (ι × List α)) : List (Nat × List α) := relabelFrom f 0

/-- `frame.stack()` turned into the dict `{f'{pre}{col}_{row label}': value}` (row-major) -/
def stackDict (pre : String) (cols : List String) : List (Nat × List α) → List (String × α)
  | [] => []
  | r :: t => (cols.zip r.2).map (fun cv => (colKey pre cv.1 r.1, cv.2)) ++ stackDict pre cols t

/-- what one call of `sample_alternatives` (and, with a second partition, of
`sample_mev_alternatives`) returned: two frames, rows with the labels they carry -/
structure Drawn (ι α : Type) where
  cols : List String
  main : List (ι × List α)
  mevCols : List String
  mev : List (ι × List α)

/-- `process_row` : the individual's own cells, then the stacked main sample, then the stacked
second sample under the prefix `_MEV_` (successive `dict.update`) -/
def processRowL (ind : List (String × α)) (d : Drawn Nat α) : List (String × α) :=
  ind ++ stackDict "" d.cols d.main ++ stackDict "_MEV_" d.mevCols d.mev

/-- the two frames as the sampling code returns them: `pd.concat(..., ignore_index=True)` -/
def Drawn.concat (d : Drawn ι α) : Drawn Nat α :=
  ⟨d.cols, ignoreIndex d.main, d.mevCols, ignoreIndex d.mev⟩

/-- `individuals.apply(process_row, axis=1, result_type='expand')`: the rows of the individuals
are visited in positional order; call number `p` of `process_row` receives row number `p` and
its result becomes row number `p` of the result, under the label of that row.  `drawn` = the
outcomes of the successive samplings. -/
def applyRows : List (ι × List (String × α)) → List (Drawn Nat α) → List (ι × List (String × α))
  | r :: t, d :: ds => (r.1, processRowL r.2 d) :: applyRows t ds
  | _, _ => []

/-- `alternatives[mask]` where the mask is computed from the id column of the same frame: the
rows where it holds, in order, with their labels -/
def maskIds (p : Int → Bool) (alts : List (ι × Int × List α)) : List (ι × Int × List α) :=
  alts.filter fun r => p r.2.1

/-- the rows of the table of alternatives handed over for the picked ids, in the order picked
(each id selects the rows carrying it) -/
def rowsOfIds (alts : List (ι × Int × List α)) (ids : List Int) : List (ι × Int × List α) :=
  ids.flatMap fun a => maskIds (fun b => b == a) alts

end frames

/-- `sample_and_merge` on the whole table: `apply(process_row)` then `define_new_variables`
(the engine computes every new column row by row) -/
def sampleAndMerge {α ι : Type} [NumOps α] (altCols : List String) (J : Nat) (J2 : Option Nat)
    (combined : List (String × Formula α)) (inds : List (ι × List (String × α)))
    (drawn : List (Drawn Nat α)) : Option (List (ι × List (String × α))) :=
  (applyRows inds drawn).mapM fun r => do
    let row ← defineVars altCols J J2 combined r.2
    pure (r.1, row)

end Sampling
