/-
The signature *text*: what `Expression.get_signature` and its per-class overrides write
(`renderLine`), and how the engine reads it back (`parseLine`, after
`bioFormula::processFormula`, `extractParentheses` and `split` of cythonbiogeme, whose C++
sources ship with the installed package).  Characters are `List Char`.

Engine reader, as coded:
* `extract o c s` : `extractParentheses(o, c, s)`.  For `o ≠ '"'` every character strictly
  between two quotation marks is first blanked; then the text between the first `o` and its
  matching `c` (nesting counted) is returned.  For `o = '"'`: the text between the first and
  the last quotation mark.
* `items s`       : `split(s, ',')` of the *whole* line (not blanked!) — a comma inside a name
  shifts every later item.
* `stoi`          : `std::stoi` — leading blanks, optional sign, the longest digit prefix;
  fails when there is no digit.  (`stod` is a parameter `numOf`: the reading of decimal text as
  a double is not modelled.)
* ids are map keys; here canonical decimal numerals (`parseNat` is strict).
Core Lean only.
-/
import Model.Engine

namespace Sig
open Expr Engine Num

/-! ### characters -/

def splitOn (sep : Char) : List Char → List (List Char)
  | [] => [[]]
  | c :: cs =>
    if c = sep then [] :: splitOn sep cs
    else
      match splitOn sep cs with
      | [] => [[c]]
      | h :: t => (c :: h) :: t

def items (s : List Char) : List (List Char) := splitOn ',' s

/-- characters strictly inside quotation marks become blanks -/
def blank : Bool → List Char → List Char
  | _, [] => []
  | q, c :: cs =>
    if c = '"' then c :: blank (!q) cs
    else (if q then ' ' else c) :: blank q cs

/-- the text after the first occurrence of `c` -/
def dropUntil (c : Char) : List Char → Option (List Char)
  | [] => none
  | x :: xs => if x = c then some xs else dropUntil c xs

/-- the text up to the closing `c` that matches (nesting level `lvl`) -/
def takeClose (o c : Char) : Nat → List Char → Option (List Char)
  | _, [] => none
  | lvl, x :: xs =>
    if x = o then (takeClose o c (lvl + 1) xs).map (x :: ·)
    else if x = c then
      (match lvl with
       | 0 => some []
       | l + 1 => (takeClose o c l xs).map (x :: ·))
    else (takeClose o c lvl xs).map (x :: ·)

def extract (o c : Char) (s : List Char) : Option (List Char) :=
  if o = '"' then
    match dropUntil '"' s with
    | none => none
    | some r =>
      match dropUntil '"' r.reverse with
      | none => some r
      | some m => some m.reverse
  else
    match dropUntil o (blank false s) with
    | none => none
    | some r => takeClose o c 0 r

def digitVal (c : Char) : Nat := c.toNat - '0'.toNat

def digitsVal (l : List Char) : Nat := l.foldl (fun a c => 10 * a + digitVal c) 0

/-- strict numeral: non-empty, digits only -/
def parseNat (l : List Char) : Option Nat :=
  if l ≠ [] ∧ l.all Char.isDigit then some (digitsVal l) else none

def dropPlus : List Char → List Char
  | '+' :: r => r
  | l => l

/-- `std::stoi` restricted to non-negative results -/
def stoi (l : List Char) : Option Nat :=
  let ds := (dropPlus (l.dropWhile (· = ' '))).takeWhile Char.isDigit
  if ds = [] then none else some (digitsVal ds)

def natText (n : Nat) : List Char := Nat.toDigits 10 n

def intText (i : Int) : List Char :=
  match i with
  | .ofNat n => natText n
  | .negSucc n => '-' :: natText (n + 1)

/-- `std::stoi` on a key: sign allowed -/
def stoiInt (l : List Char) : Option Int :=
  match l.dropWhile (· = ' ') with
  | '-' :: r =>
    let ds := r.takeWhile Char.isDigit
    if ds = [] then none else some (-(Int.ofNat (digitsVal ds)))
  | l' => (stoi l').map Int.ofNat

/-! ### class names -/

def className : Kind → List Char
  | .num => "Numeric".toList | .beta => "Beta".toList | .var => "Variable".toList
  | .plus => "Plus".toList | .minus => "Minus".toList | .times => "Times".toList
  | .divide => "Divide".toList | .power => "Power".toList | .bmin => "bioMin".toList
  | .bmax => "bioMax".toList | .and => "And".toList | .or => "Or".toList
  | .eq => "Equal".toList | .ne => "NotEqual".toList | .le => "LessOrEqual".toList
  | .ge => "GreaterOrEqual".toList | .lt => "Less".toList | .gt => "Greater".toList
  | .neg => "UnaryMinus".toList | .exp => "exp".toList | .log => "log".toList
  | .logzero => "logzero".toList | .sin => "sin".toList | .cos => "cos".toList
  | .normalCdf => "bioNormalCdf".toList | .powConst => "PowerConstant".toList
  | .belongsTo => "BelongsTo".toList | .elem => "Elem".toList | .multSum => "bioMultSum".toList
  | .condSum => "ConditionalSum".toList | .linUtil => "bioLinearUtility".toList
  | .logLogit => "_bioLogLogit".toList

def allKinds : List Kind :=
  [.num, .beta, .var, .plus, .minus, .times, .divide, .power, .bmin, .bmax, .and, .or,
   .eq, .ne, .le, .ge, .lt, .gt, .neg, .exp, .log, .logzero, .sin, .cos, .normalCdf,
   .powConst, .belongsTo, .elem, .multSum, .condSum, .linUtil, .logLogit]

def kindOfClass (c : List Char) : Option Kind :=
  if c = "_bioLogLogitFullChoiceSet".toList then some .logLogit
  else allKinds.find? (fun k => className k = c)

/-- how the line of a kind is laid out after `<Class>{id}` -/
inductive Shape | literal | elementary | binary | unary | unaryArg | counted
deriving DecidableEq, Repr

def shapeOf : Kind → Shape
  | .num => .literal
  | .beta | .var => .elementary
  | .plus | .minus | .times | .divide | .power | .bmin | .bmax | .and | .or
  | .eq | .ne | .le | .ge | .lt | .gt => .binary
  | .neg | .exp | .log | .logzero | .sin | .cos | .normalCdf => .unary
  | .powConst => .unaryArg
  | .belongsTo | .elem | .multSum | .condSum | .linUtil | .logLogit => .counted

/-! ### the writer (`get_signature` of each class) -/

variable {α : Type}

def commaJoin (fs : List (List Char)) : List Char := fs.flatMap (',' :: ·)

def header (k : Kind) (id : Nat) : List Char :=
  '<' :: className k ++ '>' :: '{' :: natText id ++ ['}']

/-- `[k₁,c₁,k₂,c₂,…]` -/
def interleave : List (List Char) → List (List Char) → List (List Char)
  | a :: as, b :: bs => a :: b :: interleave as bs
  | _, _ => []

/-- `[k₁,u₁,a₁,k₂,u₂,a₂,…]` -/
def interleave3 : List (List Char) → List (List Char) → List (List Char) → List (List Char)
  | a :: as, b :: bs, c :: cs => a :: b :: c :: interleave3 as bs cs
  | _, _, _ => []

/-- `Elementary.signature_name`: the engine's reader cannot carry a comma or a quotation mark
inside a name (and uses names only in its messages) -/
def sanitize (s : List Char) : List Char :=
  s.map fun c => if c = ',' then ';' else if c = '"' then '\'' else c

/-- the six fields of one term of `bioLinearUtility`; `info id = (elementary index, name)` -/
def linFields (info : Nat → Nat × List Char) : List Nat → List Nat → List (List Char)
  | b :: bs, v :: vs =>
    natText b :: natText (info b).1 :: sanitize (info b).2 :: natText v :: natText (info v).1
      :: sanitize (info v).2 :: linFields info bs vs
  | _, _ => []

/-- the part of the line before the first comma -/
def linePre (l : SigLine α) : List Char :=
  header l.kind l.id ++
  match l.kind with
  | .num | .powConst => []
  | .beta => '"' :: sanitize l.name.toList ++ '"' :: '[' :: natText l.status ++ [']']
  | .var => '"' :: sanitize l.name.toList ++ ['"']
  | .belongsTo => '(' :: natText l.members.length ++ [')']
  | .elem | .logLogit => '(' :: natText l.keys.length ++ [')']
  | .condSum | .linUtil => '(' :: natText (l.children.length / 2) ++ [')']
  | _ => '(' :: natText l.children.length ++ [')']

/-- the comma-separated fields after it; `txt` is Python's `str(float)`,
`info id = (elementary index, name)` of the node with that id -/
def lineFields (txt : α → List Char) (info : Nat → Nat × List Char) (l : SigLine α) :
    List (List Char) :=
  match l.kind with
  | .num => [txt l.value]
  | .beta | .var => [natText l.uid, natText l.slot]
  | .powConst => l.children.map natText ++ [txt l.value]
  | .belongsTo => l.children.map natText ++ l.members.map txt
  | .elem =>
    (l.children.take 1).map natText ++ interleave (l.keys.map intText) ((l.children.drop 1).map natText)
  | .linUtil =>
    let h := l.children.length / 2
    linFields info (l.children.take h) (l.children.drop h)
  | .logLogit =>
    let m := l.keys.length
    (l.children.take 1).map natText ++
      interleave3 (l.keys.map intText) (((l.children.drop 1).take m).map natText)
        ((l.children.drop (1 + m)).map natText)
  | _ => l.children.map natText

/-- the line of `l` as the Python classes write it -/
def renderLine (txt : α → List Char) (info : Nat → Nat × List Char) (l : SigLine α) : List Char :=
  linePre l ++ commaJoin (lineFields txt info l)

/-! ### the reader (`bioFormula::processFormula`) -/

def emptyLine [NumOps α] (k : Kind) (id : Nat) : SigLine α :=
  { kind := k, id := id, children := [], name := "", status := 0, uid := 0, slot := 0,
    value := (0 : α), keys := [], members := [] }

def getItem (its : List (List Char)) (i : Nat) : Option (List Char) := its[i]?

def childAt (its : List (List Char)) (i : Nat) : Option Nat := (getItem its i).bind parseNat

def mapMOpt {β γ : Type} (f : β → Option γ) : List β → Option (List γ)
  | [] => some []
  | x :: xs => (f x).bind fun y => (mapMOpt f xs).map (y :: ·)

def parseLine [NumOps α] (numOf : List Char → Option α) (f : List Char) : Option (SigLine α) := do
  let cls ← extract '<' '>' f
  let id ← (extract '{' '}' f).bind parseNat
  let k ← kindOfClass cls
  let its := items f
  let base : SigLine α := emptyLine k id
  match k with
  | .num =>
    let v ← (getItem its 1).bind numOf
    pure { base with value := v }
  | .beta =>
    let name ← extract '"' '"' f
    let status ← (extract '[' ']' f).bind stoi
    let uid ← (getItem its 1).bind stoi
    let slot ← (getItem its 2).bind stoi
    pure { base with name := String.ofList name, status := status, uid := uid, slot := slot }
  | .var =>
    let name ← extract '"' '"' f
    let uid ← (getItem its 1).bind stoi
    let slot ← (getItem its 2).bind stoi
    pure { base with name := String.ofList name, uid := uid, slot := slot }
  | .powConst =>
    let c ← childAt its 1
    let v ← (getItem its 2).bind numOf
    pure { base with children := [c], value := v }
  | .belongsTo =>
    let n ← (extract '(' ')' f).bind stoi
    let c ← childAt its 1
    let ms ← mapMOpt (fun i => (getItem its (2 + i)).bind numOf) (List.range n)
    pure { base with children := [c], members := ms }
  | .elem =>
    let n ← (extract '(' ')' f).bind stoi
    let c ← childAt its 1
    let ks ← mapMOpt (fun i => (getItem its (2 + 2 * i)).bind stoiInt) (List.range n)
    let cs ← mapMOpt (fun i => childAt its (2 + 2 * i + 1)) (List.range n)
    pure { base with children := c :: cs, keys := ks }
  | .multSum =>
    let n ← (extract '(' ')' f).bind stoi
    let cs ← mapMOpt (fun i => childAt its (1 + i)) (List.range n)
    pure { base with children := cs }
  | .condSum =>
    let n ← (extract '(' ')' f).bind stoi
    let cs ← mapMOpt (fun i => childAt its (1 + i)) (List.range (2 * n))
    pure { base with children := cs }
  | .linUtil =>
    let n ← (extract '(' ')' f).bind stoi
    let bs ← mapMOpt (fun i => childAt its (i * 6 + 1)) (List.range n)
    let _ ← mapMOpt (fun i => (getItem its (i * 6 + 2)).bind stoi) (List.range n)
    let vs ← mapMOpt (fun i => childAt its (i * 6 + 4)) (List.range n)
    let _ ← mapMOpt (fun i => (getItem its (i * 6 + 5)).bind stoi) (List.range n)
    pure { base with children := bs ++ vs }
  | .logLogit =>
    let n ← (extract '(' ')' f).bind stoi
    let c ← childAt its 1
    let ks ← mapMOpt (fun i => (getItem its (2 + 3 * i)).bind stoiInt) (List.range n)
    let us ← mapMOpt (fun i => childAt its (2 + 3 * i + 1)) (List.range n)
    let avs ← mapMOpt (fun i => childAt its (2 + 3 * i + 2)) (List.range n)
    pure { base with children := c :: us ++ avs, keys := ks }
  | _ =>
    match shapeOf k with
    | .binary =>
      let n ← (extract '(' ')' f).bind stoi
      if n ≠ 2 then none else
      let a ← childAt its 1
      let b ← childAt its 2
      pure { base with children := [a, b] }
    | _ =>
      let a ← childAt its 1
      pure { base with children := [a] }

/-- the fields of a line that its text carries (everything else at its default; the name as
written) -/
def canon [NumOps α] (l : SigLine α) : SigLine α :=
  let base : SigLine α := emptyLine l.kind l.id
  match l.kind with
  | .num => { base with value := l.value }
  | .beta =>
    { base with name := String.ofList (sanitize l.name.toList), status := l.status, uid := l.uid,
                slot := l.slot }
  | .var => { base with name := String.ofList (sanitize l.name.toList), uid := l.uid, slot := l.slot }
  | .powConst => { base with children := l.children, value := l.value }
  | .belongsTo => { base with children := l.children, members := l.members }
  | .elem | .logLogit => { base with children := l.children, keys := l.keys }
  | _ => { base with children := l.children }

/-- the engine loading the text of a whole signature -/
def loadText [NumOps α] (numOf : List Char → Option α) (s : Store α) (ls : List (List Char)) :
    Option (Store α) :=
  match ls with
  | [] => some s
  | f :: rest =>
    match parseLine numOf f with
    | none => none            -- the engine throws (or reads out of range): nothing is evaluated
    | some l => loadText numOf (loadLine s l) rest

end Sig

namespace Sig
open Expr Engine Num
variable {α : Type}

/-- the number of children the layout of each kind can carry -/
def arityOK (l : SigLine α) : Bool :=
  match l.kind with
  | .num | .beta | .var => l.children.length == 0
  | .multSum => true
  | .powConst | .belongsTo => l.children.length == 1
  | .elem => l.children.length == l.keys.length + 1
  | .condSum | .linUtil => l.children.length % 2 == 0
  | .logLogit => l.children.length == 2 * l.keys.length + 1
  | k =>
    match shapeOf k with
    | .binary => l.children.length == 2
    | _ => l.children.length == 1

/-- a name the engine's reader copes with: no comma (it splits the whole line on commas) and
no quotation mark (it toggles the blanking of bracket characters) -/
def NameOK (s : List Char) : Prop := ',' ∉ s ∧ '"' ∉ s

/-- what the round trip needs of one line: a layout that can carry its children, and literals
that the engine's `stod` reads back as the doubles Python's `str` wrote -/
structure TextWF (txt : α → List Char) (numOf : List Char → Option α) (l : SigLine α) : Prop where
  arity : arityOK l = true
  vals : ∀ v, v = l.value ∨ v ∈ l.members → ',' ∉ txt v ∧ numOf (txt v) = some v

/-- the engine path through the text: serialise node `k`, write every line as Python does,
let the engine's reader parse and load them, evaluate -/
def runText [NumOps α] (txt : α → List Char) (numOf : List Char → Option α)
    (info : Nat → Nat × List Char) (t : IdM.Table String) (d : Dag α) (k : Nat) (ee : EngEnv α) :
    Res α :=
  if !namesOKB t d then .error .missing else
  match loadText numOf [] ((emit t d (k + 1) k).map (renderLine txt info)) with
  | none => .error .dangling
  | some st =>
    match st.find k with
    | none => .error .dangling
    | some f => f ee

end Sig
