/-
Model of the statistics reported by `biogeme.results` (src/biogeme/results.py:
`calc_p_value`, `Beta.set_std_err / set_robust_std_err / set_bootstrap_std_err`,
`bioResults._calculate_stats`, `_calculate_test`, `get_general_statistics`,
`get_estimated_parameters`, `get_correlation_results`, `compile_estimation_results`) and of
`biogeme.tools.likelihood_ratio.likelihood_ratio_test`.

Matrices are `List (List α)` over the law-free `NumOps α`; the same definitions run on
`Float` in the driver and are reasoned about on `ℝ` in Proofs/Stats*.lean.  The
pseudo-inverse comes from LAPACK (`scipy.linalg.pinv`): it is modelled *relationally* by
the four Penrose equations (`IsPinv`); everything downstream of it is computed.

Core Lean only.
-/
import Model.Num
open Num

namespace Stats

variable {α : Type} [NumOps α]

/-! ## matrices as lists of rows -/

abbrev Mat (α : Type) := List (List α)

def vget (v : List α) (i : Nat) : α := v.getD i 0
def ent (m : Mat α) (i j : Nat) : α := vget (m.getD i []) j

def build (r c : Nat) (f : Nat → Nat → α) : Mat α :=
  (List.range r).map fun i => (List.range c).map fun j => f i j

/-- Σ_{k<n} f k · g k -/
def dot (n : Nat) (f g : Nat → α) : α := Num.sum ((List.range n).map fun k => f k * g k)

/-- product of the leading n×n blocks (`numpy.dot` on square matrices) -/
def mmul (n : Nat) (A B : Mat α) : Mat α :=
  build n n fun i j => dot n (fun k => ent A i k) (fun k => ent B k j)

def transpose (n : Nat) (A : Mat α) : Mat α := build n n fun i j => ent A j i
def mneg (n : Nat) (A : Mat α) : Mat α := build n n fun i j => - ent A i j
def ident (n : Nat) : Mat α := build n n fun i j => if i = j then 1 else 0

/-- equality of the leading n×n blocks -/
def EqOn (n : Nat) (A B : Mat α) : Prop := ∀ i j, i < n → j < n → ent A i j = ent B i j

/-- the list really is an n×n array -/
def Shape (n : Nat) (A : Mat α) : Prop := A.length = n ∧ ∀ r ∈ A, r.length = n

def IsSymm (n : Nat) (A : Mat α) : Prop := ∀ i j, i < n → j < n → ent A i j = ent A j i

/-- **the relational step**: `X` is a Moore–Penrose pseudo-inverse of `A` (what
`scipy.linalg.pinv` promises), stated by the four Penrose equations. -/
def IsPinv (n : Nat) (A X : Mat α) : Prop :=
  EqOn n (mmul n (mmul n A X) A) A ∧
  EqOn n (mmul n (mmul n X A) X) X ∧
  EqOn n (transpose n (mmul n A X)) (mmul n A X) ∧
  EqOn n (transpose n (mmul n X A)) (mmul n X A)

/-! ## float special values used by the code -/

/-- `np.finfo(float).max` -/
def maxFloat : α := NumOps.ofScientific 17976931348623157 false 292

def isNaN (x : α) : Bool := !(Num.eq x x)

/-- `np.nan_to_num` : NaN ↦ 0, +inf ↦ max, −inf ↦ −max -/
def nanToNum (x : α) : α :=
  if isNaN x then 0
  else if Num.lt maxFloat x then maxFloat
  else if Num.lt x (-maxFloat) then -maxFloat
  else x

def nanToNumMat (n : Nat) (A : Mat α) : Mat α := build n n fun i j => nanToNum (ent A i j)

/-! ## summary statistics (`_calculate_stats`, first part) -/

/-- `-2.0 * (L0 - L)` -/
def lrt (L0 L : α) : α := (-2) * (L0 - L)
/-- `np.nan_to_num(1.0 - L / L0)` -/
def rho2 (L0 L : α) : α := nanToNum (1 - L / L0)
/-- `np.nan_to_num(1.0 - (L - K) / L0)` -/
def rhoBar2 (K : Nat) (L0 L : α) : α := nanToNum (1 - (L - Num.nat K) / L0)
/-- `2.0 * K - 2.0 * L` -/
def aic (K : Nat) (L : α) : α := 2 * Num.nat K - 2 * L
/-- `-2.0 * L + K * np.log(N)` -/
def bic (K N : Nat) (L : α) : α := (-2) * L + Num.nat K * Num.log (Num.nat N)

/-- a statistic that divides by a reference likelihood held in a Python `float`:
`None` stays `None`, and a zero reference raises `ZeroDivisionError`, which the code turns
into `None`. -/
def overRef (L0 : Option α) (f : α → α) : Option α :=
  match L0 with
  | none => none
  | some l0 => if Num.eq l0 0 then none else some (f l0)

/-! ## one family of second-order statistics -/

/-- standard error from a variance: negative variance ↦ max float -/
def seOf (v : α) : α := if Num.lt v 0 then maxFloat else Num.sqrt v
/-- `Beta.set_*_std_err`: t statistic from estimate and standard error -/
def tOf (b s : α) : α := if Num.eq s 0 then maxFloat else nanToNum (b / s)
/-- `calc_p_value` -/
def pOf (t : α) : α := 2 * (1 - Num.normalCdf (Num.abs t))

def famSe (K : Nat) (V : Mat α) : List α := (List.range K).map fun k => seOf (ent V k k)
def famT (K : Nat) (beta : List α) (V : Mat α) : List α :=
  (List.range K).map fun k => tOf (vget beta k) (seOf (ent V k k))
def famP (K : Nat) (beta : List α) (V : Mat α) : List α :=
  (List.range K).map fun k => pOf (tOf (vget beta k) (seOf (ent V k k)))

/-- `(d > 0).all()` -/
def allPos (K : Nat) (V : Mat α) : Bool := (List.range K).all fun k => Num.lt 0 (ent V k k)

/-- `linalg.inv(np.diag(np.sqrt(d)))` (inverse of a diagonal matrix) -/
def diagInvSqrt (K : Nat) (V : Mat α) : Mat α :=
  build K K fun i j => if i = j then 1 / Num.sqrt (ent V i i) else 0

/-- `diag_inv.dot(V.dot(diag_inv))` -/
def corrProd (K : Nat) (V : Mat α) : Mat α := mmul K (diagInvSqrt K V) (mmul K V (diagInvSqrt K V))

/-- the correlation matrix as the code computes it -/
def corr (K : Nat) (V : Mat α) : Mat α :=
  if allPos K V then corrProd K V else build K K fun _ _ => maxFloat

/-- the textbook entry -/
def corrEntry (V : Mat α) (i j : Nat) : α :=
  ent V i j / (Num.sqrt (ent V i i) * Num.sqrt (ent V j j))

/-- `var_i + var_j - 2.0 * covar` -/
def pairR (V : Mat α) (i j : Nat) : α := ent V i i + ent V j j - 2 * ent V i j

/-- `_calculate_test` -/
def pairT (beta : List α) (V : Mat α) (i j : Nat) : α :=
  if Num.le (pairR V i j) 0 then maxFloat
  else (vget beta i - vget beta j) / Num.sqrt (pairR V i j)

/-- `varCovar.dot(bhhh.dot(varCovar))` -/
def robust (K : Nat) (V B : Mat α) : Mat α := mmul K V (mmul K B V)

/-- mean of column j of the bootstrap sample -/
def colMean (S : Mat α) (j : Nat) : α := Num.sum (S.map fun row => vget row j) / Num.nat S.length

/-- `np.cov(sample, rowvar=False)` for K ≥ 2 columns: centred cross products over B − 1 -/
def sampleCov (K : Nat) (S : Mat α) : Mat α :=
  build K K fun i j =>
    Num.sum (S.map fun row => (vget row i - colMean S i) * (vget row j - colMean S j))
      / Num.nat (S.length - 1)

/-- (i, j) with j < i < K in the order of the double loop of `_calculate_stats` -/
def pairs (K : Nat) : List (Nat × Nat) :=
  (List.range K).flatMap fun i => (List.range i).map fun j => (i, j)

/-- the four entries of `secondOrderTable` contributed by one family -/
def pairBlock (K : Nat) (beta : List α) (V : Mat α) (i j : Nat) : List α :=
  [ent V i j, ent (corr K V) i j, pairT beta V i j, pOf (pairT beta V i j)]

/-! ## the whole report -/

inductive FamId where
  | classical | robust | bootstrap
deriving DecidableEq, Repr

inductive StatId where
  | se | t | p
deriving DecidableEq, Repr

/-- what the tables are made from -/
structure Rep (α : Type) where
  K : Nat
  names : List (List Char)
  beta : List α
  active : List Bool                  -- `is_bound_active()` per parameter
  cls : Mat α                         -- varCovar
  rob : Mat α                         -- robust_varCovar
  boot : Option (Nat × Mat α)         -- (number of replications, bootstrap_varCovar)

def Rep.cov (r : Rep α) : FamId → Mat α
  | .classical => r.cls
  | .robust => r.rob
  | .bootstrap => match r.boot with
    | some (_, m) => m
    | none => []

/-- the statistic `s` of family `f` for parameter `k` -/
def Rep.stat (r : Rep α) (f : FamId) (s : StatId) (k : Nat) : α :=
  let se := seOf (ent (r.cov f) k k)
  match s with
  | .se => se
  | .t => tOf (vget r.beta k) se
  | .p => pOf (tOf (vget r.beta k) se)

/-- `Beta.is_bound_active` (threshold 1e-6) -/
def boundActive (v : α) (lb ub : Option α) : Bool :=
  (match lb with
   | some l => Num.le (Num.abs (v - l)) 1.0e-6
   | none => false) ||
  (match ub with
   | some u => Num.le (Num.abs (v - u)) 1.0e-6
   | none => false)

/-- build the report from the raw outcome and the pseudo-inverse supplied by LAPACK:
`V` is `varCovar` (with `IsPinv (nan_to_num H) (−V)`), `B` the BHHH matrix, `S` the bootstrap
sample -/
def mkRep (names : List (List Char)) (beta : List α) (bounds : List (Option α × Option α))
    (V B : Mat α) (S : Option (Mat α)) : Rep α :=
  let K := beta.length
  { K := K, names := names, beta := beta,
    active := (List.range K).map fun k =>
      boundActive (vget beta k) ((bounds.getD k (none, none)).1) ((bounds.getD k (none, none)).2),
    cls := V, rob := robust K V B,
    boot := S.map fun s => (s.length, sampleCov K s) }

/-! ## `get_estimated_parameters` -/

/-- the finite grammar of column labels of the parameter table -/
inductive PLabel where
  | value | activeBound
  | stdErr | tTest | pValue
  | robStdErr | robTTest | robPValue
  | bootStdErr (n : Nat) | bootTTest | bootPValue
deriving DecidableEq, Repr

def PLabel.render : PLabel → String
  | .value => "Value"
  | .activeBound => "Active bound"
  | .stdErr => "Std err"
  | .tTest => "t-test"
  | .pValue => "p-value"
  | .robStdErr => "Rob. Std err"
  | .robTTest => "Rob. t-test"
  | .robPValue => "Rob. p-value"
  | .bootStdErr n => "Bootstrap[" ++ toString n ++ "] Std err"
  | .bootTTest => "Bootstrap t-test"
  | .bootPValue => "Bootstrap p-value"

/-- `columns` of `get_estimated_parameters` -/
def paramColumns (anyActive onlyRobust : Bool) (nBoot : Option Nat) : List PLabel :=
  (if anyActive then
    (if onlyRobust then [.value, .activeBound, .robStdErr, .robTTest, .robPValue]
     else [.value, .activeBound, .stdErr, .tTest, .pValue, .robStdErr, .robTTest, .robPValue])
   else
    (if onlyRobust then [.value, .robStdErr, .robTTest, .robPValue]
     else [.value, .stdErr, .tTest, .pValue, .robStdErr, .robTTest, .robPValue])) ++
  (match nBoot, onlyRobust with
   | some n, false => [.bootStdErr n, .bootTTest, .bootPValue]
   | _, _ => [])

def Rep.anyActive (r : Rep α) : Bool := r.active.any id

/-- the dictionary `arow` built for parameter `k` -/
def paramRow (r : Rep α) (onlyRobust : Bool) (k : Nat) : List (PLabel × α) :=
  let act : α := if r.active.getD k false then 1 else 0
  (if r.anyActive then
    (if onlyRobust then
      [(.value, vget r.beta k), (.activeBound, act),
       (.robStdErr, r.stat .robust .se k), (.robTTest, r.stat .robust .t k),
       (.robPValue, r.stat .robust .p k)]
     else
      [(.value, vget r.beta k), (.activeBound, act),
       (.stdErr, r.stat .classical .se k), (.tTest, r.stat .classical .t k),
       (.pValue, r.stat .classical .p k),
       (.robStdErr, r.stat .robust .se k), (.robTTest, r.stat .robust .t k),
       (.robPValue, r.stat .robust .p k)])
   else
    (if onlyRobust then
      [(.value, vget r.beta k),
       (.robStdErr, r.stat .robust .se k), (.robTTest, r.stat .robust .t k),
       (.robPValue, r.stat .robust .p k)]
     else
      [(.value, vget r.beta k),
       (.stdErr, r.stat .classical .se k), (.tTest, r.stat .classical .t k),
       (.pValue, r.stat .classical .p k),
       (.robStdErr, r.stat .robust .se k), (.robTTest, r.stat .robust .t k),
       (.robPValue, r.stat .robust .p k)])) ++
  (match r.boot, onlyRobust with
   | some (n, _), false =>
      [(.bootStdErr n, r.stat .bootstrap .se k), (.bootTTest, r.stat .bootstrap .t k),
       (.bootPValue, r.stat .bootstrap .p k)]
   | _, _ => [])

/-- pandas aligns `pd.Series(arow)` on the column labels: cell = dictionary entry of the
column label (`none` = NaN when the dictionary has no such key) -/
def paramTable (r : Rep α) (onlyRobust : Bool) : List (List Char × List (Option α)) :=
  (List.range r.K).map fun k =>
    (r.names.getD k [],
     (paramColumns r.anyActive onlyRobust (r.boot.map (·.1))).map fun c =>
       (paramRow r onlyRobust k).lookup c)

/-- what a column label *names* (written from the words of the label, independently of the
layout code above) -/
inductive ParamQty where
  | value | active | stat (f : FamId) (s : StatId)
deriving DecidableEq, Repr

def PLabel.meaning : PLabel → ParamQty
  | .value => .value
  | .activeBound => .active
  | .stdErr => .stat .classical .se
  | .tTest => .stat .classical .t
  | .pValue => .stat .classical .p
  | .robStdErr => .stat .robust .se
  | .robTTest => .stat .robust .t
  | .robPValue => .stat .robust .p
  | .bootStdErr _ => .stat .bootstrap .se
  | .bootTTest => .stat .bootstrap .t
  | .bootPValue => .stat .bootstrap .p

def Rep.qty (r : Rep α) (k : Nat) : ParamQty → α
  | .value => vget r.beta k
  | .active => if r.active.getD k false then 1 else 0
  | .stat f s => r.stat f s k

/-! ## `get_correlation_results` / `secondOrderTable` -/

inductive PairStat where
  | cov | corr | t | p
deriving DecidableEq, Repr

/-- column labels of the correlation table -/
inductive CLabel where
  | covariance | correlation | tTest | pValue
  | robCov | robCorr | robTTest | robPValue
  | bootCov | bootCorr | bootTTest | bootPValue
deriving DecidableEq, Repr

def CLabel.render : CLabel → String
  | .covariance => "Covariance"
  | .correlation => "Correlation"
  | .tTest => "t-test"
  | .pValue => "p-value"
  | .robCov => "Rob. cov."
  | .robCorr => "Rob. corr."
  | .robTTest => "Rob. t-test"
  | .robPValue => "Rob. p-value"
  | .bootCov => "Boot. cov."
  | .bootCorr => "Boot. corr."
  | .bootTTest => "Boot. t-test"
  | .bootPValue => "Boot. p-value"

def CLabel.meaning : CLabel → FamId × PairStat
  | .covariance => (.classical, .cov)
  | .correlation => (.classical, .corr)
  | .tTest => (.classical, .t)
  | .pValue => (.classical, .p)
  | .robCov => (.robust, .cov)
  | .robCorr => (.robust, .corr)
  | .robTTest => (.robust, .t)
  | .robPValue => (.robust, .p)
  | .bootCov => (.bootstrap, .cov)
  | .bootCorr => (.bootstrap, .corr)
  | .bootTTest => (.bootstrap, .t)
  | .bootPValue => (.bootstrap, .p)

/-- the pair statistic `s` of family `f` for parameters (i, j) -/
def Rep.pairQty (r : Rep α) (f : FamId) (s : PairStat) (i j : Nat) : α :=
  let V := r.cov f
  match s with
  | .cov => ent V i j
  | .corr => ent (corr r.K V) i j
  | .t => pairT r.beta V i j
  | .p => pOf (pairT r.beta V i j)

/-- the list stored in `secondOrderTable[(name_i, name_j)]` -/
def secondOrderEntry (r : Rep α) (i j : Nat) : List α :=
  pairBlock r.K r.beta r.cls i j ++ pairBlock r.K r.beta r.rob i j ++
  (match r.boot with
   | some (_, m) => pairBlock r.K r.beta m i j
   | none => [])

def corrColumns (hasBoot : Bool) : List CLabel :=
  [.covariance, .correlation, .tTest, .pValue, .robCov, .robCorr, .robTTest, .robPValue] ++
  (if hasBoot then [.bootCov, .bootCorr, .bootTTest, .bootPValue] else [])

/-- the dictionary `arow` of `get_correlation_results`: label ↦ position in the stored list -/
def corrRow (r : Rep α) (i j : Nat) : List (CLabel × α) :=
  let v := secondOrderEntry r i j
  [(.covariance, vget v 0), (.correlation, vget v 1), (.tTest, vget v 2), (.pValue, vget v 3),
   (.robCov, vget v 4), (.robCorr, vget v 5), (.robTTest, vget v 6), (.robPValue, vget v 7)] ++
  (if r.boot.isSome then
    [(.bootCov, vget v 8), (.bootCorr, vget v 9), (.bootTTest, vget v 10), (.bootPValue, vget v 11)]
   else [])

/-- row label `f'{k[0]}-{k[1]}'` -/
def pairLabel (r : Rep α) (i j : Nat) : List Char := r.names.getD i [] ++ ['-'] ++ r.names.getD j []

def corrTable (r : Rep α) : List (List Char × List (Option α)) :=
  (pairs r.K).map fun (i, j) =>
    (pairLabel r i j, (corrColumns r.boot.isSome).map fun c => (corrRow r i j).lookup c)

/-! ## `get_general_statistics` -/

structure Raw (α : Type) where
  K : Nat                    -- nparam
  nFree : Nat                -- number_of_free_parameters()
  sampleSize : Nat
  nObs : Nat
  excluded : Nat
  logLike : α
  initLL : Option α
  nullLL : Option α
  gradNorm : Option α
  monteCarlo : Bool
  nDraws : Nat
  hasBoot : Bool
  threads : Nat

inductive GLabel where
  | nParams | nFree | sampleSize | observations | excluded
  | nullLL | initLL | finalLL
  | lrtNull | rho2Null | rhoBar2Null
  | lrtInit | rho2Init | rhoBar2Init
  | aic | bic | gradNorm
  | nDraws | drawsTime | drawTypes | bootTime | threads
deriving DecidableEq, Repr

def GLabel.render : GLabel → String
  | .nParams => "Number of estimated parameters"
  | .nFree => "Number of free parameters"
  | .sampleSize => "Sample size"
  | .observations => "Observations"
  | .excluded => "Excluded observations"
  | .nullLL => "Null log likelihood"
  | .initLL => "Init log likelihood"
  | .finalLL => "Final log likelihood"
  | .lrtNull => "Likelihood ratio test for the null model"
  | .rho2Null => "Rho-square for the null model"
  | .rhoBar2Null => "Rho-square-bar for the null model"
  | .lrtInit => "Likelihood ratio test for the init. model"
  | .rho2Init => "Rho-square for the init. model"
  | .rhoBar2Init => "Rho-square-bar for the init. model"
  | .aic => "Akaike Information Criterion"
  | .bic => "Bayesian Information Criterion"
  | .gradNorm => "Final gradient norm"
  | .nDraws => "Number of draws"
  | .drawsTime => "Draws generation time"
  | .drawTypes => "Types of draws"
  | .bootTime => "Bootstrapping time"
  | .threads => "Nbr of threads"

def GLabel.all : List GLabel :=
  [.nParams, .nFree, .sampleSize, .observations, .excluded, .nullLL, .initLL, .finalLL,
   .lrtNull, .rho2Null, .rhoBar2Null, .lrtInit, .rho2Init, .rhoBar2Init, .aic, .bic, .gradNorm,
   .nDraws, .drawsTime, .drawTypes, .bootTime, .threads]

inductive GVal (α : Type) where
  | nat (n : Nat)
  | num (x : α)
  | onum (x : Option α)      -- a float or `None`
  | opaque                   -- times, lists of strings: not statistics
deriving Repr

/-- the quantity a statistics label names, by its defining formula -/
def Raw.meaning (r : Raw α) : GLabel → GVal α
  | .nParams => .nat r.K
  | .nFree => .nat r.nFree
  | .sampleSize => .nat r.sampleSize
  | .observations => .nat r.nObs
  | .excluded => .nat r.excluded
  | .nullLL => .onum r.nullLL
  | .initLL => .onum r.initLL
  | .finalLL => .num r.logLike
  | .lrtNull => .onum (r.nullLL.map fun l0 => lrt l0 r.logLike)
  | .rho2Null => .onum (overRef r.nullLL fun l0 => rho2 l0 r.logLike)
  | .rhoBar2Null => .onum (overRef r.nullLL fun l0 => rhoBar2 r.K l0 r.logLike)
  | .lrtInit => .onum (r.initLL.map fun l0 => lrt l0 r.logLike)
  | .rho2Init => .onum (overRef r.initLL fun l0 => rho2 l0 r.logLike)
  | .rhoBar2Init => .onum (overRef r.initLL fun l0 => rhoBar2 r.K l0 r.logLike)
  | .aic => .num (aic r.K r.logLike)
  | .bic => .num (bic r.K r.sampleSize r.logLike)
  | .gradNorm => .onum r.gradNorm
  | .nDraws => .nat r.nDraws
  | .drawsTime => .opaque
  | .drawTypes => .opaque
  | .bootTime => .opaque
  | .threads => .nat r.threads

/-- the attributes computed by `_calculate_stats` (first part), in the order of the code -/
structure Summary (α : Type) where
  lrtNull : Option α
  lrtInit : Option α
  rho2Init : Option α
  rho2Null : Option α
  rhoBar2Init : Option α
  rhoBar2Null : Option α
  akaike : α
  bayesian : α

def summary (r : Raw α) : Summary α :=
  { lrtNull := r.nullLL.map fun l0 => (-2) * (l0 - r.logLike),
    lrtInit := r.initLL.map fun l0 => (-2) * (l0 - r.logLike),
    rho2Init := overRef r.initLL fun l0 => nanToNum (1 - r.logLike / l0),
    rho2Null := overRef r.nullLL fun l0 => nanToNum (1 - r.logLike / l0),
    rhoBar2Init := overRef r.initLL fun l0 => nanToNum (1 - (r.logLike - Num.nat r.K) / l0),
    rhoBar2Null := overRef r.nullLL fun l0 => nanToNum (1 - (r.logLike - Num.nat r.K) / l0),
    akaike := 2 * Num.nat r.K - 2 * r.logLike,
    bayesian := (-2) * r.logLike + Num.nat r.K * Num.log (Num.nat r.sampleSize) }

/-- the dictionary built by `get_general_statistics`, in insertion order -/
def generalStatistics (r : Raw α) : List (GLabel × GVal α) :=
  let s := summary r
  [(.nParams, .nat r.K)] ++
  (if r.nFree != r.K then [(.nFree, .nat r.nFree)] else []) ++
  [(.sampleSize, .nat r.sampleSize)] ++
  (if r.sampleSize != r.nObs then [(.observations, .nat r.nObs)] else []) ++
  [(.excluded, .nat r.excluded)] ++
  (if r.nullLL.isSome then [(.nullLL, .onum r.nullLL)] else []) ++
  [(.initLL, .onum r.initLL), (.finalLL, .num r.logLike)] ++
  (if r.nullLL.isSome then
    [(.lrtNull, .onum s.lrtNull), (.rho2Null, .onum s.rho2Null), (.rhoBar2Null, .onum s.rhoBar2Null)]
   else []) ++
  [(.lrtInit, .onum s.lrtInit), (.rho2Init, .onum s.rho2Init), (.rhoBar2Init, .onum s.rhoBar2Init),
   (.aic, .num s.akaike), (.bic, .num s.bayesian), (.gradNorm, .onum r.gradNorm)] ++
  (if r.monteCarlo then [(.nDraws, .nat r.nDraws), (.drawsTime, .opaque), (.drawTypes, .opaque)] else []) ++
  (if r.hasBoot then [(.bootTime, .opaque)] else []) ++
  [(.threads, .nat r.threads)]

/-! ## `compile_estimation_results` -/

/-- the finite grammar of row labels of the compiled table -/
inductive RLabel where
  | stat (s : GLabel)
  | fmt (name : List Char) (std t : Bool)   -- `name[ (std)][ (t-test)]`, formatted=True
  | val (name : List Char)                   -- `name`, formatted=False
  | std (name : List Char)                   -- `name (std)`
  | tt (name : List Char)                    -- `name (ttest)`
deriving DecidableEq, Repr

def RLabel.render : RLabel → List Char
  | .stat s => s.render.toList
  | .fmt n s t => n ++ (if s then " (std)".toList else []) ++ (if t then " (t-test)".toList else [])
  | .val n => n
  | .std n => n ++ " (std)".toList
  | .tt n => n ++ " (ttest)".toList

inductive Cell (α : Type) where
  | g (v : GVal α)                                   -- a general statistic
  | num (x : α)                                      -- a number (formatted=False)
  | fmt (v : α) (se : Option α) (t : Option α)       -- `f'{v:.3g} ({se:.3g}) ({t:.3g})'`
deriving Repr

structure CompileOpts where
  statistics : List GLabel
  includeParams : Bool
  includeStd : Bool
  includeT : Bool
  formatted : Bool

/-- one model's column: the sequence of assignments `df.loc[label, col] = value` -/
def compileColumn (o : CompileOpts) (raw : Raw α) (r : Rep α) : List (RLabel × Cell α) :=
  (o.statistics.map fun s => (RLabel.stat s, Cell.g (((generalStatistics raw).lookup s).getD .opaque))) ++
  (if o.includeParams then
    (if o.formatted then
      (List.range r.K).map fun k =>
        (RLabel.fmt (r.names.getD k []) o.includeStd o.includeT,
         Cell.fmt (vget r.beta k)
           (if o.includeStd then some (r.stat .robust .se k) else none)
           (if o.includeT then some (r.stat .robust .t k) else none))
     else
      (List.range r.K).flatMap fun k =>
        [(RLabel.val (r.names.getD k []), Cell.num (vget r.beta k))] ++
        (if o.includeStd then [(RLabel.std (r.names.getD k []), Cell.num (r.stat .robust .se k))] else []) ++
        (if o.includeT then [(RLabel.tt (r.names.getD k []), Cell.num (r.stat .robust .t k))] else []))
   else [])

/-- what a row label names for one model -/
inductive RowQty (α : Type) where
  | g (v : GVal α)
  | num (x : α)
  | fmt (v : α) (se t : Option α)

/-- position of a parameter name among the model's parameters -/
def nameIndex (names : List (List Char)) (n : List Char) : Option Nat :=
  let i := names.findIdx (· == n)
  if i < names.length then some i else none

/-- the quantity named by a row label, for one model (`none`: the model has no such
parameter) -/
def RLabel.meaning (raw : Raw α) (r : Rep α) : RLabel → Option (Cell α)
  | .stat s => some (.g (raw.meaning s))
  | .fmt n s t => (nameIndex r.names n).map fun k =>
      .fmt (vget r.beta k) (if s then some (r.stat .robust .se k) else none)
        (if t then some (r.stat .robust .t k) else none)
  | .val n => (nameIndex r.names n).map fun k => .num (vget r.beta k)
  | .std n => (nameIndex r.names n).map fun k => .num (r.stat .robust .se k)
  | .tt n => (nameIndex r.names n).map fun k => .num (r.stat .robust .t k)

/-- the compiled data frame: rows in order of first assignment, one cell per model; the
last assignment to a (row, column) wins; `none` = never assigned (shown as '') -/
def dedup {β : Type} [DecidableEq β] : List β → List β
  | [] => []
  | a :: t => a :: (dedup t).filter (· ≠ a)

def compileTable (o : CompileOpts) (models : List (Raw α × Rep α)) :
    List (RLabel × List (Option (Cell α))) :=
  let cols := models.map fun (raw, r) => compileColumn o raw r
  let rows := dedup ((cols.flatMap id).map (·.1))
  rows.map fun l => (l, cols.map fun c => c.reverse.lookup l)

/-! ## `tools.likelihood_ratio.likelihood_ratio_test` -/

inductive LR (α : Type) where
  | refused
  | ok (stat : α) (df : Int) (llU llR : α) (kU kR : Int)
deriving Repr

/-- roles, statistic and degrees of freedom; `refused` = `BiogemeError` -/
def lrRoles (l1 : α) (k1 : Int) (l2 : α) (k2 : Int) : LR α :=
  if Num.lt l2 l1 then
    if k1 < k2 then .refused
    else .ok ((-2) * (l2 - l1)) (k1 - k2) l1 l2 k1 k2
  else
    if k1 ≥ k2 then .refused
    else .ok ((-2) * (l1 - l2)) (k2 - k1) l2 l1 k2 k1

/-- `stat <= threshold` ⇒ "H0 cannot be rejected" (`false`), else rejected (`true`);
`threshold` is `chi2.ppf(1 − level, df)` (trusted) -/
def lrReject (stat threshold : α) : Bool := !(Num.le stat threshold)

end Stats
