/-
`compile_estimation_results` over a dictionary whose entries are results objects, names of
readable pickle files, or names of files that cannot be read (missing, corrupt): the loop of
src/biogeme/results.py with its error path (`except Exception: … res = None`, nothing is assigned
for that model; its column stays in the data frame and is shown empty).

Core Lean only.
-/
import Model.Stats
open Num

namespace Stats

variable {α : Type} [NumOps α]

/-- one iteration of the loop: `none` = the entry is the name of a file that cannot be read (the
library logs 'Impossible to access result file' and assigns nothing) -/
def entryColumn (o : CompileOpts) : Option (Raw α × Rep α) → List (RLabel × Cell α)
  | some (raw, r) => compileColumn o raw r
  | none => []

/-- the assignments of every entry, in the order of the dictionary -/
def compileColumns (o : CompileOpts) (entries : List (Option (Raw α × Rep α))) :
    List (List (RLabel × Cell α)) :=
  entries.map (entryColumn o)

/-- the compiled data frame over entries: one column per entry (readable or not) -/
def compileTableE (o : CompileOpts) (entries : List (Option (Raw α × Rep α))) :
    List (RLabel × List (Option (Cell α))) :=
  let cols := compileColumns o entries
  let rows := dedup ((cols.flatMap id).map (·.1))
  rows.map fun l => (l, cols.map fun c => c.reverse.lookup l)

end Stats
