/-
Model of the *text* report paths of `biogeme.results.bioResults` (src/biogeme/results.py):
`print_general_statistics`, `short_summary`, `__str__` (with `Beta.__str__` and the lines of
the second-order table), the figures of `get_html`, `get_latex`, `get_f12`, and of
`bioResults.likelihood_ratio_test` (the results-object entry point of the likelihood-ratio
test).  A report is modelled as the *sequence of figures* it prints: (label, value, format
specification); `str.format` itself is trusted (the harness applies CPython's `format` to the
model's value and compares the text).

Core Lean only; generic in the number type like Model/Stats.lean.
-/
import Model.Stats
open Num

namespace Stats

variable {α : Type} [NumOps α]

/-! ## format specifications -/

inductive Fmt where
  | plain   -- ''
  | g7      -- '.7g'
  | g3      -- '.3g'
  | e4      -- '.4E'
  | e12     -- ' >+19.12e'   (F12)
  | w8      -- ' >8'         (F12, sample size)
deriving DecidableEq, Repr

def Fmt.code : Fmt → String
  | .plain => ""
  | .g7 => ".7g"
  | .g3 => ".3g"
  | .e4 => ".4E"
  | .e12 => " >+19.12e"
  | .w8 => " >8"

/-- `GeneralStatistic.format` of each entry of `get_general_statistics` -/
def GLabel.format : GLabel → Fmt
  | .nullLL | .initLL | .finalLL | .lrtNull | .lrtInit | .aic | .bic => .g7
  | .rho2Null | .rhoBar2Null | .rho2Init | .rhoBar2Init => .g3
  | .gradNorm => .e4
  | _ => .plain

/-- `f'{value:{spec}}'` raises `TypeError` for `None` with a non-empty specification -/
def GVal.formattable : GVal α → Fmt → Bool
  | .onum none, f => f == .plain
  | _, _ => true

/-- a text report: the figures in the order printed, or the `TypeError` of `str.format` -/
inductive Txt (β : Type) where
  | error
  | ok (items : List β)
deriving Repr

def mkTxt (items : List (GLabel × GVal α)) : Txt (GLabel × GVal α) :=
  if items.all (fun p => p.2.formattable p.1.format) then .ok items else .error

/-! ## `print_general_statistics` -/

/-- `for name, (value, precision) in statistics.items(): f'{name}:\t{value:{precision}}\n'` -/
def printGeneral (r : Raw α) : Txt (GLabel × GVal α) := mkTxt (generalStatistics r)

/-! ## `short_summary` and `__str__` -/

/-- the words these two reports use for the statistics (they differ from the dictionary keys) -/
def GLabel.textLabel : GLabel → String
  | .nParams => "Nbr of parameters"
  | .nFree => "Number of free parameters"
  | .sampleSize => "Sample size"
  | .observations => "Observations"
  | .excluded => "Excluded data"
  | .nullLL => "Null log likelihood"
  | .initLL => "Init log likelihood"
  | .finalLL => "Final log likelihood"
  | .lrtNull => "Likelihood ratio test (null)"
  | .rho2Null => "Rho square (null)"
  | .rhoBar2Null => "Rho bar square (null)"
  | .lrtInit => "Likelihood ratio test (init)"
  | .rho2Init => "Rho square (init)"
  | .rhoBar2Init => "Rho bar square (init)"
  | .aic => "Akaike Information Criterion"
  | .bic => "Bayesian Information Criterion"
  | .gradNorm => "Final gradient norm"
  | .nDraws => "Number of draws"
  | .drawsTime => "Draws generation time"
  | .drawTypes => "Types of draws"
  | .bootTime => "Bootstrapping time"
  | .threads => "Nbr of threads"

/-- the format these two reports use: as in the dictionary, except the gradient norm ('.7g') -/
def GLabel.textFormat : GLabel → Fmt
  | .gradNorm => .g7
  | l => l.format

def mkTxtT (items : List (GLabel × GVal α)) : Txt (GLabel × GVal α) :=
  if items.all (fun p => p.2.formattable p.1.textFormat) then .ok items else .error

/-- the lines of `short_summary` (after the title line) -/
def shortSummaryItems (r : Raw α) : List (GLabel × GVal α) :=
  let s := summary r
  [(.nParams, .nat r.K), (.sampleSize, .nat r.sampleSize)] ++
  (if r.sampleSize != r.nObs then [(.observations, .nat r.nObs)] else []) ++
  [(.excluded, .nat r.excluded)] ++
  (if r.nullLL.isSome then [(.nullLL, .onum r.nullLL)] else []) ++
  [(.finalLL, .num r.logLike)] ++
  (if r.nullLL.isSome then
    [(.lrtNull, .onum s.lrtNull), (.rho2Null, .onum s.rho2Null), (.rhoBar2Null, .onum s.rhoBar2Null)]
   else []) ++
  [(.aic, .num s.akaike), (.bic, .num s.bayesian)]

def shortSummary (r : Raw α) : Txt (GLabel × GVal α) := mkTxtT (shortSummaryItems r)

/-- the statistics lines of `__str__` -/
def strItems (r : Raw α) : List (GLabel × GVal α) :=
  let s := summary r
  [(.nParams, .nat r.K), (.sampleSize, .nat r.sampleSize)] ++
  (if r.sampleSize != r.nObs then [(.observations, .nat r.nObs)] else []) ++
  [(.excluded, .nat r.excluded)] ++
  (if r.nullLL.isSome then [(.nullLL, .onum r.nullLL)] else []) ++
  (if r.initLL.isSome then [(.initLL, .onum r.initLL)] else []) ++
  [(.finalLL, .num r.logLike)] ++
  (if r.nullLL.isSome then
    [(.lrtNull, .onum s.lrtNull), (.rho2Null, .onum s.rho2Null), (.rhoBar2Null, .onum s.rhoBar2Null)]
   else []) ++
  (if r.initLL.isSome then
    [(.lrtInit, .onum s.lrtInit), (.rho2Init, .onum s.rho2Init), (.rhoBar2Init, .onum s.rhoBar2Init)]
   else []) ++
  [(.aic, .num s.akaike), (.bic, .num s.bayesian)] ++
  (if r.gradNorm.isSome then [(.gradNorm, .onum r.gradNorm)] else [])

def strStats (r : Raw α) : Txt (GLabel × GVal α) := mkTxtT (strItems r)

/-- `Beta.__str__`: `name: value[se t p][rob se t p][boot se t p]`, all '.3g' -/
def betaLine (r : Rep α) (k : Nat) : List (ParamQty × α) :=
  [(.value, vget r.beta k),
   (.stat .classical .se, r.stat .classical .se k), (.stat .classical .t, r.stat .classical .t k),
   (.stat .classical .p, r.stat .classical .p k),
   (.stat .robust .se, r.stat .robust .se k), (.stat .robust .t, r.stat .robust .t k),
   (.stat .robust .p, r.stat .robust .p k)] ++
  (match r.boot with
   | some _ =>
      [(.stat .bootstrap .se, r.stat .bootstrap .se k), (.stat .bootstrap .t, r.stat .bootstrap .t k),
       (.stat .bootstrap .p, r.stat .bootstrap .p k)]
   | none => [])

/-- `self.data.secondOrderTable`, in insertion order (the reports read the stored lists) -/
def secondOrderTable (r : Rep α) : List (List α) := (pairs r.K).map fun (i, j) => secondOrderEntry r i j

/-- the line of `__str__` for one stored entry: the format string has eight places, `str.format`
ignores the remaining arguments (the bootstrap block is not printed) -/
def strPairLineOf (entry : List α) : List α := entry.take 8

def strPairLine (r : Rep α) (i j : Nat) : List α := strPairLineOf (secondOrderEntry r i j)

/-- what the eight places are, by position -/
def strPairMeaning : List (FamId × PairStat) :=
  [(.classical, .cov), (.classical, .corr), (.classical, .t), (.classical, .p),
   (.robust, .cov), (.robust, .corr), (.robust, .t), (.robust, .p)]

/-! ## `get_html` -/

/-- the statistics rows of the HTML report: entries whose value is `None` are skipped -/
def htmlGeneral (r : Raw α) : List (GLabel × GVal α) :=
  (generalStatistics r).filter fun p => match p.2 with
    | .onum none => false
    | _ => true

/-- `name.split('-')`: first and second segment of the row label of the correlation table -/
def seg0 (l : List Char) : List Char := l.takeWhile (· != '-')
def afterDash (l : List Char) : List Char := (l.dropWhile (· != '-')).drop 1
def seg1 (l : List Char) : List Char := seg0 (afterDash l)

/-- the two names printed in the columns `Coefficient1`, `Coefficient2` -/
def htmlPairNames (r : Rep α) (i j : Nat) : List Char × List Char :=
  (seg0 (pairLabel r i j), seg1 (pairLabel r i j))

/-! ## `get_f12` -/

/-- one coefficient line: constrained flag (`T`/`F`), value, standard error of the family
chosen by `robust_std_err` -/
def f12Coef (r : Rep α) (robustStdErr : Bool) (k : Nat) : Bool × α × α :=
  let row := paramRow r false k
  let flag : Bool :=
    match row.lookup PLabel.activeBound with
    | some a => Num.eq a 1
    | none => false
  (flag, (row.lookup PLabel.value).getD 0,
   (row.lookup (if robustStdErr then PLabel.robStdErr else PLabel.stdErr)).getD 0)

/-- the statistics line: sample size, 0, null log likelihood (or 0), final log likelihood -/
def f12Stats (raw : Raw α) : Nat × Option α × α := (raw.sampleSize, raw.nullLL, raw.logLike)

/-- the correlations (before `int(100000 * ·)`), pairs in the order (2,1) (3,1) (3,2) … -/
def f12CorrOf (table : List (List α)) (robustStdErr : Bool) : List α :=
  table.map fun v => vget v (if robustStdErr then 5 else 1)

def f12Corr (r : Rep α) (robustStdErr : Bool) : List α := f12CorrOf (secondOrderTable r) robustStdErr

/-! ## secondary views -/

/-- the pairs kept by `get_correlation_results(subset)`: both names in the subset (unknown names
of the subset are ignored) -/
def corrSubsetPairs (r : Rep α) (subset : List (List Char)) : List (Nat × Nat) :=
  (pairs r.K).filter fun (i, j) =>
    subset.contains (r.names.getD i []) && subset.contains (r.names.getD j [])

def corrTableSubset (r : Rep α) (subset : List (List Char)) : List (List Char × List (Option α)) :=
  (corrSubsetPairs r subset).map fun (i, j) =>
    (pairLabel r i j, (corrColumns r.boot.isSome).map fun c => (corrRow r i j).lookup c)

/-- `get_betas_for_sensitivity_analysis(my_betas, use_bootstrap=True)`: one dictionary per
replication, each requested name mapped to the column `betaNames.index(name)` of the sample
(`none` = `ValueError` for a name that is not a parameter) -/
def sensDraws (names myBetas : List (List Char)) (S : Mat α) : Option (List (List (List Char × α))) :=
  if myBetas.all fun n => (nameIndex names n).isSome then
    some (S.map fun row => myBetas.map fun n => (n, vget row ((nameIndex names n).getD 0)))
  else none

/-! ## `bioResults.likelihood_ratio_test(other_model)` -/

/-- the method hands `(other.logLike, other.nparam), (self.logLike, self.nparam)` to the tool -/
def lrOnResults (self other : Raw α) : LR α :=
  lrRoles other.logLike (Int.ofNat other.K) self.logLike (Int.ofNat self.K)

end Stats
