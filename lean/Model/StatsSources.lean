/-
Which attribute of `RawResults` each label of the reports reads (src/biogeme/results.py:
`get_general_statistics`, `short_summary`, `__str__`), and what the constructor /
`_calculate_stats` stored in that attribute.  The label → attribute → format tables are tied
to the live code by `Generated/StatsLabels.lean` (regenerated on every run from a real results
object whose attributes hold sentinel values).

Core Lean only.
-/
import Model.StatsReports
open Num

namespace Stats

variable {α : Type} [NumOps α]

inductive Attr where
  | nparam | nFreeCall | sampleSize | numberOfObservations | excludedData
  | nullLogLike | initLogLike | logLike
  | likelihoodRatioTestNull | rhoSquareNull | rhoBarSquareNull
  | likelihoodRatioTest | rhoSquare | rhoBarSquare
  | akaike | bayesian | gradientNorm
  | numberOfDraws | drawsProcessingTime | typesOfDraws | bootstrapTime | numberOfThreads
deriving DecidableEq, Repr

/-- the Python name (`self.data.<name>`; the number of free parameters is a method call) -/
def Attr.name : Attr → String
  | .nparam => "nparam"
  | .nFreeCall => "number_of_free_parameters()"
  | .sampleSize => "sampleSize"
  | .numberOfObservations => "numberOfObservations"
  | .excludedData => "excludedData"
  | .nullLogLike => "nullLogLike"
  | .initLogLike => "initLogLike"
  | .logLike => "logLike"
  | .likelihoodRatioTestNull => "likelihoodRatioTestNull"
  | .rhoSquareNull => "rhoSquareNull"
  | .rhoBarSquareNull => "rhoBarSquareNull"
  | .likelihoodRatioTest => "likelihoodRatioTest"
  | .rhoSquare => "rhoSquare"
  | .rhoBarSquare => "rhoBarSquare"
  | .akaike => "akaike"
  | .bayesian => "bayesian"
  | .gradientNorm => "gradientNorm"
  | .numberOfDraws => "numberOfDraws"
  | .drawsProcessingTime => "drawsProcessingTime"
  | .typesOfDraws => "typesOfDraws"
  | .bootstrapTime => "bootstrap_time"
  | .numberOfThreads => "numberOfThreads"

/-- the attribute printed under each label -/
def GLabel.source : GLabel → Attr
  | .nParams => .nparam
  | .nFree => .nFreeCall
  | .sampleSize => .sampleSize
  | .observations => .numberOfObservations
  | .excluded => .excludedData
  | .nullLL => .nullLogLike
  | .initLL => .initLogLike
  | .finalLL => .logLike
  | .lrtNull => .likelihoodRatioTestNull
  | .rho2Null => .rhoSquareNull
  | .rhoBar2Null => .rhoBarSquareNull
  | .lrtInit => .likelihoodRatioTest
  | .rho2Init => .rhoSquare
  | .rhoBar2Init => .rhoBarSquare
  | .aic => .akaike
  | .bic => .bayesian
  | .gradNorm => .gradientNorm
  | .nDraws => .numberOfDraws
  | .drawsTime => .drawsProcessingTime
  | .drawTypes => .typesOfDraws
  | .bootTime => .bootstrapTime
  | .threads => .numberOfThreads

/-- what the constructor of `RawResults` / `_calculate_stats` stored in the attribute -/
def attrValue (r : Raw α) : Attr → GVal α
  | .nparam => .nat r.K
  | .nFreeCall => .nat r.nFree
  | .sampleSize => .nat r.sampleSize
  | .numberOfObservations => .nat r.nObs
  | .excludedData => .nat r.excluded
  | .nullLogLike => .onum r.nullLL
  | .initLogLike => .onum r.initLL
  | .logLike => .num r.logLike
  | .likelihoodRatioTestNull => .onum (summary r).lrtNull
  | .rhoSquareNull => .onum (summary r).rho2Null
  | .rhoBarSquareNull => .onum (summary r).rhoBar2Null
  | .likelihoodRatioTest => .onum (summary r).lrtInit
  | .rhoSquare => .onum (summary r).rho2Init
  | .rhoBarSquare => .onum (summary r).rhoBar2Init
  | .akaike => .num (summary r).akaike
  | .bayesian => .num (summary r).bayesian
  | .gradientNorm => .onum r.gradNorm
  | .numberOfDraws => .nat r.nDraws
  | .drawsProcessingTime => .opaque
  | .typesOfDraws => .opaque
  | .bootstrapTime => .opaque
  | .numberOfThreads => .nat r.threads

/-- the labels `short_summary` can print, in order -/
def shortLabels : List GLabel :=
  [.nParams, .sampleSize, .observations, .excluded, .nullLL, .finalLL, .lrtNull, .rho2Null, .rhoBar2Null,
   .aic, .bic]

/-- the labels `__str__` can print, in order -/
def strLabels : List GLabel :=
  [.nParams, .sampleSize, .observations, .excluded, .nullLL, .initLL, .finalLL, .lrtNull, .rho2Null,
   .rhoBar2Null, .lrtInit, .rho2Init, .rhoBar2Init, .aic, .bic, .gradNorm]

end Stats
