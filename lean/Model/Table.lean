/-
Model of the data-set operations of `biogeme.database.Database` and
`biogeme.tools.database` (core Lean only).

A table is row-major: the pandas label index (labels are kept by `remove`, so gaps exist;
a data frame built with `pd.concat` can carry duplicate labels) and, per row, one value per
column.  Numbers are generic (`[NumOps α]`: `Float` in the driver).

Modelled (what the code does, with the two repairs named below):
* `remove(expr)`       : evaluate `expr` on every row; `excludedData` = number of rows with a
                         non-zero value; those rows are dropped.  The code drops them *by label*
                         (`DataFrame.drop(index_labels)`): `removeByLabel`.  With pairwise different
                         labels this is `removePositional` (theorem); with duplicate labels it
                         deletes too much (known finding) — the repaired code drops by position.
                         The code does not touch the panel map; the repaired code rebuilds it.
* `add_column / define_variable(name, expr)` : ValueError if the column exists; else the value
                         of `expr` on each row is appended.
* `scale_column(c, s)` : `data[c] *= s`.
* `panel(c)`           : refused unless the rows of each individual are consecutive
                         (`count_number_of_groups` before/after sorting); `sort_values(by=c)`,
                         renumber 0..n-1, map individual ↦ [first, last] position.  The code sorts
                         with pandas' default unstable quicksort, which permutes the observations of
                         an individual (known finding); the model sorts stably.
* `split(k, groups)`   : `np.array_split` of the shuffled rows (or of the shuffled group ids);
                         estimation set i = concatenation of the other parts.
* `sample_with_replacement`, `sample_individual_map_with_replacement` : rows / map rows at random
                         positions.
* `extract_rows(range)`: IndexError unless every position is in 0..n-1; rows by position.
* `count(c, v)`        : number of rows with `data[c] == v`.
* `generate_flat_panel_dataframe` / `flatten_database(df, id)` : one row per individual; columns
                         constant within every individual are kept once, the others become
                         `<j>_<col>` for the j-th observation (columns sorted by name).
-/
import Model.Num
open Num

namespace Tbl

abbrev Row (α : Type) := Int × List α

structure Table (α : Type) where
  cols : List String
  rows : List (Row α)
deriving Repr

inductive Err where
  | biogeme | valueError | keyError | indexError
deriving DecidableEq, Repr

variable {α : Type}

def Table.labels (t : Table α) : List Int := t.rows.map (·.1)

def colIdx (cols : List String) (c : String) : Option Nat :=
  match cols.findIdx? (· == c) with
  | some j => some j
  | none => none

def cellD [NumOps α] (r : List α) (j : Nat) : α := r.getD j (nat 0)

def Table.column [NumOps α] (t : Table α) (j : Nat) : List α := t.rows.map fun r => cellD r.2 j

/-! ## formulas (what the harness sends through the C++ engine: exact on dyadic data) -/

inductive Fm (α : Type) where
  | var (c : String)
  | num (v : α)
  | add (a b : Fm α) | sub (a b : Fm α) | mul (a b : Fm α) | neg (a : Fm α)
  | eq (a b : Fm α) | ne (a b : Fm α) | lt (a b : Fm α) | le (a b : Fm α)
  | gt (a b : Fm α) | ge (a b : Fm α) | and (a b : Fm α) | or (a b : Fm α)
deriving Repr

def Fm.vars : Fm α → List String
  | .var c => [c]
  | .num _ => []
  | .neg a => a.vars
  | .add a b | .sub a b | .mul a b | .eq a b | .ne a b | .lt a b | .le a b | .gt a b | .ge a b
  | .and a b | .or a b => a.vars ++ b.vars

def nz [NumOps α] (x : α) : Bool := !(Num.eq x (nat 0))

/-- value of a formula on one row (unknown columns are excluded before, see `addColumn`) -/
def evalRow [NumOps α] (cols : List String) (r : List α) : Fm α → α
  | .var c => match colIdx cols c with
    | some j => cellD r j
    | none => nat 0
  | .num v => v
  | .add a b => evalRow cols r a + evalRow cols r b
  | .sub a b => evalRow cols r a - evalRow cols r b
  | .mul a b => evalRow cols r a * evalRow cols r b
  | .neg a => - evalRow cols r a
  | .eq a b => ofBool (Num.eq (evalRow cols r a) (evalRow cols r b))
  | .ne a b => ofBool (!(Num.eq (evalRow cols r a) (evalRow cols r b)))
  | .lt a b => ofBool (Num.lt (evalRow cols r a) (evalRow cols r b))
  | .le a b => ofBool (Num.le (evalRow cols r a) (evalRow cols r b))
  | .gt a b => ofBool (Num.lt (evalRow cols r b) (evalRow cols r a))
  | .ge a b => ofBool (Num.le (evalRow cols r b) (evalRow cols r a))
  | .and a b => ofBool (nz (evalRow cols r a) && nz (evalRow cols r b))
  | .or a b => ofBool (nz (evalRow cols r a) || nz (evalRow cols r b))

def Table.eval [NumOps α] (t : Table α) (f : Fm α) : List α := t.rows.map fun r => evalRow t.cols r.2 f

/-! ## remove -/

/-- positions (as a mask) of the rows to delete: value of the condition ≠ 0 -/
def dropMask [NumOps α] (vals : List α) : List Bool := vals.map nz

def countTrue (m : List Bool) : Nat := m.countP id

/-- the repaired deletion: by position -/
def keepPositional : List (Row α) → List Bool → List (Row α)
  | [], _ => []
  | r :: t, [] => r :: t
  | r :: t, d :: m => if d then keepPositional t m else r :: keepPositional t m

/-- labels of the rows to delete -/
def badLabels : List (Row α) → List Bool → List Int
  | [], _ => []
  | _ :: _, [] => []
  | r :: t, d :: m => if d then r.1 :: badLabels t m else badLabels t m

/-- the deletion as coded: `data.drop(<labels of the rows to delete>)` -/
def keepByLabel (rows : List (Row α)) (mask : List Bool) : List (Row α) :=
  rows.filter fun r => !(badLabels rows mask).contains r.1

/-! ## add column, scale -/

def modifyAt (f : α → α) : List α → Nat → List α
  | [], _ => []
  | a :: t, 0 => f a :: t
  | a :: t, j + 1 => a :: modifyAt f t j

def Table.addCol [NumOps α] (t : Table α) (name : String) (f : Fm α) : Table α :=
  { cols := t.cols ++ [name], rows := t.rows.map fun r => (r.1, r.2 ++ [evalRow t.cols r.2 f]) }

def Table.scaleCol [NumOps α] (t : Table α) (j : Nat) (s : α) : Table α :=
  { t with rows := t.rows.map fun r => (r.1, modifyAt (· * s) r.2 j) }

/-! ## panel -/

/-- `count_number_of_groups`: number of maximal runs of equal consecutive values -/
def runs [NumOps α] : List α → Nat
  | [] => 0
  | [_] => 1
  | a :: b :: t => (if Num.eq a b then 0 else 1) + runs (b :: t)

/-- runs with their first and last positions, starting at position `p` -/
def runMap [NumOps α] : List α → Nat → List (α × Nat × Nat)
  | [], _ => []
  | a :: t, p =>
    match runMap t (p + 1) with
    | (b, s, e) :: rest => if Num.eq a b && s == p + 1 then (a, p, e) :: rest else (a, p, p) :: (b, s, e) :: rest
    | [] => [(a, p, p)]

def renumber (rows : List (Row α)) : List (Row α) :=
  (List.range rows.length).zip rows |>.map fun (i, r) => ((i : Int), r.2)

/-- stable sort of the rows by the value in column `j` -/
def sortBy [NumOps α] (rows : List (Row α)) (j : Nat) : List (Row α) :=
  rows.mergeSort fun a b => Num.le (cellD a.2 j) (cellD b.2 j)

/-! ## the database object -/

structure DB (α : Type) where
  t : Table α
  excluded : Nat
  panelCol : Option String
  map : List (α × Nat × Nat)
deriving Repr

def DB.rebuild [NumOps α] (db : DB α) : DB α :=
  match db.panelCol with
  | none => db
  | some c =>
    match colIdx db.t.cols c with
    | none => db
    | some j =>
      let rows := renumber (sortBy db.t.rows j)
      { db with t := { db.t with rows := rows }, map := runMap (rows.map fun r => cellD r.2 j) 0 }

def varsKnown (cols : List String) (f : Fm α) : Bool := f.vars.all cols.contains

/-- `remove` of the repaired code: by position, panel map rebuilt -/
def DB.remove [NumOps α] (db : DB α) (f : Fm α) : Except Err (DB α) :=
  if db.t.rows.isEmpty then .error .biogeme
  else if !varsKnown db.t.cols f then .error .biogeme
  else
    let m := dropMask (db.t.eval f)
    .ok (DB.rebuild { db with t := { db.t with rows := keepPositional db.t.rows m }, excluded := countTrue m })

/-- `remove` as coded: by label, panel map left as it is -/
def DB.removeAsCoded [NumOps α] (db : DB α) (f : Fm α) : Except Err (DB α) :=
  if db.t.rows.isEmpty then .error .biogeme
  else if !varsKnown db.t.cols f then .error .biogeme
  else
    let m := dropMask (db.t.eval f)
    .ok { db with t := { db.t with rows := keepByLabel db.t.rows m }, excluded := countTrue m }

def DB.addColumn [NumOps α] (db : DB α) (name : String) (f : Fm α) : Except Err (DB α) :=
  if db.t.rows.isEmpty then .error .biogeme
  else if db.t.cols.contains name then .error .valueError
  else if !varsKnown db.t.cols f then .error .biogeme
  else .ok { db with t := db.t.addCol name f }

def DB.scale [NumOps α] (db : DB α) (c : String) (s : α) : Except Err (DB α) :=
  match colIdx db.t.cols c with
  | none => .error .keyError
  | some j => .ok { db with t := db.t.scaleCol j s }

def DB.panel [NumOps α] (db : DB α) (c : String) : Except Err (DB α) :=
  match colIdx db.t.cols c with
  | none => .error .keyError
  | some j =>
    let ids := db.t.column j
    let sorted := (sortBy db.t.rows j).map fun r => cellD r.2 j
    if runs ids != runs sorted then .error .biogeme
    else .ok (DB.rebuild { db with panelCol := some c })

def DB.extract (db : DB α) (pos : List Int) : Except Err (List (Row α)) :=
  if pos.any (fun i => i < 0 || i ≥ db.t.rows.length) then .error .indexError
  else .ok (pos.filterMap fun i => db.t.rows[i.toNat]?)

def DB.count [NumOps α] (db : DB α) (c : String) (v : α) : Except Err Nat :=
  match colIdx db.t.cols c with
  | none => .error .keyError
  | some j => .ok ((db.t.column j).countP fun x => Num.eq x v)

/-- `count(c, v)` for each value of a list (one request of the driver) -/
def DB.counts [NumOps α] (db : DB α) (c : String) (vs : List α) : Except Err (List Nat) :=
  match colIdx db.t.cols c with
  | none => .error .keyError
  | some j => .ok (vs.map fun v => (db.t.column j).countP fun x => Num.eq x v)

/-! ## operation sequences -/

inductive Op (α : Type) where
  | remove (f : Fm α)
  | addColumn (name : String) (f : Fm α)      -- also define_variable
  | scale (c : String) (s : α)
  | panel (c : String)
deriving Repr

def okOr (db : DB α) : Except Err (DB α) → DB α
  | .ok d => d
  | .error _ => db            -- the Python call raised: the object is unchanged

/-- one call on the database object (repaired `remove`) -/
def DB.apply [NumOps α] (db : DB α) : Op α → DB α
  | .remove f => okOr db (db.remove f)
  | .addColumn n f => okOr db (db.addColumn n f)
  | .scale c s => okOr db (db.scale c s)
  | .panel c => okOr db (db.panel c)

def DB.run [NumOps α] (db : DB α) (ops : List (Op α)) : DB α := ops.foldl DB.apply db

/-! ## splitting -/

/-- sizes of `numpy.array_split(n items, k)`: the first `n % k` parts have `n / k + 1` items -/
def splitSizes (n k : Nat) : List Nat :=
  (List.range k).map fun i => n / k + (if i < n % k then 1 else 0)

def cut : List β → List Nat → List (List β)
  | _, [] => []
  | l, s :: ss => l.take s :: cut (l.drop s) ss

def arraySplit (l : List β) (k : Nat) : List (List β) := cut l (splitSizes l.length k)

/-- (estimation, validation) pairs: estimation i = the other parts concatenated -/
def foldsOf (parts : List (List β)) : List (List β × List β) :=
  (List.range parts.length).map fun i =>
    ((parts.take i ++ parts.drop (i + 1)).flatten, parts.getD i [])

/-- `split(k)` without groups, for the shuffled rows `s` (any permutation of the rows) -/
def splitRows (s : List (Row α)) (k : Nat) : List (List (Row α) × List (Row α)) := foldsOf (arraySplit s k)

def memB [NumOps α] (x : α) (l : List α) : Bool := l.any fun y => Num.eq y x

def dedup [NumOps α] : List α → List α
  | [] => []
  | a :: t => a :: (dedup t).filter fun y => !(Num.eq y a)

/-- `split(k, groups=c)` for the shuffled group ids `sids`: part i = rows whose id is in the
i-th part of the ids (in table order) -/
def splitGroups [NumOps α] (rows : List (Row α)) (j : Nat) (sids : List α) (k : Nat) :
    List (List (Row α) × List (Row α)) :=
  foldsOf ((arraySplit sids k).map fun ids => rows.filter fun r => memB (cellD r.2 j) ids)

/-! ## relations evaluated on the real outputs (rows are named by their labels) -/

/-- validation parts together = every row once; each estimation part = the complement;
`k` folds -/
def isFoldPartition (all : List Int) (k : Nat) (folds : List (List Int × List Int)) : Bool :=
  folds.length == k &&
  (folds.map (·.2)).flatten.isPerm all &&
  folds.all fun f => (f.1 ++ f.2).isPerm all

/-- rows of one group are never separated: a label in a validation part brings every label
of its group -/
def groupsUnsplit [NumOps α] (all : List (Int × α)) (folds : List (List Int × List Int)) : Bool :=
  folds.all fun f =>
    all.all fun (l, g) =>
      !f.2.contains l || all.all fun (l', g') => !(Num.eq g g') || f.2.contains l'

def partSizesOK (n k : Nat) (folds : List (List Int × List Int)) : Bool :=
  folds.map (·.2.length) == splitSizes n k

/-- every sampled row is a row of the table (same label, same values) -/
def isBootstrapOf [NumOps α] (rows sample : List (Row α)) : Bool :=
  sample.all fun s => rows.any fun r => r.1 == s.1 && r.2.length == s.2.length &&
    (r.2.zip s.2).all fun (a, b) => Num.eq a b

/-! ## flattening -/

/-- observations of each individual, individuals in order of first appearance -/
def groupsBy [NumOps α] (rows : List (Row α)) (j : Nat) : List (α × List (Row α)) :=
  (dedup (rows.map fun r => cellD r.2 j)).map fun i => (i, rows.filter fun r => Num.eq (cellD r.2 j) i)

/-- columns whose value is the same on all observations of every individual -/
def identicalCols [NumOps α] (t : Table α) (j : Nat) : List Nat :=
  (List.range t.cols.length).filter fun c =>
    (groupsBy t.rows j).all fun g =>
      match g.2 with
      | [] => true
      | r :: rest => rest.all fun r' => Num.eq (cellD r'.2 c) (cellD r.2 c)

/-- the flat table: per individual the named cells (identical columns once, others per
observation as `<j>_<col>` with `j` from 1) -/
def flatten [NumOps α] (t : Table α) (j : Nat) (identical : List Nat) : List (α × List (String × α)) :=
  (groupsBy t.rows j).map fun g =>
    let first := g.2.headD ((0 : Int), [])
    let common := identical.filter (· != j) |>.map fun c => (t.cols.getD c "", cellD first.2 c)
    let varying := (List.range t.cols.length).filter fun c => !(identical.contains c) && c != j
    let obs := (List.range g.2.length).zip g.2 |>.map fun (o, r) =>
      varying.map fun c => (toString (o + 1) ++ "_" ++ t.cols.getD c "", cellD r.2 c)
    (g.1, common ++ obs.flatten)

end Tbl
