/-
Model of `Database.mdcev_count(list_of_columns, new_column)` (core Lean only): for every row the
number of the listed columns (with repetition, as `data[list]` repeats a column named twice) whose
entry is non-zero, stored in `new_column` — overwritten in place when the column exists, appended
otherwise.  A name of the list that is no column ⇒ KeyError, nothing changed.
-/
import Model.TableTools
open Num

namespace Tbl

variable {α : Type}

/-- number of the listed cells of a row that are non-zero -/
def nonZeroCount [NumOps α] (js : List Nat) (r : List α) : Nat := (js.filter fun j => nz (cellD r j)).length

def Table.mdcevCount [NumOps α] (t : Table α) (js : List Nat) (name : String) : Table α :=
  match colIdx t.cols name with
  | some k => { t with rows := t.rows.map fun r => (r.1, modifyAt (fun _ => nat (nonZeroCount js r.2)) r.2 k) }
  | none => { cols := t.cols ++ [name], rows := t.rows.map fun r => (r.1, r.2 ++ [nat (nonZeroCount js r.2)]) }

def DB.mdcevCount [NumOps α] (db : DB α) (names : List String) (name : String) : Except Err (DB α) :=
  match colIdxs db.t.cols names with
  | none => .error .keyError
  | some js => .ok { db with t := db.t.mdcevCount js name }

end Tbl
