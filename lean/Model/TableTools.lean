/-
Model of the helper functions of `biogeme.tools.database` called DIRECTLY on a data frame (any
row order, any labels — not only the frames `Database.panel` has sorted and renumbered), with every
optional argument at its default and given, and of the small row-extraction / size functions of
`Database` (core Lean only).

* `flatten_database(df, merge_id, row_name=None, identical_columns=None)`
    - `merge_id` unknown                       → KeyError
    - `identical_columns=None`                 → the identical columns are DETECTED: a column is
      identical iff inside EVERY group (= all rows with the same `merge_id`, wherever they are in the
      table: `groupby`) all values equal the value of the first row of the group (`identicalCols`)
    - `identical_columns=[...]`                → those columns (unknown name → KeyError) and `merge_id`
    - the other columns vary; `row_name` (if given) must be `merge_id` or a varying column
      (else KeyError: the frame handed to `treat` does not hold it) and its entries must be pairwise
      different inside every group (else BiogemeError)
    - one flat row per individual: identical columns = value of the FIRST row of the individual;
      a varying column `c` (other than `row_name`) of the k-th row of the individual (table order,
      k from 1) is stored as `<k>_<c>` (or `<value of row_name>_<c>`).
* `mdcev_row_split(a_range=None)`: one one-row table per position (all positions when `None`);
  IndexError when a position is outside 0..n-1.
* `get_number_of_observations`, `get_sample_size`: rows; rows or individuals of the map.
-/
import Model.Table
open Num

namespace Tbl

variable {α : Type}

/-- how the observations of an individual are named in the flat table -/
inductive ObsKey (α : Type) where
  | pos (k : Nat)          -- `row_name=None`: 1, 2, 3 … in table order
  | val (v : α)            -- the entry of the `row_name` column
deriving Repr

/-- name of a cell of the flat table -/
inductive CellName (α : Type) where
  | common (c : String)
  | obs (k : ObsKey α) (c : String)
deriving Repr

/-- entries pairwise different (`Series.is_unique`) -/
def allDistinct [NumOps α] : List α → Bool
  | [] => true
  | a :: t => !(memB a t) && allDistinct t

/-- the columns that vary: not identical, not the id column -/
def varyingCols (ncols j : Nat) (ident : List Nat) : List Nat :=
  (List.range ncols).filter fun c => !(ident.contains c) && c != j

/-- the key of observation number `o` (from 0) held by row `r` -/
def obsKey [NumOps α] (jr : Option Nat) (o : Nat) (r : Row α) : ObsKey α :=
  match jr with
  | none => .pos (o + 1)
  | some q => .val (cellD r.2 q)

/-- the cells of the observations of one individual: per row, the varying columns except `row_name` -/
def obsCells [NumOps α] (cols : List String) (vary : List Nat) (jr : Option Nat) :
    Nat → List (Row α) → List (CellName α × α)
  | _, [] => []
  | o, r :: rest =>
    ((vary.filter fun c => some c != jr).map fun c => (CellName.obs (obsKey jr o r) (cols.getD c ""), cellD r.2 c))
      ++ obsCells cols vary jr (o + 1) rest

/-- the flat row of one individual (`g` = id and its rows in table order) -/
def flatRow [NumOps α] (cols : List String) (j : Nat) (ident : List Nat) (jr : Option Nat)
    (g : α × List (Row α)) : α × List (CellName α × α) :=
  let first := g.2.headD ((0 : Int), [])
  let common := (ident.filter (· != j)).map fun c => (CellName.common (cols.getD c ""), cellD first.2 c)
  (g.1, common ++ obsCells cols (varyingCols cols.length j ident) jr 0 g.2)

/-- positions of the named columns; `none` when a name is unknown -/
def colIdxs (cols : List String) : List String → Option (List Nat)
  | [] => some []
  | c :: t =>
    match colIdx cols c, colIdxs cols t with
    | some j, some js => some (j :: js)
    | _, _ => none

/-- `flatten_database(df, merge_id, row_name, identical_columns)` -/
def flattenDirect [NumOps α] (t : Table α) (mergeId : String) (rowName : Option String)
    (identical : Option (List String)) : Except Err (List (α × List (CellName α × α))) :=
  match colIdx t.cols mergeId with
  | none => .error .keyError
  | some j =>
    let identR : Except Err (List Nat) :=
      match identical with
      | none => .ok (identicalCols t j)
      | some names =>
        match colIdxs t.cols names with
        | none => .error .keyError
        | some js => .ok ((List.range t.cols.length).filter fun c => js.contains c || c == j)
    match identR with
    | .error e => .error e
    | .ok ident =>
      let vary := varyingCols t.cols.length j ident
      let groups := groupsBy t.rows j
      match rowName with
      | none => .ok (groups.map (flatRow t.cols j ident none))
      | some rn =>
        match colIdx t.cols rn with
        | none => .error .keyError
        | some q =>
          if !(q == j || vary.contains q) then .error .keyError
          else if !(groups.all fun g => allDistinct (g.2.map fun r => cellD r.2 q)) then .error .biogeme
          else .ok (groups.map (flatRow t.cols j ident (some q)))

/-! ## row extraction one by one, sizes -/

/-- `mdcev_row_split(a_range)` -/
def DB.rowSplit (db : DB α) (range : Option (List Int)) : Except Err (List (List (Row α))) :=
  match range with
  | none => .ok (db.t.rows.map fun r => [r])
  | some pos =>
    if pos.any (fun i => i < 0 || i ≥ db.t.rows.length) then .error .indexError
    else .ok (pos.filterMap fun i => (db.t.rows[i.toNat]?).map fun r => [r])

def DB.nObs (db : DB α) : Nat := db.t.rows.length

/-- `get_sample_size` -/
def DB.sampleSize (db : DB α) : Nat :=
  match db.panelCol with
  | none => db.t.rows.length
  | some _ => db.map.length

end Tbl
