/- Lemmas for C12: fuel independence, the audit of a sub-formula is part of the audit of the
formula, completeness and soundness of the placement collectors.  Core Lean only. -/
import Model.Audit

namespace Audit

theorem any_congr' {α} (l : List α) (f g : α → Bool) (h : ∀ c ∈ l, f c = g c) : l.any f = l.any g := by
  induction l with
  | nil => rfl
  | cons x t ih =>
    simp only [List.any_cons]
    rw [h x List.mem_cons_self, ih (fun c hc => h c (List.mem_cons_of_mem _ hc))]

theorem flatMap_congr' {α β} (l : List α) (f g : α → List β) (h : ∀ c ∈ l, f c = g c) :
    l.flatMap f = l.flatMap g := by
  induction l with
  | nil => rfl
  | cons x t ih =>
    simp only [List.flatMap_cons]
    rw [h x List.mem_cons_self, ih (fun c hc => h c (List.mem_cons_of_mem _ hc))]

/-! ### fuel -/

theorem embeds_step (d : ADag) (hwf : WF d) (t : AKind) :
    ∀ fuel k, k < fuel → embeds d t fuel k = embeds d t (fuel + 1) k := by
  intro fuel
  induction fuel with
  | zero => intro k hk; omega
  | succ fuel ih =>
    intro k hk
    rw [embeds, embeds]
    cases hd : d[k]? with
    | none => rfl
    | some n =>
      simp only []
      congr 1
      apply any_congr'
      intro c hc
      exact ih c (by have := hwf k n hd c hc; omega)

theorem embeds_ge (d : ADag) (hwf : WF d) (t : AKind) (k fuel : Nat) (h : k < fuel) :
    embeds d t fuel k = embeds d t (k + 1) k := by
  have : ∀ m, embeds d t (k + 1 + m) k = embeds d t (k + 1) k := by
    intro m
    induction m with
    | zero => rfl
    | succ m ih => rw [← ih]; exact (embeds_step d hwf t (k + 1 + m) k (by omega)).symm
  have h2 : fuel = k + 1 + (fuel - (k + 1)) := by omega
  rw [h2]; exact this _

theorem any_embeds_ge (d : ADag) (hwf : WF d) (t : AKind) (k fuel : Nat) (n : ANode)
    (hd : d[k]? = some n) (h : k ≤ fuel) :
    n.children.any (embeds d t fuel) = n.children.any (embeds d t k) := by
  apply any_congr'
  intro c hc
  have hck := hwf k n hd c hc
  rw [embeds_ge d hwf t c fuel (by omega), embeds_ge d hwf t c k hck]

theorem localFaults_ge (d : ADag) (hwf : WF d) (db : Db) (k fuel : Nat) (n : ANode)
    (hd : d[k]? = some n) (h : k ≤ fuel) : localFaults d db fuel n = localFaults d db k n := by
  unfold localFaults
  cases n.kind <;> simp only [any_embeds_ge d hwf _ k fuel n hd h]

theorem audit_step (d : ADag) (hwf : WF d) (db : Db) :
    ∀ fuel k, k < fuel → audit d db fuel k = audit d db (fuel + 1) k := by
  intro fuel
  induction fuel with
  | zero => intro k hk; omega
  | succ fuel ih =>
    intro k hk
    rw [audit, audit]
    cases hd : d[k]? with
    | none => rfl
    | some n =>
      simp only []
      rw [localFaults_ge d hwf db k fuel n hd (by omega),
          localFaults_ge d hwf db k (fuel + 1) n hd (by omega)]
      congr 1
      apply flatMap_congr'
      intro c hc
      exact ih c (by have := hwf k n hd c hc; omega)

theorem audit_ge (d : ADag) (hwf : WF d) (db : Db) (k fuel : Nat) (h : k < fuel) :
    audit d db fuel k = audit d db (k + 1) k := by
  have : ∀ m, audit d db (k + 1 + m) k = audit d db (k + 1) k := by
    intro m
    induction m with
    | zero => rfl
    | succ m ih => rw [← ih]; exact (audit_step d hwf db (k + 1 + m) k (by omega)).symm
  have h2 : fuel = k + 1 + (fuel - (k + 1)) := by omega
  rw [h2]; exact this _

theorem collect_step (d : ADag) (hwf : WF d) (what stop : AKind) :
    ∀ fuel k, k < fuel → collect d what stop fuel k = collect d what stop (fuel + 1) k := by
  intro fuel
  induction fuel with
  | zero => intro k hk; omega
  | succ fuel ih =>
    intro k hk
    rw [collect, collect]
    cases hd : d[k]? with
    | none => rfl
    | some n =>
      simp only []
      split
      · rfl
      · split
        · rfl
        · apply flatMap_congr'
          intro c hc
          exact ih c (by have := hwf k n hd c hc; omega)

theorem collect_ge (d : ADag) (hwf : WF d) (what stop : AKind) (k fuel : Nat) (h : k < fuel) :
    collect d what stop fuel k = collect d what stop (k + 1) k := by
  have : ∀ m, collect d what stop (k + 1 + m) k = collect d what stop (k + 1) k := by
    intro m
    induction m with
    | zero => rfl
    | succ m ih => rw [← ih]; exact (collect_step d hwf what stop (k + 1 + m) k (by omega)).symm
  have h2 : fuel = k + 1 + (fuel - (k + 1)) := by omega
  rw [h2]; exact this _

/-! ### the audit of a sub-formula is contained in the audit of the formula -/

theorem audit_path (d : ADag) (hwf : WF d) (db : Db) (a b : Nat)
    (hp : Path d (fun _ => True) a b) (x : Fault) (hx : x ∈ audit d db (b + 1) b) :
    x ∈ audit d db (a + 1) a := by
  induction hp with
  | refl a => exact hx
  | step a c b n hd _ hc _ ih =>
    have hxc := ih hx
    rw [audit, hd]
    simp only [List.mem_append, List.mem_flatMap]
    left
    refine ⟨c, hc, ?_⟩
    have hca := hwf a n hd c hc
    rw [audit_ge d hwf db c a hca]
    exact hxc

/-- a node's own checks are part of its audit -/
theorem local_in_audit (d : ADag) (db : Db) (k : Nat) (n : ANode) (hd : d[k]? = some n)
    (x : Fault) (hx : x ∈ localFaults d db k n) : x ∈ audit d db (k + 1) k := by
  rw [audit, hd]
  simp only [List.mem_append]
  exact Or.inr hx

/-! ### placement collectors -/

theorem collect_complete (d : ADag) (hwf : WF d) (what stop : AKind) (a b : Nat)
    (hp : Path d (fun n => n.kind ≠ what ∧ n.kind ≠ stop) a b) (nb : ANode)
    (hb : d[b]? = some nb) (hk : nb.kind = what) :
    nb.name ∈ collect d what stop (a + 1) a := by
  induction hp with
  | refl a =>
    rw [collect, hb]
    simp [hk]
  | step a c b n hd hP hc _ ih =>
    have := ih hb
    rw [collect, hd]
    simp only []
    have h1 : (n.kind == what) = false := by simpa using hP.1
    have h2 : (n.kind == stop) = false := by simpa using hP.2
    simp only [h1, h2, Bool.false_eq_true, ↓reduceIte, List.mem_flatMap]
    refine ⟨c, hc, ?_⟩
    have hca := hwf a n hd c hc
    rw [collect_ge d hwf what stop c a hca]
    exact this

theorem collect_sound (d : ADag) (what stop : AKind) :
    ∀ fuel a name, name ∈ collect d what stop fuel a →
      ∃ b nb, Path d (fun n => n.kind ≠ what ∧ n.kind ≠ stop) a b ∧ d[b]? = some nb ∧
        nb.kind = what ∧ nb.name = name := by
  intro fuel
  induction fuel with
  | zero => intro a name h; simp [collect] at h
  | succ fuel ih =>
    intro a name h
    rw [collect] at h
    cases hd : d[a]? with
    | none => rw [hd] at h; simp at h
    | some n =>
      rw [hd] at h
      simp only [] at h
      by_cases h1 : (n.kind == what) = true
      · simp only [h1, ↓reduceIte, List.mem_singleton] at h
        exact ⟨a, n, Path.refl a, hd, by simpa using h1, h.symm⟩
      · by_cases h2 : (n.kind == stop) = true
        · simp [h1, h2] at h
        · simp only [h1, h2, Bool.false_eq_true, ↓reduceIte, List.mem_flatMap] at h
          obtain ⟨c, hc, hcn⟩ := h
          obtain ⟨b, nb, hp, hb, hk, hn⟩ := ih c name hcn
          refine ⟨b, nb, Path.step a c b n hd ⟨?_, ?_⟩ hc hp, hb, hk, hn⟩
          · simpa using h1
          · simpa using h2

/-! ### a formula without local faults passes the audit -/

theorem audit_sound (d : ADag) (hwf : WF d) (db : Db)
    (hok : ∀ (k : Nat) (n : ANode), d[k]? = some n → localFaults d db k n = []) :
    ∀ k, audit d db (k + 1) k = [] := by
  intro k
  induction k using Nat.strongRecOn with
  | _ k ih =>
    rw [audit]
    cases hd : d[k]? with
    | none => rfl
    | some n =>
      simp only []
      rw [hok k n hd, List.append_nil]
      rw [List.flatMap_eq_nil_iff]
      intro c hc
      have hck := hwf k n hd c hc
      rw [audit_ge d hwf db c k hck]
      exact ih c hck

/-! ### id assignment: names of the elementary expressions -/

/-- below an operator (a node that has a child) no proper ancestor is elementary -/
theorem path_no_elementary (d : ADag) (hl : LeafWF d) (what : AKind)
    (hel : what = .beta ∨ what = .betaFixed ∨ what = .rv ∨ what = .draws ∨ what = .var) (a b : Nat)
    (hp : Path d (fun _ => True) a b) : Path d (fun n => n.kind ≠ what ∧ n.kind ≠ what) a b := by
  induction hp with
  | refl a => exact Path.refl a
  | step a c b n hd _ hc _ ih =>
    have hne : n.kind ≠ what := by
      intro hk
      have := hl a n hd (by rw [hk]; exact hel)
      rw [this] at hc
      cases hc
    exact Path.step a c b n hd ⟨hne, hne⟩ hc ih

/-- **the name collector reaches every elementary expression of the formula, wherever it sits** -/
theorem names_complete (d : ADag) (hwf : WF d) (hl : LeafWF d) (what : AKind)
    (hel : what = .beta ∨ what = .betaFixed ∨ what = .rv ∨ what = .draws ∨ what = .var) (a b : Nat)
    (hp : Path d (fun _ => True) a b) (nb : ANode) (hb : d[b]? = some nb) (hk : nb.kind = what) :
    nb.name ∈ names d what (a + 1) a :=
  collect_complete d hwf what what a b (path_no_elementary d hl what hel a b hp) nb hb hk

/-- and reports nothing else -/
theorem names_sound (d : ADag) (what : AKind) (a : Nat) (name : String)
    (h : name ∈ names d what (a + 1) a) :
    ∃ b nb, Path d (fun _ => True) a b ∧ d[b]? = some nb ∧ nb.kind = what ∧ nb.name = name := by
  obtain ⟨b, nb, hp, hb, hk, hn⟩ := collect_sound d what what (a + 1) a name h
  refine ⟨b, nb, ?_, hb, hk, hn⟩
  clear hb hk hn h
  induction hp with
  | refl a => exact Path.refl a
  | step a c b n hd _ hc _ ih => exact Path.step a c b n hd trivial hc ih

theorem mem_dupsOf (l : List String) (x : String) : x ∈ dupsOf l ↔ 1 < l.count x := by
  unfold dupsOf
  rw [List.mem_filter]
  constructor
  · intro h; simpa using h.2
  · intro h
    refine ⟨?_, by simpa using h⟩
    exact List.count_pos_iff.mp (by omega)

/-- a name present in two different segments of a list occurs in it more than once -/
theorem count_two_segments (x : String) (p a m b s : List String) (ha : x ∈ a) (hb : x ∈ b) :
    1 < (p ++ a ++ m ++ b ++ s).count x := by
  have h1 : 0 < a.count x := List.count_pos_iff.mpr ha
  have h2 : 0 < b.count x := List.count_pos_iff.mpr hb
  simp only [List.count_append]
  omega

theorem firstNonEmpty_ne_nil (ls : List (List Fault)) (l : List Fault) (hl : l ∈ ls) (hne : l ≠ []) :
    firstNonEmpty ls ≠ [] := by
  induction ls with
  | nil => cases hl
  | cons h t ih =>
    unfold firstNonEmpty
    by_cases he : h.isEmpty = true
    · simp only [he, ↓reduceIte]
      rcases List.mem_cons.mp hl with rfl | ht
      · exact absurd (List.isEmpty_iff.mp he) hne
      · exact ih ht
    · simp only [he, Bool.false_eq_true, ↓reduceIte]
      intro h0
      rw [h0] at he
      exact he rfl

/-- whatever the first non-empty stage reports is reported by one of the stages -/
theorem firstNonEmpty_mem (ls : List (List Fault)) (x : Fault) (hx : x ∈ firstNonEmpty ls) :
    ∃ l ∈ ls, x ∈ l := by
  induction ls with
  | nil => simp [firstNonEmpty] at hx
  | cons h t ih =>
    unfold firstNonEmpty at hx
    by_cases he : h.isEmpty = true
    · simp only [he, ↓reduceIte] at hx
      obtain ⟨l, hl, hxl⟩ := ih hx
      exact ⟨l, List.mem_cons_of_mem _ hl, hxl⟩
    · simp only [he, Bool.false_eq_true, ↓reduceIte] at hx
      exact ⟨h, List.mem_cons_self, hx⟩

theorem count_le_one_of_nodup (l : List String) (h : l.Nodup) (x : String) : l.count x ≤ 1 := by
  induction l with
  | nil => simp
  | cons a t ih =>
    rw [List.nodup_cons] at h
    rw [List.count_cons]
    by_cases hax : a = x
    · subst hax
      have : t.count a = 0 := List.count_eq_zero.mpr h.1
      simp [this]
    · have := ih h.2
      simpa [hax] using this

theorem dupsOf_nodup (l : List String) (h : l.Nodup) : dupsOf l = [] := by
  unfold dupsOf
  rw [List.filter_eq_nil_iff]
  intro x _
  have := count_le_one_of_nodup l h x
  simp only [gt_iff_lt, decide_eq_true_eq]
  omega

end Audit
