/- Lemmas about `Model/AuditSession.lean` (C12, round 3). -/
import Model.AuditSession
import Proofs.Audit

namespace Audit

/-! ### rows -/

theorem mem_incorrectRows (alts : List Int) (choices : List Int) :
    ∀ (start i : Nat) (c : Int), choices[i]? = some c → alts.contains c = false →
      start + i ∈ incorrectRows alts start choices := by
  induction choices with
  | nil => intro start i c h; simp at h
  | cons x rest ih =>
    intro start i c h hc
    cases i with
    | zero =>
      simp only [List.getElem?_cons_zero, Option.some.injEq] at h
      subst h
      have hc' : x ∉ alts := by simpa using hc
      simp [incorrectRows, hc']
    | succ j =>
      simp only [List.getElem?_cons_succ] at h
      have := ih (start + 1) j c h hc
      have e : start + (j + 1) = start + 1 + j := by omega
      rw [e]
      unfold incorrectRows
      split
      · exact this
      · exact List.mem_cons_of_mem _ this

theorem incorrectRows_nil (alts : List Int) (choices : List Int)
    (h : ∀ c ∈ choices, alts.contains c = true) : ∀ start, incorrectRows alts start choices = [] := by
  induction choices with
  | nil => intro _; rfl
  | cons x rest ih =>
    intro start
    unfold incorrectRows
    rw [if_pos (h x (by simp))]
    exact ih (fun c hc => h c (List.mem_cons_of_mem _ hc)) _

theorem choiceFlag_of_bad_row (L : LogitData) (hk : keysConsistent L = true) (i : Nat) (c : Int)
    (hc : L.choices[i]? = some c) (hn : L.alts.contains c = false) : choiceFlag L = true := by
  unfold choiceFlag
  rw [hk]
  have hav : L.avKeys.contains c = false := by
    unfold keysConsistent at hk
    rw [Bool.and_eq_true] at hk
    have h2 := List.all_eq_true.mp hk.2
    cases hcc : L.avKeys.contains c with
    | false => rfl
    | true =>
      have hm : c ∈ L.avKeys := by simpa using hcc
      have := h2 c hm
      rw [hn] at this
      exact absurd this (by simp)
  have : chosenNotInAv L = true := by
    unfold chosenNotInAv
    rw [List.any_eq_true]
    exact ⟨c, List.mem_of_getElem? hc, by rw [hav]; rfl⟩
  simp [this]

theorem logitDataFaults_ne_nil (L : LogitData) (i : Nat) (c : Int)
    (hc : L.choices[i]? = some c) (hn : L.alts.contains c = false) : logitDataFaults L ≠ [] := by
  unfold logitDataFaults
  cases hk : keysConsistent L with
  | false => simp
  | true => simp [choiceFlag_of_bad_row L hk i c hc hn]

theorem logitDataFaults_nil (L : LogitData) (hk : keysConsistent L = true)
    (h : ∀ c ∈ L.choices, L.alts.contains c = true) : logitDataFaults L = [] := by
  have h1 : incorrectRows L.alts 0 L.choices = [] := incorrectRows_nil L.alts L.choices h 0
  have h2 : chosenNotInAv L = false := by
    unfold chosenNotInAv
    rw [List.any_eq_false]
    intro c hc
    have ha := h c hc
    unfold keysConsistent at hk
    rw [Bool.and_eq_true] at hk
    have := List.all_eq_true.mp hk.1 c (by simpa using ha)
    rw [this]; decide
  simp [logitDataFaults, hk, choiceFlag, h1, h2, argwhereAny]

/-! ### nests -/

theorem nestsOverlap_of_common (nests : List (List Int)) (i j : Nat) (hi : i < nests.length)
    (hj : j < nests.length) (hij : i ≠ j) (a : Int) (hai : a ∈ nests.getD i [])
    (haj : a ∈ nests.getD j []) : nestsOverlap nests = true := by
  unfold nestsOverlap
  rw [List.any_eq_true]
  refine ⟨i, List.mem_range.mpr hi, ?_⟩
  rw [List.any_eq_true]
  refine ⟨j, List.mem_range.mpr hj, ?_⟩
  have : nestsMeet (nests.getD i []) (nests.getD j []) = true := by
    unfold nestsMeet
    rw [List.any_eq_true]
    exact ⟨a, hai, by simpa using haj⟩
  rw [Bool.and_eq_true]
  exact ⟨by simpa using hij, this⟩

theorem nestsOverlap_false (nests : List (List Int))
    (h : ∀ i j, i < nests.length → j < nests.length → i ≠ j →
      ∀ a ∈ nests.getD i [], a ∉ nests.getD j []) : nestsOverlap nests = false := by
  unfold nestsOverlap
  rw [List.any_eq_false]
  intro i hi
  rw [Bool.not_eq_true, List.any_eq_false]
  intro j hj
  have hi' := List.mem_range.mp hi
  have hj' := List.mem_range.mp hj
  by_cases hij : i = j
  · simp [hij]
  · have : nestsMeet (nests.getD i []) (nests.getD j []) = false := by
      unfold nestsMeet
      rw [List.any_eq_false]
      intro a ha
      have := h i j hi' hj' hij a ha
      simpa using this
    rw [this, Bool.and_false]; simp

/-! ### sessions -/

theorem run_append (a b : List SOp) : ∀ s, run (a ++ b) s = run a s ++ run b (final a s) := by
  induction a with
  | nil => intro s; simp [run, final]
  | cons op rest ih =>
    intro s
    simp only [List.cons_append, run, final, List.foldl_cons]
    rw [ih (s.apply op)]
    simp [final, List.append_assoc]

theorem apply_eval (s : SState) (op : SOp) (h : op.isEval = true) : s.apply op = s := by
  cases op <;> simp_all [SOp.isEval, SState.apply]

theorem final_edits (ops : List SOp) : ∀ s, final (edits ops) s = final ops s := by
  induction ops with
  | nil => intro s; rfl
  | cons op rest ih =>
    intro s
    cases h : op.isEval with
    | true =>
      have : edits (op :: rest) = edits rest := by simp [edits, h]
      rw [this]
      simp only [final, List.foldl_cons]
      rw [apply_eval s op h]
      exact ih s
    | false =>
      have : edits (op :: rest) = op :: edits rest := by simp [edits, h]
      rw [this]
      simp only [final, List.foldl_cons]
      exact ih (s.apply op)

theorem run_edits (ops : List SOp) : ∀ s, run (edits ops) s = [] := by
  induction ops with
  | nil => intro s; rfl
  | cons op rest ih =>
    intro s
    cases h : op.isEval with
    | true =>
      have : edits (op :: rest) = edits rest := by simp [edits, h]
      rw [this]; exact ih s
    | false =>
      have : edits (op :: rest) = op :: edits rest := by simp [edits, h]
      rw [this]
      have hv : s.verdict op = none := by cases op <;> simp_all [SOp.isEval, SState.verdict]
      simp only [run, hv]
      exact ih _

theorem run_single_eval (s : SState) (e : SOp) (h : e.isEval = true) :
    ∃ v, s.verdict e = some v ∧ run [e] s = [v] := by
  cases e <;> simp_all [SOp.isEval, SState.verdict, run]

theorem wf_map_flags (d : ADag) (f : ANode → ANode) (hf : ∀ n, (f n).children = n.children)
    (hwf : WF d) : WF (d.map f) := by
  intro k n hk c hc
  rw [List.getElem?_map] at hk
  cases hd : d[k]? with
  | none => rw [hd] at hk; simp at hk
  | some m =>
    rw [hd] at hk
    simp only [Option.map_some, Option.some.injEq] at hk
    subst hk
    rw [hf m] at hc
    exact hwf k m hd c hc

theorem apply_panel (s : SState) (op : SOp) (h : s.panel = true) : (s.apply op).panel = true := by
  cases op <;> simp only [SState.apply] <;> first | exact h | rfl | (split <;> exact h)

theorem panel_stays (ops : List SOp) : ∀ s : SState, s.panel = true → (final ops s).panel = true := by
  induction ops with
  | nil => intro s h; exact h
  | cons op rest ih => intro s h; exact ih _ (apply_panel s op h)

theorem final_append (a b : List SOp) (s : SState) : final (a ++ b) s = final b (final a s) := by
  simp [final, List.foldl_append]

theorem assignNames_alts (ns : List NamedNest) : ∀ pos, (assignNames pos ns).map (·.2) = ns.map (·.alts) := by
  induction ns with
  | nil => intro _; rfl
  | cons n rest ih => intro pos; simp [assignNames, ih]

end Audit
