/- Helper lemmas for Props/C16.lean (core Lean only). -/
import Model.Catalog

namespace Cat

instance exceptDecEq {ε α} [DecidableEq ε] [DecidableEq α] : DecidableEq (Except ε α)
  | .ok a, .ok b => if h : a = b then isTrue (h ▸ rfl) else isFalse (fun e => h (Except.ok.inj e))
  | .error a, .error b =>
    if h : a = b then isTrue (h ▸ rfl) else isFalse (fun e => h (Except.error.inj e))
  | .ok _, .error _ => isFalse (fun e => nomatch e)
  | .error _, .ok _ => isFalse (fun e => nomatch e)

/-! ### the order on names -/

theorem char_toNat_inj {a b : Char} (h : a.toNat = b.toNat) : a = b := Char.toNat_inj.mp h

theorem leName_refl : ∀ a : Name, leName a a = true
  | [] => by simp [leName]
  | c :: t => by simp [leName, leName_refl t]

theorem leName_total : ∀ a b : Name, leName a b = true ∨ leName b a = true
  | [], _ => by simp [leName]
  | _ :: _, [] => by simp [leName]
  | a :: as, b :: bs => by
    simp only [leName]
    rcases Nat.lt_trichotomy a.toNat b.toNat with h | h | h
    · simp [h]
    · have := leName_total as bs
      simp [h, this]
    · right; simp [h]

theorem leName_antisymm : ∀ a b : Name, leName a b = true → leName b a = true → a = b
  | [], [] => by simp
  | [], _ :: _ => by simp [leName]
  | _ :: _, [] => by simp [leName]
  | a :: as, b :: bs => by
    simp only [leName]
    rcases Nat.lt_trichotomy a.toNat b.toNat with h | h | h
    · have h1 : ¬ b.toNat < a.toNat := by omega
      have h2 : ¬ b.toNat = a.toNat := by omega
      simp [h, h1, h2]
    · have hc := char_toNat_inj h
      subst hc
      simp only [Nat.lt_irrefl, if_false, if_true]
      intro h1 h2
      rw [leName_antisymm as bs h1 h2]
    · have h1 : ¬ a.toNat < b.toNat := by omega
      have h2 : ¬ a.toNat = b.toNat := by omega
      simp [h1, h2]

theorem leName_trans : ∀ a b c : Name, leName a b = true → leName b c = true → leName a c = true
  | [], _, _ => by simp [leName]
  | _ :: _, [], _ => by simp [leName]
  | _ :: _, _ :: _, [] => by simp [leName]
  | a :: as, b :: bs, c :: cs => by
    simp only [leName]
    intro h1 h2
    rcases Nat.lt_trichotomy a.toNat b.toNat with hab | hab | hab
    · rcases Nat.lt_trichotomy b.toNat c.toNat with hbc | hbc | hbc
      · have : a.toNat < c.toNat := by omega
        simp [this]
      · have : a.toNat < c.toNat := by omega
        simp [this]
      · have n1 : ¬ b.toNat < c.toNat := by omega
        have n2 : ¬ b.toNat = c.toNat := by omega
        simp [n1, n2] at h2
    · rcases Nat.lt_trichotomy b.toNat c.toNat with hbc | hbc | hbc
      · have : a.toNat < c.toNat := by omega
        simp [this]
      · have e : a.toNat = c.toNat := by omega
        have hc1 := char_toNat_inj hab
        have hc2 := char_toNat_inj hbc
        subst hc1; subst hc2
        simp only [Nat.lt_irrefl, if_false, if_true] at h1 h2 ⊢
        exact leName_trans as bs cs h1 h2
      · have n1 : ¬ b.toNat < c.toNat := by omega
        have n2 : ¬ b.toNat = c.toNat := by omega
        simp [n1, n2] at h2
    · have n1 : ¬ a.toNat < b.toNat := by omega
      have n2 : ¬ a.toNat = b.toNat := by omega
      simp [n1, n2] at h1

/-- strict order on names -/
def ltName (a b : Name) : Prop := leName a b = true ∧ a ≠ b

theorem not_le_of_lt {a b : Name} (h : ltName a b) : leName b a = false := by
  cases hb : leName b a with
  | false => rfl
  | true => exact absurd (leName_antisymm a b h.1 hb) h.2

/-! ### sorting the selections -/

def leBy {β} (key : β → Name) (p q : β) : Prop := leName (key p) (key q) = true

def keyLe (p q : Sel) : Prop := leBy Prod.fst p q

theorem insertBy_perm {β} (key : β → Name) (p : β) : ∀ l, (insertBy key p l).Perm (p :: l)
  | [] => List.Perm.refl _
  | q :: t => by
    unfold insertBy
    split
    · exact List.Perm.refl _
    · exact ((insertBy_perm key p t).cons q).trans (List.Perm.swap p q t)

theorem sortBy_perm {β} (key : β → Name) : ∀ l : List β, (sortBy key l).Perm l
  | [] => List.Perm.refl _
  | p :: t => (insertBy_perm key p (sortBy key t)).trans ((sortBy_perm key t).cons p)

theorem insertBy_sorted {β} (key : β → Name) (p : β) :
    ∀ l, List.Pairwise (leBy key) l → List.Pairwise (leBy key) (insertBy key p l)
  | [], _ => by simp [insertBy]
  | q :: t, h => by
    unfold insertBy
    rw [List.pairwise_cons] at h
    split
    · rename_i hle
      refine List.pairwise_cons.mpr ⟨?_, List.pairwise_cons.mpr h⟩
      intro a ha
      rcases List.mem_cons.mp ha with rfl | ha
      · exact hle
      · exact leName_trans _ _ _ hle (h.1 a ha)
    · rename_i hle
      refine List.pairwise_cons.mpr ⟨?_, insertBy_sorted key p t h.2⟩
      intro a ha
      rcases List.mem_cons.mp ((insertBy_perm key p t).mem_iff.mp ha) with rfl | ha
      · rcases leName_total (key q) (key a) with h1 | h1
        · exact h1
        · exact absurd h1 hle
      · exact h.1 a ha

theorem sortBy_sorted {β} (key : β → Name) : ∀ l : List β, List.Pairwise (leBy key) (sortBy key l)
  | [] => List.Pairwise.nil
  | p :: t => insertBy_sorted key p _ (sortBy_sorted key t)

theorem sortBy_eq_self {β} (key : β → Name) : ∀ l : List β, List.Pairwise (leBy key) l → sortBy key l = l
  | [], _ => rfl
  | p :: t, h => by
    rw [List.pairwise_cons] at h
    simp only [sortBy, sortBy_eq_self key t h.2]
    cases t with
    | nil => rfl
    | cons q r =>
      have : leName (key p) (key q) = true := h.1 q (List.mem_cons_self)
      simp [insertBy, this]

theorem sortSels_perm (l : List Sel) : (sortSels l).Perm l := sortBy_perm Prod.fst l

theorem sortSels_sorted (l : List Sel) : List.Pairwise keyLe (sortSels l) := sortBy_sorted Prod.fst l

theorem sortSels_eq_self (l : List Sel) (h : List.Pairwise keyLe l) : sortSels l = l :=
  sortBy_eq_self Prod.fst l h

theorem hasKey_iff (k : Name) : ∀ l : List Sel, hasKey k l = true ↔ k ∈ l.map Prod.fst
  | [] => by simp [hasKey]
  | p :: t => by
    simp only [hasKey, Bool.or_eq_true, beq_iff_eq, List.map_cons, List.mem_cons, hasKey_iff k t]
    constructor
    · rintro (h | h)
      · exact Or.inl h.symm
      · exact Or.inr h
    · rintro (h | h)
      · exact Or.inl h.symm
      · exact Or.inr h

theorem hasDupKey_false_iff : ∀ l : List Sel, hasDupKey l = false ↔ (l.map Prod.fst).Nodup
  | [] => by simp [hasDupKey]
  | p :: t => by
    simp only [hasDupKey, Bool.or_eq_false_iff, List.map_cons, List.nodup_cons,
      hasDupKey_false_iff t]
    constructor
    · rintro ⟨h1, h2⟩
      refine ⟨?_, h2⟩
      intro hm
      rw [(hasKey_iff p.1 t).mpr hm] at h1
      cases h1
    · rintro ⟨h1, h2⟩
      refine ⟨?_, h2⟩
      cases hk : hasKey p.1 t with
      | false => rfl
      | true => exact absurd ((hasKey_iff p.1 t).mp hk) h1

theorem hasDupKey_perm {l₁ l₂ : List Sel} (h : l₁.Perm l₂) : hasDupKey l₁ = hasDupKey l₂ := by
  have hn : (l₁.map Prod.fst).Nodup ↔ (l₂.map Prod.fst).Nodup := (h.map Prod.fst).nodup_iff
  cases h1 : hasDupKey l₁ with
  | false =>
    exact ((hasDupKey_false_iff l₂).mpr (hn.mp ((hasDupKey_false_iff l₁).mp h1))).symm
  | true =>
    cases h2 : hasDupKey l₂ with
    | true => rfl
    | false =>
      have := (hasDupKey_false_iff l₁).mpr (hn.mpr ((hasDupKey_false_iff l₂).mp h2))
      rw [h1] at this
      cases this

theorem eq_of_key_eq {l : List Sel} (hn : (l.map Prod.fst).Nodup) :
    ∀ {a b : Sel}, a ∈ l → b ∈ l → a.1 = b.1 → a = b := by
  induction l with
  | nil => intro a b ha; cases ha
  | cons p t ih =>
    intro a b ha hb hab
    rw [List.map_cons, List.nodup_cons] at hn
    rcases List.mem_cons.mp ha with rfl | ha'
    · rcases List.mem_cons.mp hb with rfl | hb'
      · rfl
      · exact absurd (hab ▸ List.mem_map_of_mem (f := Prod.fst) hb') hn.1
    · rcases List.mem_cons.mp hb with rfl | hb'
      · exact absurd (hab ▸ List.mem_map_of_mem (f := Prod.fst) ha') hn.1
      · exact ih hn.2 ha' hb' hab

/-- the sorted list depends only on the set of selections, not on the listing order -/
theorem sortSels_perm_eq {l₁ l₂ : List Sel} (h : l₁.Perm l₂) (hn : (l₁.map Prod.fst).Nodup) :
    sortSels l₁ = sortSels l₂ := by
  have hp : (sortSels l₁).Perm (sortSels l₂) :=
    (sortSels_perm l₁).trans (h.trans (sortSels_perm l₂).symm)
  refine List.Perm.eq_of_pairwise (le := keyLe) ?_ (sortSels_sorted l₁) (sortSels_sorted l₂) hp
  intro a b ha hb hab hba
  have ha' : a ∈ l₁ := (sortSels_perm l₁).mem_iff.mp ha
  have hb' : b ∈ l₁ := h.mem_iff.mpr ((sortSels_perm l₂).mem_iff.mp hb)
  exact eq_of_key_eq hn ha' hb' (leName_antisymm _ _ hab hba)

theorem mkConfig_perm {l₁ l₂ : List Sel} (h : l₁.Perm l₂) : mkConfig l₁ = mkConfig l₂ := by
  unfold mkConfig
  rw [← hasDupKey_perm h]
  cases hd : hasDupKey l₁ with
  | true => rfl
  | false =>
    simp only [Bool.false_eq_true, if_false]
    rw [sortSels_perm_eq h ((hasDupKey_false_iff l₁).mp hd)]

/-! ### split / join and the identifier string -/

theorem splitOn_no_sep (sep : Char) : ∀ l : List Char, sep ∉ l → splitOn sep l = [l]
  | [], _ => rfl
  | c :: t, h => by
    have hc : c ≠ sep := fun e => h (e ▸ List.mem_cons_self)
    have ht : sep ∉ t := fun m => h (List.mem_cons_of_mem _ m)
    simp [splitOn, hc, splitOn_no_sep sep t ht]

theorem splitOn_append_sep (sep : Char) (rest : List Char) :
    ∀ a : List Char, sep ∉ a → splitOn sep (a ++ sep :: rest) = a :: splitOn sep rest
  | [], _ => by simp [splitOn]
  | c :: t, h => by
    have hc : c ≠ sep := fun e => h (e ▸ List.mem_cons_self)
    have ht : sep ∉ t := fun m => h (List.mem_cons_of_mem _ m)
    simp [splitOn, hc, splitOn_append_sep sep rest t ht]

theorem splitOn_join (sep : Char) :
    ∀ parts : List (List Char), parts ≠ [] → (∀ p ∈ parts, sep ∉ p) →
      splitOn sep (joinWith sep parts) = parts
  | [], h, _ => absurd rfl h
  | [a], _, h => by
    simp only [joinWith]
    exact splitOn_no_sep sep a (h a (List.mem_cons_self))
  | a :: b :: t, _, h => by
    simp only [joinWith]
    rw [splitOn_append_sep sep _ a (h a (List.mem_cons_self))]
    rw [splitOn_join sep (b :: t) (by simp) (fun p hp => h p (List.mem_cons_of_mem _ hp))]

/-- the guard the separator characters force: no ';' and no ':' inside a name -/
def NameOK (n : Name) : Prop := SEP ∉ n ∧ SELSEP ∉ n

def SelOK (p : Sel) : Prop := NameOK p.1 ∧ NameOK p.2

theorem nameOK_iff (n : Name) : nameOK n = true ↔ NameOK n := by
  unfold nameOK NameOK
  rw [List.all_eq_true]
  constructor
  · intro h
    constructor
    · intro hm
      have := h _ hm
      simp at this
    · intro hm
      have := h _ hm
      simp at this
  · rintro ⟨h1, h2⟩ c hc
    have c1 : c ≠ SEP := fun e => h1 (e ▸ hc)
    have c2 : c ≠ SELSEP := fun e => h2 (e ▸ hc)
    simp [c1, c2]

theorem parseTerm_render (p : Sel) (h : SelOK p) : parseTerm (renderSel p) = .ok p := by
  unfold parseTerm renderSel
  rw [splitOn_append_sep SELSEP p.2 p.1 h.1.2, splitOn_no_sep SELSEP p.2 h.2.2]

theorem sep_not_mem_render (p : Sel) (h : SelOK p) : SEP ∉ renderSel p := by
  unfold renderSel
  intro hm
  rcases List.mem_append.mp hm with h1 | h1
  · exact h.1.1 h1
  · rcases List.mem_cons.mp h1 with h2 | h2
    · exact absurd h2 (by decide)
    · exact h.2.1 h2

theorem dictSet_append : ∀ (d : List Sel) (k v : Name), k ∉ d.map Prod.fst →
    dictSet d k v = d ++ [(k, v)]
  | [], _, _, _ => rfl
  | (k', v') :: t, k, v, h => by
    have h1 : k' ≠ k := fun e => h (by simp [e])
    have h2 : k ∉ t.map Prod.fst := fun m => h (by simp only [List.map_cons, List.mem_cons]; exact Or.inr m)
    simp [dictSet, h1, dictSet_append t k v h2]

theorem parseTerms_render : ∀ (cfg d : List Sel), (∀ p ∈ cfg, SelOK p) →
    ((d ++ cfg).map Prod.fst).Nodup → parseTerms (cfg.map renderSel) d = .ok (d ++ cfg)
  | [], d, _, _ => by simp [parseTerms]
  | p :: t, d, hok, hn => by
    simp only [List.map_cons, parseTerms, parseTerm_render p (hok p (List.mem_cons_self))]
    have hk : p.1 ∉ d.map Prod.fst := by
      intro hm
      rw [List.map_append, List.map_cons, List.nodup_append] at hn
      exact hn.2.2 _ hm _ (List.mem_cons_self) rfl
    rw [dictSet_append d p.1 p.2 hk]
    have : d ++ [(p.1, p.2)] ++ t = d ++ p :: t := by simp
    rw [parseTerms_render t (d ++ [(p.1, p.2)]) (fun q hq => hok q (List.mem_cons_of_mem _ hq))
      (by rw [this]; exact hn), this]

/-- configurations as `Configuration` stores them: strictly increasing controller names -/
def SortedKeys (cfg : Config) : Prop := List.Pairwise (fun p q : Sel => ltName p.1 q.1) cfg

theorem SortedKeys.keyLe {cfg : Config} (h : SortedKeys cfg) : List.Pairwise keyLe cfg :=
  List.Pairwise.imp (fun hab => hab.1) h

theorem SortedKeys.nodup {cfg : Config} (h : SortedKeys cfg) : (cfg.map Prod.fst).Nodup := by
  unfold List.Nodup
  rw [List.pairwise_map]
  exact List.Pairwise.imp (fun hab => hab.2) h

theorem mkConfig_sorted {cfg : Config} (h : SortedKeys cfg) : mkConfig cfg = .ok cfg := by
  unfold mkConfig
  rw [(hasDupKey_false_iff cfg).mpr h.nodup, sortSels_eq_self cfg h.keyLe]
  rfl

/-- **round trip**: the identifier string converts back to the same configuration -/
theorem fromString_stringId (cfg : Config) (hne : cfg ≠ []) (hok : ∀ p ∈ cfg, SelOK p)
    (hs : SortedKeys cfg) : fromString (stringId cfg) = .ok cfg := by
  unfold fromString stringId
  rw [splitOn_join SEP (cfg.map renderSel) (by simpa using hne)]
  · rw [parseTerms_render cfg [] hok (by simpa using hs.nodup)]
    simp only [List.nil_append, fromDict]
    exact mkConfig_sorted hs
  · intro t ht
    rcases List.mem_map.mp ht with ⟨p, hp, rfl⟩
    exact sep_not_mem_render p (hok p hp)

theorem stringId_ne_nil (cfg : Config) (hne : cfg ≠ []) : stringId cfg ≠ [] := by
  cases cfg with
  | nil => exact absurd rfl hne
  | cons p t =>
    unfold stringId
    cases t with
    | nil => simp [joinWith, renderSel]
    | cons q r => simp [joinWith, renderSel]

/-! ### the cartesian product -/

def InProd {β} : List β → List (List β) → Prop
  | [], [] => True
  | a :: x, l :: ls => a ∈ l ∧ InProd x ls
  | _, _ => False

theorem length_product {β} : ∀ ls : List (List β), (product ls).length = prodNat (ls.map List.length)
  | [] => rfl
  | l :: ls => by
    simp only [product, List.map_cons, prodNat, List.length_flatMap, List.length_map,
      length_product ls]
    induction l with
    | nil => simp
    | cons a t ih => simp [ih, Nat.succ_mul, Nat.add_comm]

theorem mem_product {β} : ∀ (ls : List (List β)) (x : List β), x ∈ product ls ↔ InProd x ls
  | [], x => by
    cases x <;> simp [product, InProd]
  | l :: ls, x => by
    simp only [product, List.mem_flatMap, List.mem_map]
    constructor
    · rintro ⟨a, ha, y, hy, rfl⟩
      exact ⟨ha, (mem_product ls y).mp hy⟩
    · intro h
      cases x with
      | nil => exact absurd h (by simp [InProd])
      | cons a y => exact ⟨a, h.1, y, (mem_product ls y).mpr h.2, rfl⟩

theorem nodup_product {β} : ∀ ls : List (List β), (∀ l ∈ ls, l.Nodup) → (product ls).Nodup
  | [], _ => by simp [product]
  | l :: ls, h => by
    have ih := nodup_product ls (fun m hm => h m (List.mem_cons_of_mem _ hm))
    have hl : l.Nodup := h l (List.mem_cons_self)
    unfold product List.Nodup
    rw [List.pairwise_flatMap]
    constructor
    · intro a _
      rw [List.pairwise_map]
      exact List.Pairwise.imp (fun hne e => hne (List.cons.inj e).2) ih
    · exact List.Pairwise.imp (fun {a b} hne x hx y hy e => by
        rcases List.mem_map.mp hx with ⟨x', _, rfl⟩
        rcases List.mem_map.mp hy with ⟨y', _, rfl⟩
        exact hne (List.cons.inj e).1) hl

theorem product_map {β γ} (f : β → γ) : ∀ ls : List (List β),
    product (ls.map (List.map f)) = (product ls).map (List.map f)
  | [] => rfl
  | l :: ls => by
    simp only [List.map_cons, product, product_map f ls, List.flatMap_map, List.map_flatMap,
      List.map_map]
    congr 1

/-! ### well-formed spaces, valid configurations -/

/-- what `CentralController.__init__` holds for an expression with catalogs (controllers
sorted by name, one per name) together with the guards on names -/
structure SpaceWF (sp : Space) : Prop where
  ne : sp ≠ []
  sorted : List.Pairwise (fun c d : Controller => ltName c.name d.name) sp
  specs_ne : ∀ c ∈ sp, c.specs ≠ []
  specs_nodup : ∀ c ∈ sp, c.specs.Nodup
  names_ok : ∀ c ∈ sp, NameOK c.name ∧ ∀ s ∈ c.specs, NameOK s

def ValidCfg (sp : Space) (cfg : Config) : Prop := validCfgB sp cfg = true

def InRange (sp : Space) (st : St) : Prop := ∀ c ∈ sp, st c.name < c.size

def Agree (sp : Space) (st st' : St) : Prop := ∀ c ∈ sp, st c.name = st' c.name

/-- the selections a controller offers -/
def Controller.sels (c : Controller) : List Sel := c.specs.map fun s => (c.name, s)

/-- reference enumeration: the cartesian product of the controllers' selections -/
def allCfgs (sp : Space) : List Config := product (sp.map Controller.sels)

theorem names_nodup {sp : Space} (h : List.Pairwise (fun c d : Controller => ltName c.name d.name) sp) :
    (sp.map Controller.name).Nodup := by
  unfold List.Nodup
  rw [List.pairwise_map]
  exact List.Pairwise.imp (fun hab => hab.2) h

theorem validCfg_keys : ∀ (sp : Space) (cfg : Config), ValidCfg sp cfg →
    cfg.map Prod.fst = sp.map Controller.name
  | [], [], _ => rfl
  | [], _ :: _, h => by simp [ValidCfg, validCfgB] at h
  | _ :: _, [], h => by simp [ValidCfg, validCfgB] at h
  | c :: sp, (n, v) :: cfg, h => by
    simp only [ValidCfg, validCfgB, Bool.and_eq_true, beq_iff_eq] at h
    simp [h.1.1, validCfg_keys sp cfg h.2]

theorem validCfg_iff_inProd : ∀ (sp : Space) (cfg : Config),
    ValidCfg sp cfg ↔ InProd cfg (sp.map Controller.sels)
  | [], [] => by simp [ValidCfg, validCfgB, InProd]
  | [], _ :: _ => by simp [ValidCfg, validCfgB, InProd]
  | _ :: _, [] => by simp [ValidCfg, validCfgB, InProd]
  | c :: sp, (n, v) :: cfg => by
    have ih := validCfg_iff_inProd sp cfg
    simp only [ValidCfg] at ih
    simp only [ValidCfg, validCfgB, Bool.and_eq_true, beq_iff_eq, List.map_cons, InProd,
      Controller.sels, List.mem_map, Prod.mk.injEq, List.contains_iff_mem, ih]
    constructor
    · rintro ⟨⟨h1, h2⟩, h3⟩
      exact ⟨⟨v, h2, h1.symm, rfl⟩, h3⟩
    · rintro ⟨⟨s, hs, h1, h2⟩, h3⟩
      exact ⟨⟨h1.symm, h2 ▸ hs⟩, h3⟩

theorem mem_allCfgs (sp : Space) (cfg : Config) : cfg ∈ allCfgs sp ↔ ValidCfg sp cfg := by
  rw [allCfgs, mem_product, validCfg_iff_inProd]

theorem validCfg_sorted {sp : Space} (hwf : SpaceWF sp) {cfg : Config} (h : ValidCfg sp cfg) :
    SortedKeys cfg := by
  have hk := validCfg_keys sp cfg h
  have hs : List.Pairwise (fun a b : Name => ltName a b) (sp.map Controller.name) := by
    rw [List.pairwise_map]; exact hwf.sorted
  rw [← hk, List.pairwise_map] at hs
  exact hs

theorem validCfg_ne {sp : Space} (hwf : SpaceWF sp) {cfg : Config} (h : ValidCfg sp cfg) :
    cfg ≠ [] := by
  intro e
  subst e
  cases sp with
  | nil => exact hwf.ne rfl
  | cons c t => simp [ValidCfg, validCfgB] at h

theorem validCfg_selOK : ∀ (sp : Space) (cfg : Config),
    (∀ c ∈ sp, NameOK c.name ∧ ∀ s ∈ c.specs, NameOK s) → ValidCfg sp cfg → ∀ p ∈ cfg, SelOK p
  | [], [], _, _ => by simp
  | [], _ :: _, _, h => by simp [ValidCfg, validCfgB] at h
  | _ :: _, [], _, h => by simp [ValidCfg, validCfgB] at h
  | c :: sp, (n, v) :: cfg, hok, h => by
    simp only [ValidCfg, validCfgB, Bool.and_eq_true, beq_iff_eq, List.contains_iff_mem] at h
    intro p hp
    rcases List.mem_cons.mp hp with rfl | hp
    · have := hok c (List.mem_cons_self)
      exact ⟨h.1.1 ▸ this.1, this.2 v h.1.2⟩
    · exact validCfg_selOK sp cfg (fun d hd => hok d (List.mem_cons_of_mem _ hd)) h.2 p hp

theorem mapExcept_ok {β γ} (f : β → Except Err γ) (g : γ → β) :
    ∀ l : List γ, (∀ x ∈ l, f (g x) = .ok x) → mapExcept f (l.map g) = .ok l
  | [], _ => rfl
  | a :: t, h => by
    simp [mapExcept, h a (List.mem_cons_self),
      mapExcept_ok f g t (fun x hx => h x (List.mem_cons_of_mem _ hx))]

theorem allIds_eq (sp : Space) : allIds sp = (allCfgs sp).map stringId := by
  unfold allIds allCfgs
  have : sp.map Controller.codes = (sp.map Controller.sels).map (List.map renderSel) := by
    simp [Controller.codes, Controller.sels, List.map_map, Function.comp_def]
  rw [this, product_map, List.map_map]
  rfl

/-- the enumeration the code performs (through the identifier strings) is the cartesian
product of the controllers' selections -/
theorem allConfigurations_eq {sp : Space} (hwf : SpaceWF sp) :
    allConfigurations sp = .ok (allCfgs sp) := by
  unfold allConfigurations
  rw [allIds_eq]
  apply mapExcept_ok
  intro cfg hc
  have hv := (mem_allCfgs sp cfg).mp hc
  exact fromString_stringId cfg (validCfg_ne hwf hv) (validCfg_selOK sp cfg hwf.names_ok hv)
    (validCfg_sorted hwf hv)

theorem sels_nodup (c : Controller) (h : c.specs.Nodup) : c.sels.Nodup := by
  unfold Controller.sels List.Nodup
  rw [List.pairwise_map]
  exact List.Pairwise.imp (fun hne e => hne (Prod.mk.inj e).2) h

theorem allCfgs_nodup {sp : Space} (hwf : SpaceWF sp) : (allCfgs sp).Nodup := by
  apply nodup_product
  intro l hl
  rcases List.mem_map.mp hl with ⟨c, hc, rfl⟩
  exact sels_nodup c (hwf.specs_nodup c hc)

theorem allCfgs_length (sp : Space) : (allCfgs sp).length = prodNat (sp.map Controller.size) := by
  unfold allCfgs
  rw [length_product, List.map_map]
  congr 1
  apply List.map_congr_left
  intro c _
  simp [Controller.sels, Controller.size]

/-! ### the state of the controllers -/

theorem findCtrl_some : ∀ (sp : Space) (n : Name) (c : Controller),
    findCtrl sp n = some c → c ∈ sp ∧ c.name = n
  | [], _, _, h => by simp [findCtrl] at h
  | d :: t, n, c, h => by
    unfold findCtrl at h
    split at h
    · rename_i hd
      cases h
      exact ⟨List.mem_cons_self, hd⟩
    · have := findCtrl_some t n c h
      exact ⟨List.mem_cons_of_mem _ this.1, this.2⟩

theorem findCtrl_mem : ∀ (sp : Space), (sp.map Controller.name).Nodup → ∀ c ∈ sp,
    findCtrl sp c.name = some c
  | [], _, _, h => by cases h
  | d :: t, hn, c, hc => by
    rw [List.map_cons, List.nodup_cons] at hn
    unfold findCtrl
    rcases List.mem_cons.mp hc with rfl | hc
    · simp
    · have : d.name ≠ c.name := fun e => hn.1 (e ▸ List.mem_map_of_mem hc)
      simp [this, findCtrl_mem t hn.2 c hc]

theorem findCtrl_name_mem (sp : Space) (n : Name) (h : n ∈ sp.map Controller.name) :
    ∃ c, findCtrl sp n = some c := by
  induction sp with
  | nil => cases h
  | cons d t ih =>
    unfold findCtrl
    by_cases e : d.name = n
    · exact ⟨d, by simp [e]⟩
    · simp only [e, if_false]
      apply ih
      rcases List.mem_cons.mp h with h | h
      · exact absurd h.symm e
      · exact h

theorem indexOf_mem : ∀ (l : List Name) (v : Name), v ∈ l →
    ∃ i, indexOf l v = some i ∧ i < l.length ∧ l.getD i [] = v
  | [], _, h => by cases h
  | a :: t, v, h => by
    unfold indexOf
    by_cases e : a = v
    · exact ⟨0, by simp [e]⟩
    · have hv : v ∈ t := by
        rcases List.mem_cons.mp h with h | h
        · exact absurd h.symm e
        · exact h
      rcases indexOf_mem t v hv with ⟨i, h1, h2, h3⟩
      refine ⟨i + 1, by simp [e, h1], by simpa using h2, ?_⟩
      simpa using h3

theorem getD_inj : ∀ (l : List Name), l.Nodup → ∀ i j, i < l.length → j < l.length →
    l.getD i [] = l.getD j [] → i = j
  | [], _, i, _, hi, _, _ => by cases hi
  | a :: t, hn, i, j, hi, hj, h => by
    rw [List.nodup_cons] at hn
    cases i with
    | zero =>
      cases j with
      | zero => rfl
      | succ j =>
        exfalso
        simp only [List.getD_cons_zero, List.getD_cons_succ] at h
        have hj' : j < t.length := by simpa using hj
        have : t.getD j [] ∈ t := by
          rw [List.getD_eq_getElem?_getD, List.getElem?_eq_getElem hj']
          exact List.getElem_mem hj'
        exact hn.1 (h ▸ this)
    | succ i =>
      cases j with
      | zero =>
        exfalso
        simp only [List.getD_cons_zero, List.getD_cons_succ] at h
        have hi' : i < t.length := by simpa using hi
        have : t.getD i [] ∈ t := by
          rw [List.getD_eq_getElem?_getD, List.getElem?_eq_getElem hi']
          exact List.getElem_mem hi'
        exact hn.1 (h ▸ this)
      | succ j =>
        simp only [List.getD_cons_succ] at h
        have := getD_inj t hn.2 i j (by simpa using hi) (by simpa using hj) h
        omega

theorem getD_mem (l : List Name) (i : Nat) (h : i < l.length) : l.getD i [] ∈ l := by
  rw [List.getD_eq_getElem?_getD, List.getElem?_eq_getElem h]
  exact List.getElem_mem h

theorem setIndex_ok (c : Controller) (i : Nat) (h : i < c.size) : setIndex c (i : Int) = .ok i := by
  unfold setIndex
  have : ¬ ((i : Int) < 0 ∨ (i : Int) ≥ (c.size : Int)) := by omega
  rw [if_neg this]
  simp

theorem currentSels_keys (sp : Space) (st : St) :
    (currentSels sp st).map Prod.fst = sp.map Controller.name := by
  simp [currentSels, List.map_map, Function.comp_def]

theorem currentSels_valid : ∀ (sp : Space) (st : St), InRange sp st →
    ValidCfg sp (currentSels sp st)
  | [], _, _ => rfl
  | c :: t, st, h => by
    have h1 : st c.name < c.specs.length := h c (List.mem_cons_self)
    have ih := currentSels_valid t st (fun d hd => h d (List.mem_cons_of_mem _ hd))
    simp only [ValidCfg, currentSels] at ih
    simp only [ValidCfg, currentSels, List.map_cons, validCfgB, beq_self_eq_true, Bool.true_and,
      Bool.and_eq_true, List.contains_iff_mem]
    exact ⟨getD_mem c.specs (st c.name) h1, ih⟩

theorem currentSels_congr : ∀ (sp : Space) (st st' : St), Agree sp st st' →
    currentSels sp st = currentSels sp st'
  | [], _, _, _ => rfl
  | c :: t, st, st', h => by
    have := currentSels_congr t st st' (fun d hd => h d (List.mem_cons_of_mem _ hd))
    show (c.name, c.specs.getD (st c.name) []) :: currentSels t st
      = (c.name, c.specs.getD (st' c.name) []) :: currentSels t st'
    rw [h c (List.mem_cons_self), this]

theorem currentSels_inj : ∀ (sp : Space) (st st' : St), (∀ c ∈ sp, c.specs.Nodup) →
    InRange sp st → InRange sp st' → currentSels sp st = currentSels sp st' → Agree sp st st'
  | [], _, _, _, _, _, _ => fun c hc => by cases hc
  | c :: t, st, st', hn, h1, h2, he => by
    simp only [currentSels, List.map_cons, List.cons.injEq, Prod.mk.injEq, true_and] at he
    intro d hd
    rcases List.mem_cons.mp hd with rfl | hd
    · exact getD_inj _ (hn _ (List.mem_cons_self)) _ _ (h1 _ (List.mem_cons_self))
        (h2 _ (List.mem_cons_self)) he.1
    · exact currentSels_inj t st st' (fun x hx => hn x (List.mem_cons_of_mem _ hx))
        (fun x hx => h1 x (List.mem_cons_of_mem _ hx))
        (fun x hx => h2 x (List.mem_cons_of_mem _ hx)) he.2 d hd

theorem getConfiguration_ok {sp : Space} (hwf : SpaceWF sp) (st : St) :
    getConfiguration sp st = .ok (currentSels sp st) := by
  unfold getConfiguration
  apply mkConfig_sorted
  have hs : List.Pairwise (fun a b : Name => ltName a b) (sp.map Controller.name) := by
    rw [List.pairwise_map]; exact hwf.sorted
  rw [← currentSels_keys sp st, List.pairwise_map] at hs
  exact hs

/-- the loop of `set_configuration` on a valid configuration of a part of the space -/
theorem applySels_valid (sp : Space) (hn : (sp.map Controller.name).Nodup) :
    ∀ (sub : Space) (l : Config) (st : St) (done : List Name),
      (∀ c ∈ sub, c ∈ sp) → (sub.map Controller.name).Nodup → ValidCfg sub l →
      ∃ st', applySels sp l st done = .ok (st', (sub.map Controller.name).reverse ++ done) ∧
        currentSels sub st' = l ∧ InRange sub st' ∧
        ∀ m, m ∉ sub.map Controller.name → st' m = st m
  | [], [], st, done, _, _, _ => by
    refine ⟨st, rfl, rfl, ?_, fun _ _ => rfl⟩
    intro c hc
    cases hc
  | [], _ :: _, _, _, _, _, h => by simp [ValidCfg, validCfgB] at h
  | _ :: _, [], _, _, _, _, h => by simp [ValidCfg, validCfgB] at h
  | c :: sub, (n, v) :: l, st, done, hsub, hnd, h => by
    simp only [ValidCfg, validCfgB, Bool.and_eq_true, beq_iff_eq, List.contains_iff_mem] at h
    obtain ⟨⟨hname, hv⟩, hrest⟩ := h
    subst hname
    rw [List.map_cons, List.nodup_cons] at hnd
    obtain ⟨i, hi1, hi2, hi3⟩ := indexOf_mem c.specs v hv
    obtain ⟨st', h1, h2, h3, h4⟩ := applySels_valid sp hn sub l (st.set c.name i) (c.name :: done)
      (fun d hd => hsub d (List.mem_cons_of_mem _ hd)) hnd.2 hrest
    have hst : st' c.name = i := by
      rw [h4 c.name hnd.1]; simp [St.set]
    refine ⟨st', ?_, ?_, ?_, ?_⟩
    · simp only [applySels, findCtrl_mem sp hn c (hsub c (List.mem_cons_self)), setName, hi1,
        setIndex_ok c i hi2, h1, List.map_cons, List.reverse_cons, List.append_assoc,
        List.singleton_append]
    · simp only [currentSels, List.map_cons, hst, hi3] at h2 ⊢
      rw [h2]
    · intro d hd
      rcases List.mem_cons.mp hd with rfl | hd
      · rw [hst]; exact hi2
      · exact h3 d hd
    · intro m hm
      have hm1 : m ≠ c.name := fun e => hm (by simp [e])
      have hm2 : m ∉ sub.map Controller.name := fun e => hm (by
        simp only [List.map_cons, List.mem_cons]; exact Or.inr e)
      rw [h4 m hm2]
      simp [St.set, hm1]

/-- `set_configuration` of a valid configuration succeeds, whatever the previous state, and
the controllers then show exactly that configuration -/
theorem setConfiguration_valid {sp : Space} (hwf : SpaceWF sp) (st : St) {cfg : Config}
    (h : ValidCfg sp cfg) :
    ∃ st', setConfiguration sp st cfg = .ok st' ∧ currentSels sp st' = cfg ∧ InRange sp st' := by
  have hn := names_nodup hwf.sorted
  obtain ⟨st', h1, h2, h3, _⟩ := applySels_valid sp hn sp cfg st [] (fun _ hc => hc) hn h
  refine ⟨st', ?_, h2, h3⟩
  unfold setConfiguration
  rw [h1]
  have : (sp.all fun c => ((sp.map Controller.name).reverse ++ []).contains c.name) = true := by
    rw [List.all_eq_true]
    intro c hc
    simp only [List.append_nil, List.contains_iff_mem, List.mem_reverse]
    exact List.mem_map_of_mem hc
  dsimp only
  rw [if_pos this]

/-! ### the neighbourhood operators -/

theorem emod_toNat_lt (a : Int) (n : Nat) (h : 0 < n) : (a % (n : Int)).toNat < n := by
  have h1 : 0 ≤ a % (n : Int) := Int.emod_nonneg a (by omega)
  have h2 : a % (n : Int) < (n : Int) := Int.emod_lt_of_pos a (by omega)
  omega

theorem modifyController_circular (c : Controller) (cur : Nat) (step : Int) (h : 0 < c.size) :
    modifyController c cur step true
      = .ok ((((cur : Int) + step) % (c.size : Int)).toNat, step) := by
  have h1 : 0 ≤ ((cur : Int) + step) % (c.size : Int) := Int.emod_nonneg _ (by omega)
  have h2 := emod_toNat_lt ((cur : Int) + step) c.size h
  have h3 := setIndex_ok c _ h2
  rw [Int.toNat_of_nonneg h1] at h3
  simp [modifyController, h3]

/-- `modify_controller` keeps the index inside the controller, circular or not, for every step -/
theorem modifyController_range (c : Controller) (cur : Nat) (step : Int) (circular : Bool)
    (hcur : cur < c.size) :
    ∃ i r, modifyController c cur step circular = .ok (i, r) ∧ i < c.size := by
  cases circular with
  | true =>
    exact ⟨_, _, modifyController_circular c cur step (by omega), emod_toNat_lt _ _ (by omega)⟩
  | false =>
    unfold modifyController
    simp only [Bool.false_eq_true, if_false]
    by_cases h1 : (cur : Int) + step < 0
    · have := setIndex_ok c 0 (by omega)
      simp only [Int.natCast_zero] at this
      simp only [h1, if_true, this]
      exact ⟨0, _, rfl, by omega⟩
    · simp only [h1, if_false]
      by_cases h2 : (cur : Int) + step ≥ (c.size : Int)
      · have := setIndex_ok c (c.size - 1) (by omega)
        have e : ((c.size - 1 : Nat) : Int) = (c.size : Int) - 1 := by omega
        rw [e] at this
        simp only [h2, if_true, this]
        exact ⟨c.size - 1, _, rfl, by omega⟩
      · have hk : ((cur : Int) + step).toNat < c.size := by omega
        have := setIndex_ok c ((cur : Int) + step).toNat hk
        have e : ((((cur : Int) + step).toNat : Nat) : Int) = (cur : Int) + step := by omega
        rw [e] at this
        simp only [h2, if_false, this]
        exact ⟨_, _, rfl, hk⟩

theorem inRange_set {sp : Space} (hn : (sp.map Controller.name).Nodup) {st : St}
    (h : InRange sp st) {c : Controller} (hc : c ∈ sp) {i : Nat} (hi : i < c.size) :
    InRange sp (st.set c.name i) := by
  intro d hd
  by_cases e : d.name = c.name
  · have hfd := findCtrl_mem sp hn d hd
    have hfc := findCtrl_mem sp hn c hc
    rw [e, hfc] at hfd
    cases hfd
    simp [St.set, hi]
  · simp only [St.set, e, if_false]
    exact h d hd

theorem modifyNamed_ok {sp : Space} (hwf : SpaceWF sp) {st : St} {c : Controller} (hc : c ∈ sp)
    (step : Int) :
    modifyNamed sp st c.name step
      = .ok (st.set c.name ((((st c.name : Nat) : Int) + step) % (c.size : Int)).toNat) := by
  have hpos : 0 < c.size := by
    have := hwf.specs_ne c hc
    unfold Controller.size
    exact List.length_pos_iff.mpr this
  simp [modifyNamed, findCtrl_mem sp (names_nodup hwf.sorted) c hc,
    modifyController_circular c (st c.name) step hpos]

theorem modifyNamed_closed {sp : Space} (hwf : SpaceWF sp) {st : St} (h : InRange sp st)
    {n : Name} (hn : n ∈ sp.map Controller.name) (step : Int) :
    ∃ st', modifyNamed sp st n step = .ok st' ∧ InRange sp st' := by
  rcases List.mem_map.mp hn with ⟨c, hc, rfl⟩
  refine ⟨_, modifyNamed_ok hwf hc step, ?_⟩
  apply inRange_set (names_nodup hwf.sorted) h hc
  apply emod_toNat_lt
  have := hwf.specs_ne c hc
  exact List.length_pos_iff.mpr this

theorem modifyMany_closed {sp : Space} (hwf : SpaceWF sp) (delta : Int) :
    ∀ (l : List Name) (st : St), InRange sp st → (∀ n ∈ l, n ∈ sp.map Controller.name) →
      ∃ st', modifyMany sp delta st l = .ok st' ∧ InRange sp st'
  | [], st, h, _ => ⟨st, rfl, h⟩
  | n :: t, st, h, hl => by
    obtain ⟨st1, h1, h2⟩ := modifyNamed_closed hwf h (hl n (List.mem_cons_self)) delta
    obtain ⟨st2, h3, h4⟩ := modifyMany_closed hwf delta t st1 h2 (fun m hm => hl m (List.mem_cons_of_mem _ hm))
    exact ⟨st2, by simp [modifyMany, h1, h3], h4⟩

theorem drawn_mem {sp : Space} (hne : sp ≠ []) (k : Int) (choices : List Nat) :
    ∀ n ∈ drawn sp k choices, n ∈ sp.map Controller.name := by
  intro n hn
  unfold drawn at hn
  rcases List.mem_map.mp hn with ⟨i, _, rfl⟩
  have hpos : 0 < sp.length := List.length_pos_iff.mpr hne
  have : i % sp.length < (sp.map Controller.name).length := by
    rw [List.length_map]; exact Nat.mod_lt _ hpos
  exact getD_mem _ _ this

/-- the controllers an operator names belong to the space -/
def OpNamesIn (sp : Space) : Op → Prop
  | .increase c => c ∈ sp.map Controller.name
  | .decrease c => c ∈ sp.map Controller.name
  | .pair c1 c2 _ => c1 ∈ sp.map Controller.name ∧ c2 ∈ sp.map Controller.name
  | .several _ => True

theorem modifyOp_closed {sp : Space} (hwf : SpaceWF sp) {st : St} (h : InRange sp st) (op : Op)
    (hop : OpNamesIn sp op) (step : Int) (choices : List Nat) :
    ∃ st', modifyOp sp st op step choices = .ok st' ∧ InRange sp st' := by
  cases op with
  | increase n => exact modifyNamed_closed hwf h hop step
  | decrease n => exact modifyNamed_closed hwf h hop (-step)
  | pair n1 n2 d =>
    obtain ⟨st1, h1, h2⟩ := modifyNamed_closed hwf h hop.1 (if d.east then step else -step)
    obtain ⟨st2, h3, h4⟩ := modifyNamed_closed hwf h2 hop.2 (if d.north then step else -step)
    exact ⟨st2, by simp [modifyOp, h1, h3], h4⟩
  | several b =>
    exact modifyMany_closed hwf _ _ st h (drawn_mem hwf.ne _ _)

/-- what an operator does on a valid configuration: the controllers are set to it, modified,
and read back -/
theorem applyOp_char {sp : Space} (hwf : SpaceWF sp) (st : St) (op : Op) {cfg : Config}
    (hv : ValidCfg sp cfg) (step : Int) (choices : List Nat) :
    ∃ sA, currentSels sp sA = cfg ∧ InRange sp sA ∧
      applyOp sp st op cfg step choices =
        match modifyOp sp sA op step choices with
        | .error e => .error e
        | .ok st2 => .ok (st2, currentSels sp st2, retOf sp op step) := by
  obtain ⟨sA, h1, h2, h3⟩ := setConfiguration_valid hwf st hv
  refine ⟨sA, h2, h3, ?_⟩
  unfold applyOp
  rw [h1]
  dsimp only
  cases modifyOp sp sA op step choices with
  | error e => rfl
  | ok st2 => simp [getConfiguration_ok hwf st2]

/-- **closure**: every operator maps a valid configuration to a valid configuration, for
every step in ℤ and every recorded outcome of the random choices -/
theorem applyOp_closed {sp : Space} (hwf : SpaceWF sp) (st : St) (op : Op)
    (hop : OpNamesIn sp op) {cfg : Config} (hv : ValidCfg sp cfg) (step : Int)
    (choices : List Nat) :
    ∃ st' cfg', applyOp sp st op cfg step choices = .ok (st', cfg', retOf sp op step) ∧
      ValidCfg sp cfg' := by
  obtain ⟨sA, _, h2, h3⟩ := applyOp_char hwf st op hv step choices
  obtain ⟨st2, h4, h5⟩ := modifyOp_closed hwf h2 op hop step choices
  rw [h4] at h3
  exact ⟨st2, currentSels sp st2, h3, currentSels_valid sp st2 h5⟩

theorem runOps_closed {sp : Space} (hwf : SpaceWF sp) :
    ∀ (h : List (Op × Int × List Nat)) (st : St) (cfg : Config), ValidCfg sp cfg →
      (∀ x ∈ h, OpNamesIn sp x.1) →
      ∃ st' cfg', runOps sp st cfg h = .ok (st', cfg') ∧ ValidCfg sp cfg'
  | [], st, cfg, hv, _ => ⟨st, cfg, rfl, hv⟩
  | (op, step, ch) :: t, st, cfg, hv, hops => by
    obtain ⟨st1, cfg1, h1, h2⟩ := applyOp_closed hwf st op (hops _ (List.mem_cons_self)) hv step ch
    obtain ⟨st2, cfg2, h3, h4⟩ := runOps_closed hwf t st1 cfg1 h2
      (fun x hx => hops x (List.mem_cons_of_mem _ hx))
    exact ⟨st2, cfg2, by simp [runOps, h1, h3], h4⟩

/-- modifying one controller by `k` then by `-k` gives back the index -/
theorem emod_back (a : Nat) (k : Int) (n : Nat) (ha : a < n) :
    (((((a : Int) + k) % (n : Int)).toNat : Int) + -k) % (n : Int) = (a : Int) := by
  have h1 : 0 ≤ ((a : Int) + k) % (n : Int) := Int.emod_nonneg _ (by omega)
  rw [Int.toNat_of_nonneg h1, Int.emod_add_emod]
  have : (a : Int) + k + -k = (a : Int) := by omega
  rw [this]
  exact Int.emod_eq_of_lt (by omega) (by omega)

/-- modify controller `c` by `k` from a valid configuration, then by `-k` from the result:
back to the start -/
theorem modify_back {sp : Space} (hwf : SpaceWF sp) {c : Controller} (hc : c ∈ sp)
    {cfg cfg1 cfg2 : Config} (k : Int) (st1 st2 : St)
    (h1 : ∃ sA, currentSels sp sA = cfg ∧ InRange sp sA ∧ modifyNamed sp sA c.name k = .ok st1)
    (hc1 : cfg1 = currentSels sp st1)
    (h2 : ∃ sB, currentSels sp sB = cfg1 ∧ InRange sp sB ∧ modifyNamed sp sB c.name (-k) = .ok st2)
    (hc2 : cfg2 = currentSels sp st2) : cfg2 = cfg := by
  obtain ⟨sA, a1, a2, a3⟩ := h1
  obtain ⟨sB, b1, b2, b3⟩ := h2
  have hn := names_nodup hwf.sorted
  have hpos : 0 < c.size := List.length_pos_iff.mpr (hwf.specs_ne c hc)
  rw [modifyNamed_ok hwf hc] at a3 b3
  cases a3
  cases b3
  have hr1 : InRange sp (sA.set c.name (((sA c.name : Int) + k) % (c.size : Int)).toNat) :=
    inRange_set hn a2 hc (emod_toNat_lt _ _ hpos)
  have hag : Agree sp sB (sA.set c.name (((sA c.name : Int) + k) % (c.size : Int)).toNat) :=
    currentSels_inj sp _ _ hwf.specs_nodup b2 hr1 (b1.trans hc1)
  have hB : sB c.name = (((sA c.name : Int) + k) % (c.size : Int)).toNat := by
    rw [hag c hc]; simp [St.set]
  rw [hc2, ← a1]
  apply currentSels_congr
  intro d hd
  by_cases e : d.name = c.name
  · rw [e]
    simp only [St.set, if_true]
    rw [hB, emod_back (sA c.name) k c.size (a2 c hc)]
    simp
  · simp only [St.set, e, if_false]
    have := hag d hd
    simp only [St.set, e, if_false] at this
    exact this

/-- the iterator: configuring every configuration of a list of valid configurations and
reading the configuration back visits exactly that list, in order -/
theorem iterVisited_valid {sp : Space} (hwf : SpaceWF sp) :
    ∀ (l : List Config) (st : St), (∀ cfg ∈ l, ValidCfg sp cfg) → iterVisited sp st l = .ok l
  | [], _, _ => rfl
  | cfg :: t, st, h => by
    obtain ⟨st', h1, h2, _⟩ := setConfiguration_valid hwf st (h cfg (List.mem_cons_self))
    have h3 := iterVisited_valid hwf t st' (fun c hc => h c (List.mem_cons_of_mem _ hc))
    simp [iterVisited, h1, getConfiguration_ok hwf st', h2, h3]

theorem getSelection_currentSels : ∀ (sp : Space) (st : St) (c : Controller),
    (sp.map Controller.name).Nodup → c ∈ sp →
    getSelection (currentSels sp st) c.name = some (c.specs.getD (st c.name) [])
  | [], _, _, _, h => by cases h
  | d :: t, st, c, hn, hc => by
    rw [List.map_cons, List.nodup_cons] at hn
    show getSelection ((d.name, d.specs.getD (st d.name) []) :: currentSels t st) c.name = _
    unfold getSelection
    rcases List.mem_cons.mp hc with rfl | hc
    · simp
    · have : d.name ≠ c.name := fun e => hn.1 (e ▸ List.mem_map_of_mem hc)
      simp only [this, if_false]
      exact getSelection_currentSels t st c hn.2 hc

/-! ### the operators are functions of the configuration they are given -/

/-- two outcomes that raise the same error, or succeed with states that agree on the space -/
def ExAgree (sp : Space) : Except Err St → Except Err St → Prop
  | .error e, .error e' => e = e'
  | .ok s, .ok s' => Agree sp s s'
  | _, _ => False

theorem agree_set {sp : Space} {st st' : St} (h : Agree sp st st') (n : Name) (i : Nat) :
    Agree sp (st.set n i) (st'.set n i) := by
  intro c hc
  simp only [St.set]
  split
  · rfl
  · exact h c hc

theorem modifyNamed_congr {sp : Space} {st st' : St} (h : Agree sp st st') (n : Name) (k : Int) :
    ExAgree sp (modifyNamed sp st n k) (modifyNamed sp st' n k) := by
  unfold modifyNamed
  cases hf : findCtrl sp n with
  | none => exact rfl
  | some c =>
    obtain ⟨hc, hn⟩ := findCtrl_some sp n c hf
    have e : st n = st' n := by rw [← hn]; exact h c hc
    dsimp only
    rw [e]
    cases modifyController c (st' n) k true with
    | error er => exact rfl
    | ok p => exact agree_set h n p.1

theorem modifyMany_congr {sp : Space} (delta : Int) : ∀ (l : List Name) (st st' : St),
    Agree sp st st' → ExAgree sp (modifyMany sp delta st l) (modifyMany sp delta st' l)
  | [], _, _, h => h
  | n :: t, st, st', h => by
    have h1 := modifyNamed_congr h n delta
    unfold modifyMany
    cases ha : modifyNamed sp st n delta with
    | error e =>
      cases hb : modifyNamed sp st' n delta with
      | error e' => rw [ha, hb] at h1; exact h1
      | ok s' => rw [ha, hb] at h1; exact h1.elim
    | ok s =>
      cases hb : modifyNamed sp st' n delta with
      | error e' => rw [ha, hb] at h1; exact h1.elim
      | ok s' =>
        rw [ha, hb] at h1
        exact modifyMany_congr delta t s s' h1

theorem modifyOp_congr {sp : Space} {st st' : St} (h : Agree sp st st') (op : Op) (k : Int)
    (ch : List Nat) : ExAgree sp (modifyOp sp st op k ch) (modifyOp sp st' op k ch) := by
  cases op with
  | increase n => exact modifyNamed_congr h n k
  | decrease n => exact modifyNamed_congr h n (-k)
  | several b => exact modifyMany_congr _ _ st st' h
  | pair n1 n2 d =>
    have h1 := modifyNamed_congr h n1 (if d.east then k else -k)
    cases ha : modifyNamed sp st n1 (if d.east then k else -k) with
    | error e =>
      cases hb : modifyNamed sp st' n1 (if d.east then k else -k) with
      | error e' => rw [ha, hb] at h1; simp only [modifyOp, ha, hb]; exact h1
      | ok s' => rw [ha, hb] at h1; exact h1.elim
    | ok s =>
      cases hb : modifyNamed sp st' n1 (if d.east then k else -k) with
      | error e' => rw [ha, hb] at h1; exact h1.elim
      | ok s' =>
        rw [ha, hb] at h1
        simp only [modifyOp, ha, hb]
        exact modifyNamed_congr h1 n2 _

/-- **the result of an operator does not depend on the state the controllers were left in**:
what is returned (configuration and number), or the error, is the same from any two states -/
theorem applyOp_state_independent {sp : Space} (hwf : SpaceWF sp) (op : Op) {cfg : Config}
    (hv : ValidCfg sp cfg) (k : Int) (ch : List Nat) (st st' : St) :
    (applyOp sp st op cfg k ch).map (fun r => r.2) = (applyOp sp st' op cfg k ch).map (fun r => r.2) := by
  obtain ⟨sA, a1, a2, a3⟩ := applyOp_char hwf st op hv k ch
  obtain ⟨sB, b1, b2, b3⟩ := applyOp_char hwf st' op hv k ch
  have hag : Agree sp sA sB := currentSels_inj sp sA sB hwf.specs_nodup a2 b2 (a1.trans b1.symm)
  have hm := modifyOp_congr hag op k ch
  rw [a3, b3]
  cases ha : modifyOp sp sA op k ch with
  | error e =>
    cases hb : modifyOp sp sB op k ch with
    | error e' => rw [ha, hb] at hm; cases hm; rfl
    | ok s' => rw [ha, hb] at hm; exact hm.elim
  | ok s =>
    cases hb : modifyOp sp sB op k ch with
    | error e' => rw [ha, hb] at hm; exact hm.elim
    | ok s' =>
      rw [ha, hb] at hm
      show Except.ok (currentSels sp s, retOf sp op k) = Except.ok (currentSels sp s', retOf sp op k)
      rw [currentSels_congr sp s s' hm]

/-- what a pair move does on a valid configuration, explicitly: from the state `sA` that shows
the configuration, the first controller moves by ±k, then the second by ±k (wrap-around) -/
theorem applyOp_pair {sp : Space} (hwf : SpaceWF sp) (st : St) {c1 c2 : Controller}
    (h1 : c1 ∈ sp) (h2 : c2 ∈ sp) (d : Dir) {cfg : Config} (hv : ValidCfg sp cfg) (k : Int)
    (ch : List Nat) :
    ∃ sA, currentSels sp sA = cfg ∧ InRange sp sA ∧
      ∃ s1 s2, s1 = sA.set c1.name ((((sA c1.name : Nat) : Int) + (if d.east then k else -k)) % (c1.size : Int)).toNat ∧
        s2 = s1.set c2.name ((((s1 c2.name : Nat) : Int) + (if d.north then k else -k)) % (c2.size : Int)).toNat ∧
        InRange sp s2 ∧
        applyOp sp st (.pair c1.name c2.name d) cfg k ch = .ok (s2, currentSels sp s2, k) := by
  obtain ⟨sA, a1, a2, a3⟩ := applyOp_char hwf st (.pair c1.name c2.name d) hv k ch
  have hn := names_nodup hwf.sorted
  have p1 : 0 < c1.size := List.length_pos_iff.mpr (hwf.specs_ne c1 h1)
  have p2 : 0 < c2.size := List.length_pos_iff.mpr (hwf.specs_ne c2 h2)
  refine ⟨sA, a1, a2, _, _, rfl, rfl, ?_, ?_⟩
  · exact inRange_set hn (inRange_set hn a2 h1 (emod_toNat_lt _ _ p1)) h2 (emod_toNat_lt _ _ p2)
  · rw [a3]
    simp only [modifyOp, modifyNamed_ok hwf h1, modifyNamed_ok hwf h2, retOf]

/-- a pair move followed by the opposite pair move with the same step gives back the
configuration (two different controllers; whatever the states in between) -/
theorem pair_back {sp : Space} (hwf : SpaceWF sp) {c1 c2 : Controller} (h1 : c1 ∈ sp)
    (h2 : c2 ∈ sp) (hne : c1.name ≠ c2.name) (d : Dir) {cfg : Config} (hv : ValidCfg sp cfg)
    (k : Int) (st st' : St) (ch ch' : List Nat) :
    ∃ st₁ cfg₁ st₂, applyOp sp st (.pair c1.name c2.name d) cfg k ch = .ok (st₁, cfg₁, k) ∧
      ValidCfg sp cfg₁ ∧
      applyOp sp st' (.pair c1.name c2.name d.opposite) cfg₁ k ch' = .ok (st₂, cfg, k) := by
  obtain ⟨sA, a1, a2, s1, s2, e1, e2, r2, a3⟩ := applyOp_pair hwf st h1 h2 d hv k ch
  have hv1 : ValidCfg sp (currentSels sp s2) := currentSels_valid sp s2 r2
  obtain ⟨sB, b1, b2, t1, t2, f1, f2, _, b3⟩ := applyOp_pair hwf st' h1 h2 d.opposite hv1 k ch'
  refine ⟨s2, currentSels sp s2, t2, a3, hv1, ?_⟩
  rw [b3, ← a1]
  have hag : Agree sp sB s2 := currentSels_inj sp sB s2 hwf.specs_nodup b2 r2 b1
  have hne' : c2.name ≠ c1.name := fun e => hne e.symm
  have oe : (if d.opposite.east then k else -k) = -(if d.east then k else -k) := by
    cases d <;> simp [Dir.opposite, Dir.east]
  have on : (if d.opposite.north then k else -k) = -(if d.north then k else -k) := by
    cases d <;> simp [Dir.opposite, Dir.north]
  -- the indices of the two controllers in the intermediate state
  have s2c1 : s2 c1.name = ((((sA c1.name : Nat) : Int) + (if d.east then k else -k)) % (c1.size : Int)).toNat := by
    rw [e2, e1]; simp [St.set, hne]
  have s1c2 : s1 c2.name = sA c2.name := by rw [e1]; simp [St.set, hne']
  have s2c2 : s2 c2.name = ((((sA c2.name : Nat) : Int) + (if d.north then k else -k)) % (c2.size : Int)).toNat := by
    rw [e2, s1c2]; simp [St.set]
  have t1c1 : t1 c1.name = sA c1.name := by
    rw [f1]
    simp only [St.set, if_true]
    rw [hag c1 h1, s2c1, oe]
    have := emod_back (sA c1.name) (if d.east then k else -k) c1.size (a2 c1 h1)
    rw [this]; simp
  have t1c2 : t1 c2.name = s2 c2.name := by
    rw [f1]; simp only [St.set, hne', if_false]; exact hag c2 h2
  have t2c2 : t2 c2.name = sA c2.name := by
    rw [f2]
    simp only [St.set, if_true]
    rw [t1c2, s2c2, on]
    have := emod_back (sA c2.name) (if d.north then k else -k) c2.size (a2 c2 h2)
    rw [this]; simp
  have : currentSels sp t2 = currentSels sp sA := by
    apply currentSels_congr
    intro x hx
    by_cases x2 : x.name = c2.name
    · rw [x2]; exact t2c2
    · by_cases x1 : x.name = c1.name
      · rw [f2]; simp only [St.set, x2, if_false]; rw [x1]; exact t1c1
      · rw [f2, f1]; simp only [St.set, x2, x1, if_false]
        have := hag x hx
        rw [e2, e1] at this
        simp only [St.set, x2, x1, if_false] at this
        exact this
  rw [this]

/-- a controller the operator does not name keeps the alternative it has in the
configuration passed to the operator -/
theorem applyOp_others {sp : Space} (hwf : SpaceWF sp) (st : St) (op : Op) {cfg : Config}
    (hv : ValidCfg sp cfg) (k : Int) (ch : List Nat) (st' : St) (cfg' : Config) (r : Int)
    (h : applyOp sp st op cfg k ch = .ok (st', cfg', r)) (x : Controller) (hx : x ∈ sp)
    (hnot : match op with
      | .increase n => x.name ≠ n
      | .decrease n => x.name ≠ n
      | .pair n1 n2 _ => x.name ≠ n1 ∧ x.name ≠ n2
      | .several _ => x.name ∉ drawn sp (min k (sp.length : Int)) ch) :
    getSelection cfg' x.name = getSelection cfg x.name := by
  obtain ⟨sA, a1, _, a3⟩ := applyOp_char hwf st op hv k ch
  have hn := names_nodup hwf.sorted
  rw [a3] at h
  -- modifying a named controller leaves the index of every other name alone
  have named : ∀ (s s' : St) (n : Name) (j : Int), modifyNamed sp s n j = .ok s' → x.name ≠ n →
      s' x.name = s x.name := by
    intro s s' n j hm hxn
    unfold modifyNamed at hm
    split at hm
    · cases hm
    · split at hm
      · cases hm
      · cases hm
        simp [St.set, hxn]
  have many : ∀ (delta : Int) (l : List Name) (s s' : St), modifyMany sp delta s l = .ok s' →
      x.name ∉ l → s' x.name = s x.name := by
    intro delta l
    induction l with
    | nil => intro s s' hm _; cases hm; rfl
    | cons n t ih =>
      intro s s' hm hxl
      simp only [modifyMany] at hm
      cases h1 : modifyNamed sp s n delta with
      | error e => rw [h1] at hm; cases hm
      | ok s1 =>
        rw [h1] at hm
        rw [ih s1 s' hm (fun e => hxl (List.mem_cons_of_mem _ e)),
          named s s1 n _ h1 (fun e => hxl (e ▸ List.mem_cons_self))]
  have key : ∀ s2, modifyOp sp sA op k ch = .ok s2 → s2 x.name = sA x.name := by
    intro s2 hm
    cases op with
    | increase n => exact named sA s2 n k hm hnot
    | decrease n => exact named sA s2 n (-k) hm hnot
    | pair n1 n2 d =>
      simp only [modifyOp] at hm
      cases h1 : modifyNamed sp sA n1 (if d.east then k else -k) with
      | error e => rw [h1] at hm; cases hm
      | ok s1 =>
        rw [h1] at hm
        rw [named s1 s2 n2 _ hm hnot.2, named sA s1 n1 _ h1 hnot.1]
    | several b =>
      simp only [modifyOp] at hm
      exact many _ _ sA s2 hm hnot
  cases hm : modifyOp sp sA op k ch with
  | error e => rw [hm] at h; cases h
  | ok s2 =>
    rw [hm] at h
    cases h
    rw [← a1, getSelection_currentSels sp st' x hn hx, getSelection_currentSels sp sA x hn hx,
      key st' hm]

/-! ### a population of configurations (operators interleaved with other operations) -/

def PopValid (sp : Space) (pop : List Config) : Prop := ∀ c ∈ pop, ValidCfg sp c

/-- the operators used by the events name controllers of the space -/
def EvOK (sp : Space) : Event → Prop
  | .apply o _ _ _ _ => OpNamesIn sp o
  | _ => True

theorem mem_setMember : ∀ (pop : List Config) (k : Nat) (c x : Config),
    x ∈ setMember pop k c → x ∈ pop ∨ x = c
  | [], _, _, _, h => by cases h
  | _ :: t, 0, c, x, h => by
    rcases List.mem_cons.mp h with h | h
    · exact Or.inr h
    · exact Or.inl (List.mem_cons_of_mem _ h)
  | a :: t, k + 1, c, x, h => by
    rcases List.mem_cons.mp h with h | h
    · exact Or.inl (h ▸ List.mem_cons_self)
    · rcases mem_setMember t k c x h with h | h
      · exact Or.inl (List.mem_cons_of_mem _ h)
      · exact Or.inr h

def Event.isApply : Event → Bool
  | .apply .. => true
  | _ => false

/-- one event keeps the members valid; an operator call gives the same members from any
other state of the controllers, the other operations do not touch the members -/
theorem stepEvent_spec {sp : Space} (hwf : SpaceWF sp) {st : St} {pop : List Config}
    (hp : PopValid sp pop) (ev : Event) (hev : EvOK sp ev) {st1 : St} {pop1 : List Config}
    {oc : Option Config} {oi : Option Int} (h : stepEvent sp st pop ev = .ok (st1, pop1, oc, oi)) :
    PopValid sp pop1 ∧
    (ev.isApply = true → ∀ st', ∃ st1', stepEvent sp st' pop ev = .ok (st1', pop1, oc, oi)) ∧
    (ev.isApply = false → pop1 = pop) := by
  cases ev with
  | apply o k ch src dst =>
    simp only [stepEvent] at h
    cases hs : pop[src]? with
    | none => rw [hs] at h; cases h
    | some cfg =>
      rw [hs] at h
      have hv : ValidCfg sp cfg := hp cfg (List.mem_of_getElem? hs)
      obtain ⟨sa, ca, ha, hva⟩ := applyOp_closed hwf st o hev hv k ch
      dsimp only at h
      rw [ha] at h
      cases h
      refine ⟨?_, ?_, fun e => (by cases e)⟩
      · intro x hx
        rcases mem_setMember pop dst ca x hx with hx | hx
        · exact hp x hx
        · rw [hx]; exact hva
      · intro _ st'
        obtain ⟨sb, cb, hb, _⟩ := applyOp_closed hwf st' o hev hv k ch
        have hi := applyOp_state_independent hwf o hv k ch st st'
        rw [ha, hb] at hi
        have hcb : ca = cb := by
          have := Except.ok.inj hi
          exact (Prod.mk.inj this).1
        subst hcb
        refine ⟨sb, ?_⟩
        simp only [stepEvent, hs, hb]
  | configure cfg =>
    simp only [stepEvent] at h
    cases hs : setConfiguration sp st cfg with
    | error e => rw [hs] at h; cases h
    | ok s => rw [hs] at h; cases h; exact ⟨hp, fun e => (by cases e), fun _ => rfl⟩
  | setCtrl n i =>
    simp only [stepEvent] at h
    cases hs : setController sp st n i with
    | error e => rw [hs] at h; cases h
    | ok s => rw [hs] at h; cases h; exact ⟨hp, fun e => (by cases e), fun _ => rfl⟩
  | modifyCtrl n k c =>
    simp only [stepEvent] at h
    cases hf : findCtrl sp n with
    | none => rw [hf] at h; cases h
    | some ctrl =>
      rw [hf] at h
      dsimp only at h
      cases hs : modifyController ctrl (st n) k c with
      | error e => rw [hs] at h; cases h
      | ok r => rw [hs] at h; cases h; exact ⟨hp, fun e => (by cases e), fun _ => rfl⟩

/-- **population histories**: whatever is done to the expression between the operator calls
(configuring it, selecting alternatives, moving controllers, iterating) and whatever state it
starts in, the members of the population stay valid and are exactly those obtained by the
operator calls alone from any other state -/
theorem runEvents_spec {sp : Space} (hwf : SpaceWF sp) :
    ∀ (evs : List Event) (st : St) (pop : List Config) (stE : St) (popE : List Config),
      PopValid sp pop → (∀ ev ∈ evs, EvOK sp ev) → runEvents sp st pop evs = .ok (stE, popE) →
      PopValid sp popE ∧ ∀ st', ∃ stE', runEvents sp st' pop (onlyApplies evs) = .ok (stE', popE)
  | [], st, pop, stE, popE, hp, _, h => by
    cases h
    exact ⟨hp, fun st' => ⟨st', rfl⟩⟩
  | ev :: t, st, pop, stE, popE, hp, hev, h => by
    simp only [runEvents] at h
    cases hs : stepEvent sp st pop ev with
    | error e => rw [hs] at h; cases h
    | ok r =>
      obtain ⟨st1, pop1, oc, oi⟩ := r
      rw [hs] at h
      dsimp only at h
      obtain ⟨hp1, hA, hN⟩ := stepEvent_spec hwf hp ev (hev ev List.mem_cons_self) hs
      obtain ⟨hpE, hind⟩ := runEvents_spec hwf t st1 pop1 stE popE hp1
        (fun x hx => hev x (List.mem_cons_of_mem _ hx)) h
      refine ⟨hpE, fun st' => ?_⟩
      cases ev with
      | apply o k ch src dst =>
        obtain ⟨st1', h1'⟩ := hA rfl st'
        obtain ⟨stE', hE'⟩ := hind st1'
        refine ⟨stE', ?_⟩
        simp only [onlyApplies, runEvents, h1']
        exact hE'
      | configure cfg => rw [hN rfl] at hind; exact hind st'
      | setCtrl n i => rw [hN rfl] at hind; exact hind st'
      | modifyCtrl n k c => rw [hN rfl] at hind; exact hind st'

/-! ### expressions with catalogs -/

mutual
  /-- delegation to the member at the controller's index = the member named by the
  configuration, at every depth -/
  theorem Expr.select_eq_hand {sp : Space} (hn : (sp.map Controller.name).Nodup)
      (hnd : ∀ c ∈ sp, c.specs.Nodup) (st : St) (hr : InRange sp st) :
      ∀ e : Expr, e.okFor sp = true → e.select st = e.hand (currentSels sp st)
    | .num _, _ => rfl
    | .beta _, _ => rfl
    | .var _, _ => rfl
    | .neg a, h => by
      simp only [Expr.okFor] at h
      simp only [Expr.select, Expr.hand, Expr.select_eq_hand hn hnd st hr a h]
    | .bin _ a b, h => by
      simp only [Expr.okFor, Bool.and_eq_true] at h
      simp only [Expr.select, Expr.hand, Expr.select_eq_hand hn hnd st hr a h.1,
        Expr.select_eq_hand hn hnd st hr b h.2]
    | .cat _ c ms, h => by
      simp only [Expr.okFor, Bool.and_eq_true, beq_iff_eq] at h
      obtain ⟨hf, hms⟩ := h
      have hmem := (findCtrl_some sp c _ hf).1
      have hsel := getSelection_currentSels sp st ⟨c, ms.names⟩ hn hmem
      have hlt : st c < ms.names.length := hr ⟨c, ms.names⟩ hmem
      simp only at hsel
      simp only [Expr.select, Expr.hand, hsel]
      exact Members.select_eq_hand hn hnd st hr ms hms (st c) (hnd _ hmem) hlt
  theorem Members.select_eq_hand {sp : Space} (hn : (sp.map Controller.name).Nodup)
      (hnd : ∀ c ∈ sp, c.specs.Nodup) (st : St) (hr : InRange sp st) :
      ∀ ms : Members, ms.okFor sp = true → ∀ k, ms.names.Nodup → k < ms.names.length →
        ms.selectNth st k = ms.handNamed (currentSels sp st) (ms.names.getD k [])
    | .nil, _, _, _, hk => by simp [Members.names] at hk
    | .cons n e t, h, k, hnod, hk => by
      simp only [Members.okFor, Bool.and_eq_true] at h
      simp only [Members.names, List.nodup_cons] at hnod
      cases k with
      | zero =>
        simp only [Members.selectNth, Members.names, List.getD_cons_zero, Members.handNamed,
          if_true]
        exact Expr.select_eq_hand hn hnd st hr e h.1
      | succ k =>
        have hk' : k < t.names.length := by simpa [Members.names] using hk
        have hne : n ≠ t.names.getD k [] := fun e' => hnod.1 (e' ▸ getD_mem _ _ hk')
        simp only [Members.selectNth, Members.names, List.getD_cons_succ, Members.handNamed, hne,
          if_false]
        exact Members.select_eq_hand hn hnd st hr t h.2 k hnod.2 hk'
end

mutual
  /-- the hand-written formula contains no catalog -/
  theorem Expr.hand_plain (cfg : Config) :
      ∀ (e e' : Expr), e.hand cfg = some e' → e'.plain = true
    | .num _, e', h => by simp only [Expr.hand, Option.some.injEq] at h; subst h; rfl
    | .beta _, e', h => by simp only [Expr.hand, Option.some.injEq] at h; subst h; rfl
    | .var _, e', h => by simp only [Expr.hand, Option.some.injEq] at h; subst h; rfl
    | .neg a, e', h => by
      simp only [Expr.hand, Option.map_eq_some_iff] at h
      obtain ⟨a', ha, rfl⟩ := h
      exact Expr.hand_plain cfg a a' ha
    | .bin _ a b, e', h => by
      simp only [Expr.hand] at h
      split at h
      · rename_i a' b' ha hb
        cases h
        simp [Expr.plain, Expr.hand_plain cfg a a' ha, Expr.hand_plain cfg b b' hb]
      · cases h
    | .cat _ c ms, e', h => by
      simp only [Expr.hand] at h
      split at h
      · cases h
      · rename_i v _
        exact Members.hand_plain cfg ms v e' h
  theorem Members.hand_plain (cfg : Config) :
      ∀ (ms : Members) (v : Name) (e' : Expr), ms.handNamed cfg v = some e' → e'.plain = true
    | .nil, _, _, h => by simp [Members.handNamed] at h
    | .cons n e t, v, e', h => by
      simp only [Members.handNamed] at h
      split at h
      · exact Expr.hand_plain cfg e e' h
      · exact Members.hand_plain cfg t v e' h
end

mutual
  /-- evaluating with delegation = evaluating the selected plain formula -/
  theorem Expr.evSel_eq (st : St) (env : Env) :
      ∀ e : Expr, e.evSel st env = (e.select st).bind (·.ev env)
    | .num _ => rfl
    | .beta _ => rfl
    | .var _ => rfl
    | .neg a => by
      simp only [Expr.evSel, Expr.select, Expr.evSel_eq st env a]
      cases a.select st <;> simp [Expr.ev]
    | .bin _ a b => by
      simp only [Expr.evSel, Expr.select, Expr.evSel_eq st env a, Expr.evSel_eq st env b]
      cases a.select st <;> cases b.select st <;> simp [Expr.ev]
    | .cat _ c ms => by
      simp only [Expr.evSel, Expr.select]
      exact Members.evNth_eq st env ms (st c)
  theorem Members.evNth_eq (st : St) (env : Env) :
      ∀ (ms : Members) (k : Nat), ms.evNth st env k = (ms.selectNth st k).bind (·.ev env)
    | .nil, _ => rfl
    | .cons _ e _, 0 => by simp only [Members.evNth, Members.selectNth]; exact Expr.evSel_eq st env e
    | .cons _ _ t, k + 1 => by
      simp only [Members.evNth, Members.selectNth]; exact Members.evNth_eq st env t k
end

/-! ### the space of an expression is well formed and governs all its catalogs -/

theorem findCtrl_none {sp : Space} {n : Name} (h : findCtrl sp n = none) :
    n ∉ sp.map Controller.name := by
  intro hm
  obtain ⟨c, hc⟩ := findCtrl_name_mem sp n hm
  rw [h] at hc
  cases hc

theorem mergeCtrls_spec : ∀ (l acc r : List Controller), mergeCtrls l acc = .ok r →
    (acc.map Controller.name).Nodup →
    (r.map Controller.name).Nodup ∧ (∀ c ∈ acc, c ∈ r) ∧ (∀ c ∈ l, c ∈ r) ∧
      (∀ c ∈ r, c ∈ acc ∨ c ∈ l)
  | [], acc, r, h, hn => by
    simp only [mergeCtrls, Except.ok.injEq] at h
    subst h
    exact ⟨hn, fun _ h => h, fun _ h => (by cases h), fun _ h => Or.inl h⟩
  | c :: t, acc, r, h, hn => by
    unfold mergeCtrls at h
    split at h
    · rename_i c' hf
      split at h
      · rename_i hcc
        subst hcc
        obtain ⟨h1, h2, h3, h4⟩ := mergeCtrls_spec t acc r h hn
        refine ⟨h1, h2, ?_, ?_⟩
        · intro d hd
          rcases List.mem_cons.mp hd with rfl | hd
          · exact h2 _ (findCtrl_some acc _ _ hf).1
          · exact h3 d hd
        · intro d hd
          rcases h4 d hd with h | h
          · exact Or.inl h
          · exact Or.inr (List.mem_cons_of_mem _ h)
      · cases h
    · rename_i hf
      have hn' : ((acc ++ [c]).map Controller.name).Nodup := by
        rw [List.map_append, List.nodup_append]
        refine ⟨hn, by simp, ?_⟩
        intro a ha b hb
        simp only [List.map_cons, List.map_nil, List.mem_singleton] at hb
        subst hb
        exact fun e => findCtrl_none hf (e ▸ ha)
      obtain ⟨h1, h2, h3, h4⟩ := mergeCtrls_spec t (acc ++ [c]) r h hn'
      refine ⟨h1, fun d hd => h2 d (List.mem_append_left _ hd), ?_, ?_⟩
      · intro d hd
        rcases List.mem_cons.mp hd with rfl | hd
        · exact h2 _ (List.mem_append_right _ (List.mem_singleton.mpr rfl))
        · exact h3 d hd
      · intro d hd
        rcases h4 d hd with h | h
        · rcases List.mem_append.mp h with h | h
          · exact Or.inl h
          · exact Or.inr (by rw [List.mem_singleton.mp h]; exact List.mem_cons_self)
        · exact Or.inr (List.mem_cons_of_mem _ h)

theorem hasDup_false_iff : ∀ l : List Name, hasDup l = false ↔ l.Nodup
  | [] => by simp [hasDup]
  | a :: t => by
    simp only [hasDup, Bool.or_eq_false_iff, List.nodup_cons, hasDup_false_iff t]
    constructor
    · rintro ⟨h1, h2⟩
      refine ⟨fun hm => ?_, h2⟩
      rw [List.contains_iff_mem.mpr hm] at h1
      cases h1
    · rintro ⟨h1, h2⟩
      refine ⟨?_, h2⟩
      cases hc : t.contains a with
      | false => rfl
      | true => exact absurd (List.contains_iff_mem.mp hc) h1

theorem checkCtrls_spec : ∀ (l : List Controller), checkCtrls l = .ok () →
    ∀ c ∈ l, c.specs ≠ [] ∧ c.specs.Nodup ∧ NameOK c.name ∧ ∀ s ∈ c.specs, NameOK s
  | [], _, _, hc => by cases hc
  | d :: t, h, c, hc => by
    unfold checkCtrls at h
    split at h
    · cases h
    · rename_i hne
      split at h
      · cases h
      · rename_i x hmk
        rcases List.mem_cons.mp hc with rfl | hc
        · unfold mkController at hmk
          split at hmk
          · cases hmk
          · rename_i hok
            split at hmk
            · cases hmk
            · rename_i hdup
              simp only [Bool.not_eq_true, Bool.not_eq_false', Bool.and_eq_true] at hok
              simp only [Bool.not_eq_true] at hdup
              refine ⟨?_, (hasDup_false_iff _).mp hdup, (nameOK_iff _).mp hok.1, ?_⟩
              · intro e
                rw [e] at hne
                simp at hne
              · intro s hs
                exact (nameOK_iff _).mp (List.all_eq_true.mp hok.2 s hs)
        · exact checkCtrls_spec t h c hc

theorem sorted_strict {l : List Controller} (hn : (l.map Controller.name).Nodup) :
    List.Pairwise (fun c d : Controller => ltName c.name d.name) (sortCtrls l) := by
  have hs : List.Pairwise (leBy Controller.name) (sortCtrls l) := sortBy_sorted _ l
  have hp : (sortCtrls l).Perm l := sortBy_perm _ l
  have hn' : ((sortCtrls l).map Controller.name).Nodup := (hp.map _).nodup_iff.mpr hn
  unfold List.Nodup at hn'
  rw [List.pairwise_map] at hn'
  have := hs.and hn'
  exact List.Pairwise.imp (fun h => ⟨h.1, h.2⟩) this

mutual
  theorem Expr.okFor_of_ctrls (sp : Space) :
      ∀ e : Expr, (∀ c ∈ e.ctrls, findCtrl sp c.name = some c) → e.okFor sp = true
    | .num _, _ => rfl
    | .beta _, _ => rfl
    | .var _, _ => rfl
    | .neg a, h => by
      simp only [Expr.okFor]
      exact Expr.okFor_of_ctrls sp a (by simpa [Expr.ctrls] using h)
    | .bin _ a b, h => by
      simp only [Expr.okFor, Bool.and_eq_true]
      simp only [Expr.ctrls, List.mem_append] at h
      exact ⟨Expr.okFor_of_ctrls sp a (fun c hc => h c (Or.inl hc)),
        Expr.okFor_of_ctrls sp b (fun c hc => h c (Or.inr hc))⟩
    | .cat _ c ms, h => by
      simp only [Expr.okFor, Bool.and_eq_true, beq_iff_eq]
      simp only [Expr.ctrls, List.mem_cons] at h
      exact ⟨h ⟨c, ms.names⟩ (Or.inl rfl),
        Members.okFor_of_ctrls sp ms (fun d hd => h d (Or.inr hd))⟩
  theorem Members.okFor_of_ctrls (sp : Space) :
      ∀ ms : Members, (∀ c ∈ ms.ctrls, findCtrl sp c.name = some c) → ms.okFor sp = true
    | .nil, _ => rfl
    | .cons _ e t, h => by
      simp only [Members.okFor, Bool.and_eq_true]
      simp only [Members.ctrls, List.mem_append] at h
      exact ⟨Expr.okFor_of_ctrls sp e (fun c hc => h c (Or.inl hc)),
        Members.okFor_of_ctrls sp t (fun c hc => h c (Or.inr hc))⟩
end

/-- when `central` accepts an expression, its space is well formed and every catalog of the
expression is governed by a controller of the space with the catalog's member names -/
theorem central_ok {e : Expr} {sp : Space} (h : central e = .ok sp) :
    SpaceWF sp ∧ e.okFor sp = true := by
  unfold central at h
  split at h
  · cases h
  · rename_i l hm
    split at h
    · cases h
    · rename_i hchk
      split at h
      · cases h
      · rename_i hne
        simp only [Except.ok.injEq] at h
        subst h
        obtain ⟨hnod, _, hall, _⟩ := mergeCtrls_spec e.ctrls [] l hm (by simp)
        have hp : (sortCtrls l).Perm l := sortBy_perm _ l
        have hspec := checkCtrls_spec l hchk
        have hmem : ∀ c, c ∈ sortCtrls l ↔ c ∈ l := fun c => hp.mem_iff
        have hnod' : ((sortCtrls l).map Controller.name).Nodup := (hp.map _).nodup_iff.mpr hnod
        refine ⟨⟨?_, sorted_strict hnod, ?_, ?_, ?_⟩, ?_⟩
        · intro e'
          have : l = [] := by
            have := hp.length_eq
            rw [e'] at this
            exact List.length_eq_zero_iff.mp this.symm
          rw [this] at hne
          simp at hne
        · exact fun c hc => (hspec c ((hmem c).mp hc)).1
        · exact fun c hc => (hspec c ((hmem c).mp hc)).2.1
        · exact fun c hc => (hspec c ((hmem c).mp hc)).2.2
        · apply Expr.okFor_of_ctrls
          intro c hc
          exact findCtrl_mem _ hnod' c ((hmem c).mpr (hall c hc))

/-! ### further facts used by the property theorems -/

theorem mkConfig_sortedKeys {l : List Sel} {cfg : Config} (h : mkConfig l = .ok cfg) :
    SortedKeys cfg ∧ cfg.Perm l := by
  unfold mkConfig at h
  split at h
  · cases h
  · rename_i hd
    simp only [Except.ok.injEq] at h
    subst h
    have hd' : hasDupKey l = false := by simpa using hd
    have hn : (l.map Prod.fst).Nodup := (hasDupKey_false_iff l).mp hd'
    have hp := sortSels_perm l
    have hn' : ((sortSels l).map Prod.fst).Nodup := (hp.map _).nodup_iff.mpr hn
    unfold List.Nodup at hn'
    rw [List.pairwise_map] at hn'
    refine ⟨?_, hp⟩
    exact List.Pairwise.imp (fun h => ⟨h.1, h.2⟩) ((sortSels_sorted l).and hn')

mutual
  theorem Expr.select_some {sp : Space} (st : St) (hr : InRange sp st) :
      ∀ e : Expr, e.okFor sp = true → ∃ e', e.select st = some e'
    | .num v, _ => ⟨.num v, rfl⟩
    | .beta n, _ => ⟨.beta n, rfl⟩
    | .var n, _ => ⟨.var n, rfl⟩
    | .neg a, h => by
      simp only [Expr.okFor] at h
      obtain ⟨a', ha⟩ := Expr.select_some st hr a h
      exact ⟨.neg a', by simp [Expr.select, ha]⟩
    | .bin op a b, h => by
      simp only [Expr.okFor, Bool.and_eq_true] at h
      obtain ⟨a', ha⟩ := Expr.select_some st hr a h.1
      obtain ⟨b', hb⟩ := Expr.select_some st hr b h.2
      exact ⟨.bin op a' b', by simp [Expr.select, ha, hb]⟩
    | .cat _ c ms, h => by
      simp only [Expr.okFor, Bool.and_eq_true, beq_iff_eq] at h
      have hmem := (findCtrl_some sp c _ h.1).1
      have hlt : st c < ms.names.length := hr ⟨c, ms.names⟩ hmem
      simp only [Expr.select]
      exact Members.select_some st hr ms h.2 (st c) hlt
  theorem Members.select_some {sp : Space} (st : St) (hr : InRange sp st) :
      ∀ ms : Members, ms.okFor sp = true → ∀ k, k < ms.names.length →
        ∃ e', ms.selectNth st k = some e'
    | .nil, _, _, hk => by simp [Members.names] at hk
    | .cons _ e t, h, k, hk => by
      simp only [Members.okFor, Bool.and_eq_true] at h
      cases k with
      | zero => simp only [Members.selectNth]; exact Expr.select_some st hr e h.1
      | succ k =>
        simp only [Members.selectNth]
        exact Members.select_some st hr t h.2 k (by simpa [Members.names] using hk)
end

mutual
  theorem Expr.cats_ok (sp : Space) :
      ∀ e : Expr, e.okFor sp = true → ∀ x ∈ e.cats, findCtrl sp x.2.1 = some ⟨x.2.1, x.2.2.names⟩
    | .num _, _, _, hx => by cases hx
    | .beta _, _, _, hx => by cases hx
    | .var _, _, _, hx => by cases hx
    | .neg a, h, x, hx => by
      simp only [Expr.okFor] at h
      exact Expr.cats_ok sp a h x (by simpa [Expr.cats] using hx)
    | .bin _ a b, h, x, hx => by
      simp only [Expr.okFor, Bool.and_eq_true] at h
      simp only [Expr.cats, List.mem_append] at hx
      rcases hx with hx | hx
      · exact Expr.cats_ok sp a h.1 x hx
      · exact Expr.cats_ok sp b h.2 x hx
    | .cat _ c ms, h, x, hx => by
      simp only [Expr.okFor, Bool.and_eq_true, beq_iff_eq] at h
      simp only [Expr.cats, List.mem_cons] at hx
      rcases hx with rfl | hx
      · exact h.1
      · exact Members.cats_ok sp ms h.2 x hx
  theorem Members.cats_ok (sp : Space) :
      ∀ ms : Members, ms.okFor sp = true → ∀ x ∈ ms.cats,
        findCtrl sp x.2.1 = some ⟨x.2.1, x.2.2.names⟩
    | .nil, _, _, hx => by cases hx
    | .cons _ e t, h, x, hx => by
      simp only [Members.okFor, Bool.and_eq_true] at h
      simp only [Members.cats, List.mem_append] at hx
      rcases hx with hx | hx
      · exact Expr.cats_ok sp e h.1 x hx
      · exact Members.cats_ok sp t h.2 x hx
end

/-! the operators of `prepare_operators` only name controllers of the space -/

theorem opSet_mem : ∀ (d : List (List Char × Op)) (k : List Char) (v : Op) (x : List Char × Op),
    x ∈ opSet d k v → x ∈ d ∨ x.2 = v
  | [], k, v, x, h => by
    simp only [opSet, List.mem_singleton] at h
    exact Or.inr (by rw [h])
  | (k', v') :: t, k, v, x, h => by
    unfold opSet at h
    split at h
    · rcases List.mem_cons.mp h with h | h
      · exact Or.inr (by rw [h])
      · exact Or.inl (List.mem_cons_of_mem _ h)
    · rcases List.mem_cons.mp h with h | h
      · exact Or.inl (by rw [h]; exact List.mem_cons_self)
      · rcases opSet_mem t k v x h with h | h
        · exact Or.inl (List.mem_cons_of_mem _ h)
        · exact Or.inr h

theorem foldl_inv {β γ} (P : γ → Prop) (f : γ → β → γ) (l : List β) (Q : β → Prop)
    (hstep : ∀ d b, P d → Q b → P (f d b)) : ∀ (d : γ), P d → (∀ b ∈ l, Q b) → P (l.foldl f d) := by
  induction l with
  | nil => intro d hd _; exact hd
  | cons b t ih =>
    intro d hd hq
    exact ih (f d b) (hstep d b hd (hq b (List.mem_cons_self)))
      (fun x hx => hq x (List.mem_cons_of_mem _ hx))

theorem prepareOperators_names (sp : Space) :
    ∀ x ∈ prepareOperators sp, OpNamesIn sp x.2 := by
  let P : List (List Char × Op) → Prop := fun d => ∀ x ∈ d, OpNamesIn sp x.2
  have step : ∀ (d : List (List Char × Op)) k v, P d → OpNamesIn sp v → P (opSet d k v) := by
    intro d k v hd hv x hx
    rcases opSet_mem d k v x hx with h | h
    · exact hd x h
    · rw [h]; exact hv
  unfold prepareOperators
  apply step
  · apply step
    · apply foldl_inv P _ _ (fun t : Name × Name × Dir =>
        t.1 ∈ sp.map Controller.name ∧ t.2.1 ∈ sp.map Controller.name)
      · intro d b hd hb
        exact step _ _ _ hd hb
      · apply foldl_inv P _ _ (fun n : Name => n ∈ sp.map Controller.name)
        · intro d n hd hn
          exact step _ _ _ (step _ _ _ hd hn) hn
        · intro x hx; cases hx
        · intro n hn; exact hn
      · intro t ht
        simp only [List.mem_flatMap, List.mem_filterMap] at ht
        obtain ⟨n1, h1, n2, h2, d, _, hd⟩ := ht
        split at hd
        · cases hd
        · cases hd
          exact ⟨h1, h2⟩
    · trivial
  · trivial

/-- the pair operators of `prepare_operators` name two different controllers -/
def PairDistinct : Op → Prop
  | .pair a b _ => a ≠ b
  | _ => True

theorem prepareOperators_pairs (sp : Space) :
    ∀ x ∈ prepareOperators sp, PairDistinct x.2 := by
  let P : List (List Char × Op) → Prop := fun d => ∀ x ∈ d, PairDistinct x.2
  have step : ∀ (d : List (List Char × Op)) k v, P d → PairDistinct v → P (opSet d k v) := by
    intro d k v hd hv x hx
    rcases opSet_mem d k v x hx with h | h
    · exact hd x h
    · rw [h]; exact hv
  unfold prepareOperators
  apply step
  · apply step
    · apply foldl_inv P _ _ (fun t : Name × Name × Dir => t.1 ≠ t.2.1)
      · intro d b hd hb
        exact step _ _ _ hd hb
      · apply foldl_inv P _ _ (fun _ : Name => True)
        · intro d n hd _
          exact step _ _ _ (step _ _ _ hd trivial) trivial
        · intro x hx; cases hx
        · intro n _; trivial
      · intro t ht
        simp only [List.mem_flatMap, List.mem_filterMap] at ht
        obtain ⟨n1, _, n2, _, d, _, hd⟩ := ht
        split at hd
        · cases hd
        · rename_i hne
          cases hd
          exact hne
    · trivial
  · trivial

end Cat
