/- Helper lemmas for the round-3 theorems of Props/C16.lean (construction of catalogs, leaf
rewriting delegated to the selected member).  Core Lean only. -/
import Model.CatalogBuild
import Proofs.Catalog

namespace Cat

/-! ### construction -/

/-- an accepted catalog handed a declared controller lists exactly its specification names -/
theorem mkCatalog_declared {decl : List Controller} {n c : Name} {names : List Name}
    (h : mkCatalog decl n c names = .ok ()) {ctrl : Controller} (hf : findCtrl decl c = some ctrl) :
    names = ctrl.specs := by
  unfold mkCatalog at h
  split at h
  · cases h
  · split at h
    · cases h
    · rw [hf] at h
      simp only at h
      split at h
      · assumption
      · cases h

/-- an accepted catalog has a legal name and at least one member -/
theorem mkCatalog_basic {decl : List Controller} {n c : Name} {names : List Name}
    (h : mkCatalog decl n c names = .ok ()) : nameOK n = true ∧ names ≠ [] := by
  unfold mkCatalog at h
  split at h
  · cases h
  · rename_i h1
    split at h
    · cases h
    · rename_i h2
      refine ⟨by simpa using h1, ?_⟩
      intro e
      rw [e] at h2
      simp at h2

mutual
  /-- every catalog of an accepted formula, at any depth, passed the constructor's checks -/
  theorem Expr.build_cats (decl : List Controller) :
      ∀ e : Expr, e.build decl = .ok () →
        ∀ x ∈ e.cats, mkCatalog decl x.1 x.2.1 x.2.2.names = .ok ()
    | .num _, _, x, hx => by simp [Expr.cats] at hx
    | .beta _, _, x, hx => by simp [Expr.cats] at hx
    | .var _, _, x, hx => by simp [Expr.cats] at hx
    | .neg a, h, x, hx => by
      simp only [Expr.build] at h
      simp only [Expr.cats] at hx
      exact Expr.build_cats decl a h x hx
    | .bin _ a b, h, x, hx => by
      simp only [Expr.build] at h
      simp only [Expr.cats, List.mem_append] at hx
      split at h
      · cases h
      · rename_i u ha
        cases u
        rcases hx with hx | hx
        · exact Expr.build_cats decl a ha x hx
        · exact Expr.build_cats decl b h x hx
    | .cat n c ms, h, x, hx => by
      simp only [Expr.build] at h
      simp only [Expr.cats, List.mem_cons] at hx
      split at h
      · cases h
      · rename_i u hms
        cases u
        rcases hx with rfl | hx
        · exact h
        · exact Members.build_cats decl ms hms x hx
  theorem Members.build_cats (decl : List Controller) :
      ∀ ms : Members, ms.build decl = .ok () →
        ∀ x ∈ ms.cats, mkCatalog decl x.1 x.2.1 x.2.2.names = .ok ()
    | .nil, _, x, hx => by simp [Members.cats] at hx
    | .cons _ e t, h, x, hx => by
      simp only [Members.build] at h
      simp only [Members.cats, List.mem_append] at hx
      split at h
      · cases h
      · rename_i u he
        cases u
        rcases hx with hx | hx
        · exact Expr.build_cats decl e he x hx
        · exact Members.build_cats decl t h x hx
end

/-- `construct` succeeded: the formula was built and `central` accepted it -/
theorem construct_ok {decl : List Controller} {e : Expr} {sp : Space}
    (h : construct decl e = .ok sp) : e.build decl = .ok () ∧ central e = .ok sp := by
  unfold construct at h
  split at h
  · cases h
  · split at h
    · cases h
    · rename_i u hb
      cases u
      split at h
      · cases h
      · rename_i sp' hc
        simp only [Except.ok.injEq] at h
        subst h
        exact ⟨hb, hc⟩

/-! ### leaf rewriting delegated to the selected member -/

mutual
  theorem Expr.mapSel_select (st : St) (f : LeafMap) :
      ∀ e : Expr, (e.mapSel st f).select st = (e.select st).map (Expr.mapPlain f)
    | .num _ => rfl
    | .beta _ => rfl
    | .var _ => rfl
    | .neg a => by
      simp only [Expr.mapSel, Expr.select, Expr.mapSel_select st f a]
      cases a.select st <;> simp [Expr.mapPlain]
    | .bin _ a b => by
      simp only [Expr.mapSel, Expr.select, Expr.mapSel_select st f a, Expr.mapSel_select st f b]
      cases a.select st <;> cases b.select st <;> simp [Expr.mapPlain]
    | .cat _ c ms => by
      simp only [Expr.mapSel, Expr.select]
      exact Members.mapNth_select st f ms (st c)
  theorem Members.mapNth_select (st : St) (f : LeafMap) :
      ∀ (ms : Members) (k : Nat),
        (ms.mapNth st f k).selectNth st k = (ms.selectNth st k).map (Expr.mapPlain f)
    | .nil, _ => rfl
    | .cons _ e _, 0 => by
      simp only [Members.mapNth, Members.selectNth]
      exact Expr.mapSel_select st f e
    | .cons _ _ t, k + 1 => by
      simp only [Members.mapNth, Members.selectNth]
      exact Members.mapNth_select st f t k
end

theorem Members.mapNth_names (st : St) (f : LeafMap) :
    ∀ (ms : Members) (k : Nat), (ms.mapNth st f k).names = ms.names
  | .nil, _ => rfl
  | .cons _ _ _, 0 => by simp [Members.mapNth, Members.names]
  | .cons _ _ t, k + 1 => by simp [Members.mapNth, Members.names, Members.mapNth_names st f t k]

mutual
  /-- the rewriting changes no catalog, controller or member name: the space is the same -/
  theorem Expr.mapSel_ctrls (st : St) (f : LeafMap) :
      ∀ e : Expr, (e.mapSel st f).ctrls = e.ctrls
    | .num _ => rfl
    | .beta _ => rfl
    | .var _ => rfl
    | .neg a => by simp only [Expr.mapSel, Expr.ctrls]; exact Expr.mapSel_ctrls st f a
    | .bin _ a b => by
      simp only [Expr.mapSel, Expr.ctrls, Expr.mapSel_ctrls st f a, Expr.mapSel_ctrls st f b]
    | .cat _ c ms => by
      simp only [Expr.mapSel, Expr.ctrls, Members.mapNth_names, Members.mapNth_ctrls st f ms (st c)]
  theorem Members.mapNth_ctrls (st : St) (f : LeafMap) :
      ∀ (ms : Members) (k : Nat), (ms.mapNth st f k).ctrls = ms.ctrls
    | .nil, _ => rfl
    | .cons _ e t, 0 => by
      simp only [Members.mapNth, Members.ctrls, Expr.mapSel_ctrls st f e]
    | .cons _ e t, k + 1 => by
      simp only [Members.mapNth, Members.ctrls, Members.mapNth_ctrls st f t k]
end

/-- the members that are not selected are stored unchanged -/
theorem Members.mapNth_other (st : St) (f : LeafMap) :
    ∀ (ms : Members) (k k' : Nat), k' ≠ k → (ms.mapNth st f k).nth k' = ms.nth k'
  | .nil, _, _, _ => rfl
  | .cons _ _ _, 0, 0, h => absurd rfl h
  | .cons _ _ _, 0, _ + 1, _ => rfl
  | .cons _ _ _, _ + 1, 0, _ => rfl
  | .cons _ _ t, k + 1, k' + 1, h => by
    simp only [Members.mapNth, Members.nth]
    exact Members.mapNth_other st f t k k' (fun e => h (by rw [e]))

/-! ### the loop of `estimate_catalog` -/

/-- on valid configurations the identifier determines the configuration -/
theorem stringId_inj_valid {sp : Space} (hwf : SpaceWF sp) {c₁ c₂ : Config} (h₁ : ValidCfg sp c₁)
    (h₂ : ValidCfg sp c₂) (h : stringId c₁ = stringId c₂) : c₁ = c₂ := by
  have r₁ := fromString_stringId c₁ (validCfg_ne hwf h₁) (validCfg_selOK sp c₁ hwf.names_ok h₁)
    (validCfg_sorted hwf h₁)
  have r₂ := fromString_stringId c₂ (validCfg_ne hwf h₂) (validCfg_selOK sp c₂ hwf.names_ok h₂)
    (validCfg_sorted hwf h₂)
  rw [h, r₂] at r₁
  cases r₁
  rfl

theorem unknownId_valid {known : Option (List Config)} {cfg : Config}
    (hk : ∀ L, known = some L → cfg ∈ L) : unknownId known (stringId cfg) = false := by
  cases known with
  | none => rfl
  | some L =>
    have hm : stringId cfg ∈ L.map stringId := List.mem_map_of_mem (hk L rfl)
    simp [unknownId, hm]

/-- every model of the loop is estimated under the identifier of the configuration asked for and
is the formula written out by hand for it; nothing raises -/
theorem estimateLoop_valid {sp : Space} (hwf : SpaceWF sp) (e : Expr) (hok : e.okFor sp = true)
    (known : Option (List Config))
    (hk : ∀ L, known = some L → ∀ cfg, ValidCfg sp cfg → cfg ∈ L) :
    ∀ (l : List Config) (st : St), (∀ cfg ∈ l, ValidCfg sp cfg) →
      estimateLoop sp e known st l = .ok (l.map fun cfg => (stringId cfg, e.hand cfg))
  | [], _, _ => rfl
  | cfg :: t, st, h => by
    have hv := h cfg List.mem_cons_self
    obtain ⟨st1, a1, a2, _⟩ := setConfiguration_valid hwf st hv
    obtain ⟨st2, b1, b2, b3⟩ := setConfiguration_valid hwf st1 hv
    have hrt := fromString_stringId cfg (validCfg_ne hwf hv) (validCfg_selOK sp cfg hwf.names_ok hv)
      (validCfg_sorted hwf hv)
    have hu := unknownId_valid (known := known) (cfg := cfg) (fun L hL => hk L hL cfg hv)
    have ih := estimateLoop_valid hwf e hok known hk t st2 (fun c hc => h c (List.mem_cons_of_mem _ hc))
    have hsel : e.select st2 = e.hand cfg := by
      have := Expr.select_eq_hand (names_nodup hwf.sorted) hwf.specs_nodup st2 b3 e hok
      rw [b2] at this
      exact this
    simp [estimateLoop, a1, getConfiguration_ok hwf st1, a2, hu, hrt, b1, ih, hsel]

theorem nodup_map_on {α β} (f : α → β) : ∀ l : List α,
    (∀ x ∈ l, ∀ y ∈ l, f x = f y → x = y) → l.Nodup → (l.map f).Nodup
  | [], _, _ => List.nodup_nil
  | a :: t, h, hn => by
    rw [List.nodup_cons] at hn
    rw [List.map_cons, List.nodup_cons]
    refine ⟨?_, nodup_map_on f t
      (fun x hx y hy => h x (List.mem_cons_of_mem _ hx) y (List.mem_cons_of_mem _ hy)) hn.2⟩
    intro hm
    obtain ⟨y, hy, hfy⟩ := List.mem_map.mp hm
    have := h y (List.mem_cons_of_mem _ hy) a List.mem_cons_self hfy
    exact hn.1 (this ▸ hy)

/-! ### a formula used inside a bigger formula -/

/-- the controllers of the space of an accepted formula are exactly the controllers of its catalogs -/
theorem central_mem {e : Expr} {sp : Space} (h : central e = .ok sp) :
    ∀ c, c ∈ sp ↔ c ∈ e.ctrls := by
  unfold central at h
  split at h
  · cases h
  · rename_i l hm
    split at h
    · cases h
    · split at h
      · cases h
      · simp only [Except.ok.injEq] at h
        subst h
        obtain ⟨_, _, hall, hback⟩ := mergeCtrls_spec e.ctrls [] l hm (by simp)
        have hp : (sortCtrls l).Perm l := sortBy_perm _ l
        intro c
        rw [hp.mem_iff]
        constructor
        · intro hc
          rcases hback c hc with h' | h'
          · cases h'
          · exact h'
        · exact hall c

/-- a valid configuration gives every controller of the space one of its alternatives -/
theorem validCfg_selection : ∀ (sp : Space) (cfg : Config), (sp.map Controller.name).Nodup →
    ValidCfg sp cfg → ∀ c ∈ sp, ∃ v ∈ c.specs, getSelection cfg c.name = some v
  | [], _, _, _, c, hc => by cases hc
  | _ :: _, [], _, h, _, _ => by simp [ValidCfg, validCfgB] at h
  | d :: sp, (n, v) :: cfg, hn, h, c, hc => by
    simp only [ValidCfg, validCfgB, Bool.and_eq_true, beq_iff_eq, List.contains_iff_mem] at h
    rw [List.map_cons, List.nodup_cons] at hn
    obtain ⟨⟨h1, h2⟩, h3⟩ := h
    rcases List.mem_cons.mp hc with rfl | hc
    · exact ⟨v, h2, by simp [getSelection, h1]⟩
    · have hne : n ≠ c.name := by
        rw [h1]
        exact fun e => hn.1 (e ▸ List.mem_map_of_mem hc)
      obtain ⟨w, hw, hg⟩ := validCfg_selection sp cfg hn.2 h3 c hc
      exact ⟨w, hw, by simp [getSelection, hne, hg]⟩

theorem restrictCfg_valid_aux (sp : Space) (cfg : Config) (hn : (sp.map Controller.name).Nodup)
    (hv : ValidCfg sp cfg) : ∀ spa : Space, (∀ c ∈ spa, c ∈ sp) → ValidCfg spa (restrictCfg spa cfg)
  | [], _ => by simp [restrictCfg, ValidCfg, validCfgB]
  | c :: t, h => by
    obtain ⟨v, hv1, hv2⟩ := validCfg_selection sp cfg hn hv c (h c List.mem_cons_self)
    have ih := restrictCfg_valid_aux sp cfg hn hv t (fun d hd => h d (List.mem_cons_of_mem _ hd))
    simp only [ValidCfg, restrictCfg] at ih
    simp [ValidCfg, restrictCfg, validCfgB, hv2, hv1, ih]

theorem getSelection_restrict : ∀ (spa : Space) (cfg : Config) (c : Controller), c ∈ spa →
    (spa.map Controller.name).Nodup →
    getSelection (restrictCfg spa cfg) c.name = some ((getSelection cfg c.name).getD [])
  | [], _, _, h, _ => by cases h
  | d :: t, cfg, c, hc, hn => by
    rw [List.map_cons, List.nodup_cons] at hn
    rcases List.mem_cons.mp hc with rfl | hc
    · simp [restrictCfg, getSelection]
    · have hne : d.name ≠ c.name := fun e => hn.1 (e ▸ List.mem_map_of_mem hc)
      have ih := getSelection_restrict t cfg c hc hn.2
      simp only [restrictCfg] at ih
      simp [restrictCfg, getSelection, hne, ih]

mutual
  /-- the hand-written formula only depends on the selections of the controllers of the catalogs met -/
  theorem Expr.hand_congr (cfg cfg' : Config) :
      ∀ e : Expr, (∀ x ∈ e.cats, getSelection cfg x.2.1 = getSelection cfg' x.2.1) →
        e.hand cfg = e.hand cfg'
    | .num _, _ => rfl
    | .beta _, _ => rfl
    | .var _, _ => rfl
    | .neg a, h => by
      simp only [Expr.hand, Expr.hand_congr cfg cfg' a (by simpa [Expr.cats] using h)]
    | .bin _ a b, h => by
      simp only [Expr.cats, List.mem_append] at h
      simp only [Expr.hand, Expr.hand_congr cfg cfg' a (fun x hx => h x (Or.inl hx)),
        Expr.hand_congr cfg cfg' b (fun x hx => h x (Or.inr hx))]
    | .cat n c ms, h => by
      simp only [Expr.cats, List.mem_cons] at h
      have h0 := h (n, c, ms) (Or.inl rfl)
      simp only at h0
      simp only [Expr.hand, h0]
      cases getSelection cfg' c with
      | none => rfl
      | some v => exact Members.hand_congr cfg cfg' ms (fun x hx => h x (Or.inr hx)) v
  theorem Members.hand_congr (cfg cfg' : Config) :
      ∀ ms : Members, (∀ x ∈ ms.cats, getSelection cfg x.2.1 = getSelection cfg' x.2.1) →
        ∀ v, ms.handNamed cfg v = ms.handNamed cfg' v
    | .nil, _, _ => rfl
    | .cons n e t, h, v => by
      simp only [Members.cats, List.mem_append] at h
      simp only [Members.handNamed, Expr.hand_congr cfg cfg' e (fun x hx => h x (Or.inl hx)),
        Members.hand_congr cfg cfg' t (fun x hx => h x (Or.inr hx)) v]
end

/-! ### several formulas on the same catalogs -/

theorem runM_append (fs : List Space) : ∀ (l₁ l₂ : List MOp) (st : St),
    runM fs st (l₁ ++ l₂) = (match runM fs st l₁ with | .error e => .error e | .ok st' => runM fs st' l₂)
  | [], l₂, st => rfl
  | o :: t, l₂, st => by
    simp only [List.cons_append, runM]
    cases stepM fs st o with
    | error e => rfl
    | ok st' => exact runM_append fs t l₂ st'

/-- `set_configuration` of a valid configuration: the controllers of the space show it, the
controllers outside the space (those of other formulas only) are not touched -/
theorem setConfiguration_frame {sp : Space} (hwf : SpaceWF sp) (st : St) {cfg : Config}
    (h : ValidCfg sp cfg) :
    ∃ st', setConfiguration sp st cfg = .ok st' ∧ currentSels sp st' = cfg ∧ InRange sp st' ∧
      ∀ m, m ∉ sp.map Controller.name → st' m = st m := by
  have hn := names_nodup hwf.sorted
  obtain ⟨st', h1, h2, h3, h4⟩ := applySels_valid sp hn sp cfg st [] (fun _ hc => hc) hn h
  obtain ⟨st'', g1, _, _⟩ := setConfiguration_valid hwf st h
  have : st'' = st' := by
    unfold setConfiguration at g1
    rw [h1] at g1
    dsimp only at g1
    split at g1
    · cases g1; rfl
    · cases g1
  subst this
  exact ⟨st'', g1, h2, h3, h4⟩

/-! ### construction interleaved with selection -/

/-- every catalog made so far and handed a declared controller lists the names of that controller -/
def CatsOK (decl : List Controller) (cats : List (Name × Name × List Name)) : Prop :=
  ∀ x ∈ cats, ∀ ctrl, findCtrl decl x.2.1 = some ctrl → x.2.2 = ctrl.specs

theorem stepW_inv {decl : List Controller} {w w' : World} {o : WOp} (h : stepW decl w o = .ok w')
    (hc : CatsOK decl w.cats) :
    CatsOK decl w'.cats ∧ (∀ (f : Nat) (sp : Space), w.fs[f]? = some sp → w'.fs[f]? = some sp) := by
  cases o with
  | op m =>
    simp only [stepW] at h
    split at h
    · cases h
    · cases h; exact ⟨hc, fun _ _ h => h⟩
  | newCatalog n c names =>
    simp only [stepW] at h
    split at h
    · cases h
    · rename_i u hm
      cases h
      refine ⟨?_, fun _ _ h => h⟩
      intro x hx ctrl hf
      rcases List.mem_append.mp hx with hx | hx
      · exact hc x hx ctrl hf
      · rw [List.mem_singleton.mp hx] at hf ⊢
        exact mkCatalog_declared hm hf
  | newFormula e =>
    simp only [stepW] at h
    split at h
    · cases h
    · cases h
      refine ⟨hc, fun f sp hf => ?_⟩
      have hlt : f < w.fs.length := by
        rcases Nat.lt_or_ge f w.fs.length with h | h
        · exact h
        · rw [List.getElem?_eq_none h] at hf; cases hf
      rw [List.getElem?_append_left hlt]
      exact hf

theorem runW_inv {decl : List Controller} : ∀ (ops : List WOp) (w w' : World),
    runW decl w ops = .ok w' → CatsOK decl w.cats → CatsOK decl w'.cats
  | [], w, w', h, hc => by simp only [runW, Except.ok.injEq] at h; subst h; exact hc
  | o :: t, w, w', h, hc => by
    simp only [runW] at h
    split at h
    · cases h
    · rename_i w1 h1
      exact runW_inv t w1 w' h (stepW_inv h1 hc).1

theorem runW_append (decl : List Controller) : ∀ (l₁ l₂ : List WOp) (w : World),
    runW decl w (l₁ ++ l₂) =
      (match runW decl w l₁ with | .error e => .error e | .ok w' => runW decl w' l₂)
  | [], _, _ => rfl
  | o :: t, l₂, w => by
    simp only [List.cons_append, runW]
    cases stepW decl w o with
    | error e => rfl
    | ok w' => exact runW_append decl t l₂ w'

end Cat
