/- Lemmas about `numpy.array_split` / `Database.split` (Model/DbSplit.lean). Core Lean + omega. -/
import Model.DbSplit

namespace Likelihood

variable {β : Type}

theorem arraySplitAux_length (l : List β) (s e each : Nat) : (arraySplitAux l s e each).length = s := by
  induction s generalizing l e with
  | zero => simp [arraySplitAux]
  | succ s ih => simp [arraySplitAux, ih]

/-- the sections, one after the other, are the list; every section has at least `each` elements -/
theorem arraySplitAux_spec (l : List β) (s e each : Nat) (he : e ≤ s)
    (hl : l.length = e * (each + 1) + (s - e) * each) :
    (arraySplitAux l s e each).flatten = l ∧ ∀ p ∈ arraySplitAux l s e each, each ≤ p.length := by
  induction s generalizing l e with
  | zero =>
    have : e = 0 := by omega
    subst this
    simp at hl
    simp [arraySplitAux, hl]
  | succ s ih =>
    cases e with
    | zero =>
      simp only [Nat.zero_mul, Nat.zero_add, Nat.sub_zero, Nat.succ_mul] at hl
      have hd : (l.drop each).length = 0 * (each + 1) + (s - 0) * each := by
        simp only [List.length_drop, Nat.zero_mul, Nat.zero_add, Nat.sub_zero]
        omega
      obtain ⟨h1, h2⟩ := ih (l.drop each) 0 (Nat.zero_le _) hd
      simp only [arraySplitAux, Nat.lt_irrefl, if_false, Nat.zero_sub, List.flatten_cons, h1,
        List.take_append_drop, List.mem_cons, true_and]
      intro p hp
      rcases hp with hp | hp
      · subst hp
        simp only [List.length_take]
        omega
      · exact h2 p hp
    | succ e' =>
      have hs : s + 1 - (e' + 1) = s - e' := by omega
      rw [hs, Nat.succ_mul] at hl
      have hd : (l.drop (each + 1)).length = e' * (each + 1) + (s - e') * each := by
        simp only [List.length_drop]
        omega
      obtain ⟨h1, h2⟩ := ih (l.drop (each + 1)) e' (by omega) hd
      simp only [arraySplitAux, Nat.zero_lt_succ, if_true, Nat.add_sub_cancel, List.flatten_cons, h1,
        List.take_append_drop, List.mem_cons, true_and]
      intro p hp
      rcases hp with hp | hp
      · subst hp
        simp only [List.length_take]
        omega
      · exact h2 p hp

theorem divmod_sizes (n k : Nat) (hk : 1 ≤ k) :
    n = (n % k) * (n / k + 1) + (k - n % k) * (n / k) := by
  have h1 := Nat.div_add_mod n k
  have h2 := Nat.mod_lt n hk
  generalize n / k = q at *
  generalize n % k = r at *
  obtain ⟨d, rfl⟩ := Nat.exists_eq_add_of_le (Nat.le_of_lt h2)
  rw [Nat.add_sub_cancel_left, Nat.mul_add, Nat.mul_one]
  rw [Nat.add_mul] at h1
  omega

theorem arraySplit_spec (l : List β) (k : Nat) (hk : 1 ≤ k) :
    (arraySplit l k).flatten = l ∧ (arraySplit l k).length = k ∧
    ∀ p ∈ arraySplit l k, l.length / k ≤ p.length := by
  have h := arraySplitAux_spec l k (l.length % k) (l.length / k) (Nat.le_of_lt (Nat.mod_lt _ hk))
    (divmod_sizes l.length k hk)
  exact ⟨h.1, arraySplitAux_length _ _ _ _, h.2⟩

/-- with at most as many slices as rows no slice is empty -/
theorem arraySplit_nonempty (l : List β) (k : Nat) (hk : 1 ≤ k) (hkn : k ≤ l.length) :
    ∀ p ∈ arraySplit l k, p ≠ [] := by
  intro p hp
  have h := (arraySplit_spec l k hk).2.2 p hp
  have : 1 ≤ l.length / k := (Nat.le_div_iff_mul_le hk).2 (by omega)
  intro hnil
  rw [hnil] at h
  simp at h
  omega

/-- estimation set `i` and validation set `i` together are a rearrangement of the shuffled rows -/
theorem others_append_perm (parts : List (List β)) (i : Nat) (hi : i < parts.length) :
    (othersOf parts i ++ parts.getD i []).Perm parts.flatten := by
  have hsplit : parts = parts.take i ++ parts[i] :: parts.drop (i + 1) := by
    rw [List.getElem_cons_drop, List.take_append_drop]
  have hget : parts.getD i [] = parts[i] := by
    simp [List.getD_eq_getElem?_getD, hi]
  rw [hget]
  conv => rhs; rw [hsplit]
  unfold othersOf
  simp only [List.flatten_append, List.flatten_cons]
  rw [List.append_assoc]
  exact List.Perm.append_left _ List.perm_append_comm

end Likelihood
