/- Lemmas about the way derivatives leave the library (C02, round 3): named outputs, packaging, unpacking,
positional points, successive calls. -/
import Model.DerivOut
import Proofs.Diff
import Proofs.IdManager

namespace DerivOut
open Diff

/-! ### `convert_to_dict` -/

theorem convertToDict_eq {β : Type} (d0 : β) (m : List (String × Nat)) (seq : List β)
    (h : ∀ p ∈ m, p.2 < seq.length) :
    convertToDict m seq = some (m.map fun p => (p.1, seq.getD p.2 d0)) := by
  induction m with
  | nil => rfl
  | cons p t ih =>
    obtain ⟨n, i⟩ := p
    have hi : i < seq.length := h (n, i) List.mem_cons_self
    have ht := ih (fun q hq => h q (List.mem_cons_of_mem _ hq))
    simp only [convertToDict, ht, List.map_cons, List.getElem?_eq_getElem hi]
    simp [List.getD_eq_getElem?_getD, List.getElem?_eq_getElem hi]

/-- IndexError exactly when an index of the map is outside the sequence -/
theorem convertToDict_none_iff {β : Type} (m : List (String × Nat)) (seq : List β) :
    convertToDict m seq = none ↔ ∃ p ∈ m, seq.length ≤ p.2 := by
  induction m with
  | nil => simp [convertToDict]
  | cons p t ih =>
    obtain ⟨n, i⟩ := p
    by_cases hi : i < seq.length
    · cases hc : convertToDict t seq with
      | none =>
        have := ih.mp hc
        obtain ⟨q, hq, hl⟩ := this
        simp only [convertToDict, hc, List.getElem?_eq_getElem hi, true_iff]
        exact ⟨q, List.mem_cons_of_mem _ hq, hl⟩
      | some r =>
        simp only [convertToDict, hc, List.getElem?_eq_getElem hi, false_iff, reduceCtorEq]
        rintro ⟨q, hq, hl⟩
        rcases List.mem_cons.mp hq with rfl | hq'
        · simp at hl; omega
        · have : convertToDict t seq = none := ih.mpr ⟨q, hq', hl⟩
          rw [hc] at this; cases this
    · have hn : seq[i]? = none := List.getElem?_eq_none (Nat.le_of_not_lt hi)
      simp only [convertToDict, hn, true_iff]
      exact ⟨(n, i), List.mem_cons_self, Nat.le_of_not_lt hi⟩

theorem mem_enumFrom (names : List String) : ∀ (k : Nat) (p : String × Nat), p ∈ enumFrom k names →
    k ≤ p.2 ∧ p.2 < k + names.length := by
  induction names with
  | nil => intro k p hp; cases hp
  | cons n t ih =>
    intro k p hp
    simp only [enumFrom, List.mem_cons] at hp
    rcases hp with rfl | hp
    · simp
    · have := ih (k + 1) p hp
      simp only [List.length_cons]
      omega

theorem dictGet_enumFrom_map {β : Type} (φ : Nat → β) (n : String) (names : List String) : ∀ k : Nat,
    dictGet ((enumFrom k names).map fun p => (p.1, φ p.2)) n = (IdM.indexOf n names).map fun j => φ (k + j) := by
  induction names with
  | nil => intro k; rfl
  | cons m t ih =>
    intro k
    simp only [enumFrom, List.map_cons, dictGet, IdM.indexOf]
    by_cases h : m = n
    · simp [h]
    · simp only [h, if_false, ih (k + 1), Option.map_map]
      congr 1
      funext j
      simp only [Function.comp]
      congr 1
      omega

theorem indexOf_lt (n : String) (l : List String) (a : Nat) (h : IdM.indexOf n l = some a) : a < l.length := by
  have := IdM.indexOf_get n l a h
  by_contra hc
  rw [List.getElem?_eq_none (Nat.le_of_not_lt hc)] at this
  cases this

/-- the named vector: the entry read under a name is the entry at the position of that name in the list -/
theorem namedVec_get {β : Type} (d0 : β) (names : List String) (v : List β) (hl : v.length = names.length)
    (n : String) :
    ∃ d, namedVec (indices names) v = some d ∧
      dictGet d n = (IdM.indexOf n names).map fun k => v.getD k d0 := by
  refine ⟨_, convertToDict_eq d0 _ _ ?_, ?_⟩
  · intro p hp
    have := mem_enumFrom names 0 p hp
    omega
  · have := dictGet_enumFrom_map (fun k => v.getD k d0) n names 0
    simpa [indices] using this

theorem rowsToDict_eq {β : Type} (d0 : β) (m : List (String × Nat)) (rows : List (List β))
    (h : ∀ r ∈ rows, ∀ p ∈ m, p.2 < r.length) :
    rowsToDict m rows = some (rows.map fun r => m.map fun p => (p.1, r.getD p.2 d0)) := by
  induction rows with
  | nil => rfl
  | cons r t ih =>
    have h1 := convertToDict_eq d0 m r (h r List.mem_cons_self)
    have h2 := ih (fun r' hr' => h r' (List.mem_cons_of_mem _ hr'))
    simp only [rowsToDict, h1, h2, List.map_cons]

/-- the named matrix (Hessian, BHHH): the entry read under (i, j) is the entry at the positions of i and j -/
theorem namedMat_get {β : Type} (d0 : β) (names : List String) (M : List (List β))
    (hr : M.length = names.length) (hc : ∀ r ∈ M, r.length = names.length) (i j : String) :
    ∃ D, namedMat (indices names) M = some D ∧
      matGet D i j = (IdM.indexOf i names).bind fun a => (IdM.indexOf j names).map fun b => (M.getD a []).getD b d0 := by
  have hrows := rowsToDict_eq d0 (indices names) M (by
    intro r hr' p hp
    have := mem_enumFrom names 0 p hp
    have := hc r hr'
    omega)
  have houter := convertToDict_eq ([] : List (String × β)) (indices names)
    (M.map fun r => (indices names).map fun p => (p.1, r.getD p.2 d0)) (by
    intro p hp
    have := mem_enumFrom names 0 p hp
    simp only [List.length_map]
    omega)
  refine ⟨_, by simp only [namedMat, hrows]; exact houter, ?_⟩
  unfold matGet
  have h1 := dictGet_enumFrom_map
    (fun k => (M.map fun r => (indices names).map fun p => (p.1, r.getD p.2 d0)).getD k []) i names 0
  simp only [indices] at h1 ⊢
  rw [h1]
  cases hi : IdM.indexOf i names with
  | none => rfl
  | some a =>
    have ha : a < M.length := by have := indexOf_lt i names a hi; omega
    simp only [Option.map_some, Option.bind_some, Nat.zero_add]
    rw [List.getD_eq_getElem?_getD, List.getElem?_map, List.getElem?_eq_getElem ha]
    simp only [Option.map_some, Option.getD_some]
    have h2 := dictGet_enumFrom_map (fun k => (M[a]).getD k d0) j names 0
    rw [h2]
    simp [List.getD_eq_getElem?_getD, List.getElem?_eq_getElem ha]

/-! ### a parameter that does not occur in the formula -/

theorem foreign_zero (env : Env ℝ) (n : String) (e : E ℝ) (h : n ∉ pars e) : ev env (diff n e) = 0 := by
  induction e with
  | num v => simp [diff]
  | par m =>
    have : m ≠ n := by intro hm; apply h; simp [pars, hm]
    simp [diff, this]
  | var m => simp [diff]
  | add a b iha ihb =>
    simp only [pars, List.mem_append, not_or] at h
    simp [diff, iha h.1, ihb h.2]
  | sub a b iha ihb =>
    simp only [pars, List.mem_append, not_or] at h
    simp [diff, iha h.1, ihb h.2]
  | mul a b iha ihb =>
    simp only [pars, List.mem_append, not_or] at h
    simp [diff, iha h.1, ihb h.2]
  | div a b iha ihb =>
    simp only [pars, List.mem_append, not_or] at h
    simp [diff, iha h.1, ihb h.2]
  | neg a ih => simp [diff, ih h]
  | exp a ih => simp [diff, ih h]
  | log a ih => simp [diff, ih h]
  | powc a c ih => simp [diff, ih h]

/-- the parameters of a derivative are parameters of the formula -/
theorem pars_diff_subset (m : String) (e : E ℝ) : ∀ n, n ∈ pars (diff m e) → n ∈ pars e := by
  induction e with
  | num v => intro n hn; simp [diff, pars] at hn
  | par k =>
    intro n hn
    unfold diff at hn
    split at hn <;> simp [pars] at hn
  | var k => intro n hn; simp [diff, pars] at hn
  | add a b iha ihb =>
    intro n hn
    simp only [diff, pars, List.mem_append] at hn ⊢
    rcases hn with h | h
    · exact Or.inl (iha n h)
    · exact Or.inr (ihb n h)
  | sub a b iha ihb =>
    intro n hn
    simp only [diff, pars, List.mem_append] at hn ⊢
    rcases hn with h | h
    · exact Or.inl (iha n h)
    · exact Or.inr (ihb n h)
  | mul a b iha ihb =>
    intro n hn
    simp only [diff, pars, List.mem_append] at hn ⊢
    rcases hn with (h | h) | (h | h)
    · exact Or.inl (iha n h)
    · exact Or.inr h
    · exact Or.inl h
    · exact Or.inr (ihb n h)
  | div a b iha ihb =>
    intro n hn
    simp only [diff, pars, List.mem_append] at hn ⊢
    rcases hn with ((h | h) | (h | h)) | (h | h)
    · exact Or.inl (iha n h)
    · exact Or.inr h
    · exact Or.inl h
    · exact Or.inr (ihb n h)
    · exact Or.inr h
    · exact Or.inr h
  | neg a ih => intro n hn; simp only [diff, pars] at hn ⊢; exact ih n hn
  | exp a ih =>
    intro n hn
    simp only [diff, pars, List.mem_append] at hn ⊢
    rcases hn with h | h
    · exact h
    · exact ih n h
  | log a ih =>
    intro n hn
    simp only [diff, pars, List.mem_append] at hn ⊢
    rcases hn with h | h
    · exact ih n h
    · exact h
  | powc a c ih =>
    intro n hn
    simp only [diff, pars, List.mem_append, List.not_mem_nil, false_or] at hn ⊢
    rcases hn with h | h
    · exact h
    · exact ih n h

/-! ### packaging -/

theorem calcPackage_agg {α : Type} (fl : Flags) (hasDb : Bool) (f0 : α) (fs : List α) (g0 : List α) (gs : List (List α))
    (h0 b0 : List (List α)) (hs bs : List (List (List α))) :
    calcPackage fl true hasDb ⟨f0 :: fs, g0 :: gs, h0 :: hs, b0 :: bs⟩ =
      .ok (.agg ⟨f0, if fl.gradient then some g0 else none, if fl.hessian then some h0 else none,
                 if fl.bhhh then some b0 else none⟩) := by
  obtain ⟨g, h, b⟩ := fl
  cases g <;> cases h <;> cases b <;> rfl

theorem calcPackage_dis {α : Type} (fl : Flags) (raw : Raw α) :
    calcPackage fl false true raw =
      .ok (.dis ⟨raw.f, if fl.gradient then some raw.g else none, if fl.hessian then some raw.h else none,
                 if fl.bhhh then some raw.b else none⟩) := by
  obtain ⟨g, h, b⟩ := fl
  cases g <;> cases h <;> cases b <;> rfl

theorem calcPackage_nodb {α : Type} (fl : Flags) (f0 : α) (g0 : List α) (h0 b0 : List (List α)) :
    calcPackage fl false false ⟨[f0], [g0], [h0], [b0]⟩ = calcPackage fl true false ⟨[f0], [g0], [h0], [b0]⟩ := by
  obtain ⟨g, h, b⟩ := fl
  cases g <;> cases h <;> cases b <;> rfl

theorem calcPackage_nodb_many {α : Type} (fl : Flags) (f0 f1 : α) (fs : List α) (g : List (List α))
    (h b : List (List (List α))) :
    calcPackage fl false false ⟨f0 :: f1 :: fs, g, h, b⟩ = .error "BiogemeError" := by
  obtain ⟨g', h', b'⟩ := fl
  cases g' <;> cases h' <;> cases b' <;> rfl

/-! ### unpacking -/

theorem iters_done {α : Type} (p : Proxy α) (hp : p.iterated = true) : ∀ k : Nat,
    (p.iters k).1 = List.replicate k (.error "TypeError") ∧ (p.iters k).2 = p := by
  intro k
  induction k with
  | zero => exact ⟨rfl, rfl⟩
  | succ k ih =>
    have h1 : p.iter = (.error "TypeError", p) := by simp [Proxy.iter, hp]
    simp only [Proxy.iters, h1, ih.1, ih.2, List.replicate_succ, and_self]

/-! ### positional points -/

theorem pointEnv_set (names : List String) (hnd : names.Nodup) (x : List ℝ) (hx : x.length = names.length)
    (k : Nat) (n : String) (hk : names[k]? = some n) (base : Env ℝ) (t : ℝ) :
    (pointEnv names x base).setPar n t = pointEnv names (x.set k t) base := by
  have hkn : IdM.indexOf n names = some k := IdM.indexOf_of_get names hnd k n hk
  have hkl : k < x.length := by have := indexOf_lt n names k hkn; omega
  simp only [pointEnv, Env.setPar]
  congr 1
  funext m
  by_cases hm : m = n
  · subst hm
    simp [hkn, List.getD_eq_getElem?_getD, hkl]
  · simp only [hm, if_false]
    cases hj : IdM.indexOf m names with
    | none => rfl
    | some j =>
      have hjk : k ≠ j := by
        intro h
        subst h
        have := IdM.indexOf_get m names k hj
        rw [hk] at this
        exact hm (Option.some.inj this).symm
      simp [List.getD_eq_getElem?_getD, List.getElem?_set_ne hjk]

theorem pointEnv_par (names : List String) (hnd : names.Nodup) (x : List ℝ) (k : Nat) (n : String)
    (hk : names[k]? = some n) (base : Env ℝ) (hkl : k < x.length) :
    (pointEnv names x base).par n = x.getD k 0 := by
  have hkn : IdM.indexOf n names = some k := IdM.indexOf_of_get names hnd k n hk
  simp [pointEnv, hkn, List.getD_eq_getElem?_getD, hkl]

theorem length_grad (names : List String) (env : Env ℝ) (e : E ℝ) : (grad names env e).length = names.length := by
  simp [grad]

theorem length_aggGrad (names : List String) (e : E ℝ) : ∀ envs : List (Env ℝ),
    (aggGrad names envs e).length = names.length := by
  intro envs
  induction envs with
  | nil => simp [aggGrad, vzero]
  | cons env t ih =>
    have : aggGrad names (env :: t) e = vadd (grad names env e) (aggGrad names t e) := rfl
    rw [this, length_vadd _ _ (by rw [length_grad, ih]), length_grad]

/-- entry k of the aggregated gradient is the sum over the rows of entry k of the row gradients -/
theorem getD_aggGrad (names : List String) (e : E ℝ) (k : Nat) : ∀ envs : List (Env ℝ),
    (aggGrad names envs e).getD k 0 = (envs.map fun env => (grad names env e).getD k 0).sum := by
  intro envs
  induction envs with
  | nil => simp [aggGrad, vzero, List.getD_eq_getElem?_getD, List.getElem?_replicate]; split <;> simp
  | cons env t ih =>
    have : aggGrad names (env :: t) e = vadd (grad names env e) (aggGrad names t e) := rfl
    rw [this, getD_vadd _ _ (by rw [length_grad, length_aggGrad]), ih]
    simp

/-! ### successive calls -/

theorem runCalls_eq {β γ : Type} (H : β → γ) (xs : List β) : runCalls H xs = xs.map H := by
  unfold runCalls
  suffices h : ∀ (acc : List γ), xs.foldl (fun heap x => heap ++ [H x]) acc = acc ++ xs.map H by
    simpa using h []
  induction xs with
  | nil => intro acc; simp
  | cons x t ih => intro acc; simp [ih]

end DerivOut
