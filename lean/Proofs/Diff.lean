/- The symbolic derivative is the derivative (C02): `HasDerivAt` for the whole fragment,
closure of regularity, symmetry of second derivatives, aggregation. -/
import Model.Diff
import Proofs.NumReal
import Mathlib.Analysis.SpecialFunctions.Log.Deriv
import Mathlib.Analysis.SpecialFunctions.ExpDeriv
import Mathlib.Analysis.SpecialFunctions.Pow.Deriv
import Mathlib.Analysis.Calculus.Deriv.Mul
import Mathlib.Analysis.Calculus.Deriv.Inv
import Mathlib.Analysis.Calculus.Deriv.Add

namespace Diff

/-! ### bridge: `ev` on ℝ in ordinary notation -/

@[simp] theorem ev_num (env : Env ℝ) (v : ℝ) : ev env (.num v) = v := rfl
@[simp] theorem ev_par (env : Env ℝ) (n : String) : ev env (.par n) = env.par n := rfl
@[simp] theorem ev_var (env : Env ℝ) (n : String) : ev env (.var n) = env.var n := rfl
@[simp] theorem ev_add (env : Env ℝ) (a b : E ℝ) : ev env (.add a b) = ev env a + ev env b := rfl
@[simp] theorem ev_sub (env : Env ℝ) (a b : E ℝ) : ev env (.sub a b) = ev env a - ev env b := rfl
@[simp] theorem ev_mul (env : Env ℝ) (a b : E ℝ) : ev env (.mul a b) = ev env a * ev env b := rfl
@[simp] theorem ev_div (env : Env ℝ) (a b : E ℝ) : ev env (.div a b) = ev env a / ev env b := rfl
@[simp] theorem ev_neg (env : Env ℝ) (a : E ℝ) : ev env (.neg a) = -(ev env a) := rfl
@[simp] theorem ev_exp (env : Env ℝ) (a : E ℝ) : ev env (.exp a) = Real.exp (ev env a) := rfl
@[simp] theorem ev_log (env : Env ℝ) (a : E ℝ) : ev env (.log a) = Real.log (ev env a) := rfl
@[simp] theorem ev_powc (env : Env ℝ) (a : E ℝ) (c : ℝ) : ev env (.powc a c) = (ev env a) ^ c := rfl

/-- regular domain: denominators non-zero, arguments of log and power positive -/
def Regular (env : Env ℝ) : E ℝ → Prop
  | .num _ => True
  | .par _ => True
  | .var _ => True
  | .add a b => Regular env a ∧ Regular env b
  | .sub a b => Regular env a ∧ Regular env b
  | .mul a b => Regular env a ∧ Regular env b
  | .div a b => Regular env a ∧ Regular env b ∧ ev env b ≠ 0
  | .neg a => Regular env a
  | .exp a => Regular env a
  | .log a => Regular env a ∧ 0 < ev env a
  | .powc a _ => Regular env a ∧ 0 < ev env a

theorem setPar_self (env : Env ℝ) (n : String) : env.setPar n (env.par n) = env := by
  cases env with
  | mk p v =>
    simp only [Env.setPar]
    congr 1
    funext m
    by_cases h : m = n
    · simp [h]
    · simp [h]

@[simp] theorem setPar_var (env : Env ℝ) (n : String) (t : ℝ) : (env.setPar n t).var = env.var := rfl

theorem diff_par_ev (env : Env ℝ) (n m : String) :
    ev env (diff n (.par m : E ℝ)) = if m = n then 1 else 0 := by
  unfold diff
  split
  · simp [ev]
  · simp [ev]

/-- **the symbolic derivative is the derivative** -/
theorem diff_correct (env : Env ℝ) (n : String) (e : E ℝ) (h : Regular env e) :
    HasDerivAt (fun t => ev (env.setPar n t) e) (ev env (diff n e)) (env.par n) := by
  induction e with
  | num v =>
    have h0 : ev env (diff n (.num v : E ℝ)) = 0 := by simp [diff]
    rw [h0]
    exact hasDerivAt_const (env.par n) v
  | par m =>
    rw [diff_par_ev]
    by_cases hm : m = n
    · subst hm
      simp only [↓reduceIte]
      have : (fun t => ev (env.setPar m t) (.par m : E ℝ)) = fun t => t := by
        funext t; simp [Env.setPar]
      rw [this]
      exact hasDerivAt_id' _
    · simp only [hm, ↓reduceIte]
      have : (fun t => ev (env.setPar n t) (.par m : E ℝ)) = fun _ => env.par m := by
        funext t; simp [Env.setPar, hm]
      rw [this]
      exact hasDerivAt_const _ _
  | var m =>
    have h0 : ev env (diff n (.var m : E ℝ)) = 0 := by simp [diff]
    rw [h0]
    exact hasDerivAt_const (env.par n) (env.var m)
  | add a b iha ihb => exact (iha h.1).add (ihb h.2)
  | sub a b iha ihb => exact (iha h.1).sub (ihb h.2)
  | mul a b iha ihb =>
    have := (iha h.1).mul (ihb h.2)
    simp only [setPar_self] at this
    exact this
  | div a b iha ihb =>
    have hb : ev (env.setPar n (env.par n)) b ≠ 0 := by rw [setPar_self]; exact h.2.2
    refine ((iha h.1).div (ihb h.2.1) hb).congr_deriv ?_
    simp only [setPar_self, diff, ev_div, ev_sub, ev_mul]
    ring
  | neg a iha => exact (iha h).neg
  | exp a iha =>
    have := (iha h).exp
    simp only [setPar_self] at this
    exact this
  | log a iha =>
    have ha : ev (env.setPar n (env.par n)) a ≠ 0 := by rw [setPar_self]; exact ne_of_gt h.2
    have := (iha h.1).log ha
    simp only [setPar_self] at this
    exact this
  | powc a c iha =>
    have ha : ev (env.setPar n (env.par n)) a ≠ 0 ∨ 1 ≤ c := by
      left; rw [setPar_self]; exact ne_of_gt h.2
    refine ((iha h.1).rpow_const ha).congr_deriv ?_
    simp only [setPar_self, diff, ev_mul, ev_num, ev_powc, NumR.sub_real, NumR.ofNat_real_one]
    ring

end Diff

namespace Diff

theorem diff_if (n : String) (c : Prop) [Decidable c] (a b : E ℝ) :
    diff n (if c then a else b) = if c then diff n a else diff n b := by
  split <;> rfl

theorem regular_if (env : Env ℝ) (c : Prop) [Decidable c] (a b : E ℝ) (ha : Regular env a)
    (hb : Regular env b) : Regular env (if c then a else b) := by
  split <;> assumption

/-- regularity is preserved by differentiation (so that second derivatives exist) -/
theorem regular_diff (env : Env ℝ) (n : String) (e : E ℝ) (h : Regular env e) :
    Regular env (diff n e) := by
  induction e with
  | num v => trivial
  | par m => unfold diff; exact regular_if env _ _ _ trivial trivial
  | var m => trivial
  | add a b iha ihb => exact ⟨iha h.1, ihb h.2⟩
  | sub a b iha ihb => exact ⟨iha h.1, ihb h.2⟩
  | mul a b iha ihb => exact ⟨⟨iha h.1, h.2⟩, ⟨h.1, ihb h.2⟩⟩
  | div a b iha ihb =>
    refine ⟨⟨⟨iha h.1, h.2.1⟩, ⟨h.1, ihb h.2.1⟩⟩, ⟨h.2.1, h.2.1⟩, ?_⟩
    simp only [ev_mul]
    exact mul_ne_zero h.2.2 h.2.2
  | neg a iha => exact iha h
  | exp a iha => exact ⟨h, iha h⟩
  | log a iha => exact ⟨iha h.1, h.1, ne_of_gt h.2⟩
  | powc a c iha => exact ⟨⟨trivial, h.1, h.2⟩, iha h.1⟩

/-- **the Hessian entry is the derivative of the gradient entry** -/
theorem hess_correct (env : Env ℝ) (i j : String) (e : E ℝ) (h : Regular env e) :
    HasDerivAt (fun t => ev (env.setPar i t) (diff j e)) (ev env (diff i (diff j e))) (env.par i) :=
  diff_correct env i (diff j e) (regular_diff env j e h)

/-- **symmetry of second derivatives** (structural) -/
theorem hess_symm (env : Env ℝ) (i j : String) (e : E ℝ) (h : Regular env e) :
    ev env (diff i (diff j e)) = ev env (diff j (diff i e)) := by
  induction e with
  | num v => simp [diff]
  | par m =>
    simp only [diff, diff_if]
    by_cases h1 : m = j <;> by_cases h2 : m = i <;> simp [h1, h2]
  | var m => simp [diff]
  | add a b iha ihb => simp only [diff, ev_add, iha h.1, ihb h.2]
  | sub a b iha ihb => simp only [diff, ev_sub, iha h.1, ihb h.2]
  | mul a b iha ihb =>
    simp only [diff, ev_add, ev_mul, iha h.1, ihb h.2]
    ring
  | div a b iha ihb =>
    have hb := h.2.2
    simp only [diff, ev_div, ev_sub, ev_mul, ev_add, iha h.1, ihb h.2.1]
    field_simp
    ring
  | neg a iha => simp only [diff, ev_neg, iha h]
  | exp a iha =>
    simp only [diff, ev_add, ev_mul, ev_exp, iha h]
    ring
  | log a iha =>
    have ha := ne_of_gt h.2
    simp only [diff, ev_div, ev_sub, ev_mul, iha h.1]
    field_simp
  | powc a c iha =>
    simp only [diff, ev_add, ev_mul, ev_num, ev_powc, iha h.1, NumR.sub_real, NumR.ofNat_real_one,
      NumR.ofNat_real_zero]
    ring

end Diff

namespace Diff

/-! ### aggregation and BHHH -/

/-- **the aggregated gradient entry is the derivative of the aggregated value**: for rows that
share the parameter vector, Σ_rows ∂f_row/∂θ_n is the derivative of Σ_rows f_row -/
theorem agg_deriv (n : String) (e : E ℝ) (x : ℝ) :
    ∀ (envs : List (Env ℝ)), (∀ env ∈ envs, Regular env e ∧ env.par n = x) →
      HasDerivAt (fun t => Num.sum (envs.map fun env => ev (env.setPar n t) e))
        (Num.sum (envs.map fun env => ev env (diff n e))) x := by
  intro envs
  induction envs with
  | nil =>
    intro _
    simp only [List.map_nil, NumR.sum_real, List.sum_nil]
    exact hasDerivAt_const _ _
  | cons env t ih =>
    intro h
    have h1 := h env List.mem_cons_self
    have ht := ih (fun e' he' => h e' (List.mem_cons_of_mem _ he'))
    simp only [List.map_cons, NumR.sum_real, List.sum_cons] at ht ⊢
    have hd := diff_correct env n e h1.1
    rw [h1.2] at hd
    exact hd.add ht

def entry (m : List (List ℝ)) (i j : Nat) : ℝ := (m.getD i []).getD j 0

theorem getD_map_zero (g : List ℝ) (f : ℝ → ℝ) (hf : f 0 = 0) (i : Nat) :
    (g.map f).getD i 0 = f (g.getD i 0) := by
  induction g generalizing i with
  | nil => simp [hf]
  | cons a t ih =>
    cases i with
    | zero => simp
    | succ k => simpa using ih k

theorem entry_outer (g : List ℝ) (i j : Nat) : entry (outer g) i j = g.getD i 0 * g.getD j 0 := by
  unfold entry outer
  by_cases hi : i < g.length
  · have : (g.map fun a => g.map fun b => a * b).getD i [] = g.map fun b => g.getD i 0 * b := by
      simp [List.getD, List.getElem?_map, List.getElem?_eq_getElem hi]
    rw [this]
    have := getD_map_zero g (fun b => g.getD i 0 * b) (by simp) j
    simpa [NumR.mul_real] using this
  · have h1 : (g.map fun a => g.map fun b => a * b).getD i [] = [] := by
      simp [List.getD, List.getElem?_map, List.getElem?_eq_none (by omega : g.length ≤ i)]
    have h2 : g.getD i 0 = 0 := by
      simp [List.getD, List.getElem?_eq_none (by omega : g.length ≤ i)]
    rw [h1, h2]; simp

/-- the outer product of a gradient with itself is symmetric -/
theorem outer_symm (g : List ℝ) (i j : Nat) : entry (outer g) i j = entry (outer g) j i := by
  rw [entry_outer, entry_outer, mul_comm]

end Diff

namespace Diff

theorem getD_vadd (a b : List ℝ) (h : a.length = b.length) (i : Nat) :
    (vadd a b).getD i 0 = a.getD i 0 + b.getD i 0 := by
  unfold vadd
  induction a generalizing b i with
  | nil => cases b with
    | nil => simp
    | cons _ _ => simp at h
  | cons x t ih =>
    cases b with
    | nil => simp at h
    | cons y u =>
      cases i with
      | zero => simp [NumR.add_real]
      | succ k =>
        have := ih u (by simpa using h) k
        simpa using this

def Dim (k : Nat) (m : List (List ℝ)) : Prop := m.length = k ∧ ∀ r ∈ m, r.length = k

theorem length_vadd (a b : List ℝ) (h : a.length = b.length) : (vadd a b).length = a.length := by
  simp [vadd, h]

theorem dim_madd (k : Nat) (A B : List (List ℝ)) (hA : Dim k A) (hB : Dim k B) : Dim k (madd A B) := by
  unfold madd
  refine ⟨by simp [hA.1, hB.1], ?_⟩
  intro r hr
  rw [List.mem_iff_getElem] at hr
  obtain ⟨i, hi, rfl⟩ := hr
  simp only [List.getElem_zipWith]
  have hiA : i < A.length := by simpa [hA.1, hB.1] using hi
  have hiB : i < B.length := by simpa [hA.1, hB.1] using hi
  rw [length_vadd]
  · exact hA.2 _ (List.getElem_mem hiA)
  · rw [hA.2 _ (List.getElem_mem hiA), hB.2 _ (List.getElem_mem hiB)]

theorem entry_madd (k : Nat) (A B : List (List ℝ)) (hA : Dim k A) (hB : Dim k B) (i j : Nat) :
    entry (madd A B) i j = entry A i j + entry B i j := by
  unfold entry madd
  by_cases hi : i < k
  · have hiA : i < A.length := by rw [hA.1]; exact hi
    have hiB : i < B.length := by rw [hB.1]; exact hi
    have h1 : (List.zipWith vadd A B).getD i [] = vadd A[i] B[i] := by
      simp [List.getD, List.getElem?_zipWith, List.getElem?_eq_getElem hiA, List.getElem?_eq_getElem hiB]
    have h2 : A.getD i [] = A[i] := by simp [List.getD, List.getElem?_eq_getElem hiA]
    have h3 : B.getD i [] = B[i] := by simp [List.getD, List.getElem?_eq_getElem hiB]
    rw [h1, h2, h3]
    apply getD_vadd
    rw [hA.2 _ (List.getElem_mem hiA), hB.2 _ (List.getElem_mem hiB)]
  · have hz : (List.zipWith vadd A B).getD i [] = [] := by
      simp [List.getD, List.getElem?_eq_none (by simp [hA.1, hB.1]; omega : (List.zipWith vadd A B).length ≤ i)]
    have hAl := hA.1
    have hBl := hB.1
    have h2 : A.getD i [] = [] := by simp [List.getD, List.getElem?_eq_none (by omega : A.length ≤ i)]
    have h3 : B.getD i [] = [] := by simp [List.getD, List.getElem?_eq_none (by omega : B.length ≤ i)]
    rw [hz, h2, h3]; simp

theorem dim_outer (g : List ℝ) : Dim g.length (outer g) := by
  unfold outer
  refine ⟨by simp, ?_⟩
  intro r hr
  simp only [List.mem_map] at hr
  obtain ⟨a, _, rfl⟩ := hr
  simp

theorem dim_mzero (k : Nat) : Dim k (mzero k : List (List ℝ)) := by
  unfold mzero vzero
  refine ⟨by simp, ?_⟩
  intro r hr
  rw [List.mem_replicate] at hr
  rw [hr.2]; simp

theorem entry_mzero (k i j : Nat) : entry (mzero k : List (List ℝ)) i j = 0 := by
  unfold entry mzero vzero
  by_cases hi : i < k
  · have : (List.replicate k (List.replicate k (0 : ℝ))).getD i [] = List.replicate k 0 := by
      simp [List.getD, hi]
    have h0 : (@OfNat.ofNat ℝ 0 Num.instOfNatOfNumOps) = (0 : ℝ) := NumR.ofNat_real_zero
    simp only [h0] at *
    rw [this]
    by_cases hj : j < k
    · simp [List.getD, hj]
    · simp [List.getD, List.getElem?_eq_none (by simp; omega : (List.replicate k (0:ℝ)).length ≤ j)]
  · have h0 : (@OfNat.ofNat ℝ 0 Num.instOfNatOfNumOps) = (0 : ℝ) := NumR.ofNat_real_zero
    simp only [h0]
    have : (List.replicate k (List.replicate k (0 : ℝ))).getD i [] = [] := by
      simp [List.getD, List.getElem?_eq_none (by simp; omega : (List.replicate k (List.replicate k (0:ℝ))).length ≤ i)]
    rw [this]; simp

/-- **BHHH entry (i,j) = Σ over observations of g_n[i]·g_n[j]** -/
theorem bhhh_entry (k : Nat) : ∀ (gs : List (List ℝ)), (∀ g ∈ gs, g.length = k) → ∀ i j,
    entry (bhhh k gs) i j = (gs.map fun g => g.getD i 0 * g.getD j 0).sum ∧ Dim k (bhhh k gs) := by
  intro gs
  induction gs with
  | nil => intro _ i j; exact ⟨by simp [bhhh, entry_mzero], dim_mzero k⟩
  | cons g t ih =>
    intro h i j
    have hg := h g List.mem_cons_self
    have ht := ih (fun g' hg' => h g' (List.mem_cons_of_mem _ hg')) i j
    have hdo : Dim k (outer g) := hg ▸ dim_outer g
    show entry (madd (outer g) (bhhh k t)) i j = _ ∧ Dim k (madd (outer g) (bhhh k t))
    refine ⟨?_, dim_madd k _ _ hdo ht.2⟩
    rw [entry_madd k _ _ hdo ht.2, entry_outer, ht.1]
    simp

theorem bhhh_symm (k : Nat) (gs : List (List ℝ)) (h : ∀ g ∈ gs, g.length = k) (i j : Nat) :
    entry (bhhh k gs) i j = entry (bhhh k gs) j i := by
  rw [(bhhh_entry k gs h i j).1, (bhhh_entry k gs h j i).1]
  congr 1
  apply List.map_congr_left
  intro g _
  exact mul_comm _ _

end Diff
