/- Helper lemmas for Props/C20.lean (core Lean only). -/
import Model.Dispatch

namespace Disp

theorem foundAlong_lookup (H : Hier) (n : NameId) (cap : ImplId) :
    ∀ l, foundAlong H n cap l = true → lookupAlong H n l ≠ none
  | [], h => by simp [foundAlong] at h
  | k :: t, h => by
    unfold lookupAlong
    cases hk : classGet H k n with
    | some i => simp
    | none =>
      simp only [foundAlong, hk, Bool.or_eq_true, beq_iff_eq] at h
      rcases h with h | h
      · cases h
      · exact foundAlong_lookup H n cap t h

theorem foundAlong_of_mem (H : Hier) (n : NameId) (cap : ImplId) (d : ClassId)
    (hd : classGet H d n = some cap) : ∀ l, d ∈ l → foundAlong H n cap l = true
  | [], h => by cases h
  | k :: t, h => by
    simp only [foundAlong, Bool.or_eq_true, beq_iff_eq]
    rcases List.mem_cons.mp h with rfl | h
    · exact Or.inl hd
    · exact Or.inr (foundAlong_of_mem H n cap d hd t h)

/-- `lookupAlong` returns `i` iff the first class of the list defining the name maps it to `i` -/
theorem lookupAlong_eq_some (H : Hier) (n : NameId) (i : ImplId) :
    ∀ l, lookupAlong H n l = some i ↔
      ∃ pre k post, l = pre ++ k :: post ∧ (∀ p ∈ pre, classGet H p n = none) ∧
        classGet H k n = some i
  | [] => by
    simp only [lookupAlong]
    constructor
    · intro h; cases h
    · rintro ⟨pre, k, post, h, _⟩
      cases pre <;> simp at h
  | a :: t => by
    unfold lookupAlong
    cases ha : classGet H a n with
    | some j =>
      constructor
      · intro h
        simp only [Option.some.injEq] at h
        subst h
        exact ⟨[], a, t, rfl, fun _ hp => (by cases hp), ha⟩
      · rintro ⟨pre, k, post, h, hpre, hk⟩
        cases pre with
        | nil =>
          simp only [List.nil_append, List.cons.injEq] at h
          rw [← h.1] at hk
          rw [ha] at hk
          exact hk
        | cons p ps =>
          simp only [List.cons_append, List.cons.injEq] at h
          have := hpre p (List.mem_cons_self)
          rw [← h.1, ha] at this
          cases this
    | none =>
      simp only []
      rw [lookupAlong_eq_some H n i t]
      constructor
      · rintro ⟨pre, k, post, h, hpre, hk⟩
        refine ⟨a :: pre, k, post, by simp [h], ?_, hk⟩
        intro p hp
        rcases List.mem_cons.mp hp with rfl | hp
        · exact ha
        · exact hpre p hp
      · rintro ⟨pre, k, post, h, hpre, hk⟩
        cases pre with
        | nil =>
          simp only [List.nil_append, List.cons.injEq] at h
          rw [← h.1, ha] at hk
          cases hk
        | cons p ps =>
          simp only [List.cons_append, List.cons.injEq] at h
          exact ⟨ps, k, post, h.2, fun q hq => hpre q (List.mem_cons_of_mem _ hq), hk⟩

/-! ### keyword renaming -/

def keysOf {V} (l : List (NameId × V)) : List NameId := l.map (·.1)

theorem kwSet_fresh {V} : ∀ (l : List (NameId × V)) (k : NameId) (v : V), k ∉ keysOf l →
    kwSet l k v = l ++ [(k, v)]
  | [], _, _, _ => rfl
  | (k', v') :: t, k, v, h => by
    have h1 : k' ≠ k := fun e => h (by simp [keysOf, e])
    have h2 : k ∉ keysOf t := fun m => h (by
      simp only [keysOf, List.map_cons, List.mem_cons]; exact Or.inr m)
    simp [kwSet, h1, kwSet_fresh t k v h2]

/-- one keyword argument as the caller may write it: under its current name `key`, or under
an obsolete spelling `old` that the map sends to `key` -/
structure Entry (V : Type) where
  old : Option NameId
  key : NameId
  val : V

def Entry.written {V} (e : Entry V) : NameId × V := (e.old.getD e.key, e.val)
def Entry.current {V} (e : Entry V) : NameId × V := (e.key, e.val)

/-- the entry is consistent with the map: an obsolete spelling is mapped to the key, a current
name is not itself an obsolete name -/
def Entry.ok {V} (m : KwMap) (e : Entry V) : Prop :=
  match e.old with
  | some o => mapGet m o = some (some e.key)
  | none => mapGet m e.key = none

def obsoleteCount {V} : List (Entry V) → Nat
  | [] => 0
  | e :: t => (if e.old.isSome then 1 else 0) + obsoleteCount t

theorem renameLoop_entries {V} (m : KwMap) :
    ∀ (es : List (Entry V)) (acc : List (NameId × V)) (w : Nat),
      (∀ e ∈ es, e.ok m) → (keysOf acc ++ es.map (·.key)).Nodup →
      renameLoop m (es.map Entry.written) acc w
        = (acc ++ es.map Entry.current, w + obsoleteCount es)
  | [], acc, w, _, _ => by simp [renameLoop, obsoleteCount]
  | e :: t, acc, w, hok, hn => by
    have he := hok e (List.mem_cons_self)
    have hfresh : e.key ∉ keysOf acc := by
      intro hm
      rw [List.nodup_append] at hn
      exact hn.2.2 _ hm _ (by simp) rfl
    have hn' : (keysOf (acc ++ [(e.key, e.val)]) ++ t.map (·.key)).Nodup := by
      have : keysOf (acc ++ [(e.key, e.val)]) ++ t.map (·.key)
          = keysOf acc ++ (e :: t).map (·.key) := by simp [keysOf]
      rw [this]; exact hn
    have ih := renameLoop_entries m t (acc ++ [(e.key, e.val)])
    cases ho : e.old with
    | some o =>
      simp only [Entry.ok, ho] at he
      simp only [List.map_cons, Entry.written, ho, Option.getD_some, renameLoop, he,
        kwSet_fresh acc e.key e.val hfresh]
      rw [ih (w + 1) (fun x hx => hok x (List.mem_cons_of_mem _ hx)) hn']
      simp [Entry.current, obsoleteCount, ho, Nat.add_comm, Nat.add_left_comm]
    | none =>
      simp only [Entry.ok, ho] at he
      simp only [List.map_cons, Entry.written, ho, Option.getD_none, renameLoop, he,
        kwSet_fresh acc e.key e.val hfresh]
      rw [ih w (fun x hx => hok x (List.mem_cons_of_mem _ hx)) hn']
      simp [Entry.current, obsoleteCount, ho]

end Disp
