/-
Lemmas about the draw generators over ℝ: radical inverse, the Halton array-doubling loops,
Latin hypercube strata, antithetic / symmetric arrays.  (AS241 in Proofs/DrawsWichura.lean.)
-/
import Model.Draws
import Proofs.NumReal
import Mathlib.Data.List.GetD

namespace Draws
open NumR

theorem radInv_zero (b : ℕ) : (radInv b 0 : ℝ) = 0 := by
  rw [radInv]; simp

theorem radInv_step (b : ℕ) (hb : 2 ≤ b) (k : ℕ) :
    (radInv b k : ℝ) = (((k % b : ℕ) : ℝ) + radInv b (k / b)) / (b : ℝ) := by
  by_cases hk : k = 0
  · subst hk; simp [radInv_zero]
  · rw [radInv]
    have : ¬ (b < 2 ∨ k = 0) := by omega
    simp only [this, dite_false, nofNat_real, add_real, div_real]

theorem radInv_lt_base (b : ℕ) (hb : 2 ≤ b) (i : ℕ) (hi : i < b) : (radInv b i : ℝ) = (i : ℝ) / b := by
  rw [radInv_step b hb i, Nat.mod_eq_of_lt hi, Nat.div_eq_of_lt hi, radInv_zero, add_zero]

/-- digits of `k` below position `t`, digit `i` at position `t` -/
theorem radInv_add_mul (b : ℕ) (hb : 2 ≤ b) (t : ℕ) : ∀ (k i : ℕ), k < b ^ t → i < b →
    (radInv b (k + i * b ^ t) : ℝ) = radInv b k + (i : ℝ) / (b : ℝ) ^ (t + 1) := by
  induction t with
  | zero =>
    intro k i hk hi
    have : k = 0 := by simpa using hk
    subst this
    simp [radInv_zero, radInv_lt_base b hb i hi]
  | succ t ih =>
    intro k i hk hi
    have hbpos : 0 < b := by omega
    have hb0 : (b : ℝ) ≠ 0 := by positivity
    have e1 : (k + i * b ^ (t + 1)) % b = k % b := by
      rw [pow_succ, ← mul_assoc, Nat.add_mul_mod_self_right]
    have e2 : (k + i * b ^ (t + 1)) / b = k / b + i * b ^ t := by
      rw [pow_succ, ← mul_assoc, Nat.add_mul_div_right _ _ hbpos]
    have hk' : k / b < b ^ t := by
      rw [Nat.div_lt_iff_lt_mul hbpos, ← pow_succ]; exact hk
    rw [radInv_step b hb (k + i * b ^ (t + 1)), e1, e2, ih (k / b) i hk' hi, radInv_step b hb k]
    field_simp
    ring

theorem radInv_nonneg (b : ℕ) (hb : 2 ≤ b) (k : ℕ) : (0 : ℝ) ≤ radInv b k := by
  induction k using Nat.strong_induction_on with
  | _ k ih =>
    by_cases hk : k = 0
    · subst hk; rw [radInv_zero]
    · rw [radInv_step b hb k]
      have := ih (k / b) (Nat.div_lt_self (by omega) (by omega))
      positivity

theorem radInv_lt_one (b : ℕ) (hb : 2 ≤ b) (k : ℕ) : (radInv b k : ℝ) < 1 := by
  induction k using Nat.strong_induction_on with
  | _ k ih =>
    by_cases hk : k = 0
    · subst hk; rw [radInv_zero]; norm_num
    · rw [radInv_step b hb k]
      have h1 := ih (k / b) (Nat.div_lt_self (by omega) (by omega))
      have hbpos : (0 : ℝ) < b := by positivity
      rw [div_lt_one hbpos]
      have hm : ((k % b : ℕ) : ℝ) ≤ (b : ℝ) - 1 := by
        have : k % b < b := Nat.mod_lt _ (by omega)
        have : k % b + 1 ≤ b := this
        have : ((k % b + 1 : ℕ) : ℝ) ≤ (b : ℝ) := by exact_mod_cast this
        push_cast at this
        linarith
      linarith

/-- the specification list: radical inverses of 0 … n-1 -/
noncomputable def radList (b n : ℕ) : List ℝ := (List.range n).map (fun k => (radInv b k : ℝ))

theorem radList_length (b n : ℕ) : (radList b n).length = n := by simp [radList]

theorem radList_take (b n m : ℕ) (h : m ≤ n) : (radList b n).take m = radList b m := by
  unfold radList
  rw [← List.map_take, List.take_range, Nat.min_eq_left h]

theorem radList_append (b n m : ℕ) :
    radList b n ++ (List.range m).map (fun k => (radInv b (n + k) : ℝ)) = radList b (n + m) := by
  unfold radList
  rw [List.range_add, List.map_append, List.map_map]
  rfl

theorem haltonInner_done (b req : ℕ) (d : ℝ) (size fuel i : ℕ) (nums : List ℝ) (h : req ≤ nums.length) :
    haltonInner b req d size fuel i nums = nums := by
  cases fuel with
  | zero => rfl
  | succ f =>
    rw [haltonInner]
    have : ¬ (i < b ∧ nums.length < req) := by omega
    simp [this]

theorem haltonInner_spec (b req e : ℕ) (hb : 2 ≤ b) :
    ∀ (fuel i : ℕ), 1 ≤ i → i ≤ b → b - i ≤ fuel → i * b ^ e ≤ req →
      haltonInner b req ((1 : ℝ) / (b : ℝ) ^ (e + 1)) (b ^ e) fuel i (radList b (i * b ^ e))
        = radList b (min (b ^ (e + 1)) req) := by
  intro fuel
  induction fuel with
  | zero =>
    intro i hi1 hib hf hle
    have : i = b := by omega
    subst this
    rw [haltonInner]
    have e1 : i * i ^ e = i ^ (e + 1) := by rw [pow_succ, mul_comm]
    rw [e1] at hle ⊢
    rw [Nat.min_eq_left hle]
  | succ f ih =>
    intro i hi1 hib hf hle
    rw [haltonInner]
    have hlen : (radList b (i * b ^ e)).length = i * b ^ e := radList_length _ _
    rw [hlen]
    have hpos : 0 < b ^ e := Nat.pow_pos (by omega)
    by_cases hc : i < b ∧ i * b ^ e < req
    · rw [if_pos hc]
      obtain ⟨hlt, hlen⟩ := hc
      simp only
      set m := min (req - i * b ^ e) (b ^ e) with hm
      have hm_le : m ≤ b ^ e := Nat.min_le_right _ _
      have hm_le' : m ≤ i * b ^ e := le_trans hm_le (Nat.le_mul_of_pos_left _ hi1)
      -- the appended block
      have hblock : ((radList b (i * b ^ e)).take m).map (fun x => x + (1 : ℝ) / (b : ℝ) ^ (e + 1) * NumOps.ofNat i)
          = (List.range m).map (fun k => (radInv b (i * b ^ e + k) : ℝ)) := by
        rw [radList_take b _ m hm_le']
        unfold radList
        rw [List.map_map]
        apply List.map_congr_left
        intro k hk
        have hk' : k < b ^ e := lt_of_lt_of_le (List.mem_range.mp hk) hm_le
        simp only [Function.comp, nofNat_real]
        rw [Nat.add_comm (i * b ^ e) k, radInv_add_mul b hb e k i hk' hlt]
        ring
      rw [hblock, radList_append]
      by_cases hfull : b ^ e ≤ req - i * b ^ e
      · have hmeq : m = b ^ e := Nat.min_eq_right hfull
        have e2 : i * b ^ e + m = (i + 1) * b ^ e := by rw [hmeq]; ring
        rw [e2]
        exact ih (i + 1) (by omega) (by omega) (by omega) (by rw [← e2, hmeq]; omega)
      · have hmeq : m = req - i * b ^ e := Nat.min_eq_left (by omega)
        have e2 : i * b ^ e + m = req := by rw [hmeq]; omega
        rw [e2, haltonInner_done _ _ _ _ _ _ _ (by rw [radList_length])]
        have : req ≤ b ^ (e + 1) := by
          have h1 : req < (i + 1) * b ^ e := by
            have : (i + 1) * b ^ e = i * b ^ e + b ^ e := by ring
            omega
          have h2 : (i + 1) * b ^ e ≤ b * b ^ e := Nat.mul_le_mul_right _ (by omega)
          rw [pow_succ, mul_comm]; omega
        rw [Nat.min_eq_right this]
    · rw [if_neg hc]
      have hcases : i = b ∨ req ≤ i * b ^ e := by
        by_contra h; push Not at h; exact hc ⟨by omega, h.2⟩
      rcases hcases with h | h
      · subst h
        have e1 : i * i ^ e = i ^ (e + 1) := by rw [pow_succ, mul_comm]
        rw [e1] at hle ⊢
        rw [Nat.min_eq_left hle]
      · have : i * b ^ e = req := le_antisymm hle h
        have h2 : req ≤ b ^ (e + 1) := by
          rw [← this, pow_succ, mul_comm]; exact Nat.mul_le_mul_left _ hib
        rw [Nat.min_eq_right h2, this]


theorem haltonOuter_spec (b req : ℕ) (hb : 2 ≤ b) :
    ∀ (fuel t : ℕ), 1 ≤ t → req ≤ b ^ (t - 1 + fuel) →
      haltonOuter b req fuel t (radList b (min (b ^ (t - 1)) req)) = radList b req := by
  intro fuel
  induction fuel with
  | zero =>
    intro t ht hreq
    rw [haltonOuter, Nat.min_eq_right (by simpa using hreq)]
  | succ f ih =>
    intro t ht hreq
    rw [haltonOuter]
    have hlen : (radList b (min (b ^ (t - 1)) req)).length = min (b ^ (t - 1)) req := radList_length _ _
    rw [hlen]
    by_cases hc : min (b ^ (t - 1)) req < req
    · rw [if_pos hc]
      have hlt : b ^ (t - 1) < req := by
        by_contra h
        rw [Nat.min_eq_right (not_lt.mp h)] at hc
        exact lt_irrefl _ hc
      have hmin : min (b ^ (t - 1)) req = b ^ (t - 1) := Nat.min_eq_left hlt.le
      simp only [hmin]
      have ht' : t = (t - 1) + 1 := by omega
      have hd : (NumOps.ofNat 1 : ℝ) / (NumOps.ofNat (b ^ t) : ℝ) = (1 : ℝ) / (b : ℝ) ^ ((t - 1) + 1) := by
        simp only [nofNat_real]
        rw [← ht']
        push_cast
        rfl
      have hinner := haltonInner_spec b req (t - 1) hb b 1 le_rfl (by omega) (by omega) (by simpa using hlt.le)
      rw [one_mul] at hinner
      rw [show (@HDiv.hDiv ℝ ℝ ℝ (@instHDiv ℝ Num.instDivOfNumOps) (NumOps.ofNat 1 : ℝ) (NumOps.ofNat (b ^ t) : ℝ))
            = (1 : ℝ) / (b : ℝ) ^ ((t - 1) + 1) from hd, hinner]
      have := ih (t + 1) (by omega) (by
        have : t + 1 - 1 + f = t - 1 + (f + 1) := by omega
        rw [this]; exact hreq)
      have e : t + 1 - 1 = t - 1 + 1 := by omega
      rw [e] at this
      exact this
    · rw [if_neg hc]
      have : min (b ^ (t - 1)) req = req := by
        have := Nat.min_le_right (b ^ (t - 1)) req
        omega
      rw [this]

theorem haltonNumbers_spec (b req : ℕ) (hb : 2 ≤ b) (hreq : 1 ≤ req) :
    (haltonNumbers b req : List ℝ) = radList b req := by
  unfold haltonNumbers
  have h0 : ([(0 : ℝ)] : List ℝ) = radList b (min (b ^ (1 - 1)) req) := by
    simp [radList, Nat.min_eq_left hreq, radInv_zero, List.range_succ]
  have h0' : ([@OfNat.ofNat ℝ 0 Num.instOfNatOfNumOps] : List ℝ) = radList b (min (b ^ (1 - 1)) req) := by
    rw [← h0]; simp
  rw [h0']
  apply haltonOuter_spec b req hb req 1 le_rfl
  have : req < 2 ^ req := Nat.lt_two_pow_self
  have h2 : 2 ^ req ≤ b ^ req := Nat.pow_le_pow_left hb req
  simpa using (lt_of_lt_of_le this h2).le


/-- **Halton**: the draws are the radical inverses of skip+1, skip+2, … -/
theorem haltonDraws_spec (b skip len : ℕ) (hb : 2 ≤ b) :
    (haltonDraws b skip len false : List ℝ)
      = (List.range len).map (fun k => (radInv b (k + skip + 1) : ℝ)) := by
  unfold haltonDraws
  simp only [Bool.false_eq_true, if_false]
  rw [haltonNumbers_spec b (len + skip + 1) hb (by omega)]
  unfold radList
  apply List.ext_getElem
  · simp
  · intro i h1 h2
    simp only [List.getElem_take, List.getElem_drop, List.getElem_map, List.getElem_range]
    congr 1
    omega

theorem haltonDraws_spec_sym (b skip len : ℕ) (hb : 2 ≤ b) :
    (haltonDraws b skip len true : List ℝ)
      = (List.range len).map (fun k => 2 * (radInv b (k + skip + 1) : ℝ) - 1) := by
  have h := haltonDraws_spec b skip len hb
  unfold haltonDraws at h ⊢
  simp only [Bool.false_eq_true, if_false, if_true] at h ⊢
  rw [h, List.map_map]
  apply List.map_congr_left
  intro k _
  simp only [Function.comp, symMap, mul_real, sub_real, ofSci_real]
  norm_num

/-! ## Latin hypercube -/

theorem lhsBaseFrom_eq (n : ℕ) (us : List ℝ) : ∀ i : ℕ,
    lhsBaseFrom n i us = (List.range us.length).map (fun j => (((i + j : ℕ) : ℝ) + us.getD j 0) / (n : ℝ)) := by
  induction us with
  | nil => intro i; simp [lhsBaseFrom]
  | cons u t ih =>
    intro i
    rw [lhsBaseFrom, ih (i + 1), List.length_cons, List.range_succ_eq_map, List.map_cons, List.map_map]
    refine congrArg₂ List.cons ?_ ?_
    · simp
    · apply List.map_congr_left
      intro j _
      simp only [Function.comp, List.getD_cons_succ]
      congr 2
      push_cast
      ring

theorem lhsBase_eq (us : List ℝ) :
    lhsBase us = (List.range us.length).map (fun j => (((j : ℕ) : ℝ) + us.getD j 0) / (us.length : ℝ)) := by
  unfold lhsBase
  rw [lhsBaseFrom_eq]
  apply List.map_congr_left
  intro j _
  simp

theorem lhsBase_length (us : List ℝ) : (lhsBase us).length = us.length := by
  rw [lhsBase_eq]; simp

/-- membership of a real number in stratum `s` of `N` equal strata of [0,1) -/
def inStratum (N s : ℕ) (x : ℝ) : Prop := (s : ℝ) / N ≤ x ∧ x < ((s : ℝ) + 1) / N

theorem stratum_of_point (N j s : ℕ) (hN : 0 < N) (u : ℝ) (hu0 : 0 ≤ u) (hu1 : u < 1) :
    inStratum N s (((j : ℝ) + u) / N) ↔ j = s := by
  have hNr : (0 : ℝ) < N := by exact_mod_cast hN
  unfold inStratum
  rw [div_le_div_iff_of_pos_right hNr, div_lt_div_iff_of_pos_right hNr]
  constructor
  · rintro ⟨h1, h2⟩
    have a : (s : ℝ) < (j : ℝ) + 1 := by linarith
    have b : (j : ℝ) < (s : ℝ) + 1 := by linarith
    have a' : s < j + 1 := by exact_mod_cast a
    have b' : j < s + 1 := by exact_mod_cast b
    omega
  · rintro rfl
    constructor <;> linarith

theorem countP_eq_range (N s : ℕ) :
    (List.range N).countP (fun j => decide (j = s)) = if s < N then 1 else 0 := by
  induction N with
  | zero => simp
  | succ n ih =>
    rw [List.range_succ, List.countP_append, ih]
    by_cases h1 : s < n
    · have : ¬ n = s := by omega
      simp [h1, this]; omega
    · by_cases h2 : n = s
      · simp [h2]
      · have : ¬ s < n + 1 := by omega
        simp [h1, h2, this]

open Classical in
/-- the un-shuffled Latin hypercube numbers: exactly one in each stratum -/
theorem lhsBase_count (us : List ℝ) (hu : ∀ u ∈ us, 0 ≤ u ∧ u < 1) (s : ℕ) (hs : s < us.length) :
    (lhsBase us).countP (fun x => decide (inStratum us.length s x)) = 1 := by
  rw [lhsBase_eq, List.countP_map]
  have hN : 0 < us.length := by omega
  have : (List.range us.length).countP ((fun x => decide (inStratum us.length s x)) ∘
        (fun j => (((j : ℕ) : ℝ) + us.getD j 0) / (us.length : ℝ)))
      = (List.range us.length).countP (fun j => decide (j = s)) := by
    apply List.countP_congr
    intro j hj
    have hj' : j < us.length := List.mem_range.mp hj
    have hmem : us.getD j 0 ∈ us := by
      rw [List.getD_eq_getElem _ _ hj']; exact List.getElem_mem hj'
    have := stratum_of_point us.length j s hN (us.getD j 0) (hu _ hmem).1 (hu _ hmem).2
    simp only [Function.comp, decide_eq_true_eq]
    exact this
  rw [this, countP_eq_range, if_pos hs]

theorem applyPerm_perm (perm : List ℕ) (xs : List ℝ) (hp : perm.Perm (List.range xs.length)) :
    (applyPerm perm xs).Perm xs := by
  unfold applyPerm
  have h1 : (perm.map fun i => xs.getD i (@OfNat.ofNat ℝ 0 Num.instOfNatOfNumOps)).Perm
      ((List.range xs.length).map fun i => xs.getD i (@OfNat.ofNat ℝ 0 Num.instOfNatOfNumOps)) := hp.map _
  have h2 : ((List.range xs.length).map fun i => xs.getD i (@OfNat.ofNat ℝ 0 Num.instOfNatOfNumOps)) = xs := by
    apply List.ext_getElem
    · simp
    · intro i h1 h2
      simp only [List.getElem_map, List.getElem_range]
      rw [List.getD_eq_getElem]
  rw [h2] at h1
  exact h1

open Classical in
/-- **Latin hypercube**: for any uniform numbers in [0,1) and any permutation, exactly one point
of the result lies in each stratum -/
theorem lhsDraws_count (us : List ℝ) (perm : List ℕ) (hu : ∀ u ∈ us, 0 ≤ u ∧ u < 1)
    (hp : perm.Perm (List.range us.length)) (s : ℕ) (hs : s < us.length) :
    (lhsDraws us perm false).countP (fun x => decide (inStratum us.length s x)) = 1 := by
  unfold lhsDraws
  simp only [Bool.false_eq_true, if_false]
  have hp' : perm.Perm (List.range (lhsBase us).length) := by rw [lhsBase_length]; exact hp
  rw [(applyPerm_perm perm (lhsBase us) hp').countP_eq]
  exact lhsBase_count us hu s hs

/-- stratum `s` of `N` equal strata of [-1,1) -/
def inStratumSym (N s : ℕ) (x : ℝ) : Prop := 2 * (s : ℝ) / N - 1 ≤ x ∧ x < 2 * ((s : ℝ) + 1) / N - 1

theorem symMap_real (x : ℝ) : symMap x = 2 * x - 1 := by
  simp only [symMap, mul_real, sub_real, ofSci_real]; norm_num

theorem inStratumSym_symMap (N s : ℕ) (x : ℝ) : inStratumSym N s (symMap x) ↔ inStratum N s x := by
  rw [symMap_real]
  unfold inStratumSym inStratum
  constructor
  · rintro ⟨h1, h2⟩
    constructor
    · have : 2 * ((s : ℝ) / N) ≤ 2 * x := by rw [← mul_div_assoc]; linarith
      linarith
    · have : 2 * x < 2 * (((s : ℝ) + 1) / N) := by rw [← mul_div_assoc]; linarith
      linarith
  · rintro ⟨h1, h2⟩
    constructor
    · rw [mul_div_assoc]; linarith
    · rw [mul_div_assoc]; linarith

open Classical in
theorem lhsDraws_count_sym (us : List ℝ) (perm : List ℕ) (hu : ∀ u ∈ us, 0 ≤ u ∧ u < 1)
    (hp : perm.Perm (List.range us.length)) (s : ℕ) (hs : s < us.length) :
    (lhsDraws us perm true).countP (fun x => decide (inStratumSym us.length s x)) = 1 := by
  unfold lhsDraws
  simp only [if_true]
  have hp' : perm.Perm (List.range ((lhsBase us).map symMap).length) := by
    rw [List.length_map, lhsBase_length]; exact hp
  rw [(applyPerm_perm perm _ hp').countP_eq, List.countP_map]
  have : ((fun x => decide (inStratumSym us.length s x)) ∘ symMap)
      = (fun x => decide (inStratum us.length s x)) := by
    funext x
    simp only [Function.comp, inStratumSym_symMap]
  rw [this]
  exact lhsBase_count us hu s hs

/-! ## exact fractions -/

theorem radInvQ_spec (b : ℕ) (hb : 2 ≤ b) : ∀ (fuel k : ℕ), k < fuel →
    0 < (radInvQ b fuel k).2 ∧ (radInv b k : ℝ) = ((radInvQ b fuel k).1 : ℝ) / ((radInvQ b fuel k).2 : ℝ) := by
  intro fuel
  induction fuel with
  | zero => intro k hk; omega
  | succ f ih =>
    intro k hk
    rw [radInvQ]
    by_cases h0 : k = 0
    · subst h0; simp [radInv_zero]
    · rw [if_neg h0]
      have hlt : k / b < f := by
        have : k / b < k := Nat.div_lt_self (by omega) (by omega)
        omega
      obtain ⟨hpos, heq⟩ := ih (k / b) hlt
      simp only
      constructor
      · exact Nat.mul_pos hpos (by omega)
      · rw [radInv_step b hb k, heq]
        have h1 : ((radInvQ b f (k / b)).2 : ℝ) ≠ 0 := by exact_mod_cast hpos.ne'
        have h2 : (b : ℝ) ≠ 0 := by positivity
        push_cast
        field_simp

/-- different fractions (cross multiplication) are different real numbers -/
theorem radInv_ne_of_q (b1 b2 s1 s2 : ℕ) (h1 : 2 ≤ b1) (h2 : 2 ≤ b2)
    (hq : (radInvQ b1 (s1 + 2) (s1 + 1)).1 * (radInvQ b2 (s2 + 2) (s2 + 1)).2
        ≠ (radInvQ b2 (s2 + 2) (s2 + 1)).1 * (radInvQ b1 (s1 + 2) (s1 + 1)).2) :
    (radInv b1 (s1 + 1) : ℝ) ≠ radInv b2 (s2 + 1) := by
  obtain ⟨p1, e1⟩ := radInvQ_spec b1 h1 (s1 + 2) (s1 + 1) (by omega)
  obtain ⟨p2, e2⟩ := radInvQ_spec b2 h2 (s2 + 2) (s2 + 1) (by omega)
  rw [e1, e2]
  intro h
  have d1 : ((radInvQ b1 (s1 + 2) (s1 + 1)).2 : ℝ) ≠ 0 := by exact_mod_cast p1.ne'
  have d2 : ((radInvQ b2 (s2 + 2) (s2 + 1)).2 : ℝ) ≠ 0 := by exact_mod_cast p2.ne'
  rw [div_eq_div_iff d1 d2] at h
  apply hq
  exact_mod_cast h

/-! ## arrays -/

theorem chunk_length (r : ℕ) : ∀ (n : ℕ) (xs : List ℝ), (chunk r n xs).length = n := by
  intro n
  induction n with
  | zero => intro xs; rfl
  | succ n ih => intro xs; simp [chunk, ih]

theorem chunk_rows (r : ℕ) : ∀ (n : ℕ) (xs : List ℝ), xs.length = n * r →
    ∀ row ∈ chunk r n xs, row.length = r := by
  intro n
  induction n with
  | zero => intro xs _ row h; simp [chunk] at h
  | succ n ih =>
    intro xs hlen row h
    simp only [chunk, List.mem_cons] at h
    have hl : xs.length = n * r + r := by rw [hlen]; ring
    rcases h with rfl | h
    · simp [hl]
    · exact ih (xs.drop r) (by simp [hl]) row h

theorem chunk_map (f : ℝ → ℝ) (r : ℕ) : ∀ (n : ℕ) (xs : List ℝ),
    chunk r n (xs.map f) = (chunk r n xs).map (List.map f) := by
  intro n
  induction n with
  | zero => intro xs; rfl
  | succ n ih =>
    intro xs
    simp only [chunk, List.map_cons, ← List.map_drop, ← List.map_take, ih]

theorem haltonDraws_length (b skip len : ℕ) (sym : Bool) (hb : 2 ≤ b) :
    (haltonDraws b skip len sym : List ℝ).length = len := by
  cases sym
  · rw [haltonDraws_spec b skip len hb]; simp
  · rw [haltonDraws_spec_sym b skip len hb]; simp

theorem lhsDraws_length (us : List ℝ) (perm : List ℕ) (sym : Bool) :
    (lhsDraws us perm sym).length = perm.length := by
  simp [lhsDraws, applyPerm]

theorem uniformDraws_length (us : List ℝ) (sym : Bool) : (uniformDraws us sym).length = us.length := by
  cases sym <;> simp [uniformDraws]


/-- enough random numbers for the request (what the recorded streams deliver) -/
def InputsOK (g : Gen) (n r : ℕ) (us : List ℝ) (perm : List ℕ) : Prop :=
  (∀ b s, g.family = .halton b s → 2 ≤ b) ∧
  (g.family = .uniform → us.length = n * r) ∧
  (g.family = .mlhs → perm.length = n * r) ∧
  g.family ≠ .unknown

theorem genFlat_length (g : Gen) (n r : ℕ) (us : List ℝ) (perm : List ℕ) (h : InputsOK g n r us perm) :
    (genFlat g n r us perm).length = n * r := by
  obtain ⟨hb, hu, hp, ho⟩ := h
  unfold genFlat
  have key : (match g.family with
      | .uniform => uniformDraws us g.symmetric
      | .halton b s => haltonDraws b s (n * r) g.symmetric
      | .mlhs => lhsDraws us perm g.symmetric
      | .unknown => ([] : List ℝ)).length = n * r := by
    cases hf : g.family with
    | uniform => simp only; rw [uniformDraws_length]; exact hu hf
    | halton b s => simp only; exact haltonDraws_length b s _ _ (hb b s hf)
    | mlhs => simp only; rw [lhsDraws_length]; exact hp hf
    | unknown => exact absurd hf ho
  by_cases hn : g.normal = true
  · simp only [hn, if_true, List.length_map] at key ⊢; exact key
  · simp only [hn] at key ⊢; exact key

/-- **shape**: `n` rows; `r` columns, or `2r` for antithetic types -/
theorem genRows_shape (g : Gen) (n r : ℕ) (us : List ℝ) (perm : List ℕ) (h : InputsOK g n r us perm) :
    (genRows g n r us perm).length = n ∧
    ∀ row ∈ genRows g n r us perm, row.length = if g.antithetic then 2 * r else r := by
  have hl := genFlat_length g n r us perm h
  unfold genRows
  by_cases ha : g.antithetic = true
  · simp only [ha, if_true]
    constructor
    · simp [antitheticRows, chunk_length]
    · intro row hrow
      simp only [antitheticRows, List.mem_map] at hrow
      obtain ⟨h0, hh, rfl⟩ := hrow
      have := chunk_rows r n _ hl h0 hh
      simp [this]; omega
  · simp only [ha]
    constructor
    · simp [chunk_length]
    · intro row hrow
      simpa using chunk_rows r n _ hl row hrow

/-- **antithetic**: every row is a first half followed by its mirror image -/
theorem genRows_antithetic (g : Gen) (n r : ℕ) (us : List ℝ) (perm : List ℕ) (ha : g.antithetic = true)
    (h : InputsOK g n r us perm) :
    ∀ row ∈ genRows g n r us perm, ∃ half : List ℝ, half.length = r ∧
      row = half ++ half.map (mirror g.mirror) := by
  have hl := genFlat_length g n r us perm h
  unfold genRows
  simp only [ha, if_true]
  intro row hrow
  simp only [antitheticRows, List.mem_map] at hrow
  obtain ⟨h0, hh, rfl⟩ := hrow
  exact ⟨h0, chunk_rows r n _ hl h0 hh, rfl⟩

theorem mirror_real (m : Mirror) (x : ℝ) : mirror m x = match m with
    | .oneMinus => 1 - x
    | .neg => -x := by
  cases m <;> simp [mirror]
  norm_num

theorem applyPerm_map (f : ℝ → ℝ) (perm : List ℕ) (xs : List ℝ) (hp : ∀ i ∈ perm, i < xs.length) :
    applyPerm perm (xs.map f) = (applyPerm perm xs).map f := by
  unfold applyPerm
  rw [List.map_map]
  apply List.map_congr_left
  intro i hi
  have h1 := hp i hi
  have h2 : i < (xs.map f).length := by simpa using h1
  simp only [Function.comp]
  rw [List.getD_eq_getElem _ _ h1, List.getD_eq_getElem _ _ h2, List.getElem_map]

/-- **symmetric = 2u − 1**: the flat numbers of a symmetric (non-normal) type are the image under
`u ↦ 2u − 1` of those of the unit type on the same random numbers -/
theorem genFlat_symmetric (g : Gen) (n r : ℕ) (us : List ℝ) (perm : List ℕ) (hn : g.normal = false)
    (hb : ∀ b s, g.family = .halton b s → 2 ≤ b)
    (hp : g.family = .mlhs → ∀ i ∈ perm, i < us.length) :
    genFlat { g with symmetric := true } n r us perm
      = (genFlat { g with symmetric := false } n r us perm).map symMap := by
  unfold genFlat
  simp only [hn, Bool.false_eq_true, if_false]
  cases hf : g.family with
  | uniform => simp [uniformDraws]
  | halton b s =>
    simp only
    rw [haltonDraws_spec_sym b s _ (hb b s hf), haltonDraws_spec b s _ (hb b s hf), List.map_map]
    apply List.map_congr_left
    intro k _
    simp [symMap_real]
  | mlhs =>
    simp only [lhsDraws, if_true, Bool.false_eq_true, if_false]
    rw [applyPerm_map symMap perm (lhsBase us) (by rw [lhsBase_length]; exact hp hf)]
  | unknown => simp

/-- mirroring commutes with `2u − 1`: `2(1 − u) − 1 = −(2u − 1)` -/
theorem genRows_symmetric (g : Gen) (n r : ℕ) (us : List ℝ) (perm : List ℕ) (hn : g.normal = false)
    (hb : ∀ b s, g.family = .halton b s → 2 ≤ b)
    (hp : g.family = .mlhs → ∀ i ∈ perm, i < us.length) :
    genRows { g with symmetric := true } n r us perm
      = (genRows { g with symmetric := false } n r us perm).map (List.map symMap) := by
  unfold genRows
  rw [genFlat_symmetric g n r us perm hn hb hp, chunk_map]
  by_cases ha : g.antithetic = true
  · simp only [ha, if_true, antitheticRows, List.map_map]
    apply List.map_congr_left
    intro row _
    simp only [Function.comp, List.map_append, List.map_map]
    congr 1
    apply List.map_congr_left
    intro x _
    simp only [Function.comp, Gen.mirror, hn, Bool.false_or, if_true, Bool.false_eq_true, if_false,
      mirror_real, symMap_real]
    ring
  · simp [ha]

/-! ### `Database.generate_draws` for any generator (structural: any number type) -/

section GenerateDraws
variable {α : Type} [NumOps α]

theorem dimsAccepted_iff (n R : ℕ) (dims : List ℕ) :
    dimsAccepted n R dims = true ↔ dims = [n, R] := by
  simp [dimsAccepted]

theorem dimsAccepted_false_iff (n R : ℕ) (dims : List ℕ) :
    dimsAccepted n R dims = false ↔ dims ≠ [n, R] := by
  simp [dimsAccepted]

theorem firstRefused_none_iff (n R : ℕ) : ∀ (i : ℕ) (ds : List (List ℕ)),
    firstRefused n R i ds = none ↔ ∀ d ∈ ds, d = [n, R]
  | _, [] => by simp [firstRefused]
  | i, d :: t => by
    by_cases h : dimsAccepted n R d = true
    · have e := (dimsAccepted_iff n R d).mp h
      simp only [firstRefused, h, if_true, List.mem_cons, forall_eq_or_imp]
      rw [firstRefused_none_iff n R (i + 1) t]
      exact ⟨fun ht => ⟨e, ht⟩, fun ht => ht.2⟩
    · have e : d ≠ [n, R] := fun e => h ((dimsAccepted_iff n R d).mpr e)
      simp [firstRefused, h, e]

/-- the refused variable is the first one whose shape is not `(n, R)` -/
theorem firstRefused_some (n R : ℕ) : ∀ (i : ℕ) (ds : List (List ℕ)) (v : ℕ),
    firstRefused n R i ds = some v →
      i ≤ v ∧ (∃ d, ds[v - i]? = some d ∧ d ≠ [n, R]) ∧
      ∀ k, k < v - i → ∀ d', ds[k]? = some d' → d' = [n, R]
  | _, [], v => by simp [firstRefused]
  | i, d :: t, v => by
    intro h
    by_cases hd : dimsAccepted n R d = true
    · simp only [firstRefused, hd, if_true] at h
      obtain ⟨h1, ⟨d0, h2, h3⟩, h4⟩ := firstRefused_some n R (i + 1) t v h
      have hv : v - i = (v - (i + 1)) + 1 := by omega
      refine ⟨by omega, ⟨d0, ?_, h3⟩, ?_⟩
      · rw [hv, List.getElem?_cons_succ]; exact h2
      · intro k hk d' hd'
        cases k with
        | zero =>
          simp only [List.getElem?_cons_zero, Option.some.injEq] at hd'
          subst hd'
          exact (dimsAccepted_iff n R d).mp hd
        | succ k =>
          rw [List.getElem?_cons_succ] at hd'
          exact h4 k (by omega) d' hd'
    · have e : d ≠ [n, R] := fun e => hd ((dimsAccepted_iff n R d).mpr e)
      simp only [firstRefused, hd, Bool.false_eq_true, if_false, Option.some.injEq] at h
      subst h
      refine ⟨le_refl _, ⟨d, by simp, e⟩, ?_⟩
      intro k hk
      omega

theorem drawsTable_length (n R : ℕ) (arrays : List (List α)) : (drawsTable n R arrays).length = n := by
  simp [drawsTable]

theorem drawsTable_row (n R : ℕ) (arrays : List (List α)) (i : ℕ) (hi : i < n) :
    (drawsTable n R arrays)[i]? =
      some ((List.range R).map fun j => arrays.map (elemAt R i j)) := by
  simp [drawsTable, List.getElem?_map, List.getElem?_range hi]

theorem drawsTable_shape (n R : ℕ) (arrays : List (List α)) :
    ∀ row ∈ drawsTable n R arrays, row.length = R ∧ ∀ cell ∈ row, cell.length = arrays.length := by
  intro row hrow
  simp only [drawsTable, List.mem_map, List.mem_range] at hrow
  obtain ⟨i, _, rfl⟩ := hrow
  refine ⟨by simp, ?_⟩
  intro cell hcell
  simp only [List.mem_map, List.mem_range] at hcell
  obtain ⟨j, _, rfl⟩ := hcell
  simp

end GenerateDraws

end Draws
