/-
Lemmas about sessions with the draw generators (Model/DrawsSession.lean): every call of a
history returns the stateless function of the call; a caller's in-place operation changes exactly
the array it names; the `shuffled` option of `get_halton_draws`.
-/
import Model.DrawsSession
import Proofs.Draws

namespace Draws

section generic
variable {α : Type} [NumOps α]

theorem runFrom_cons (s : Sess α) (op : Op α) (t : List (Op α)) :
    runFrom s (op :: t) = runFrom (step s op) t := rfl

theorem runFrom_append (s : Sess α) (a b : List (Op α)) :
    runFrom s (a ++ b) = runFrom (runFrom s a) b := by
  simp [runFrom, List.foldl_append]

omit [NumOps α] in
theorem callsOf_append (a b : List (Op α)) : callsOf (a ++ b) = callsOf a ++ callsOf b := by
  simp [callsOf, List.filterMap_append]

/-- what the calls of a history returned is the stateless function of each call, in order -/
theorem runFrom_returned (ops : List (Op α)) : ∀ s : Sess α,
    (runFrom s ops).returned = s.returned ++ (callsOf ops).map callResult := by
  induction ops with
  | nil => intro s; simp [runFrom, callsOf]
  | cons op t ih =>
    intro s
    rw [runFrom_cons, ih]
    cases op <;> simp [step, callsOf]

theorem runFrom_held_length (ops : List (Op α)) : ∀ s : Sess α,
    (runFrom s ops).held.length = s.held.length + (callsOf ops).length := by
  induction ops with
  | nil => intro s; simp [runFrom, callsOf]
  | cons op t ih =>
    intro s
    rw [runFrom_cons, ih]
    cases op <;> simp [step, callsOf, List.length_modify]; omega

/-- a caller's operation on array `k` leaves every other array, and everything that was
    returned, as it is -/
theorem step_frame (s : Sess α) (op : Op α) (k j : Nat) (hk : op.target = some k) (hj : j ≠ k) :
    (step s op).held[j]? = s.held[j]? ∧ (step s op).returned = s.returned := by
  have hj' : ¬ k = j := fun h => hj h.symm
  cases op with
  | call c => simp [Op.target] at hk
  | scale k' c =>
    simp only [Op.target, Option.some.injEq] at hk; subst hk
    simp [step, hj']
  | fill k' c =>
    simp only [Op.target, Option.some.injEq] at hk; subst hk
    simp [step, hj']
  | reverse k' =>
    simp only [Op.target, Option.some.injEq] at hk; subst hk
    simp [step, hj']

theorem getElem?_append_congr {β : Type} (l1 l2 : List β) (x : β) (j : Nat)
    (hl : l1.length = l2.length) (h : l1[j]? = l2[j]?) : (l1 ++ [x])[j]? = (l2 ++ [x])[j]? := by
  by_cases hj : j < l1.length
  · rw [List.getElem?_append_left hj, List.getElem?_append_left (hl ▸ hj), h]
  · rw [List.getElem?_append_right (by omega), List.getElem?_append_right (by omega), hl]

theorem step_lengths (s : Sess α) (op : Op α) (hl : s.held.length = s.returned.length) :
    (step s op).held.length = (step s op).returned.length := by
  cases op <;> simp [step, List.length_modify, hl]

/-- an array no operation of the history names still holds what its call returned -/
theorem runFrom_untouched (j : Nat) (ops : List (Op α)) : ∀ s : Sess α,
    (∀ op ∈ ops, op.target ≠ some j) → s.held.length = s.returned.length →
    s.held[j]? = s.returned[j]? →
    (runFrom s ops).held[j]? = (runFrom s ops).returned[j]? := by
  induction ops with
  | nil => intro s _ _ h; simpa [runFrom] using h
  | cons op t ih =>
    intro s hall hl h
    rw [runFrom_cons]
    apply ih (step s op) (fun o ho => hall o (List.mem_cons_of_mem _ ho)) (step_lengths s op hl)
    have hop := hall op List.mem_cons_self
    cases hop' : op.target with
    | none =>
      cases op with
      | call c => exact getElem?_append_congr _ _ _ _ hl h
      | scale k c => simp [Op.target] at hop'
      | fill k c => simp [Op.target] at hop'
      | reverse k => simp [Op.target] at hop'
    | some k =>
      have hjk : j ≠ k := by
        intro e; subst e; exact hop hop'
      obtain ⟨h1, h2⟩ := step_frame s op k j hop' hjk
      rw [h1, h2, h]

theorem haltonDrawsSh_unshuffled (b skip len : Nat) (sym : Bool) (perm : List Nat) :
    (haltonDrawsSh b skip len sym false perm : List α) = haltonDraws b skip len sym := by
  cases sym <;> simp [haltonDrawsSh, haltonDraws]

end generic

/-! ## over ℝ -/

/-- `get_halton_draws(shuffled=True)`: a permutation of the radical-inverse sequence -/
theorem haltonDrawsSh_perm (b skip len : ℕ) (hb : 2 ≤ b) (perm : List ℕ)
    (hp : perm.Perm (List.range len)) :
    (haltonDrawsSh b skip len false true perm : List ℝ).Perm
      ((List.range len).map fun k => (radInv b (k + skip + 1) : ℝ)) := by
  have hs := haltonDraws_spec b skip len hb
  have : (haltonDrawsSh b skip len false true perm : List ℝ)
      = applyPerm perm (haltonDraws b skip len false : List ℝ) := by
    simp [haltonDrawsSh]
  rw [this, hs]
  apply applyPerm_perm
  simpa using hp

/-- the direct call, not shuffled: rows of the radical-inverse sequence -/
theorem haltonCall_spec (b skip n R : ℕ) (hb : 2 ≤ b) (hn : 0 < n) (hR : 0 < R) (perm : List ℕ) :
    (haltonCall b skip n R false false perm : Arr ℝ)
      = .ok (chunk R n ((List.range (R * n)).map fun k => (radInv b (k + skip + 1) : ℝ))) := by
  have h1 : (R == 0) = false := by simp; omega
  have h2 : (n == 0) = false := by simp; omega
  simp only [haltonCall, h1, h2, Bool.false_eq_true, if_false]
  rw [haltonDrawsSh_unshuffled, haltonDraws_spec b skip _ hb]

/-- a catalogued unit Halton entry (`UNIFORM_HALTONb`): rows of the radical-inverse sequence -/
theorem callResult_halton_entry (b skip n R : ℕ) (hb : 2 ≤ b) (hn : 0 < n) (hR : 0 < R)
    (us : List ℝ) (perm : List ℕ) :
    callResult (.cat ⟨.halton b skip, false, false, false⟩ n R us perm)
      = .ok (chunk R n ((List.range (n * R)).map fun k => (radInv b (k + skip + 1) : ℝ))) := by
  have h1 : (R == 0) = false := by simp; omega
  have h2 : (n == 0) = false := by simp; omega
  have h3 : (Family.halton b skip == Family.unknown) = false := by
    simp [BEq.beq]
  simp only [callResult, generate, genError, drawsPerRow, h1, h2, h3, Bool.false_eq_true, if_false,
    Bool.false_and, genRows, genFlat]
  rw [haltonDraws_spec b skip _ hb]

/-! ## the registry of user-defined generators -/

theorem resolve_native (cat : List CatEntry) (reg : List String) (name : String) (e : CatEntry)
    (h : cat.find? (fun e => e.name == name) = some e) : resolve cat reg name = .native e.gen := by
  simp [resolve, h]

theorem reservedIn_false_iff (cat : List CatEntry) (keys : List String) :
    reservedIn cat keys = false ↔ ∀ k ∈ keys, ∀ e ∈ cat, e.name ≠ k := by
  simp [reservedIn]

/-- whatever was registered, in whatever order: the registry never holds a catalogue name -/
theorem registry_no_catalogue_name (cat : List CatEntry) (sets : List (List String)) :
    reservedIn cat (registryAfter cat sets) = false := by
  unfold registryAfter
  suffices h : ∀ reg, reservedIn cat reg = false →
      reservedIn cat (sets.foldl (fun reg keys => (setGenerators cat reg keys).2) reg) = false from
    h [] (by simp [reservedIn])
  induction sets with
  | nil => intro reg h; simpa using h
  | cons keys t ih =>
    intro reg h
    simp only [List.foldl_cons]
    apply ih
    unfold setGenerators
    by_cases hk : reservedIn cat keys = true
    · simp [hk, h]
    · simp only [hk]
      simpa using hk

/-- an accepted table replaces the registry; a refused one leaves it -/
theorem registry_step (cat : List CatEntry) (sets : List (List String)) (keys : List String) :
    registryAfter cat (sets ++ [keys])
      = if reservedIn cat keys then registryAfter cat sets else keys := by
  simp only [registryAfter, List.foldl_append, List.foldl_cons, List.foldl_nil, setGenerators]
  split <;> rfl

end Draws
