/-
Wichura's AS241 over ℝ: oddness, ranges of the branch arguments, agreement of the code with the
published algorithm where the branch tests coincide, and the regions where the code takes the wrong branch.
-/
import Model.Draws
import Proofs.NumReal
import Mathlib.Analysis.SpecialFunctions.Exponential

namespace Draws
open NumR

theorem half_sci : (0.5 : ℝ) = 1 / 2 := by norm_num

theorem refCentral_real (u : ℝ) : refCentral u = true ↔ |u - 0.5| ≤ 0.425 := by
  simp only [refCentral, le_real, abs_real, sub_real, ofSci_real]

theorem codeCentral_real (u : ℝ) : codeCentral u = true ↔ |u| ≤ 0.45 := by
  simp only [codeCentral, le_real, abs_real, ofSci_real]

theorem tailArg_real (u : ℝ) : tailArg u = if u - 0.5 < 0 then u else 1 - u := by
  unfold tailArg
  simp only [lt_real, sub_real, ofSci_real, ofNat_real_one]
  norm_num

/-- value of the tail formulas as a function of the tail probability alone -/
noncomputable def tailVal (r : ℝ) : ℝ :=
  if r ≤ 0 then 0
  else if Real.sqrt (-Real.log r) ≤ 5 then
    numC (Real.sqrt (-Real.log r) - 1.6) / denD (Real.sqrt (-Real.log r) - 1.6)
  else numE (Real.sqrt (-Real.log r) - 5) / denF (Real.sqrt (-Real.log r) - 5)

theorem ppnd_real (c : Bool) (u : ℝ) :
    ppnd c u = if c then (u - 0.5) * numA (0.180625 - (u - 0.5) * (u - 0.5)) / denB (0.180625 - (u - 0.5) * (u - 0.5))
      else if u - 0.5 < 0 then -tailVal (tailArg u) else tailVal (tailArg u) := by
  have h50 : (5.0 : ℝ) = 5 := by norm_num
  have h00 : (0.0 : ℝ) = 0 := by norm_num
  unfold ppnd branchOf tailVal
  cases c
  · simp only [Bool.false_eq_true, if_false]
    by_cases h0 : tailArg u ≤ 0
    · simp [h0, h00]
    · by_cases h5 : Real.sqrt (-Real.log (tailArg u)) ≤ 5
      · simp [h0, h5, h50, h00]
      · simp [h0, h5, h50, h00]
  · simp

theorem tailArg_one_sub (p : ℝ) (hq : p - 0.5 ≠ 0) : tailArg (1 - p) = tailArg p := by
  rw [tailArg_real, tailArg_real]
  have h5 : (0.5 : ℝ) = 1 / 2 := by norm_num
  rw [h5] at hq ⊢
  by_cases h : p - 1 / 2 < 0
  · have h' : ¬ (1 - p - 1 / 2 < 0) := by linarith
    rw [if_pos h, if_neg h']; ring
  · have h' : 1 - p - 1 / 2 < 0 := by
      rcases lt_or_gt_of_ne hq with h1 | h1
      · exact absurd h1 h
      · linarith
    rw [if_neg h, if_pos h']

/-- **AS241 is odd**: the quantile of `1 − p` is minus the quantile of `p` -/
theorem as241_odd_real (p : ℝ) : as241 (1 - p) = -as241 p := by
  unfold as241
  have h5 : (0.5 : ℝ) = 1 / 2 := by norm_num
  have hc : refCentral (1 - p) = refCentral p := by
    rw [Bool.eq_iff_iff, refCentral_real, refCentral_real]
    have : 1 - p - 0.5 = -(p - 0.5) := by rw [h5]; ring
    rw [this, abs_neg]
  rw [hc, ppnd_real, ppnd_real]
  by_cases hcen : refCentral p = true
  · rw [if_pos hcen, if_pos hcen]
    have : 1 - p - 0.5 = -(p - 0.5) := by rw [h5]; ring
    rw [this]
    ring_nf
  · rw [if_neg hcen, if_neg hcen]
    have hq : p - 0.5 ≠ 0 := by
      intro h
      apply hcen
      rw [refCentral_real, h]
      norm_num
    rw [tailArg_one_sub p hq]
    rw [h5] at hq ⊢
    by_cases h : p - 1 / 2 < 0
    · have h' : ¬ (1 - p - 1 / 2 < 0) := by linarith
      rw [if_pos h, if_neg h', neg_neg]
    · have h' : 1 - p - 1 / 2 < 0 := by
        rcases lt_or_gt_of_ne hq with h1 | h1
        · exact absurd h1 h
        · linarith
      rw [if_neg h, if_pos h']

/-- where the two branch tests coincide the code computes AS241 -/
theorem wichura_agrees (u : ℝ) (h : (0.075 ≤ u ∧ u ≤ 0.45) ∨ 0.925 < u) : wichuraCode u = as241 u := by
  unfold wichuraCode as241
  have : codeCentral u = refCentral u := by
    rw [Bool.eq_iff_iff, codeCentral_real, refCentral_real]
    rcases h with ⟨h1, h2⟩ | h
    · have a : |u| ≤ 0.45 := by rw [abs_le]; constructor <;> norm_num at h1 h2 ⊢ <;> linarith
      have b : |u - 0.5| ≤ 0.425 := by rw [abs_le]; constructor <;> norm_num at h1 h2 ⊢ <;> linarith
      exact ⟨fun _ => b, fun _ => a⟩
    · have a : ¬ |u| ≤ 0.45 := by
        rw [abs_le]; push Not; intro _; norm_num at h ⊢; linarith
      have b : ¬ |u - 0.5| ≤ 0.425 := by
        rw [abs_le]; push Not; intro _; norm_num at h ⊢; linarith
      exact ⟨fun x => absurd x a, fun x => absurd x b⟩
  rw [this]

/-- below 0.075 the code applies the central rational, AS241 a tail formula -/
theorem wrong_branch_low (u : ℝ) (h0 : 0 < u) (h1 : u < 0.075) :
    codeCentral u = true ∧ refCentral u = false := by
  constructor
  · rw [codeCentral_real, abs_le]; constructor <;> norm_num at h1 ⊢ <;> linarith
  · rw [Bool.eq_false_iff, Ne, refCentral_real, abs_le]
    push Not; intro _; norm_num at h1 ⊢; linarith

/-- on (0.45, 0.925] the code applies a tail formula, AS241 the central rational -/
theorem wrong_branch_mid (u : ℝ) (h0 : 0.45 < u) (h1 : u ≤ 0.925) :
    codeCentral u = false ∧ refCentral u = true := by
  constructor
  · rw [Bool.eq_false_iff, Ne, codeCentral_real, abs_le]
    push Not; intro _; norm_num at h0 ⊢; linarith
  · rw [refCentral_real, abs_le]; constructor <;> norm_num at h0 h1 ⊢ <;> linarith

/-! ### the arguments of the three rational functions lie in the fitted ranges -/

theorem exp_064_lt : Real.exp (0.64 : ℝ) < 1.8965 := by
  have hq : |(0.64 : ℝ)| ≤ 1 := by rw [abs_le]; constructor <;> norm_num
  have hb := Real.exp_bound hq (n := 10) (by norm_num)
  have h := (abs_le.mp hb).2
  simp only [Finset.sum_range_succ, Finset.sum_range_zero, Nat.factorial, Nat.succ_eq_add_one] at h
  norm_num at h
  linarith

theorem exp_256_lt : Real.exp (2.56 : ℝ) < 13.3 := by
  have : (2.56 : ℝ) = 0.64 + 0.64 + 0.64 + 0.64 := by norm_num
  rw [this, Real.exp_add, Real.exp_add, Real.exp_add]
  have h := exp_064_lt
  have hp := Real.exp_pos (0.64 : ℝ)
  nlinarith [mul_pos hp hp, mul_lt_mul'' h h hp.le hp.le]

/-- a tail probability below 0.075 gives `sqrt(−log r) > 1.6` -/
theorem sqrt_neg_log_gt (r : ℝ) (h0 : 0 < r) (h1 : r < 0.075) : 1.6 < Real.sqrt (-Real.log r) := by
  rw [Real.lt_sqrt (by norm_num)]
  have hlog : Real.log r < -2.56 := by
    rw [Real.log_lt_iff_lt_exp h0]
    have h2 : Real.exp (-2.56 : ℝ) = (Real.exp 2.56)⁻¹ := Real.exp_neg _
    rw [h2]
    have h3 := exp_256_lt
    have h4 : (13.3 : ℝ)⁻¹ < (Real.exp 2.56)⁻¹ := by
      apply inv_strictAnti₀ (Real.exp_pos _) h3
    have h5 : (0.075 : ℝ) < (13.3 : ℝ)⁻¹ := by norm_num
    linarith
  norm_num at hlog ⊢
  linarith

theorem tailArg_range (u : ℝ) (h0 : 0 < u) (h1 : u < 1) (hc : refCentral u = false) :
    0 < tailArg u ∧ tailArg u < 0.075 := by
  rw [Bool.eq_false_iff, Ne, refCentral_real, abs_le] at hc
  rw [tailArg_real]
  by_cases h : u - 0.5 < 0
  · rw [if_pos h]
    refine ⟨h0, ?_⟩
    by_contra hh
    apply hc
    constructor <;> norm_num at h hh ⊢ <;> linarith
  · rw [if_neg h]
    refine ⟨by linarith, ?_⟩
    by_contra hh
    apply hc
    constructor <;> norm_num at h hh ⊢ <;> linarith

end Draws
