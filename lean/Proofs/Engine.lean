/- Helper lemmas for C01: serialise → load ("first definition wins") → run = evaluation with the
engine's node semantics, for every well-formed DAG.  Core Lean only. -/
import Model.Engine

namespace Engine
open Expr Num

variable {α : Type} [NumOps α]
set_option linter.unusedSectionVars false

/-! ### fuel -/

theorem evalN_step (sem : Sem α) (d : Dag α) (hwf : WF d) (env : Env α) :
    ∀ fuel k, k < fuel → evalN sem d env fuel k = evalN sem d env (fuel + 1) k := by
  intro fuel
  induction fuel with
  | zero => intro k hk; omega
  | succ fuel ih =>
    intro k hk
    rw [evalN, evalN]
    cases hd : d[k]? with
    | none => rfl
    | some n =>
      simp only []
      congr 1
      apply List.map_congr_left
      intro c hc
      have := hwf k n hd c hc
      exact ih c (by omega)

theorem evalN_fuel (sem : Sem α) (d : Dag α) (hwf : WF d) (env : Env α) (k : Nat) :
    ∀ m, evalN sem d env (k + 1 + m) k = evalN sem d env (k + 1) k := by
  intro m
  induction m with
  | zero => rfl
  | succ m ih => rw [← ih]; exact (evalN_step sem d hwf env (k + 1 + m) k (by omega)).symm

theorem evalN_ge (sem : Sem α) (d : Dag α) (hwf : WF d) (env : Env α) (k fuel : Nat) (h : k < fuel) :
    evalN sem d env fuel k = evalN sem d env (k + 1) k := by
  have : fuel = k + 1 + (fuel - (k + 1)) := by omega
  rw [this]; exact evalN_fuel sem d hwf env k _

/-! ### node semantics: a line carries everything the engine semantics needs -/

theorem semEngine_congr (n m : Node α) (env env' : Env α) (rs : List (Res α))
    (hk : n.kind = m.kind) (hv : n.value = m.value) (hkeys : n.keys = m.keys)
    (hmem : n.members = m.members) (hb : n.kind ≠ .beta) (hvar : n.kind ≠ .var) :
    semEngine n env rs = semEngine m env' rs := by
  obtain ⟨k1, c1, nm1, v1, ks1, ms1, f1⟩ := n
  obtain ⟨k2, c2, nm2, v2, ks2, ms2, f2⟩ := m
  simp only at hk hv hkeys hmem hb hvar
  subst hk hv hkeys hmem
  cases k1 <;> first | (exact absurd rfl hb) | (exact absurd rfl hvar) | rfl

theorem indexOf_lt {ν} [DecidableEq ν] (n : ν) : ∀ (l : List ν) (i : Nat), IdM.indexOf n l = some i → i < l.length := by
  intro l
  induction l with
  | nil => intro i h; simp [IdM.indexOf] at h
  | cons x t ih =>
    intro i h
    simp only [IdM.indexOf] at h
    split at h
    · cases h; simp
    · cases hi : IdM.indexOf n t with
      | none => rw [hi] at h; simp at h
      | some j =>
        rw [hi] at h; simp at h
        have := ih j hi
        simp; omega

theorem lineSem_eq (t : IdM.Table String) (k : Nat) (n : Node α) (ee : EngEnv α)
    (hn : nodeNamesOK t n = true) (hs : Sized t ee) (rs : List (Res α)) :
    lineSem (lineOf t k n) ee rs = semEngine n (envOf t ee) rs := by
  obtain ⟨kind, ch, nm, v, ks, ms, fx⟩ := n
  cases kind
  case beta =>
    simp only [nodeNamesOK] at hn
    cases fx with
    | false =>
      simp only [Bool.false_eq_true, ↓reduceIte] at hn
      cases hi : IdM.indexOf nm t.free with
      | none => rw [hi] at hn; simp at hn
      | some i =>
        have hlt : i < ee.free.length := by rw [hs.1]; exact indexOf_lt nm _ i hi
        have hget : ee.free[i]? = some ee.free[i] := List.getElem?_eq_getElem hlt
        simp [lineSem, lineOf, hi, semEngine, semCommon, envOf, hget]
    | true =>
      simp only [↓reduceIte, Bool.and_eq_true] at hn
      cases hi : IdM.indexOf nm t.fixed with
      | none => rw [hi] at hn; simp at hn
      | some i =>
        have hfree : IdM.indexOf nm t.free = none := by
          cases h : IdM.indexOf nm t.free with
          | none => rfl
          | some _ => rw [h] at hn; simp at hn
        have hlt : i < ee.fixed.length := by rw [hs.2.1]; exact indexOf_lt nm _ i hi
        have hget : ee.fixed[i]? = some ee.fixed[i] := List.getElem?_eq_getElem hlt
        simp [lineSem, lineOf, hi, hfree, semEngine, semCommon, envOf, hget]
  case var =>
    simp only [nodeNamesOK] at hn
    cases hi : IdM.indexOf nm t.cols with
    | none => rw [hi] at hn; simp at hn
    | some i =>
      have hlt : i < ee.row.length := by rw [hs.2.2]; exact indexOf_lt nm _ i hi
      have hget : ee.row[i]? = some ee.row[i] := List.getElem?_eq_getElem hlt
      simp [lineSem, lineOf, hi, semEngine, semCommon, envOf, hget]
  all_goals
    simp only [lineSem, lineOf]
    apply semEngine_congr <;> simp [toNode]

/-! ### loader invariant -/

theorem load_append (s : Store α) (a b : List (SigLine α)) : load s (a ++ b) = load (load s a) b := by
  simp [load, List.foldl_append]

/-- every loaded id denotes the evaluation of the DAG node with that id -/
def Cons (t : IdM.Table String) (d : Dag α) (s : Store α) : Prop :=
  ∀ k f, s.find k = some f → ∃ n, d[k]? = some n ∧
    ∀ ee, Sized t ee → f ee = evalN semEngine d (envOf t ee) (k + 1) k

theorem find_loadLine_of_find {s : Store α} {l : SigLine α} {j : Nat} {f : Loaded α}
    (h : s.find j = some f) : (loadLine s l).find j = some f := by
  unfold loadLine
  cases hl : s.find l.id with
  | some _ => exact h
  | none =>
    cases hc : compile s l with
    | none => exact h
    | some g =>
      show Store.find ((l.id, g) :: s) j = some f
      simp only [Store.find]
      by_cases heq : l.id = j
      · rw [heq] at hl; rw [hl] at h; cases h
      · simp [heq, h]

theorem find_load_of_find {s : Store α} {ls : List (SigLine α)} {j : Nat} {f : Loaded α}
    (h : s.find j = some f) : (load s ls).find j = some f := by
  induction ls generalizing s with
  | nil => exact h
  | cons l ls ih => exact ih (find_loadLine_of_find h)

theorem allSome_find (t : IdM.Table String) (d : Dag α) (s : Store α) (hc : Cons t d s)
    (cs : List Nat) (hall : ∀ c ∈ cs, (s.find c).isSome) :
    ∃ fs, allSome (cs.map s.find) = some fs ∧
      ∀ ee, Sized t ee → fs.map (· ee) = cs.map fun c => evalN semEngine d (envOf t ee) (c + 1) c := by
  induction cs with
  | nil => exact ⟨[], rfl, fun _ _ => rfl⟩
  | cons c cs ih =>
    obtain ⟨fs, hfs, hev⟩ := ih (fun c' h' => hall c' (List.mem_cons_of_mem _ h'))
    have hc' := hall c (List.mem_cons_self)
    cases hf : s.find c with
    | none => rw [hf] at hc'; cases hc'
    | some f =>
      obtain ⟨n, _, hfe⟩ := hc c f hf
      refine ⟨f :: fs, ?_, ?_⟩
      · simp [allSome, hf, hfs]
      · intro ee hs
        simp only [List.map_cons]
        rw [hfe ee hs, hev ee hs]

theorem main (t : IdM.Table String) (d : Dag α) (hwf : WF d)
    (hnames : ∀ (k : Nat) (n : Node α), d[k]? = some n → nodeNamesOK t n = true) :
    ∀ fuel k (s : Store α), Cons t d s → k < fuel → k < d.length →
      Cons t d (load s (emit t d fuel k)) ∧ ((load s (emit t d fuel k)).find k).isSome := by
  intro fuel
  induction fuel with
  | zero => intro k s _ hk; omega
  | succ fuel ih =>
    intro k s hs hk hlen
    have hd : d[k]? = some d[k] := List.getElem?_eq_getElem hlen
    generalize hn : d[k] = n at hd
    rw [emit, hd]
    simp only []
    rw [load_append]
    have hch : ∀ (cs : List Nat) (s : Store α), Cons t d s → (∀ c ∈ cs, c < k) →
        Cons t d (load s (cs.flatMap (emit t d fuel))) ∧
        (∀ c ∈ cs, ((load s (cs.flatMap (emit t d fuel))).find c).isSome) := by
      intro cs
      induction cs with
      | nil => intro s hs _; exact ⟨hs, fun _ h => by cases h⟩
      | cons c cs ihc =>
        intro s hs hlt
        rw [List.flatMap_cons, load_append]
        have hck : c < k := hlt c List.mem_cons_self
        obtain ⟨h1, h2⟩ := ih c s hs (by omega) (by omega)
        obtain ⟨h3, h4⟩ := ihc _ h1 (fun c' h' => hlt c' (List.mem_cons_of_mem _ h'))
        refine ⟨h3, ?_⟩
        intro c' hc'
        cases hc' with
        | head =>
          cases hf : (load s (emit t d fuel c)).find c with
          | none => rw [hf] at h2; cases h2
          | some f => rw [find_load_of_find hf]; rfl
        | tail _ hmem => exact h4 c' hmem
    obtain ⟨hcons, hpres⟩ := hch n.children s hs (hwf k n hd)
    generalize load s (n.children.flatMap (emit t d fuel)) = s' at hcons hpres
    show Cons t d (loadLine s' (lineOf t k n)) ∧ ((loadLine s' (lineOf t k n)).find k).isSome
    have hid : (lineOf t k n).id = k := by
      unfold lineOf; split <;> rfl
    have hchildren : (lineOf t k n).children = n.children := by
      unfold lineOf; split <;> rfl
    unfold loadLine
    rw [hid]
    cases hfk : s'.find k with
    | some f => simp only []; exact ⟨hcons, by rw [hfk]; rfl⟩
    | none =>
      simp only []
      obtain ⟨fs, hfs, hev⟩ := allSome_find t d s' hcons n.children hpres
      have hcomp : compile s' (lineOf t k n) =
          some fun ee => lineSem (lineOf t k n) ee (fs.map (· ee)) := by
        simp [compile, hchildren, hfs]
      rw [hcomp]
      simp only []
      refine ⟨?_, by simp [Store.find]⟩
      intro j f hj
      simp only [Store.find] at hj
      split at hj
      · rename_i hjk
        subst hjk
        cases hj
        refine ⟨n, hd, ?_⟩
        intro ee hsz
        show lineSem (lineOf t k n) ee (fs.map (· ee)) = _
        rw [lineSem_eq t k n ee (hnames k n hd) hsz, hev ee hsz, evalN, hd]
        simp only []
        congr 1
        apply List.map_congr_left
        intro c hc
        exact (evalN_ge semEngine d hwf (envOf t ee) c k (hwf k n hd c hc)).symm
      · exact hcons j f hj

theorem namesOKB_spec (t : IdM.Table String) (d : Dag α) (h : namesOKB t d = true) :
    ∀ (k : Nat) (n : Node α), d[k]? = some n → nodeNamesOK t n = true := by
  intro k n hk
  unfold namesOKB at h
  rw [List.all_eq_true] at h
  exact h n (List.mem_of_getElem? hk)

theorem run_eq (t : IdM.Table String) (d : Dag α) (hwf : WF d) (k : Nat) (hk : k < d.length)
    (hnames : namesOKB t d = true) (ee : EngEnv α) (hs : Sized t ee) :
    run t d k ee = eval semEngine d (envOf t ee) k := by
  have hn := namesOKB_spec t d hnames
  obtain ⟨hc, hsome⟩ := main t d hwf hn (k + 1) k [] (fun _ _ h => by cases h) (by omega) hk
  unfold run
  simp only [hnames, Bool.not_true, Bool.false_eq_true, ↓reduceIte]
  cases hf : (load [] (emit t d (k + 1) k)).find k with
  | none => rw [hf] at hsome; cases hsome
  | some f =>
    obtain ⟨_, _, h⟩ := hc k f hf
    exact h ee hs

end Engine
