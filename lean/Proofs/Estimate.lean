/-
Helper lemmas for Props/C07.lean: first-order inequality of concave functions (restriction to a
segment, Mathlib convexity), KKT points of the box-constrained problem are global maxima, the sign
flip, write-back lookups and the bridge between the list model and the `Fin n` statements.
-/
import Model.Estimate
import Proofs.NumReal
import Mathlib.Analysis.Convex.Deriv
import Mathlib.Analysis.Calculus.Deriv.AffineMap
import Mathlib.Analysis.Calculus.FDeriv.Basic

namespace Estimate

open AffineMap

/-- **first-order inequality of a concave function** on a convex set of any normed space:
`L y ≤ L x + L'(y − x)` (restriction to the segment [x, y]). -/
theorem concave_first_order {E : Type*} [NormedAddCommGroup E] [NormedSpace ℝ E]
    (S : Set E) (L : E → ℝ) (hc : ConcaveOn ℝ S L) (x y : E) (hx : x ∈ S) (hy : y ∈ S)
    (L' : E →L[ℝ] ℝ) (hd : HasFDerivAt L L' x) : L y ≤ L x + L' (y - x) := by
  set φ : ℝ → ℝ := L ∘ (lineMap x y : ℝ →ᵃ[ℝ] E) with hφ
  have hconc : ConcaveOn ℝ (Set.Icc (0:ℝ) 1) φ := by
    have h1 := hc.comp_affineMap (lineMap x y : ℝ →ᵃ[ℝ] E)
    refine h1.subset ?_ (convex_Icc 0 1)
    intro t ht
    simp only [Set.mem_preimage]
    have := hc.1.segment_subset hx hy
    apply this
    rw [segment_eq_image_lineMap]
    exact ⟨t, ht, rfl⟩
  have hder : HasDerivAt φ (L' (y - x)) 0 := by
    have hl : HasDerivAt (lineMap x y : ℝ → E) (y - x) 0 := AffineMap.hasDerivAt_lineMap
    have hd' : HasFDerivAt L L' ((lineMap x y : ℝ → E) 0) := by simpa using hd
    exact hd'.comp_hasDerivAt 0 hl
  have hs := hconc.slope_le_of_hasDerivAt (x := 0) (y := 1) (by simp) (by simp) zero_lt_one hder
  have e0 : φ 0 = L x := by simp [hφ]
  have e1 : φ 1 = L y := by simp [hφ]
  rw [slope_def_field, e0, e1] at hs
  simp at hs
  rw [map_sub]
  linarith


/-! ## the box-constrained problem on `Fin n → ℝ` -/

variable {n : ℕ}

/-- the feasible box; a missing bound is infinite -/
def Box (lb ub : Fin n → Option ℝ) : Set (Fin n → ℝ) :=
  {x | ∀ i, (∀ l, lb i = some l → l ≤ x i) ∧ (∀ u, ub i = some u → x i ≤ u)}

theorem box_convex (lb ub : Fin n → Option ℝ) : Convex ℝ (Box lb ub) := by
  intro x hx y hy a b ha hb hab i
  constructor
  · intro l hl
    have h1 := (hx i).1 l hl
    have h2 := (hy i).1 l hl
    simp only [Pi.add_apply, Pi.smul_apply, smul_eq_mul]
    calc l = a * l + b * l := by rw [← add_mul, hab, one_mul]
      _ ≤ a * x i + b * y i := by gcongr
  · intro u hu
    have h1 := (hx i).2 u hu
    have h2 := (hy i).2 u hu
    simp only [Pi.add_apply, Pi.smul_apply, smul_eq_mul]
    calc a * x i + b * y i ≤ a * u + b * u := by gcongr
      _ = u := by rw [← add_mul, hab, one_mul]

/-- the linear form v ↦ Σ gᵢ vᵢ -/
noncomputable def gradMap (g : Fin n → ℝ) : (Fin n → ℝ) →L[ℝ] ℝ :=
  ∑ i, g i • (ContinuousLinearMap.proj i : (Fin n → ℝ) →L[ℝ] ℝ)

theorem gradMap_apply (g v : Fin n → ℝ) : gradMap g v = ∑ i, g i * v i := by
  simp [gradMap]

/-- `g` is the gradient of `L` at `x` -/
def HasGrad (L : (Fin n → ℝ) → ℝ) (g x : Fin n → ℝ) : Prop := HasFDerivAt L (gradMap g) x

/-- KKT point of max L on the box: a coordinate that can still move up has gᵢ ≤ 0, one that
can still move down has gᵢ ≥ 0 (so gᵢ = 0 when no bound is active) -/
def IsKKT (lb ub : Fin n → Option ℝ) (g x : Fin n → ℝ) : Prop :=
  ∀ i, ((∀ u, ub i = some u → x i < u) → g i ≤ 0) ∧ ((∀ l, lb i = some l → l < x i) → 0 ≤ g i)

theorem kkt_free_coordinate (lb ub : Fin n → Option ℝ) (g x : Fin n → ℝ) (h : IsKKT lb ub g x) (i : Fin n)
    (hu : ∀ u, ub i = some u → x i < u) (hl : ∀ l, lb i = some l → l < x i) : g i = 0 :=
  le_antisymm ((h i).1 hu) ((h i).2 hl)

theorem kkt_term_nonpos (lb ub : Fin n → Option ℝ) (g x y : Fin n → ℝ) (h : IsKKT lb ub g x)
    (hy : y ∈ Box lb ub) (i : Fin n) : g i * (y i - x i) ≤ 0 := by
  rcases lt_trichotomy (y i) (x i) with hlt | heq | hgt
  · have : 0 ≤ g i := (h i).2 (fun l hl => lt_of_le_of_lt ((hy i).1 l hl) hlt)
    exact mul_nonpos_of_nonneg_of_nonpos this (by linarith)
  · rw [heq]; simp
  · have : g i ≤ 0 := (h i).1 (fun u hu => lt_of_lt_of_le hgt ((hy i).2 u hu))
    exact mul_nonpos_of_nonpos_of_nonneg this (by linarith)

theorem kkt_is_global_max (lb ub : Fin n → Option ℝ) (L : (Fin n → ℝ) → ℝ)
    (hc : ConcaveOn ℝ (Box lb ub) L) (g x : Fin n → ℝ) (hx : x ∈ Box lb ub)
    (hg : HasGrad L g x) (hk : IsKKT lb ub g x) (y : Fin n → ℝ) (hy : y ∈ Box lb ub) : L y ≤ L x := by
  have h := concave_first_order (Box lb ub) L hc x y hx hy (gradMap g) hg
  rw [gradMap_apply] at h
  have : ∑ i, g i * ((y - x) i) ≤ 0 := by
    apply Finset.sum_nonpos
    intro i _
    simpa using kkt_term_nonpos lb ub g x y hk hy i
  linarith

/-- quantitative version: what the sign conditions do not remove bounds the gap -/
theorem gap_le (lb ub : Fin n → Option ℝ) (L : (Fin n → ℝ) → ℝ)
    (hc : ConcaveOn ℝ (Box lb ub) L) (g x : Fin n → ℝ) (hx : x ∈ Box lb ub)
    (hg : HasGrad L g x) (y : Fin n → ℝ) (hy : y ∈ Box lb ub) :
    L y - L x ≤ ∑ i, max (g i * (y i - x i)) 0 := by
  have h := concave_first_order (Box lb ub) L hc x y hx hy (gradMap g) hg
  rw [gradMap_apply] at h
  have : ∑ i, g i * ((y - x) i) ≤ ∑ i, max (g i * (y i - x i)) 0 := by
    apply Finset.sum_le_sum
    intro i _
    simp
  linarith

/-- the sign flip on derivatives -/
theorem hasGrad_neg (L : (Fin n → ℝ) → ℝ) (g x : Fin n → ℝ) (h : HasGrad L g x) :
    HasGrad (fun z => - L z) (fun i => - g i) x := by
  unfold HasGrad at *
  have : gradMap (fun i => - g i) = - gradMap g := by
    ext v; simp [gradMap_apply, Finset.sum_neg_distrib]
  rw [this]
  exact h.neg


/-! ## sign flip on the list model -/

theorem vneg_vneg (v : Vec ℝ) : vneg (vneg v) = v := by
  unfold vneg
  rw [List.map_map]
  conv_rhs => rw [← List.map_id v]
  apply List.map_congr_left
  intro a _
  simp

theorem mneg_mneg (m : Mat ℝ) : mneg (mneg m) = m := by
  unfold mneg
  rw [List.map_map]
  conv_rhs => rw [← List.map_id m]
  apply List.map_congr_left
  intro a _
  simp [vneg_vneg]

theorem negF_real (like : Vec ℝ → ℝ) (x : Vec ℝ) : negF like x = - like x := by
  unfold negF; simp

theorem negF_le_iff (like : Vec ℝ → ℝ) (x y : Vec ℝ) : negF like x ≤ negF like y ↔ like y ≤ like x := by
  rw [negF_real, negF_real]; exact neg_le_neg_iff

/-! ## the dead finite-difference fallback -/

theorem finalHessian_eq {α : Type} [NumOps α] (h fd : Mat α) : finalHessian h fd = h := by
  unfold finalHessian
  cases allFinite h <;> simp

/-! ## result consistency under the optimiser's contract -/

/-- the recorded contract of the external optimiser on one call -/
structure OptContract (opt : Optimizer ℝ) (boundAware : Bool) (like : Vec ℝ → ℝ) (ev : Vec ℝ → Eval ℝ)
    (bounds : Bounds ℝ) (x0 : Vec ℝ) : Prop where
  length : (opt (negF like) (negFG ev) (negFGH ev) bounds x0).x.length = x0.length
  feasible : boundAware = true → inBox bounds (opt (negF like) (negFG ev) (negFGH ev) bounds x0).x = true
  descent : negF like (opt (negF like) (negFG ev) (negFGH ev) bounds x0).x ≤ negF like x0

/-! ## write-back -/

theorem writeBack_length {α : Type} [NumOps α] (ps : List (Param α)) (est : List (String × α)) :
    (writeBack ps est).length = ps.length := by
  simp [writeBack]

theorem writeBack_get {α : Type} [NumOps α] (ps : List (Param α)) (est : List (String × α)) (i : Nat)
    (hi : i < ps.length) :
    (writeBack ps est)[i]'(by rw [writeBack_length]; exact hi) = updateParam est ps[i] := by
  simp only [writeBack, List.getElem_map]

theorem lookup_zip_of_nodup {β : Type} (names : List String) (xs : List β) (hn : names.Nodup)
    (i : Nat) (h1 : i < names.length) (h2 : i < xs.length) :
    (names.zip xs).lookup names[i] = some xs[i] := by
  induction names generalizing xs i with
  | nil => simp at h1
  | cons a t ih =>
    cases xs with
    | nil => simp at h2
    | cons b u =>
      cases i with
      | zero => simp
      | succ j =>
        simp only [List.zip_cons_cons, List.getElem_cons_succ, List.lookup]
        have hne : (t[j]'(by simpa using h1) == a) = false := by
          rw [List.nodup_cons] at hn
          have : t[j]'(by simpa using h1) ∈ t := List.getElem_mem _
          have : t[j]'(by simpa using h1) ≠ a := fun e => hn.1 (e ▸ this)
          simpa using this
        rw [hne]
        exact ih u (List.nodup_cons.mp hn).2 j (by simpa using h1) (by simpa using h2)

theorem lookup_zip_none {β : Type} (names : List String) (xs : List β) (s : String) (h : s ∉ names) :
    (names.zip xs).lookup s = none := by
  induction names generalizing xs with
  | nil => simp
  | cons a t ih =>
    cases xs with
    | nil => simp
    | cons b u =>
      simp only [List.zip_cons_cons, List.lookup]
      have hne : (s == a) = false := by
        have : s ≠ a := fun e => h (e ▸ List.mem_cons_self)
        simpa using this
      rw [hne]
      exact ih u (fun hm => h (List.mem_cons_of_mem _ hm))


/-! ## the list model and the `Fin n` statements speak about the same things -/

theorem geLower_iff (l : Option ℝ) (x : ℝ) : geLower l x = true ↔ ∀ l', l = some l' → l' ≤ x := by
  cases l with
  | none => simp [geLower]
  | some v => simp [geLower]

theorem leUpper_iff (u : Option ℝ) (x : ℝ) : leUpper u x = true ↔ ∀ u', u = some u' → x ≤ u' := by
  cases u with
  | none => simp [leUpper]
  | some v => simp [leUpper]

theorem inBox_ofFn : ∀ {n : ℕ} (lb ub : Fin n → Option ℝ) (x : Fin n → ℝ),
    inBox (List.ofFn fun i => (lb i, ub i)) (List.ofFn x) = true ↔ x ∈ Box lb ub
  | 0, lb, ub, x => by
    simp [inBox, Box]
  | n + 1, lb, ub, x => by
    rw [List.ofFn_succ, List.ofFn_succ]
    simp only [inBox, Bool.and_eq_true, geLower_iff, leUpper_iff]
    rw [inBox_ofFn (fun i => lb i.succ) (fun i => ub i.succ) (fun i => x i.succ)]
    simp only [Box, Set.mem_ofPred_eq]
    rw [Fin.forall_fin_succ]

theorem kktUp_iff (u : Option ℝ) (x g : ℝ) :
    kktUp 0 0 u x g = true ↔ ((∀ u', u = some u' → x < u') → g ≤ 0) := by
  cases u with
  | none => simp [kktUp]
  | some v =>
    by_cases h : x < v
    · simp [kktUp, h]
    · simp [kktUp, h]

theorem kktDown_iff (l : Option ℝ) (x g : ℝ) :
    kktDown 0 0 l x g = true ↔ ((∀ l', l = some l' → l' < x) → 0 ≤ g) := by
  cases l with
  | none => simp [kktDown]
  | some v =>
    by_cases h : v < x
    · simp [kktDown, h]
    · simp [kktDown, h]

theorem kktB_ofFn : ∀ {n : ℕ} (lb ub : Fin n → Option ℝ) (g x : Fin n → ℝ),
    kktB 0 0 (List.ofFn fun i => (lb i, ub i)) (List.ofFn x) (List.ofFn g) = true ↔ IsKKT lb ub g x
  | 0, lb, ub, g, x => by
    simp [kktB, IsKKT]
  | n + 1, lb, ub, g, x => by
    rw [List.ofFn_succ, List.ofFn_succ, List.ofFn_succ]
    simp only [kktB, Bool.and_eq_true, kktUp_iff, kktDown_iff]
    rw [kktB_ofFn (fun i => lb i.succ) (fun i => ub i.succ) (fun i => g i.succ) (fun i => x i.succ)]
    unfold IsKKT
    rw [Fin.forall_fin_succ]

/-! ## bootstrap and sequences of operations on one object -/

section Sessions
variable {α : Type} [NumOps α]

theorem estimateBoot_res (like : Vec α → α) (ev : Vec α → Eval α) (fd : Vec α → Mat α) (opt : Optimizer α)
    (bounds : Bounds α) (x0 : Vec α) (boot : Option (List (Objective α))) :
    (estimateBoot like ev fd opt bounds x0 boot).res = estimate like ev fd opt bounds x0 := rfl

/-- what holds of every results object a single operation can return, from any state, holds of
every results object returned during any sequence of operations -/
theorem run_forall (e : Env α) (P : Report α → Prop)
    (hP : ∀ s op r, (step e s op).2 = some r → P r) :
    ∀ (ops : List (Op α)) (s : Session α), ∀ r ∈ (run e s ops).2, P r := by
  intro ops
  induction ops with
  | nil => intro s r hr; simp [run] at hr
  | cons op ops ih =>
    intro s r hr
    simp only [run] at hr
    cases hst : (step e s op).2 with
    | none =>
      rw [hst] at hr
      exact ih _ r hr
    | some r1 =>
      rw [hst] at hr
      rcases List.mem_cons.mp hr with h | h
      · subst h; exact hP s op r hst
      · exact ih _ r h

theorem run_append_eval (e : Env α) (x : Vec α) (ops2 : List (Op α)) :
    ∀ (ops1 : List (Op α)) (s : Session α), run e s (ops1 ++ Op.eval x :: ops2) = run e s (ops1 ++ ops2) := by
  intro ops1
  induction ops1 with
  | nil => intro s; simp [run, step]
  | cons op ops ih => intro s; simp only [List.cons_append, run, ih]

theorem run_evals (e : Env α) : ∀ (xs : List (Vec α)) (s : Session α), run e s (xs.map Op.eval) = (s, []) := by
  intro xs
  induction xs with
  | nil => intro s; simp [run]
  | cons x xs ih => intro s; simp [run, step, ih]

theorem run_append (e : Env α) : ∀ (ops1 ops2 : List (Op α)) (s : Session α),
    run e s (ops1 ++ ops2) =
      ((run e (run e s ops1).1 ops2).1, (run e s ops1).2 ++ (run e (run e s ops1).1 ops2).2) := by
  intro ops1
  induction ops1 with
  | nil => intro ops2 s; simp [run]
  | cons op ops ih =>
    intro ops2 s
    simp only [List.cons_append, run, ih]
    cases (step e s op).2 <;> simp

end Sessions

end Estimate
