/-
Helper lemmas for the round-3 theorems of Props/C07.lean about Model/EstimateFlow.lean.
-/
import Model.EstimateFlow
import Proofs.Estimate

namespace Estimate

section Generic
variable {α : Type} [NumOps α]

/-- what a single base operation can return is consistent at its own point -/
def Consistent (obj : Objective α) (r : Report α) : Prop :=
  r.res.logLike = obj.like r.res.x ∧
  ((r.res.g = some (obj.ev r.res.x).g ∧ r.res.h = some (obj.ev r.res.x).h ∧ r.res.bhhh = some (obj.ev r.res.x).bhhh) ∨
   (r.res.g = none ∧ r.res.h = none ∧ r.res.bhhh = none))

theorem step_consistent (e : Env α) (hev : ∀ x, (e.obj.ev x).f = e.obj.like x) (s : Session α) (op : Op α)
    (r : Report α) (h : (step e s op).2 = some r) : Consistent e.obj r := by
  cases op with
  | eval x => simp [step] at h
  | initLikelihood => simp [step] at h
  | changeInit v => simp [step] at h
  | estimate boot =>
    simp only [step, Option.some.injEq] at h
    subst h
    refine ⟨hev _, Or.inl ⟨rfl, ?_, rfl⟩⟩
    simp [estimateBoot, estimate, finalHessian_eq]
  | quickEstimate =>
    simp only [step, Option.some.injEq] at h
    subst h
    exact ⟨rfl, Or.inr ⟨rfl, rfl, rfl⟩⟩

/-- every report of the extended machine is a report of a base operation from some state -/
theorem fstep_report (e : EnvT α) (st : FState α) (op : FOp α) (r : FReport α) (h : (fstep e st op).2 = some r) :
    ∃ s op', (step e.toEnv s op').2 = some r.rep := by
  cases op with
  | like x => simp [fstep] at h
  | evalD x => simp [fstep] at h
  | initLikelihood => simp [fstep] at h
  | changeInit v => simp [fstep] at h
  | setSave b => simp [fstep] at h
  | nullLL rows => simp [fstep] at h
  | removeFile => simp [fstep] at h
  | estimate boot =>
    simp only [fstep, Option.map_eq_some_iff] at h
    obtain ⟨rep, h1, h2⟩ := h
    subst h2
    exact ⟨_, _, h1⟩
  | quickEstimate =>
    simp only [fstep, Option.map_eq_some_iff] at h
    obtain ⟨rep, h1, h2⟩ := h
    subst h2
    exact ⟨_, _, h1⟩

theorem frun_forall (e : EnvT α) (P : FReport α → Prop)
    (hP : ∀ st op r, (fstep e st op).2 = some r → P r) :
    ∀ (ops : List (FOp α)) (st : FState α), ∀ r ∈ (frun e st ops).2, P r := by
  intro ops
  induction ops with
  | nil => intro s r hr; simp [frun] at hr
  | cons op ops ih =>
    intro s r hr
    simp only [frun] at hr
    cases hst : (fstep e s op).2 with
    | none =>
      rw [hst] at hr
      exact ih _ r hr
    | some r1 =>
      rw [hst] at hr
      rcases List.mem_cons.mp hr with h | h
      · subst h; exact hP s op r hst
      · exact ih _ r h

theorem frun_append (e : EnvT α) : ∀ (ops1 ops2 : List (FOp α)) (st : FState α),
    frun e st (ops1 ++ ops2) =
      ((frun e (frun e st ops1).1 ops2).1, (frun e st ops1).2 ++ (frun e (frun e st ops1).1 ops2).2) := by
  intro ops1
  induction ops1 with
  | nil => intro ops2 s; simp [frun]
  | cons op ops ih =>
    intro ops2 s
    simp only [List.cons_append, frun, ih]
    cases (fstep e s op).2 <;> simp

/-- `calculate_likelihood` never leaves a trace -/
theorem frun_append_like (e : EnvT α) (x : Vec α) (ops2 : List (FOp α)) :
    ∀ (ops1 : List (FOp α)) (st : FState α), frun e st (ops1 ++ FOp.like x :: ops2) = frun e st (ops1 ++ ops2) := by
  intro ops1
  induction ops1 with
  | nil => intro s; simp [frun, fstep]
  | cons op ops ih => intro s; simp only [List.cons_append, frun, ih]

/-- the saving flag is changed by `setSave` only -/
def FOp.isSetSave : FOp α → Bool
  | .setSave _ => true
  | _ => false

theorem fstep_save (e : EnvT α) (st : FState α) (op : FOp α) (h : op.isSetSave = false) :
    (fstep e st op).1.save = st.save := by
  cases op <;> simp [fstep, FOp.isSetSave] at h ⊢
  case evalD x => split <;> rfl

/-- with `save_iterations` off the file is touched by `removeFile` only, and an evaluation with
derivatives leaves no trace at all -/
theorem fstep_evalD_off (e : EnvT α) (st : FState α) (x : Vec α) (h : st.save = false) :
    fstep e st (.evalD x) = (st, none) := by
  simp [fstep, h]

theorem setIdValues_zip (names : List String) (x v : Vec α) (hn : names.Nodup) (hx : x.length = names.length)
    (hv : v.length = names.length) : setIdValues names (names.zip x) v = x := by
  apply List.ext_getElem
  · simp [setIdValues, hv, hx]
  · intro i h1 h2
    have hi : i < names.length := by omega
    simp only [setIdValues, List.getElem_zipWith]
    rw [lookup_zip_of_nodup names x hn i hi h2]
    rfl

end Generic

/-! ## over the reals -/

section Real

/-- processing points that are not better than `xs` keeps `bestIteration` not above `L(xs)` -/
theorem saveEvals_best_le (names : List String) (ev : Vec ℝ → Eval ℝ) (c : ℝ) :
    ∀ (pts : List (Vec ℝ)) (it : IterSt ℝ), (∀ b, it.best = some b → b ≤ c) → (∀ p ∈ pts, (ev p).f ≤ c) →
      ∀ b, (saveEvals names ev it pts).best = some b → b ≤ c := by
  intro pts
  induction pts with
  | nil => intro it h _ b hb; exact h b (by simpa [saveEvals] using hb)
  | cons p ps ih =>
    intro it h hp
    have hstep : ∀ b, (saveEval names it p (ev p).f (ev p).g).best = some b → b ≤ c := by
      intro b hb
      unfold saveEval at hb
      by_cases hfin : gradNormFinite (ev p).g = true
      · by_cases hle : Num.le (it.best.getD (ev p).f) (ev p).f = true
        · simp only [hfin, hle, Bool.not_true, Bool.false_eq_true, if_false, if_true, Option.some.injEq] at hb
          rw [← hb]; exact hp p List.mem_cons_self
        · simp only [hfin, hle, Bool.not_true, Bool.false_eq_true, if_false, Option.some.injEq] at hb
          cases hbest : it.best with
          | none => rw [hbest] at hb; simp only [Option.getD_none] at hb; rw [← hb]; exact hp p List.mem_cons_self
          | some b0 => rw [hbest] at hb; simp only [Option.getD_some] at hb; rw [← hb]; exact h b0 hbest
      · simp only [hfin, Bool.not_false, if_true] at hb
        exact h b hb
    have := ih (saveEval names it p (ev p).f (ev p).g) hstep (fun q hq => hp q (List.mem_cons_of_mem _ hq))
    simpa [saveEvals] using this

/-- an evaluation at a point that is at least as good as `bestIteration` (finite gradient norm)
rewrites the file with that point -/
theorem saveEval_writes (names : List String) (it : IterSt ℝ) (x : Vec ℝ) (f : ℝ) (g : Vec ℝ)
    (hfin : gradNormFinite g = true) (hb : ∀ b, it.best = some b → b ≤ f) :
    saveEval names it x f g = { best := some f, file := some (names.zip x) } := by
  unfold saveEval
  simp only [hfin, Bool.not_true, Bool.false_eq_true, if_false]
  have : Num.le (it.best.getD f) f = true := by
    rw [NumR.le_real]
    cases hbest : it.best with
    | none => simp
    | some b0 => simpa using hb b0 hbest
  simp [this]

theorem saveEvals_append {α : Type} [NumOps α] (names : List String) (ev : Vec α → Eval α) (it : IterSt α)
    (a b : List (Vec α)) : saveEvals names ev it (a ++ b) = saveEvals names ev (saveEvals names ev it a) b := by
  simp [saveEvals, List.foldl_append]

end Real

end Estimate
