/-
Helper lemmas for Props/C07.lean: the option plumbing decision table (algorithm name ->
external routine and keyword arguments), generic in the number type.  Core Lean only.
-/
import Model.Estimate
namespace Estimate
variable {α : Type} [NumOps α]

theorem parse_name : ∀ a ∈ Algo.all, Algo.parse a.name = some a := by decide

theorem resolve_automatic : resolve "automatic" = some Algo.simpleBounds := by decide

theorem resolve_name : ∀ a ∈ Algo.all, resolve a.name = some a := by decide

/-- the keyword arguments of the simple-bounds routine -/
def sbKwargs (prop : PVal α) (c : Cfg α) : Params α :=
  [("proportion_analytical_hessian", prop), ("first_radius", .num c.initialRadius),
   ("conjugate_gradient_tol", .num cgTolDefault), ("maxiter", .nat c.maxIterations),
   ("eta1", .num eta1Default), ("eta2", .num eta2Default), ("enlarging_factor", .num c.enlargingFactor)]

theorem plumb_automatic (c : Cfg α) (complex : Bool) (h : c.algorithm = "automatic") :
    plumb c complex = some (.simpleBounds,
      { routine := "simple_bounds_newton_algorithm", kwargs := sbKwargs (.nat (if complex then 0 else 1)) c }) := by
  simp [plumb, h, resolve, algoParameters, wrapperCall, simpleBoundsCall, pget, List.lookup, sbKwargs]

theorem plumb_simple_bounds (c : Cfg α) (complex : Bool) (h : c.algorithm = "simple_bounds") :
    plumb c complex = some (.simpleBounds,
      { routine := "simple_bounds_newton_algorithm", kwargs := sbKwargs (.num c.secondDerivatives) c }) := by
  simp [plumb, h, resolve, Algo.parse, Algo.all, Algo.name, algoParameters, wrapperCall, simpleBoundsCall, pget, List.lookup, sbKwargs]

theorem plumb_simple_bounds_newton (c : Cfg α) (complex : Bool) (h : c.algorithm = "simple_bounds_newton") :
    plumb c complex = some (.simpleBoundsNewton,
      { routine := "simple_bounds_newton_algorithm", kwargs := sbKwargs (.nat 1) c }) := by
  simp [plumb, h, resolve, Algo.parse, Algo.all, Algo.name, algoParameters, wrapperCall, simpleBoundsCall, pget, setKey, List.lookup, sbKwargs]

theorem plumb_simple_bounds_bfgs (c : Cfg α) (complex : Bool) (h : c.algorithm = "simple_bounds_BFGS") :
    plumb c complex = some (.simpleBoundsBfgs,
      { routine := "simple_bounds_newton_algorithm", kwargs := sbKwargs (.nat 0) c }) := by
  simp [plumb, h, resolve, Algo.parse, Algo.all, Algo.name, algoParameters, wrapperCall, simpleBoundsCall, pget, setKey, List.lookup, sbKwargs]

theorem plumb_tr_newton (c : Cfg α) (complex : Bool) (h : c.algorithm = "TR-newton") :
    plumb c complex = some (.trNewton,
      { routine := "newton_trust_region",
        kwargs := [("use_dogleg", .bool c.dogleg), ("maxiter", .nat c.maxIterations), ("initial_radius", .num c.initialRadius)] }) := by
  simp [plumb, h, resolve, Algo.parse, Algo.all, Algo.name, algoParameters, wrapperCall, pget, List.lookup]

theorem plumb_tr_bfgs (c : Cfg α) (complex : Bool) (h : c.algorithm = "TR-BFGS") :
    plumb c complex = some (.trBfgs,
      { routine := "bfgs_trust_region",
        kwargs := [("init_bfgs", .none), ("use_dogleg", .bool c.dogleg), ("maxiter", .nat c.maxIterations),
                   ("initial_radius", .num c.initialRadius)] }) := by
  simp [plumb, h, resolve, Algo.parse, Algo.all, Algo.name, algoParameters, wrapperCall, pget, List.lookup]

theorem plumb_ls_newton (c : Cfg α) (complex : Bool) (h : c.algorithm = "LS-newton") :
    plumb c complex = some (.lsNewton, { routine := "newton_line_search", kwargs := [("maxiter", .nat c.maxIterations)] }) := by
  simp [plumb, h, resolve, Algo.parse, Algo.all, Algo.name, algoParameters, wrapperCall, pget, List.lookup]

theorem plumb_ls_bfgs (c : Cfg α) (complex : Bool) (h : c.algorithm = "LS-BFGS") :
    plumb c complex = some (.lsBfgs,
      { routine := "bfgs_line_search", kwargs := [("init_bfgs", .none), ("maxiter", .nat c.maxIterations)] }) := by
  simp [plumb, h, resolve, Algo.parse, Algo.all, Algo.name, algoParameters, wrapperCall, pget, List.lookup]

/-- no TOML value reaches scipy: fixed `ftol`, `gtol` -/
theorem plumb_scipy (c : Cfg α) (complex : Bool) (h : c.algorithm = "scipy") :
    plumb c complex = some (.scipy,
      { routine := "scipy.optimize.minimize", kwargs := [("ftol", .num machEps), ("gtol", .num gtolDefault)] }) := by
  simp [plumb, h, resolve, Algo.parse, Algo.all, Algo.name, algoParameters, wrapperCall]

/-- a name outside the table is refused -/
theorem plumb_unknown (c : Cfg α) (complex : Bool) (h1 : c.algorithm ≠ "automatic")
    (h2 : ∀ a ∈ Algo.all, a.name ≠ c.algorithm) : plumb c complex = none := by
  have hp : Algo.parse c.algorithm = none := by
    unfold Algo.parse
    rw [List.find?_eq_none]
    intro a ha
    simpa using h2 a ha
  simp [plumb, resolve, h1, hp]

theorem boundAware_table :
    Algo.all.map (fun a => (a.name, a.boundAware)) =
      [("scipy", true), ("LS-newton", false), ("TR-newton", false), ("LS-BFGS", false), ("TR-BFGS", false),
       ("simple_bounds", true), ("simple_bounds_newton", true), ("simple_bounds_BFGS", true)] := by decide

end Estimate
