/- Lemmas for C01, round 3: edits of the Beta leaves of a formula. Core Lean only. -/
import Model.ExprEdit
import Proofs.Engine

namespace ExprEdit
open Expr Engine Num

variable {α : Type} [NumOps α]
set_option linter.unusedSectionVars false

/-- evaluation of a DAG whose nodes were mapped by `g`, when `g` keeps the children and the mapped
node has, in the new environment, the semantics of the node in the old one -/
theorem evalN_map (sem : Sem α) (g : Node α → Node α) (env env' : Env α) (d : Dag α)
    (hc : ∀ n, (g n).children = n.children)
    (hs : ∀ n ∈ d, ∀ rs, sem (g n) env' rs = sem n env rs) :
    ∀ fuel k, evalN sem (d.map g) env' fuel k = evalN sem d env fuel k := by
  intro fuel
  induction fuel with
  | zero => intro k; rfl
  | succ fuel ih =>
    intro k
    rw [evalN, evalN, List.getElem?_map]
    cases hd : d[k]? with
    | none => rfl
    | some n =>
      simp only [Option.map_some]
      rw [hc n, hs n (List.mem_of_getElem? hd)]
      congr 1
      apply List.map_congr_left
      intro c _
      exact ih c

theorem changeInitNode_kind (f : String → Option α) (n : Node α) : (changeInitNode f n).kind = n.kind := by
  unfold changeInitNode; split
  · split <;> rfl
  · rfl

theorem changeInitNode_children (f : String → Option α) (n : Node α) :
    (changeInitNode f n).children = n.children := by
  unfold changeInitNode; split
  · split <;> rfl
  · rfl

theorem fixNode_children (f : String → Option α) (pre suf : String) (n : Node α) :
    (fixNode f pre suf n).children = n.children := by
  unfold fixNode; split
  · split <;> rfl
  · rfl

/-- by name, a starting value is not part of the meaning of a parameter node -/
theorem semCommon_changeInit (f : String → Option α) (n : Node α) (env : Env α) (rs : List (Res α)) :
    semCommon (changeInitNode f n) env rs = semCommon n env rs := by
  unfold changeInitNode
  split
  · rename_i hk
    split
    · obtain ⟨k, c, nm, v, ks, ms, fx⟩ := n
      simp only at hk
      subst hk
      rfl
    · rfl
  · rfl

theorem semEngine_changeInit (f : String → Option α) (n : Node α) (env : Env α) (rs : List (Res α)) :
    semEngine (changeInitNode f n) env rs = semEngine n env rs := by
  unfold changeInitNode
  split
  · rename_i hk
    split
    · obtain ⟨k, c, nm, v, ks, ms, fx⟩ := n
      simp only at hk
      subst hk
      rfl
    · rfl
  · rfl

/-- a fixed and renamed parameter node means, in an environment that gives the new name the value
the old name had, what the node meant -/
theorem semEngine_fix (f : String → Option α) (pre suf : String) (n : Node α) (env env' : Env α)
    (hvar : env'.var = env.var)
    (hb : n.kind = .beta →
      env'.beta (match f n.name with | some _ => pre ++ n.name ++ suf | none => n.name) = env.beta n.name)
    (rs : List (Res α)) :
    semEngine (fixNode f pre suf n) env' rs = semEngine n env rs := by
  obtain ⟨k, c, nm, v, ks, ms, fx⟩ := n
  unfold fixNode
  by_cases hk : k = .beta
  · subst hk
    simp only [↓reduceIte]
    have := hb rfl
    simp only at this
    cases hf : f nm with
    | none => rw [hf] at this; simp only [semEngine, semCommon]; rw [this]
    | some w => rw [hf] at this; simp only [semEngine, semCommon]; rw [this]
  · simp only [hk, ↓reduceIte]
    cases k <;> first | exact absurd rfl hk | (simp only [semEngine, semCommon, hvar])

theorem decls_map (g : Node α → Node α) (h : IdM.Decl String α → IdM.Decl String α) (d : Dag α)
    (hk : ∀ n, (g n).kind = n.kind)
    (hd : ∀ n, n.kind = .beta →
      ({ name := (g n).name, fixed := (g n).fixed, init := (g n).value } : IdM.Decl String α) =
        h { name := n.name, fixed := n.fixed, init := n.value }) :
    decls (d.map g) = (decls d).map h := by
  unfold decls
  induction d with
  | nil => rfl
  | cons n t ih =>
    simp only [List.map_cons, List.filter_cons, hk n]
    by_cases hb : n.kind = .beta
    · simp only [hb, beq_self_eq_true, ↓reduceIte, List.map_cons]
      rw [ih, hd n hb]
    · have : (n.kind == Kind.beta) = false := by simpa using hb
      simp only [this, Bool.false_eq_true, ↓reduceIte]
      exact ih

theorem fixNode_kind (f : String → Option α) (pre suf : String) (n : Node α) :
    (fixNode f pre suf n).kind = n.kind := by
  unfold fixNode; split
  · split <;> rfl
  · rfl

end ExprEdit
