/- Sharing invariance: a DAG homomorphism (same nodes, children mapped) preserves every value.
Any two ways of sharing sub-formulas of one formula are related to the fully unshared form by
such a map.  Core Lean only. -/
import Model.Expr
import Proofs.Engine

namespace Expr

variable {α : Type} [NumOps α]
set_option linter.unusedSectionVars false

/-- `h` maps node ids of `d'` to node ids of `d`: same node up to the children, which are
mapped by `h` -/
def Hom (h : Nat → Nat) (d' d : Dag α) : Prop :=
  ∀ (k : Nat) (n' : Node α), d'[k]? = some n' →
    d[h k]? = some { n' with children := n'.children.map h }

/-- a semantics that does not look at the `children` field (it receives their results) -/
def ChildrenBlind (sem : Sem α) : Prop :=
  ∀ (n : Node α) (cs : List Nat) (env : Env α) (rs : List (Res α)),
    sem { n with children := cs } env rs = sem n env rs

theorem semCommon_blind : ChildrenBlind (semCommon (α := α)) := by
  intro n cs env rs
  obtain ⟨k, c, nm, v, ks, ms, f⟩ := n
  cases k <;> rfl

theorem semMath_blind : ChildrenBlind (semMath (α := α)) := semCommon_blind

theorem semEngine_blind : ChildrenBlind (semEngine (α := α)) := by
  intro n cs env rs
  obtain ⟨k, c, nm, v, ks, ms, f⟩ := n
  cases k <;> rfl

theorem semPy_blind : ChildrenBlind (semPy (α := α)) := by
  intro n cs env rs
  obtain ⟨k, c, nm, v, ks, ms, f⟩ := n
  cases k <;> rfl

theorem evalN_hom (sem : Sem α) (hb : ChildrenBlind sem) (h : Nat → Nat) (d' d : Dag α)
    (hwf : WF d') (hh : Hom h d' d) (env : Env α) :
    ∀ fuel k, k < d'.length → evalN sem d' env fuel k = evalN sem d env fuel (h k) := by
  intro fuel
  induction fuel with
  | zero => intro k _; rfl
  | succ fuel ih =>
    intro k hk
    have hd : d'[k]? = some d'[k] := List.getElem?_eq_getElem hk
    have hlist : d'[k].children.map (evalN sem d' env fuel) =
        (d'[k].children.map h).map (evalN sem d env fuel) := by
      rw [List.map_map]
      apply List.map_congr_left
      intro c hc
      have hck : c < k := hwf k _ hd c hc
      exact ih c (by omega)
    rw [evalN, evalN, hd, hh k _ hd]
    simp only []
    rw [hb d'[k] (d'[k].children.map h), hlist]

/-- a homomorphism into a well-formed DAG is monotone enough for the fuel of the root -/
theorem eval_hom (sem : Sem α) (hb : ChildrenBlind sem) (h : Nat → Nat) (d' d : Dag α)
    (hwf' : WF d') (hwf : WF d) (hh : Hom h d' d) (env : Env α) (k : Nat) (hk : k < d'.length) :
    eval sem d' env k = eval sem d env (h k) := by
  unfold eval
  rw [evalN_hom sem hb h d' d hwf' hh env (k + 1) k hk]
  -- normalise the fuel on the right: any fuel above the node id gives the same value
  by_cases hlt : h k < k + 1
  · exact Engine.evalN_ge sem d hwf env (h k) (k + 1) hlt
  · -- fuel k+1 ≤ h k: evaluate the left side with more fuel instead
    have hge : k + 1 ≤ h k := by omega
    rw [← evalN_hom sem hb h d' d hwf' hh env (k + 1) k hk,
        ← Engine.evalN_ge sem d' hwf' env k (h k + 1) (by omega),
        evalN_hom sem hb h d' d hwf' hh env (h k + 1) k hk]

end Expr
