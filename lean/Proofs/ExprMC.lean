/- Helper lemmas for C01, round 3: the engine path of the language with bioDraws / MonteCarlo /
PanelLikelihoodTrajectory (`Model/ExprMC.lean`).  Core Lean only. -/
import Model.ExprMC
import Proofs.Engine
import Proofs.Sig

namespace ExprMC
open Expr Engine Num

variable {α : Type} [NumOps α]
set_option linter.unusedSectionVars false

/-! ### fuel -/

theorem evalX_step (sem : Sem α) (d : XDag α) (hwf : WFX d) :
    ∀ fuel (xe : XEnv α) k, k < fuel → evalX sem d fuel xe k = evalX sem d (fuel + 1) xe k := by
  intro fuel
  induction fuel with
  | zero => intro xe k hk; omega
  | succ fuel ih =>
    intro xe k hk
    rw [evalX, evalX]
    cases hd : d[k]? with
    | none => rfl
    | some n =>
      simp only []
      have hlt := hwf k n hd
      cases hx : n.x with
      | base =>
        simp only []
        congr 1
        apply List.map_congr_left
        intro c hc
        exact ih xe c (by have := hlt c hc; omega)
      | draws => rfl
      | monteCarlo =>
        simp only []
        cases hch : n.node.children with
        | nil => rfl
        | cons c rest =>
          cases rest with
          | cons _ _ => rfl
          | nil =>
            simp only []
            congr 1
            apply List.map_congr_left
            intro r _
            exact ih _ c (by have := hlt c (by rw [hch]; exact List.mem_cons_self); omega)
      | panelTraj =>
        simp only []
        cases hch : n.node.children with
        | nil => rfl
        | cons c rest =>
          cases rest with
          | cons _ _ => rfl
          | nil =>
            simp only []
            congr 1
            apply List.map_congr_left
            intro r _
            exact ih _ c (by have := hlt c (by rw [hch]; exact List.mem_cons_self); omega)

theorem evalX_ge (sem : Sem α) (d : XDag α) (hwf : WFX d) (xe : XEnv α) (k : Nat) :
    ∀ fuel, k < fuel → evalX sem d fuel xe k = evalX sem d (k + 1) xe k := by
  intro fuel h
  obtain ⟨m, rfl⟩ : ∃ m, fuel = k + 1 + m := ⟨fuel - (k + 1), by omega⟩
  clear h
  induction m with
  | zero => rfl
  | succ m ih => rw [← ih]; exact (evalX_step sem d hwf (k + 1 + m) xe k (by omega)).symm

/-! ### environments -/

theorem getD_nil (i : Nat) (z : α) : ([] : List α).getD i z = z := by simp

theorem xenv_env (t : IdM.Table String) (xe : XEngEnv α) : (xenvOf t xe).env = envOf t xe.ee := by
  unfold XEnv.env xenvOf envOf XEngEnv.ee
  simp only [List.getElem?_map]
  congr 1
  funext n
  cases h : xe.rows[xe.row]? with
  | none =>
    simp only [Option.map_none, Option.getD_none]
    cases IdM.indexOf n t.cols <;> simp
  | some r =>
    simp only [byName, Option.map_some, Option.getD_some]
    cases IdM.indexOf n t.cols <;> rfl

theorem sized_ee (t : IdM.Table String) (xe : XEngEnv α) (h : SizedX t xe) : Sized t xe.ee := by
  obtain ⟨h1, h2, h3, h4, _, _⟩ := h
  refine ⟨h1, h2, ?_⟩
  have hget : xe.rows[xe.row]? = some xe.rows[xe.row] := List.getElem?_eq_getElem h4
  simp only [XEngEnv.ee, hget, Option.getD_some]
  exact h3 _ (List.getElem_mem h4)

theorem sized_draw (t : IdM.Table String) (xe : XEngEnv α) (h : SizedX t xe) (r : Nat)
    (hr : r < xe.draws.length) : SizedX t { xe with draw := some r } := by
  obtain ⟨h1, h2, h3, h4, h5, _⟩ := h
  exact ⟨h1, h2, h3, h4, h5, fun r' hr' => by cases hr'; exact hr⟩

theorem sized_row (t : IdM.Table String) (xe : XEngEnv α) (h : SizedX t xe) (r : Nat)
    (hr : r < xe.rows.length) : SizedX t { xe with row := r } := by
  obtain ⟨h1, h2, h3, _, h5, h6⟩ := h
  exact ⟨h1, h2, h3, hr, h5, h6⟩

/-! ### loader invariant -/

theorem loadX_append (s : XStore α) (a b : List (XLine α)) : loadX s (a ++ b) = loadX (loadX s a) b := by
  simp [loadX, List.foldl_append]

/-- every loaded id denotes the evaluation of the DAG node with that id, in every context -/
def ConsX (t : IdM.Table String) (d : XDag α) (s : XStore α) : Prop :=
  ∀ k f, s.find k = some f → ∃ n, d[k]? = some n ∧
    ∀ xe, SizedX t xe → f xe = evalX semEngine d (k + 1) (xenvOf t xe) k

theorem findX_loadLine_of_find {s : XStore α} {l : XLine α} {j : Nat} {f : XLoaded α}
    (h : s.find j = some f) : (loadLineX s l).find j = some f := by
  unfold loadLineX
  cases hl : s.find l.line.id with
  | some _ => exact h
  | none =>
    cases hc : compileX s l with
    | none => exact h
    | some g =>
      show XStore.find ((l.line.id, g) :: s) j = some f
      simp only [XStore.find]
      by_cases heq : l.line.id = j
      · rw [heq] at hl; rw [hl] at h; cases h
      · simp [heq, h]

theorem findX_load_of_find {s : XStore α} {ls : List (XLine α)} {j : Nat} {f : XLoaded α}
    (h : s.find j = some f) : (loadX s ls).find j = some f := by
  induction ls generalizing s with
  | nil => exact h
  | cons l ls ih => exact ih (findX_loadLine_of_find h)

inductive All2 {β γ : Type} (R : β → γ → Prop) : List β → List γ → Prop
  | nil : All2 R [] []
  | cons {a b l1 l2} : R a b → All2 R l1 l2 → All2 R (a :: l1) (b :: l2)

theorem allSome_findX (t : IdM.Table String) (d : XDag α) (s : XStore α) (hc : ConsX t d s)
    (cs : List Nat) (hall : ∀ c ∈ cs, (s.find c).isSome) :
    ∃ fs, allSome (cs.map s.find) = some fs ∧
      All2 (fun f c => ∀ xe, SizedX t xe → f xe = evalX semEngine d (c + 1) (xenvOf t xe) c) fs cs := by
  induction cs with
  | nil => exact ⟨[], rfl, All2.nil⟩
  | cons c cs ih =>
    obtain ⟨fs, hfs, hev⟩ := ih (fun c' h' => hall c' (List.mem_cons_of_mem _ h'))
    have hc' := hall c (List.mem_cons_self)
    cases hf : s.find c with
    | none => rw [hf] at hc'; cases hc'
    | some f =>
      obtain ⟨n, _, hfe⟩ := hc c f hf
      refine ⟨f :: fs, ?_, All2.cons hfe hev⟩
      simp [allSome, hf, hfs]

theorem forall₂_map (d : XDag α) (t : IdM.Table String) (xe : XEngEnv α) (hs : SizedX t xe)
    (fs : List (XLoaded α)) (cs : List Nat)
    (h : All2 (fun f c => ∀ xe, SizedX t xe → f xe = evalX semEngine d (c + 1) (xenvOf t xe) c) fs cs) :
    fs.map (· xe) = cs.map fun c => evalX semEngine d (c + 1) (xenvOf t xe) c := by
  induction h with
  | nil => rfl
  | cons hfc _ ih => simp only [List.map_cons]; rw [hfc xe hs, ih]

theorem lineOfX_id (t : IdM.Table String) (k : Nat) (n : XNode α) : (lineOfX t k n).line.id = k := by
  unfold lineOfX
  split
  · unfold lineOf; split <;> rfl
  · rfl
  · rfl

theorem lineOfX_children (t : IdM.Table String) (k : Nat) (n : XNode α) :
    (lineOfX t k n).line.children = n.node.children := by
  unfold lineOfX
  split
  · unfold lineOf; split <;> rfl
  · rfl
  · rfl

theorem lineOfX_x (t : IdM.Table String) (k : Nat) (n : XNode α) : (lineOfX t k n).x = n.x := by
  unfold lineOfX
  split
  · rename_i h; exact h.symm
  · rename_i h; exact h.symm
  · rfl

/-- the engine object of the line of a node, given objects for its children that denote the
children, denotes the node -/
theorem semX_eq (t : IdM.Table String) (d : XDag α) (hwf : WFX d) (k : Nat) (n : XNode α)
    (hd : d[k]? = some n) (hn : nodeNamesOKX t n = true) (fs : List (XLoaded α))
    (hfs : All2 (fun f c => ∀ xe, SizedX t xe → f xe = evalX semEngine d (c + 1) (xenvOf t xe) c)
      fs n.node.children)
    (xe : XEngEnv α) (hs : SizedX t xe) :
    semX (lineOfX t k n) fs xe = evalX semEngine d (k + 1) (xenvOf t xe) k := by
  have hlt := hwf k n hd
  rw [evalX, hd]
  simp only []
  unfold semX
  rw [lineOfX_x]
  cases hx : n.x with
  | base =>
    simp only []
    have hl : (lineOfX t k n).line = lineOf t k n.node := by unfold lineOfX; rw [hx]
    have hnn : nodeNamesOK t n.node = true := by unfold nodeNamesOKX at hn; rw [hx] at hn; exact hn
    rw [hl, lineSem_eq t k n.node xe.ee hnn (sized_ee t xe hs), xenv_env, forall₂_map d t xe hs fs _ hfs]
    congr 1
    apply List.map_congr_left
    intro c hc
    exact (evalX_ge semEngine d hwf (xenvOf t xe) c k (hlt c hc)).symm
  | draws =>
    simp only []
    have hl : (lineOfX t k n).line.slot = (IdM.indexOf n.node.name t.draws).getD 0 := by
      unfold lineOfX; rw [hx]
    unfold drawSem
    rw [hl]
    show (match xe.draw with
      | none => Except.error Err.domain
      | some r => _) = (match xe.draw with
      | none => Except.error Err.domain
      | some r => _)
    cases hdr : xe.draw with
    | none => rfl
    | some r =>
      simp only [xenvOf, List.getElem?_map]
      cases hrow : xe.draws[r]? with
      | none => rfl
      | some dr =>
        simp only [Option.map_some]
        unfold nodeNamesOKX at hn
        rw [hx] at hn
        simp only at hn
        cases hi : IdM.indexOf n.node.name t.draws with
        | none => rw [hi] at hn; cases hn
        | some i =>
          have hmem : dr ∈ xe.draws := List.mem_of_getElem? hrow
          have hlen : dr.length = t.draws.length := hs.2.2.2.2.1 dr hmem
          have hilt : i < dr.length := by rw [hlen]; exact indexOf_lt _ _ i hi
          have hget : dr[i]? = some dr[i] := List.getElem?_eq_getElem hilt
          simp [byName, hi, hget]
  | monteCarlo =>
    simp only []
    cases hch : n.node.children with
    | nil => rw [hch] at hfs; cases hfs; rfl
    | cons c rest =>
      rw [hch] at hfs
      cases hfs with
      | cons hfc hrest =>
        cases rest with
        | cons c2 rest2 => cases hrest; rfl
        | nil =>
          cases hrest
          simp only []
          have hlen : (xenvOf t xe).draws.length = xe.draws.length := by simp [xenvOf]
          rw [hlen]
          congr 1
          apply List.map_congr_left
          intro r hr
          have hr' : r < xe.draws.length := List.mem_range.mp hr
          rw [hfc _ (sized_draw t xe hs r hr')]
          have hc : c < k := hlt c (by rw [hch]; exact List.mem_cons_self)
          exact (evalX_ge semEngine d hwf _ c k hc).symm
  | panelTraj =>
    simp only []
    cases hch : n.node.children with
    | nil => rw [hch] at hfs; cases hfs; rfl
    | cons c rest =>
      rw [hch] at hfs
      cases hfs with
      | cons hfc hrest =>
        cases rest with
        | cons c2 rest2 => cases hrest; rfl
        | nil =>
          cases hrest
          simp only []
          have hlen : (xenvOf t xe).rows.length = xe.rows.length := by simp [xenvOf]
          rw [hlen]
          congr 1
          apply List.map_congr_left
          intro r hr
          have hr' : r < xe.rows.length := List.mem_range.mp hr
          rw [hfc _ (sized_row t xe hs r hr')]
          have hc : c < k := hlt c (by rw [hch]; exact List.mem_cons_self)
          exact (evalX_ge semEngine d hwf _ c k hc).symm

theorem mainX (t : IdM.Table String) (d : XDag α) (hwf : WFX d)
    (hnames : ∀ (k : Nat) (n : XNode α), d[k]? = some n → nodeNamesOKX t n = true) :
    ∀ fuel k (s : XStore α), ConsX t d s → k < fuel → k < d.length →
      ConsX t d (loadX s (emitX t d fuel k)) ∧ ((loadX s (emitX t d fuel k)).find k).isSome := by
  intro fuel
  induction fuel with
  | zero => intro k s _ hk; omega
  | succ fuel ih =>
    intro k s hs hk hlen
    have hd : d[k]? = some d[k] := List.getElem?_eq_getElem hlen
    generalize hn : d[k] = n at hd
    rw [emitX, hd]
    simp only []
    rw [loadX_append]
    have hch : ∀ (cs : List Nat) (s : XStore α), ConsX t d s → (∀ c ∈ cs, c < k) →
        ConsX t d (loadX s (cs.flatMap (emitX t d fuel))) ∧
        (∀ c ∈ cs, ((loadX s (cs.flatMap (emitX t d fuel))).find c).isSome) := by
      intro cs
      induction cs with
      | nil => intro s hs _; exact ⟨hs, fun _ h => by cases h⟩
      | cons c cs ihc =>
        intro s hs hlt
        rw [List.flatMap_cons, loadX_append]
        have hck : c < k := hlt c List.mem_cons_self
        obtain ⟨h1, h2⟩ := ih c s hs (by omega) (by omega)
        obtain ⟨h3, h4⟩ := ihc _ h1 (fun c' h' => hlt c' (List.mem_cons_of_mem _ h'))
        refine ⟨h3, ?_⟩
        intro c' hc'
        cases hc' with
        | head =>
          cases hf : (loadX s (emitX t d fuel c)).find c with
          | none => rw [hf] at h2; cases h2
          | some f => rw [findX_load_of_find hf]; rfl
        | tail _ hmem => exact h4 c' hmem
    obtain ⟨hcons, hpres⟩ := hch n.node.children s hs (hwf k n hd)
    generalize loadX s (n.node.children.flatMap (emitX t d fuel)) = s' at hcons hpres
    show ConsX t d (loadLineX s' (lineOfX t k n)) ∧ ((loadLineX s' (lineOfX t k n)).find k).isSome
    unfold loadLineX
    rw [lineOfX_id]
    cases hfk : s'.find k with
    | some f => simp only []; exact ⟨hcons, by rw [hfk]; rfl⟩
    | none =>
      simp only []
      obtain ⟨fs, hfs, hev⟩ := allSome_findX t d s' hcons n.node.children hpres
      have hcomp : compileX s' (lineOfX t k n) = some (semX (lineOfX t k n) fs) := by
        simp [compileX, lineOfX_children, hfs]
      rw [hcomp]
      simp only []
      refine ⟨?_, by simp [XStore.find]⟩
      intro j f hj
      simp only [XStore.find] at hj
      split at hj
      · rename_i hjk
        subst hjk
        cases hj
        refine ⟨n, hd, ?_⟩
        intro xe hsz
        exact semX_eq t d hwf _ n hd (hnames _ n hd) fs hev xe hsz
      · exact hcons j f hj

theorem namesOKXB_spec (t : IdM.Table String) (d : XDag α) (h : namesOKXB t d = true) :
    ∀ (k : Nat) (n : XNode α), d[k]? = some n → nodeNamesOKX t n = true := by
  intro k n hk
  unfold namesOKXB at h
  rw [List.all_eq_true] at h
  exact h n (List.mem_of_getElem? hk)

theorem runX_eq (t : IdM.Table String) (d : XDag α) (hwf : WFX d) (k : Nat) (hk : k < d.length)
    (hnames : namesOKXB t d = true) (xe : XEngEnv α) (hs : SizedX t xe) :
    runX t d k xe = evalXRoot semEngine d (xenvOf t xe) k := by
  have hn := namesOKXB_spec t d hnames
  obtain ⟨hc, hsome⟩ := mainX t d hwf hn (k + 1) k [] (fun _ _ h => by cases h) (by omega) hk
  unfold runX
  simp only [hnames, Bool.not_true, Bool.false_eq_true, ↓reduceIte]
  cases hf : (loadX [] (emitX t d (k + 1) k)).find k with
  | none => rw [hf] at hsome; cases hsome
  | some f =>
    obtain ⟨_, _, h⟩ := hc k f hf
    exact h xe hs

/-! ### a DAG without the new kinds is a DAG of the shared language -/

theorem evalX_base (sem : Sem α) (d : XDag α) (hb : allBase d = true) :
    ∀ fuel (xe : XEnv α) k, evalX sem d fuel xe k = evalN sem (baseDag d) xe.env fuel k := by
  intro fuel
  induction fuel with
  | zero => intro xe k; rfl
  | succ fuel ih =>
    intro xe k
    rw [evalX, evalN]
    have hget : (baseDag d)[k]? = (d[k]?).map (·.node) := by simp [baseDag]
    rw [hget]
    cases hd : d[k]? with
    | none => rfl
    | some n =>
      have hx : n.x = .base := by
        unfold allBase at hb
        rw [List.all_eq_true] at hb
        have := hb n (List.mem_of_getElem? hd)
        simpa using this
      simp only [Option.map_some, hx]
      congr 1
      apply List.map_congr_left
      intro c _
      exact ih xe c

/-! ### the text of the three new classes -/

theorem extract_cls_gen (cls rest : List Char) (hq : '"' ∉ cls) (h1 : '<' ∉ cls) (h2 : '>' ∉ cls) :
    Sig.extract '<' '>' ('<' :: (cls ++ '>' :: rest)) = some cls := by
  apply Sig.extract_of_blank '<' '>' (by decide) _ [] cls (Sig.blank false rest)
  · have hpre : '"' ∉ ('<' :: cls ++ ['>']) := by
      simp only [List.cons_append, List.mem_cons, List.mem_append, List.mem_singleton, not_or]
      exact ⟨by decide, hq, by decide⟩
    have hsplit : '<' :: (cls ++ '>' :: rest) = ('<' :: cls ++ ['>']) ++ rest := by simp
    rw [hsplit, Sig.blank_append_noquote _ _ _ hpre, Sig.blank_noquote _ hpre]
    simp
  · simp
  · exact h1
  · exact h2
  · decide

theorem xkind_className (k : Kind) : xkindOfClass (Sig.className k) = .base := by
  cases k <;> decide

theorem retag_eq (cls cls' rest : List Char) (h : '>' ∉ cls) :
    retag cls' ('<' :: (cls ++ '>' :: rest)) = some ('<' :: cls' ++ '>' :: rest) := by
  unfold retag
  have : '<' :: (cls ++ '>' :: rest) = ('<' :: cls) ++ '>' :: rest := by simp
  rw [this, Sig.dropUntil_append '>' ('<' :: cls) rest (by
    simp only [List.mem_cons, not_or]; exact ⟨by decide, h⟩)]
  rfl

theorem parse_renderX (txt : α → List Char) (numOf : List Char → Option α)
    (info : Nat → Nat × List Char) (l : XLine α) (h : TextWFX txt numOf l) :
    parseLineX numOf (renderLineX txt info l) = some (canonX l) := by
  obtain ⟨x, line⟩ := l
  obtain ⟨hlay, hwf⟩ := h
  simp only at hwf
  cases x with
  | base =>
    have hr : renderLineX txt info { x := .base, line := line } = Sig.renderLine txt info line := rfl
    have hcls : Sig.extract '<' '>' (Sig.renderLine txt info line) = some (Sig.className line.kind) := by
      unfold Sig.renderLine Sig.linePre
      rw [List.append_assoc]
      exact Sig.extract_cls _ _ _
    unfold parseLineX
    rw [hr, hcls]
    simp only [xkind_className, Sig.parse_render txt numOf info line hwf, Option.map_some]
    rfl
  | draws =>
    have hk : line.kind = .var := by simpa [lineOKX, layoutKind] using hlay
    obtain ⟨kind, id, children, name, status, uid, slot, value, keys, members⟩ := line
    simp only at hk
    subst hk
    have hform : renderLineX txt info { x := .draws, line :=
          { kind := .var, id := id, children := children, name := name, status := status, uid := uid,
            slot := slot, value := value, keys := keys, members := members } } =
        '<' :: (classX .draws ++ '>' :: ('{' :: (Sig.natText id ++ '}' :: '"' ::
          (Sig.sanitize name.toList ++ '"' :: Sig.commaJoin [Sig.natText uid, Sig.natText slot])))) := by
      simp [renderLineX]
    unfold parseLineX
    rw [hform, extract_cls_gen _ _ (by decide) (by decide) (by decide)]
    have hx : xkindOfClass (classX .draws) = .draws := by decide
    simp only [hx, layoutKind]
    rw [retag_eq _ _ _ (by decide)]
    simp only []
    have hren : '<' :: Sig.className Kind.var ++ '>' :: ('{' :: (Sig.natText id ++ '}' :: '"' ::
          (Sig.sanitize name.toList ++ '"' :: Sig.commaJoin [Sig.natText uid, Sig.natText slot]))) =
        Sig.renderLine txt info
          { kind := .var, id := id, children := children, name := name, status := status, uid := uid,
            slot := slot, value := value, keys := keys, members := members } := by
      simp [Sig.renderLine, Sig.linePre, Sig.header, Sig.lineFields]
    rw [hren, Sig.parse_render txt numOf info _ hwf]
    rfl
  | monteCarlo =>
    have hk : line.kind = .neg := by simpa [lineOKX, layoutKind] using hlay
    obtain ⟨kind, id, children, name, status, uid, slot, value, keys, members⟩ := line
    simp only at hk
    subst hk
    have hform : renderLineX txt info { x := .monteCarlo, line :=
          { kind := .neg, id := id, children := children, name := name, status := status, uid := uid,
            slot := slot, value := value, keys := keys, members := members } } =
        '<' :: (classX .monteCarlo ++ '>' :: ('{' :: (Sig.natText id ++ '}' :: '(' ::
          (Sig.natText children.length ++ ')' :: Sig.commaJoin (children.map Sig.natText))))) := by
      simp [renderLineX]
    unfold parseLineX
    rw [hform, extract_cls_gen _ _ (by decide) (by decide) (by decide)]
    have hx : xkindOfClass (classX .monteCarlo) = .monteCarlo := by decide
    simp only [hx, layoutKind]
    rw [retag_eq _ _ _ (by decide)]
    simp only []
    have hren : '<' :: Sig.className Kind.neg ++ '>' :: ('{' :: (Sig.natText id ++ '}' :: '(' ::
          (Sig.natText children.length ++ ')' :: Sig.commaJoin (children.map Sig.natText)))) =
        Sig.renderLine txt info
          { kind := .neg, id := id, children := children, name := name, status := status, uid := uid,
            slot := slot, value := value, keys := keys, members := members } := by
      simp [Sig.renderLine, Sig.linePre, Sig.header, Sig.lineFields]
    rw [hren, Sig.parse_render txt numOf info _ hwf]
    rfl
  | panelTraj =>
    have hk : line.kind = .neg := by simpa [lineOKX, layoutKind] using hlay
    obtain ⟨kind, id, children, name, status, uid, slot, value, keys, members⟩ := line
    simp only at hk
    subst hk
    have hform : renderLineX txt info { x := .panelTraj, line :=
          { kind := .neg, id := id, children := children, name := name, status := status, uid := uid,
            slot := slot, value := value, keys := keys, members := members } } =
        '<' :: (classX .panelTraj ++ '>' :: ('{' :: (Sig.natText id ++ '}' :: '(' ::
          (Sig.natText children.length ++ ')' :: Sig.commaJoin (children.map Sig.natText))))) := by
      simp [renderLineX]
    unfold parseLineX
    rw [hform, extract_cls_gen _ _ (by decide) (by decide) (by decide)]
    have hx : xkindOfClass (classX .panelTraj) = .panelTraj := by decide
    simp only [hx, layoutKind]
    rw [retag_eq _ _ _ (by decide)]
    simp only []
    have hren : '<' :: Sig.className Kind.neg ++ '>' :: ('{' :: (Sig.natText id ++ '}' :: '(' ::
          (Sig.natText children.length ++ ')' :: Sig.commaJoin (children.map Sig.natText)))) =
        Sig.renderLine txt info
          { kind := .neg, id := id, children := children, name := name, status := status, uid := uid,
            slot := slot, value := value, keys := keys, members := members } := by
      simp [Sig.renderLine, Sig.linePre, Sig.header, Sig.lineFields]
    rw [hren, Sig.parse_render txt numOf info _ hwf]
    rfl

theorem semX_canon (l : XLine α) (h : lineOKX l = true) : semX (canonX l) = semX l := by
  obtain ⟨x, line⟩ := l
  funext fs xe
  cases x with
  | base => simp only [semX, canonX, Sig.lineSem_canon]
  | draws =>
    have hk : line.kind = .var := by simpa [lineOKX, layoutKind] using h
    simp only [semX, canonX, drawSem]
    have : (Sig.canon line).slot = line.slot := by simp [Sig.canon, hk, Sig.emptyLine]
    rw [this]
  | monteCarlo => rfl
  | panelTraj => rfl

theorem loadLineX_canon (s : XStore α) (l : XLine α) (h : lineOKX l = true)
    (ha : Sig.arityOK l.line = true) : loadLineX s (canonX l) = loadLineX s l := by
  unfold loadLineX compileX
  have hid : (canonX l).line.id = l.line.id := Sig.canon_id l.line
  have hc : (canonX l).line.children = l.line.children := Sig.canon_children l.line ha
  rw [semX_canon l h, hid, hc]

theorem loadTextX_render (txt : α → List Char) (numOf : List Char → Option α)
    (info : Nat → Nat × List Char) (ls : List (XLine α))
    (hwf : ∀ l ∈ ls, TextWFX txt numOf l) (s : XStore α) :
    loadTextX numOf s (ls.map (renderLineX txt info)) = some (loadX s ls) := by
  induction ls generalizing s with
  | nil => rfl
  | cons l ls ih =>
    have hl := hwf l (by simp)
    simp only [List.map_cons, loadTextX, parse_renderX txt numOf info l hl, loadX, List.foldl_cons,
      loadLineX_canon s l hl.layout hl.wf.arity]
    exact ih (fun x hx => hwf x (by simp [hx])) _

theorem emitX_mem (t : IdM.Table String) (d : XDag α) (fuel k : Nat) (l : XLine α)
    (h : l ∈ emitX t d fuel k) : ∃ j n, d[j]? = some n ∧ l = lineOfX t j n := by
  induction fuel generalizing k with
  | zero => simp [emitX] at h
  | succ fuel ih =>
    unfold emitX at h
    cases hd : d[k]? with
    | none => simp [hd] at h
    | some n =>
      simp only [hd, List.mem_append, List.mem_flatMap, List.mem_singleton] at h
      rcases h with ⟨c, _, hc⟩ | rfl
      · exact ih c hc
      · exact ⟨k, n, hd, rfl⟩

theorem runTextX_eq_runX (txt : α → List Char) (numOf : List Char → Option α)
    (info : Nat → Nat × List Char) (t : IdM.Table String) (d : XDag α) (k : Nat) (xe : XEngEnv α)
    (hwf : ∀ j n, d[j]? = some n → TextWFX txt numOf (lineOfX t j n)) :
    runTextX txt numOf info t d k xe = runX t d k xe := by
  unfold runTextX runX
  rw [loadTextX_render txt numOf info _ (fun l hl => by
    obtain ⟨j, n, hj, rfl⟩ := emitX_mem t d _ _ l hl
    exact hwf j n hj)]

end ExprMC
