/- C01, round 3: what MonteCarlo and PanelLikelihoodTrajectory compute, on the reals. -/
import Proofs.ExprMC
import Proofs.NumReal
import Proofs.ExprReal

namespace ExprMC
open Expr Engine

theorem sumLeft_ok_real (acc : ℝ) (vs : List ℝ) :
    sumLeft acc (vs.map Except.ok) = .ok (acc + vs.sum) := by
  induction vs generalizing acc with
  | nil => simp [sumLeft]; rfl
  | cons v vs ih =>
    simp only [List.map_cons, sumLeft, List.sum_cons]
    rw [ih]
    simp only [NumR.add_real]
    congr 1
    ring

/-- `MonteCarlo` of values `v₀ … v_{R-1}` (R ≥ 1) is their arithmetic mean -/
theorem avgRes_ok_real (vs : List ℝ) (h : vs ≠ []) :
    avgRes (vs.map Except.ok) = .ok (vs.sum / (vs.length : ℝ)) := by
  unfold avgRes
  have hne : (vs.map (Except.ok (ε := Err))).isEmpty = false := by
    cases vs with
    | nil => exact absurd rfl h
    | cons _ _ => rfl
  rw [hne]
  simp only [Bool.false_eq_true, ↓reduceIte]
  have h0 : (0 : ℝ) = @OfNat.ofNat ℝ 0 Num.instOfNatOfNumOps := NumR.ofNat_real_zero.symm
  rw [← h0, sumLeft_ok_real]
  simp

theorem exp_sum_log (vs : List ℝ) (hpos : ∀ v ∈ vs, 0 < v) :
    Real.exp ((vs.map Real.log).sum) = vs.prod := by
  induction vs with
  | nil => simp
  | cons v vs ih =>
    simp only [List.map_cons, List.sum_cons, List.prod_cons, Real.exp_add]
    rw [Real.exp_log (hpos v (by simp)), ih (fun w hw => hpos w (by simp [hw]))]

/-- `PanelLikelihoodTrajectory` of positive values is their product -/
theorem trajRes_ok_real (vs : List ℝ) (hpos : ∀ v ∈ vs, 0 < v) :
    trajRes (vs.map Except.ok) = .ok vs.prod := by
  unfold trajRes
  have hmap : (vs.map (Except.ok (ε := Err))).map logRes = (vs.map Real.log).map Except.ok := by
    simp [List.map_map, Function.comp_def, logRes]
  have h0 : (0 : ℝ) = @OfNat.ofNat ℝ 0 Num.instOfNatOfNumOps := NumR.ofNat_real_zero.symm
  rw [hmap, ← h0, sumLeft_ok_real]
  simp only [zero_add, NumR.exp_real]
  rw [exp_sum_log vs hpos]

/-- the parameter declarations written in the nodes of the shared language -/
def declsX {α} (d : XDag α) : List (IdM.Decl String α) := declsOf ((d.filter (·.x == .base)).map (·.node))

/-- the draw variables written in the formula -/
def drawNames {α} (d : XDag α) : List String := (d.filter (·.x == .draws)).map (·.node.name)

/-- **the table built by `prepare` from the formula's own parameters and draw variables names every
parameter, variable and draw of the formula**, provided the variables are columns -/
theorem prepare_namesOKX {α} [NumOps α] (d : XDag α) (cols : List String) (t : IdM.Table String)
    (hp : IdM.prepare (declsX d) [] (drawNames d) cols = .ok t)
    (hv : ∀ n ∈ d, n.x = .base → n.node.kind = .var → n.node.name ∈ cols) : namesOKXB t d = true := by
  unfold IdM.prepare at hp
  simp only at hp
  split at hp
  · rename_i hnd
    cases hp
    rw [IdM.nodupB_iff] at hnd
    unfold namesOKXB
    rw [List.all_eq_true]
    intro n hn
    unfold nodeNamesOKX
    cases hx : n.x
    case base =>
      simp only
      unfold nodeNamesOK
      cases hk : n.node.kind
      case beta =>
        have hdecl : (⟨n.node.name, n.node.fixed, n.node.value, none, none⟩ : IdM.Decl String α) ∈ declsX d := by
          unfold declsX declsOf
          simp only [List.mem_map, List.mem_filter]
          exact ⟨n.node, ⟨⟨n, ⟨hn, by simp [hx]⟩, rfl⟩, by simp [hk]⟩, rfl⟩
        simp only
        cases hf : n.node.fixed with
        | false =>
          simp only [Bool.false_eq_true, ↓reduceIte]
          rw [IdM.indexOf_isSome_iff, IdM.mem_sortDedup]
          simp only [List.mem_map, List.mem_filter]
          exact ⟨_, ⟨hdecl, by simp [hf]⟩, rfl⟩
        | true =>
          simp only [↓reduceIte, Bool.and_eq_true]
          have hfix : n.node.name ∈ IdM.sortDedup (((declsX d).filter (·.fixed)).map (·.name)) := by
            rw [IdM.mem_sortDedup]
            simp only [List.mem_map, List.mem_filter]
            exact ⟨_, ⟨hdecl, by simp [hf]⟩, rfl⟩
          refine ⟨(IdM.indexOf_isSome_iff _ _).mpr hfix, ?_⟩
          cases hi : IdM.indexOf n.node.name
              (IdM.sortDedup (((declsX d).filter (!·.fixed)).map (·.name))) with
          | none => rfl
          | some i =>
            exfalso
            have hfree := (IdM.indexOf_isSome_iff n.node.name _).mp (by rw [hi]; rfl)
            simp only [IdM.Table.all] at hnd
            have h1 := (List.nodup_append.mp (List.nodup_append.mp (List.nodup_append.mp
              (List.nodup_append.mp hnd).1).1).1).2.2
            exact h1 _ hfree _ hfix rfl
      case var =>
        simp only
        rw [IdM.indexOf_isSome_iff]
        exact hv n hn hx hk
      all_goals rfl
    case draws =>
      simp only
      rw [IdM.indexOf_isSome_iff, IdM.mem_sortDedup]
      unfold drawNames
      simp only [List.mem_map, List.mem_filter]
      exact ⟨n, ⟨hn, by simp [hx]⟩, rfl⟩
    all_goals rfl
  · cases hp

end ExprMC
