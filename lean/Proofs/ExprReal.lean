/- Over ℝ the engine's node semantics is the mathematical one; the id table produced by
`prepare` gives every parameter and variable of the formula its ids. -/
import Model.Engine
import Proofs.Engine
import Proofs.IdManager
import Proofs.NumReal

namespace Expr

theorem bin_congr (rs : List (Res ℝ)) (f g : ℝ → ℝ → ℝ) (h : ∀ a b, f a b = g a b) :
    bin rs f = bin rs g := by
  have : f = g := by funext a b; exact h a b
  rw [this]

theorem un_congr (rs : List (Res ℝ)) (f g : ℝ → ℝ) (h : ∀ a, f a = g a) : un rs f = un rs g := by
  have : f = g := by funext a; exact h a
  rw [this]

theorem isZero_real (a : ℝ) : isZero a = true ↔ a = 0 := by
  simp [isZero]

/-- on the reals the special cases of the engine (`Divide` with zero numerator, `Times` with a zero
factor, `PowerConstant` with zero exponent) agree with the mathematical value.  NB: for a zero
*denominator* both sides use Lean's convention `x / 0 = 0`; the regular domain of property C01
excludes it, see `C01.engine_value`. -/
theorem semEngine_eq_semMath (n : Node ℝ) (env : Env ℝ) (rs : List (Res ℝ)) :
    semEngine n env rs = semMath n env rs := by
  obtain ⟨k, c, nm, v, ks, ms, f⟩ := n
  cases k
  case divide =>
    simp only [semEngine, semMath, semCommon]
    apply bin_congr
    intro a b
    by_cases h : a = 0
    · simp [h]
    · have : isZero a = false := by
        cases hz : isZero a with
        | false => rfl
        | true => exact absurd ((isZero_real a).mp hz) h
      simp [this]
  case times =>
    simp only [semEngine, semMath, semCommon]
    apply bin_congr
    intro a b
    by_cases h : a = 0
    · simp [h]
    · have ha : isZero a = false := by
        cases hz : isZero a with
        | false => rfl
        | true => exact absurd ((isZero_real a).mp hz) h
      by_cases h2 : b = 0
      · simp [h2]
      · have hb : isZero b = false := by
          cases hz : isZero b with
          | false => rfl
          | true => exact absurd ((isZero_real b).mp hz) h2
        simp [ha, hb]
  case powConst =>
    simp only [semEngine, semMath, semCommon]
    apply un_congr
    intro a
    by_cases h : v = 0
    · simp [h]
    · have : isZero v = false := by
        cases hz : isZero v with
        | false => rfl
        | true => exact absurd ((isZero_real v).mp hz) h
      simp [this]
  all_goals rfl

theorem semEngine_eq_semMath_fun : (semEngine : Sem ℝ) = semMath := by
  funext n env rs; exact semEngine_eq_semMath n env rs

end Expr

namespace Engine
open Expr

/-- parameter declarations written in a formula -/
def declsOf {α} (d : Dag α) : List (IdM.Decl String α) :=
  (d.filter (·.kind == .beta)).map fun n => { name := n.name, fixed := n.fixed, init := n.value }

theorem mem_all_of_mem_free (t : IdM.Table String) (n : String) (h : n ∈ t.free) : n ∈ t.all := by
  simp [IdM.Table.all, h]

/-- **the table built by `prepare` from the formula's own declarations names every parameter and
variable of the formula** (so the serialisation never fails), provided the variables are columns -/
theorem prepare_namesOK {α} [NumOps α] (d : Dag α) (cols : List String) (t : IdM.Table String)
    (hp : IdM.prepare (declsOf d) [] [] cols = .ok t)
    (hv : ∀ n ∈ d, n.kind = .var → n.name ∈ cols) : namesOKB t d = true := by
  unfold IdM.prepare at hp
  simp only at hp
  split at hp
  · rename_i hnd
    cases hp
    rw [IdM.nodupB_iff] at hnd
    unfold namesOKB
    rw [List.all_eq_true]
    intro n hn
    unfold nodeNamesOK
    cases hk : n.kind
    case beta =>
      have hdecl : (⟨n.name, n.fixed, n.value, none, none⟩ : IdM.Decl String α) ∈ declsOf d := by
        unfold declsOf
        simp only [List.mem_map, List.mem_filter]
        exact ⟨n, ⟨hn, by simp [hk]⟩, rfl⟩
      simp only
      cases hf : n.fixed with
      | false =>
        simp only [Bool.false_eq_true, ↓reduceIte]
        rw [IdM.indexOf_isSome_iff, IdM.mem_sortDedup]
        simp only [List.mem_map, List.mem_filter]
        exact ⟨_, ⟨hdecl, by simp [hf]⟩, rfl⟩
      | true =>
        simp only [↓reduceIte, Bool.and_eq_true]
        have hfix : n.name ∈ IdM.sortDedup (((declsOf d).filter (·.fixed)).map (·.name)) := by
          rw [IdM.mem_sortDedup]
          simp only [List.mem_map, List.mem_filter]
          exact ⟨_, ⟨hdecl, by simp [hf]⟩, rfl⟩
        refine ⟨(IdM.indexOf_isSome_iff _ _).mpr hfix, ?_⟩
        cases hi : IdM.indexOf n.name
            (IdM.sortDedup (((declsOf d).filter (!·.fixed)).map (·.name))) with
        | none => rfl
        | some i =>
          exfalso
          have hfree := (IdM.indexOf_isSome_iff n.name _).mp (by rw [hi]; rfl)
          -- the name would occur twice in the concatenation
          simp only [IdM.Table.all] at hnd
          have h1 := (List.nodup_append.mp (List.nodup_append.mp (List.nodup_append.mp
            (List.nodup_append.mp hnd).1).1).1).2.2
          exact h1 _ hfree _ hfix rfl
    case var =>
      simp only
      rw [IdM.indexOf_isSome_iff]
      exact hv n hn hk
    all_goals rfl
  · cases hp

/-- what Python hands to the engine: the free vector rebuilt from the dictionary, the fixed
vector, the row in column order -/
def pyInputs {α} [Inhabited α] (t : IdM.Table String) (decls : List (IdM.Decl String α))
    (dict : String → Option α) (row : String → α) : EngEnv α where
  free := IdM.freeValues t decls dict
  fixed := IdM.fixedValues t decls
  row := t.cols.map row

theorem pyInputs_sized {α} [Inhabited α] (t : IdM.Table String) (decls : List (IdM.Decl String α))
    (dict : String → Option α) (row : String → α) : Sized t (pyInputs t decls dict row) := by
  simp [Sized, pyInputs, IdM.freeValues, IdM.fixedValues]

end Engine

namespace Expr

/-- a semantics that reads the environment only at the name of a parameter / variable node -/
theorem semCommon_env_local {α} [NumOps α] (n : Node α) (env env' : Env α) (rs : List (Res α))
    (hb : n.kind = .beta → env.beta n.name = env'.beta n.name)
    (hv : n.kind = .var → env.var n.name = env'.var n.name) :
    semCommon n env rs = semCommon n env' rs := by
  obtain ⟨k, c, nm, v, ks, ms, f⟩ := n
  cases k
  case beta => simp only [semCommon]; rw [hb rfl]
  case var => simp only [semCommon]; rw [hv rfl]
  all_goals rfl

theorem evalN_env_congr {α} [NumOps α] (d : Dag α) (env env' : Env α)
    (h : ∀ (k : Nat) (n : Node α), d[k]? = some n →
      (n.kind = .beta → env.beta n.name = env'.beta n.name) ∧
      (n.kind = .var → env.var n.name = env'.var n.name)) :
    ∀ fuel k, evalN semMath d env fuel k = evalN semMath d env' fuel k := by
  intro fuel
  induction fuel with
  | zero => intro k; rfl
  | succ fuel ih =>
    intro k
    rw [evalN, evalN]
    cases hd : d[k]? with
    | none => rfl
    | some n =>
      simp only []
      have hc : n.children.map (evalN semMath d env fuel) = n.children.map (evalN semMath d env' fuel) := by
        apply List.map_congr_left
        intro c _
        exact ih c
      rw [hc]
      exact semCommon_env_local n env env' _ (h k n hd).1 (h k n hd).2

end Expr

namespace Engine
open Expr

/-- the valuation *by name* that the user states: a free parameter has the dictionary value if the
dictionary names it, else its starting value; a fixed parameter has its declared value; a data
variable has the value of its column in the row -/
noncomputable def namedEnv (decls : List (IdM.Decl String ℝ)) (dict : String → Option ℝ)
    (row : String → ℝ) : Env ℝ where
  beta := fun n =>
    match IdM.lookupLast decls false n with
    | some d => (dict n).getD d.init
    | none => ((IdM.lookupLast decls true n).map (·.init)).getD default
  var := row

theorem lookupLast_none_of_not_mem (decls : List (IdM.Decl String ℝ)) (fixed : Bool) (n : String)
    (h : n ∉ (decls.filter (fun d => d.fixed == fixed)).map (·.name)) :
    IdM.lookupLast decls fixed n = none := by
  unfold IdM.lookupLast
  rw [List.find?_eq_none]
  intro d hd
  simp only [List.mem_reverse] at hd
  intro hcon
  simp only [Bool.and_eq_true, decide_eq_true_eq] at hcon
  apply h
  simp only [List.mem_map, List.mem_filter]
  exact ⟨d, ⟨hd, hcon.2⟩, hcon.1⟩

theorem lookupLast_some_of_mem (decls : List (IdM.Decl String ℝ)) (fixed : Bool) (n : String)
    (h : ∃ d ∈ decls, d.name = n ∧ d.fixed = fixed) :
    ∃ d, IdM.lookupLast decls fixed n = some d := by
  unfold IdM.lookupLast
  obtain ⟨d, hd, hn, hf⟩ := h
  have : (decls.reverse.find? fun d => d.name = n && d.fixed == fixed).isSome := by
    rw [List.find?_isSome]
    exact ⟨d, by simpa using hd, by simp [hn, hf]⟩
  exact Option.isSome_iff_exists.mp this

end Engine
